(* The detected files stay in the class `covered` of OasisRead.v apart from guard c5 (a square under DETECT_TRAPEZOIDS alone
   is a CTRAPEZOID of type 25), and in the class of the relaxed guard of OasisReadRelaxed.v without exception; hence the
   reader model loads them to the library the strict decoder assigns, which is the saved library up to the vertex cycle of
   the detected polygons:
     writer_output_cov_decode_d_lemma (+ _refuted without the side condition), writer_output_cov5_decode_d_lemma,
     oas_models_roundtrip_d_all_lemma, reader_detected_vs_plain_lemma, reader_flag_independence_lemma,
     decoder_flag_independence_lemma.
   Counterpart of OasisRoundtrip.v for OasisWriteDetect.v; sections 2-3 are written over a record function that extends
   cov_record so that they serve both guards. *)
Require Import Base Generated OasisInt OasisIntProofs GdsReal OasisReal OasisRealProofs OasisPlist OasisPlistProofs.
Require Import Table TableProofs PropList OasisSpec OasisSpecProofs OasisRead OasisWrite OasisWriteProofs OasisRoundtrip.
Require Import OasisDetect OasisDetectProofs OasisWriteDetect OasisWriteDetectProofs OasisReadRelaxed.
Require OasisReadProofs.
From Coq Require Import Permutation ZifyBool.
From Flocq Require Import Core BinarySingleNaN Binary Bits.
Local Open Scope N_scope.

(* ================================================================== 1. the guarded decoder on the records of a detected polygon *)
Lemma cov_rectangle_w m p cs : wpoly_ok p -> wpoly_small p -> is_rectangle (py_pts p) = Some cs -> m_abs m = true ->
  exists body m1, fst (geom_rectangle p cs) = 20 :: body /\
    (forall rest, cov_rectangle m (body ++ rest) = Some (snd (geom_rectangle p cs), m1, rest)) /\ m_abs m1 = true.
Proof.
  intros (Hl & Hd & Hne & Hpts & Hlen & Hrep) (Sl & Sd & Slen & Srep) Hr Ha. destruct cs as [corner size].
  destruct (is_rectangle_bounds _ _ _ Hpts Hr) as (C1 & C2 & S1 & S2).
  destruct (u64z_sz _ S1) as [U1 W1]. destruct (u64z_sz _ S2) as [U2 W2].
  unfold geom_rectangle. cbn [fst snd]. rewrite U1, U2. change OasisRecord_RECTANGLE with 20.
  destruct (info_bits_rect (fst size =? snd size)%Z (has_rep (py_rep p))) as (B0 & B1 & B2 & B3 & B4 & B5 & B6 & B7).
  cbv zeta in B0, B1, B2, B3, B4, B5, B6, B7. rewrite rep_bit_if.
  destruct (fst size =? snd size)%Z eqn:Esq.
  - eexists. eexists. split; [reflexivity|]. split; [intros rest|].
    + unfold cov_rectangle. cbn [app rd_byte obnd]. rewrite B0, B1, B2, B3, B4, B5, B6, B7.
      rewrite <- !app_assoc. cbn [fld].
      rewrite rd_u32_enc by exact Sl. cbn [obnd fld]. rewrite rd_u32_enc by exact Sd. cbn [obnd fld].
      rewrite rd_uint_enc by exact W1. cbn [obnd negb andb fld app].
      rewrite Ha. rewrite pos_fld_abs by (apply zc_fits; exact C1). cbn [obnd].
      rewrite pos_fld_abs by (apply zc_fits; exact C2). cbn [obnd].
      rewrite cov_rep_field by assumption. cbn [obnd].
      unfold rect_element. cbn [fst snd]. apply Z.eqb_eq in Esq. rewrite <- Esq. reflexivity.
    + cbn. first [exact Ha|reflexivity].
  - eexists. eexists. split; [reflexivity|]. split; [intros rest|].
    + unfold cov_rectangle. cbn [app rd_byte obnd]. rewrite B0, B1, B2, B3, B4, B5, B6, B7.
      rewrite <- !app_assoc. cbn [fld].
      rewrite rd_u32_enc by exact Sl. cbn [obnd fld]. rewrite rd_u32_enc by exact Sd. cbn [obnd fld].
      rewrite rd_uint_enc by exact W1. cbn [obnd negb andb fld app].
      rewrite rd_uint_enc by exact W2. cbn [obnd].
      rewrite Ha. rewrite pos_fld_abs by (apply zc_fits; exact C1). cbn [obnd].
      rewrite pos_fld_abs by (apply zc_fits; exact C2). cbn [obnd].
      rewrite cov_rep_field by assumption. cbn [obnd].
      unfold rect_element. cbn [fst snd]. reflexivity.
    + cbn. first [exact Ha|reflexivity].
Qed.

Lemma cov_trap_body m (v : bool) l d sx sy da db cx cy r code :
  wf_u l -> wf_u d -> u32 l -> u32 d -> sz63 sx -> sz63 sy -> fits63 da -> fits63 db -> zc cx -> zc cy ->
  wrep_ok r -> wrep_small r -> m_abs m = true ->
  (code = 23 \/ (code = 24 /\ db = 0%Z) \/ (code = 25 /\ da = 0%Z)) ->
  exists m1,
    (forall rest,
       cov_trapezoid code m (((if v then 251 else 123) + rep_bit r 4) :: enc_uint l ++ enc_uint d ++
                             enc_uint (Z.to_N sx) ++ enc_uint (Z.to_N sy) ++
                             (if code =? 25 then [] else enc_int da) ++ (if code =? 24 then [] else enc_int db) ++
                             enc_int cx ++ enc_int cy ++ rep_field r ++ rest) =
       Some (E_trap v l d (Z.to_N sx) (Z.to_N sy) da db cx cy (view_rep r), m1, rest)) /\ m_abs m1 = true.
Proof.
  intros Hl Hd Sl Sd S1 S2 Fa Fb C1 C2 Hrep Srep Ha Hcode.
  destruct (u64z_sz _ S1) as [_ W1]. destruct (u64z_sz _ S2) as [_ W2].
  destruct (info_bits_trap v (has_rep r)) as (B0 & B1 & B2 & B3 & B4 & B5 & B6 & B7).
  cbv zeta in B0, B1, B2, B3, B4, B5, B6, B7. rewrite rep_bit_if.
  destruct Hcode as [->|[[-> ->]|[-> ->]]].
  - eexists. split; [intros rest|].
    + unfold cov_trapezoid. cbn [rd_byte obnd]. rewrite B0, B1, B2, B3, B4, B5, B6, B7. cbn [fld].
      rewrite rd_u32_enc by exact Sl. cbn [obnd fld]. rewrite rd_u32_enc by exact Sd. cbn [obnd fld].
      rewrite rd_uint_enc by exact W1. cbn [obnd fld]. rewrite rd_uint_enc by exact W2. cbn [obnd N.eqb Pos.eqb].
      rewrite rd_int_enc by exact Fa. cbn [obnd]. rewrite rd_int_enc by exact Fb. cbn [obnd].
      rewrite Ha. rewrite pos_fld_abs by (apply zc_fits; exact C1). cbn [obnd].
      rewrite pos_fld_abs by (apply zc_fits; exact C2). cbn [obnd].
      rewrite cov_rep_field by assumption. cbn [obnd]. reflexivity.
    + cbn. first [exact Ha|reflexivity].
  - eexists. split; [intros rest|].
    + unfold cov_trapezoid. cbn [rd_byte obnd]. rewrite B0, B1, B2, B3, B4, B5, B6, B7. cbn [fld].
      rewrite rd_u32_enc by exact Sl. cbn [obnd fld]. rewrite rd_u32_enc by exact Sd. cbn [obnd fld].
      rewrite rd_uint_enc by exact W1. cbn [obnd fld]. rewrite rd_uint_enc by exact W2. cbn [obnd N.eqb Pos.eqb app].
      rewrite rd_int_enc by exact Fa. cbn [obnd].
      rewrite Ha. rewrite pos_fld_abs by (apply zc_fits; exact C1). cbn [obnd].
      rewrite pos_fld_abs by (apply zc_fits; exact C2). cbn [obnd].
      rewrite cov_rep_field by assumption. cbn [obnd]. reflexivity.
    + cbn. first [exact Ha|reflexivity].
  - eexists. split; [intros rest|].
    + unfold cov_trapezoid. cbn [rd_byte obnd]. rewrite B0, B1, B2, B3, B4, B5, B6, B7. cbn [fld].
      rewrite rd_u32_enc by exact Sl. cbn [obnd fld]. rewrite rd_u32_enc by exact Sd. cbn [obnd fld].
      rewrite rd_uint_enc by exact W1. cbn [obnd fld]. rewrite rd_uint_enc by exact W2. cbn [obnd N.eqb Pos.eqb app].
      rewrite rd_int_enc by exact Fb. cbn [obnd].
      rewrite Ha. rewrite pos_fld_abs by (apply zc_fits; exact C1). cbn [obnd].
      rewrite pos_fld_abs by (apply zc_fits; exact C2). cbn [obnd].
      rewrite cov_rep_field by assumption. cbn [obnd]. reflexivity.
    + cbn. first [exact Ha|reflexivity].
Qed.

Lemma cov_trapezoid_w m p t : wpoly_ok p -> wpoly_small p -> is_trapezoid (py_pts p) = Some t -> (25 <? tr_ty t) = true ->
  m_abs m = true ->
  exists code body m1, fst (geom_trapezoid p t) = code :: body /\ (code = 23 \/ code = 24 \/ code = 25) /\
    (forall rest, cov_trapezoid code m (body ++ rest) = Some (snd (geom_trapezoid p t), m1, rest)) /\ m_abs m1 = true.
Proof.
  intros (Hl & Hd & Hne & Hpts & Hlen & Hrep) (Sl & Sd & Slen & Srep) Ht Hty Ha.
  pose proof (is_trapezoid_facts _ _ Hpts Ht) as F. destruct t as [[[[ty corner] size] da] db].
  cbn [tr_ty] in Hty. unfold trap_facts in F. destruct F as (C1 & C2 & S1 & S2 & Fa & Fb & Fty).
  apply N.ltb_lt in Hty.
  assert (Hv : (ty = 26 \/ ty = 27) /\ (da <> 0 \/ db <> 0)%Z) by (destruct Fty as [?|[?|[?|[?|[?|[?|?]]]]]]; try lia; assumption).
  destruct Hv as [Hv Hnz].
  destruct (u64z_sz _ S1) as [U1 _]. destruct (u64z_sz _ S2) as [U2 _].
  unfold geom_trapezoid. replace (25 <? ty) with true by (symmetry; apply N.ltb_lt; exact Hty).
  unfold trap_element. replace (25 <? ty) with true by (symmetry; apply N.ltb_lt; exact Hty).
  cbn [fst snd]. rewrite U1, U2.
  change OasisRecord_TRAPEZOID_B with 25. change OasisRecord_TRAPEZOID_A with 24. change OasisRecord_TRAPEZOID_AB with 23.
  assert (Einfo : (if ty =? 26 then 123 else 251) = (if (ty =? 27) then 251 else 123)) by (destruct Hv as [->| ->]; reflexivity).
  rewrite Einfo.
  destruct (da =? 0)%Z eqn:Ea; [|destruct (db =? 0)%Z eqn:Eb].
  - apply Z.eqb_eq in Ea.
    destruct (cov_trap_body m (ty =? 27) (py_layer p) (py_type p) (fst size) (snd size) da db (fst corner) (snd corner)
                (py_rep p) 25 Hl Hd Sl Sd S1 S2 Fa Fb C1 C2 Hrep Srep Ha (or_intror (or_intror (conj eq_refl Ea)))) as (m1 & D & A1).
    eexists. eexists. exists m1. split; [reflexivity|]. split; [auto|]. split; [|exact A1].
    intros rest. rewrite <- (D rest). f_equal. cbn [N.eqb Pos.eqb app]. rewrite <- ?app_assoc. reflexivity.
  - apply Z.eqb_eq in Eb.
    destruct (cov_trap_body m (ty =? 27) (py_layer p) (py_type p) (fst size) (snd size) da db (fst corner) (snd corner)
                (py_rep p) 24 Hl Hd Sl Sd S1 S2 Fa Fb C1 C2 Hrep Srep Ha (or_intror (or_introl (conj eq_refl Eb)))) as (m1 & D & A1).
    eexists. eexists. exists m1. split; [reflexivity|]. split; [auto|]. split; [|exact A1].
    intros rest. rewrite <- (D rest). f_equal. cbn [N.eqb Pos.eqb app]. rewrite <- ?app_assoc. rewrite ?app_nil_r. reflexivity.
  - destruct (cov_trap_body m (ty =? 27) (py_layer p) (py_type p) (fst size) (snd size) da db (fst corner) (snd corner)
                (py_rep p) 23 Hl Hd Sl Sd S1 S2 Fa Fb C1 C2 Hrep Srep Ha (or_introl eq_refl)) as (m1 & D & A1).
    eexists. eexists. exists m1. split; [reflexivity|]. split; [auto|]. split; [|exact A1].
    intros rest. rewrite <- (D rest). f_equal. cbn [N.eqb Pos.eqb app]. rewrite <- ?app_assoc. reflexivity.
Qed.

(* CTRAPEZOID under the guarded decoder; [any25] = false is guard (c5) of OasisRead.v (no type 25), true lifts it *)
Lemma cov_ctrapezoid_gen_w any25 m p t : wpoly_ok p -> wpoly_small p -> is_trapezoid (py_pts p) = Some t ->
  (25 <? tr_ty t) = false -> m_abs m = true ->
  exists body m1, fst (geom_trapezoid p t) = 26 :: body /\
    (forall rest, cov_ctrapezoid_gen any25 m (body ++ rest) =
                  if negb any25 && (tr_ty t =? 25) then None else Some (snd (geom_trapezoid p t), m1, rest)) /\
    m_abs m1 = true.
Proof.
  intros (Hl & Hd & Hne & Hpts & Hlen & Hrep) (Sl & Sd & Slen & Srep) Ht Hty Ha.
  pose proof (is_trapezoid_facts _ _ Hpts Ht) as F. destruct t as [[[[ty corner] size] da] db].
  cbn [tr_ty] in *. unfold trap_facts in F. destruct F as (C1 & C2 & S1 & S2 & Fa & Fb & Fty).
  destruct (ctrap_dims ty (fst size) (snd size) da db S1 S2 Hty Fty) as (H26 & Ew & Eh).
  destruct (u64z_sz _ S1) as [U1 W1]. destruct (u64z_sz _ S2) as [U2 W2].
  unfold geom_trapezoid. rewrite Hty. unfold trap_element. rewrite Hty.
  cbn [fst snd]. rewrite U1, U2. change OasisRecord_CTRAPEZOID with 26.
  destruct (info_bits_ctrap (ct_use_h ty) (ct_use_w ty) (has_rep (py_rep p))) as (B0 & B1 & B2 & B3 & B4 & B5 & B6 & B7).
  cbv zeta in B0, B1, B2, B3, B4, B5, B6, B7. rewrite rep_bit_if.
  eexists. eexists. split; [reflexivity|]. split; [intros rest|].
  - unfold cov_ctrapezoid_gen. cbn [app rd_byte obnd]. rewrite B0, B1, B2, B3, B4, B5, B6, B7.
    rewrite <- !app_assoc. cbn [fld].
    rewrite rd_u32_enc by exact Sl. cbn [obnd fld]. rewrite rd_u32_enc by exact Sd. cbn [obnd fld app rd_byte].
    replace (26 <=? ty) with false by (symmetry; apply N.leb_gt; exact H26). cbn [orb].
    destruct (negb any25 && (ty =? 25)) eqn:G; [reflexivity|].
    rewrite <- ct_use_w_spec. change (ctrap_uses_h ty) with (ct_use_h ty).
    assert (Dw : forall mv bs, dim_fld (ct_use_w ty) (ct_use_w ty) mv
                                 ((if ct_use_w ty then enc_uint (Z.to_N (fst size)) else []) ++ bs) =
                               Some (if ct_use_w ty then Z.to_N (fst size) else 0, bs)).
    { intros mv bs. unfold dim_fld. destruct (ct_use_w ty); [apply rd_uint_enc; exact W1|reflexivity]. }
    assert (Dh : forall mv bs, dim_fld (ct_use_h ty) (ct_use_h ty) mv
                                 ((if ct_use_h ty then enc_uint (Z.to_N (snd size)) else []) ++ bs) =
                               Some (if ct_use_h ty then Z.to_N (snd size) else 0, bs)).
    { intros mv bs. unfold dim_fld. destruct (ct_use_h ty); [apply rd_uint_enc; exact W2|reflexivity]. }
    rewrite <- ?app_assoc. rewrite Dw. cbn [obnd]. rewrite Dh. cbn [obnd]. rewrite Ew, Eh.
    rewrite Ha. rewrite pos_fld_abs by (apply zc_fits; exact C1). cbn [obnd].
    rewrite pos_fld_abs by (apply zc_fits; exact C2). cbn [obnd].
    rewrite cov_rep_field by assumption. cbn [obnd]. reflexivity.
  - cbn. first [exact Ha|reflexivity].
Qed.

Lemma cov_ctrapezoid_w m p t : wpoly_ok p -> wpoly_small p -> is_trapezoid (py_pts p) = Some t -> (25 <? tr_ty t) = false ->
  tr_ty t <> 25 -> m_abs m = true ->
  exists body m1, fst (geom_trapezoid p t) = 26 :: body /\
    (forall rest, cov_ctrapezoid m (body ++ rest) = Some (snd (geom_trapezoid p t), m1, rest)) /\ m_abs m1 = true.
Proof.
  intros Hok Hs Ht Hty H25 Ha. destruct (cov_ctrapezoid_gen_w false m p t Hok Hs Ht Hty Ha) as (body & m1 & E & D & A1).
  exists body, m1. split; [exact E|]. split; [|exact A1]. intros rest. unfold cov_ctrapezoid. rewrite (D rest).
  replace (tr_ty t =? 25) with false by (symmetry; apply N.eqb_neq; exact H25). reflexivity.
Qed.

(* ---- the record switch of the guarded decoder *)
Lemma cov_record_rectangle ois m k c cs body e m1 rest : k_cells k = c :: cs ->
  cov_rectangle m (body ++ rest) = Some (e, m1, rest) ->
  cov_record ois (DS m k) ((20 :: body) ++ rest) = Some (Cont (DS m1 (k_set_cells k (push_elem c e :: cs) T_elem)) rest).
Proof. intros Hc Hd. celem_rec_tac Hd Hc. Qed.
Lemma cov_record_trapezoid ois code m k c cs body e m1 rest : k_cells k = c :: cs ->
  code = 23 \/ code = 24 \/ code = 25 ->
  cov_trapezoid code m (body ++ rest) = Some (e, m1, rest) ->
  cov_record ois (DS m k) ((code :: body) ++ rest) = Some (Cont (DS m1 (k_set_cells k (push_elem c e :: cs) T_elem)) rest).
Proof. intros Hc [->|[->| ->]] Hd; celem_rec_tac Hd Hc. Qed.
Lemma cov_record_ctrapezoid ois m k c cs body e m1 rest : k_cells k = c :: cs ->
  cov_ctrapezoid m (body ++ rest) = Some (e, m1, rest) ->
  cov_record ois (DS m k) ((26 :: body) ++ rest) = Some (Cont (DS m1 (k_set_cells k (push_elem c e :: cs) T_elem)) rest).
Proof. intros Hc Hd. celem_rec_tac Hd Hc. Qed.

(* does Polygon::to_oas write this polygon as a CTRAPEZOID of type 25 under the flag word? *)
Definition writes_ctrap25 (dr dt : bool) (p : wpoly) : bool :=
  match (if dr then is_rectangle (py_pts p) else None) with
  | Some _ => false
  | None => match (if dt then is_trapezoid (py_pts p) else None) with
            | Some t => tr_ty t =? 25
            | None => false
            end
  end.
Definition poly_cov_ok (dr dt : bool) (p : wpoly) : Prop := wpoly_oks p /\ writes_ctrap25 dr dt p = false.

Lemma geom_polygon_cstep : geom_step cov_record wpoly_oks geom_polygon.
Proof.
  intros ois p Hok m k c cs Ha Hc. destruct (cov_polygon_w m p (proj1 Hok) (proj2 Hok) Ha) as (m1 & D & A1).
  exists m1. split; [|exact A1]. intros rest. unfold geom_polygon. cbn [fst snd]. change OasisRecord_POLYGON with 21.
  apply (cov_record_polygon ois m k c cs _ _ _ rest Hc (D rest)).
Qed.

Lemma geom_d_cstep dr dt : geom_step cov_record (poly_cov_ok dr dt) (geom_d dr dt).
Proof.
  intros ois p [[Hok Hs] H25] m k c cs Ha Hc. unfold geom_d. unfold writes_ctrap25 in H25.
  destruct (if dr then is_rectangle (py_pts p) else None) as [cs0|] eqn:Er.
  - assert (Hr : is_rectangle (py_pts p) = Some cs0) by (destruct dr; [exact Er|discriminate]).
    destruct (cov_rectangle_w m p cs0 Hok Hs Hr Ha) as (body & m1 & E & D & A1).
    exists m1. split; [|exact A1]. intros rest. rewrite E.
    apply (cov_record_rectangle ois m k c cs _ _ _ rest Hc (D rest)).
  - destruct (if dt then is_trapezoid (py_pts p) else None) as [t|] eqn:Et.
    + assert (Ht : is_trapezoid (py_pts p) = Some t) by (destruct dt; [exact Et|discriminate]).
      destruct (25 <? tr_ty t) eqn:Ety.
      * destruct (cov_trapezoid_w m p t Hok Hs Ht Ety Ha) as (code & body & m1 & E & Hcode & D & A1).
        exists m1. split; [|exact A1]. intros rest. rewrite E.
        apply (cov_record_trapezoid ois code m k c cs _ _ _ rest Hc Hcode (D rest)).
      * apply N.eqb_neq in H25.
        destruct (cov_ctrapezoid_w m p t Hok Hs Ht Ety H25 Ha) as (body & m1 & E & D & A1).
        exists m1. split; [|exact A1]. intros rest. rewrite E.
        apply (cov_record_ctrapezoid ois m k c cs _ _ _ rest Hc (D rest)).
    + apply geom_polygon_cstep; [split; assumption|exact Ha|exact Hc].
Qed.

(* with rectangle detection on, a square is a RECTANGLE record: no CTRAPEZOID 25 is ever written *)
Lemma compact_type_25 v sx sy da db : compact_type v sx sy da db = Some 25 -> da = 0%Z /\ db = 0%Z.
Proof.
  unfold compact_type.
  repeat match goal with
         | |- context [if ?c then _ else _] => let E := fresh "E" in destruct c eqn:E
         end; intros H; try discriminate; try (destruct v; discriminate); lia.
Qed.

Lemma trapezoid25_is_rectangle pts t : is_trapezoid pts = Some t -> tr_ty t = 25 -> is_rectangle pts <> None.
Proof.
  unfold is_trapezoid. destruct pts as [|a [|b [|c [|d [|e pts]]]]]; try discriminate.
  - (* three points: types 16..23 only *)
    unfold is_trapezoid3. destruct (sort3 a b c) as [[p q] r].
    repeat match goal with
           | |- context [if ?c then _ else _] => let E := fresh "E" in destruct c eqn:E
           end; intros H; try discriminate; inversion H; subst; cbn [tr_ty]; discriminate.
  - unfold is_trapezoid4. destruct (assign4 a b c d) as [[[[[v p] q] r] s]|] eqn:A; [|discriminate].
    destruct (measure4 v p q r s) as [[[corner size] da] db] eqn:M.
    destruct (compact_type v (fst size) (snd size) da db) as [ct|] eqn:C.
    + intros H; inversion H; subst; clear H. cbn [tr_ty]. intros ->.
      destruct (compact_type_25 _ _ _ _ _ C) as [Da Db]. clear C.
      destruct a as [a1 a2], b as [b1 b2], c as [c1 c2], d as [d1 d2].
      unfold assign4, px, py in A. cbn [fst snd] in A. unfold is_rectangle, px, py. cbn [fst snd].
      revert A.
      repeat match goal with
             | |- context [if ?c then _ else _] => let E := fresh "E" in destruct c eqn:E
             end; intros A; try discriminate; exfalso;
        inversion A; subst; clear A; unfold measure4, px, py in M; cbn [fst snd] in M; inversion M; subst; clear M; lia.
    + intros H; inversion H; subst; clear H. cbn [tr_ty]. destruct v; discriminate.
Qed.

Lemma writes_ctrap25_rect dt p : writes_ctrap25 true dt p = false.
Proof.
  unfold writes_ctrap25. destruct (is_rectangle (py_pts p)) as [cs0|] eqn:Er; [reflexivity|].
  destruct (if dt then is_trapezoid (py_pts p) else None) as [t|] eqn:Et; [|reflexivity].
  assert (Ht : is_trapezoid (py_pts p) = Some t) by (destruct dt; [exact Et|discriminate]).
  apply N.eqb_neq. intros H25. exact (trapezoid25_is_rectangle _ _ Ht H25 Er).
Qed.
Lemma writes_ctrap25_notrap dr p : writes_ctrap25 dr false p = false.
Proof. unfold writes_ctrap25. destruct (if dr then is_rectangle (py_pts p) else None); reflexivity. Qed.

(* ================================================================== 2. runs of records under a record function that extends
   cov_record (cov_record itself, or OasisReadRelaxed.cov_record5) *)
Section XSteps.
  Variable recf : bool -> dstate -> list N -> option step_result.
  Hypothesis recf_ext : forall ois d bs r, cov_record ois d bs = Some r -> recf ois d bs = Some r.

  Inductive xsteps (ois : bool) : modal -> core -> list (list N) -> modal -> core -> Prop :=
  | xsteps_nil m k : xsteps ois m k [] m k
  | xsteps_cons m k r m1 k1 rs m2 k2 :
      r <> [] ->
      (forall rest, recf ois (DS m k) (r ++ rest) = Some (Cont (DS m1 k1) rest)) ->
      xsteps ois m1 k1 rs m2 k2 ->
      xsteps ois m k (r :: rs) m2 k2.

  Lemma xsteps_app ois m k r1 m1 k1 r2 m2 k2 :
    xsteps ois m k r1 m1 k1 -> xsteps ois m1 k1 r2 m2 k2 -> xsteps ois m k (r1 ++ r2) m2 k2.
  Proof. induction 1; intros H2; [exact H2|]. cbn [app]. econstructor; eauto. Qed.
  Lemma xloop_step f ois d bs d' bs' :
    recf ois d bs = Some (Cont d' bs') -> xloop recf (S f) ois d bs = xloop recf f ois d' bs'.
  Proof. intros H. cbn [xloop]. rewrite H. reflexivity. Qed.
  Lemma xsteps_loop ois m k rs m' k' : xsteps ois m k rs m' k' -> forall f rest,
    xloop recf (length rs + f) ois (DS m k) (concat rs ++ rest) = xloop recf f ois (DS m' k') rest.
  Proof.
    induction 1 as [|m k r m1 k1 rs m2 k2 Hne Hr Hs IH]; intros f rest; [reflexivity|].
    cbn [length concat Nat.add]. rewrite <- app_assoc. rewrite (xloop_step _ ois _ _ _ _ (Hr _)). apply IH.
  Qed.
  Lemma xsteps_nonempty ois m k rs m' k' : xsteps ois m k rs m' k' -> Forall (fun r => r <> []) rs.
  Proof. induction 1; constructor; assumption. Qed.
  Lemma xloop_mono n : forall ois d bs L n', xloop recf n ois d bs = Some L -> (n <= n')%nat -> xloop recf n' ois d bs = Some L.
  Proof.
    induction n as [|n IH]; intros ois d bs L n' H Hle; [discriminate|].
    destruct n' as [|n']; [lia|]. cbn [xloop] in *.
    destruct (recf ois d bs) as [[l|d' bs']|]; try assumption.
    apply (IH _ _ _ _ n' H). lia.
  Qed.
  (* everything proved about the records under cov_record carries over *)
  Lemma csteps_x ois m k rs m' k' : csteps ois m k rs m' k' -> xsteps ois m k rs m' k'.
  Proof. induction 1; econstructor; eauto. Qed.

  Definition xelem_steps ois (recs : list (list N)) (eps : list (element * list prop)) : Prop :=
    forall m k c cs, m_abs m = true -> k_cells k = c :: cs ->
    exists m', xsteps ois m k recs m' (after_elems k c cs eps) /\ m_abs m' = true.
  Lemma celem_x ois recs eps : celem_steps ois recs eps -> xelem_steps ois recs eps.
  Proof. intros H m k c cs Ha Hc. destruct (H m k c cs Ha Hc) as (m' & S & A). exists m'. split; [apply csteps_x; exact S|exact A]. Qed.
  Lemma xelem_steps_nil ois : xelem_steps ois [] [].
  Proof. intros m k c cs Ha Hc. exists m. split; [constructor|exact Ha]. Qed.
  Lemma xelem_steps_app ois r1 e1 r2 e2 : xelem_steps ois r1 e1 -> xelem_steps ois r2 e2 -> xelem_steps ois (r1 ++ r2) (e1 ++ e2).
  Proof.
    intros H1 H2 m k c cs Ha Hc.
    destruct (H1 m k c cs Ha Hc) as (m1 & S1 & A1).
    destruct (H2 m1 (after_elems k c cs e1) (push_eps c e1) cs A1 (after_elems_cells k c cs e1 Hc)) as (m2 & S2 & A2).
    exists m2. split; [|exact A2]. eapply xsteps_app; [exact S1|].
    replace (after_elems k c cs (e1 ++ e2)) with (after_elems (after_elems k c cs e1) (push_eps c e1) cs e2); [exact S2|].
    destruct e1 as [|a1 t1]; [reflexivity|]. destruct e2 as [|a2 t2].
    - rewrite app_nil_r. reflexivity.
    - unfold after_elems. cbn [app]. rewrite <- push_eps_app. destruct k; reflexivity.
  Qed.
  Lemma xelem_steps_one ois rec e pd :
    rec <> [] -> Forall wf_nprop pd ->
    (forall m k c cs, m_abs m = true -> k_cells k = c :: cs ->
       exists m1, (forall rest, recf ois (DS m k) (rec ++ rest) =
                                Some (Cont (DS m1 (k_set_cells k (push_elem c e :: cs) T_elem)) rest)) /\ m_abs m1 = true) ->
    xelem_steps ois (rec :: map enc_prop_g pd) [(e, pd)].
  Proof.
    intros Hne Hpd H m k c cs Ha Hc. destruct (H m k c cs Ha Hc) as (m1 & Hrec & A1).
    destruct (csteps_props_elem ois pd m1 (k_set_cells k (push_elem c e :: cs) T_elem) (push_elem c e) cs Hpd eq_refl eq_refl
                ltac:(discriminate) A1) as (m' & Hs & Ha').
    exists m'. split; [|exact Ha'].
    econstructor; [exact Hne|exact Hrec|]. apply csteps_x.
    unfold add_eprops, push_elem in Hs. cbn [c_elems c_name c_props] in Hs. rewrite app_nil_r in Hs.
    unfold after_elems, push_eps. cbn [fold_left]. unfold push_ep. cbn [fst snd]. destruct k; exact Hs.
  Qed.
End XSteps.

(* ================================================================== 3. the writer around any geometry routine, under such a record
   function (OasisRoundtrip.v with the polygon loop and the record function generalised) *)
Definition wlib_small_g (gf : wpoly -> geom) (l : wlib) : Prop :=
  Forall wcell_small (li_cells l) /\
  forall cfg, nm_count (run_ts (write_oas_run_g gf cfg l)) <= lim26 /\
              nm_count (ps_names (run_ps (write_oas_run_g gf cfg l))) <= lim26.

Section GenericCov.
  Variable gf : wpoly -> geom.
  Variable ok : wpoly -> Prop.
  Variable recf : bool -> dstate -> list N -> option step_result.
  Hypothesis recf_ext : forall ois d bs r, cov_record ois d bs = Some r -> recf ois d bs = Some r.
  Hypothesis gf_geom : forall p, is_geom (snd (gf p)).
  Hypothesis gf_ne : forall p, fst (gf p) <> [].
  Hypothesis gf_cstep : geom_step recf ok gf.

  Lemma csteps_polygon_g ois st p recs ep st' : polygon_to_oas_g gf st p = (recs, ep, st') ->
    ok p -> wf_gep ep -> xelem_steps recf ois recs [ep].
  Proof.
    unfold polygon_to_oas_g. pose proof (properties_to_oas_enc (py_props p) st) as Hpr.
    destruct (properties_to_oas st (py_props p)) as [[pr pd] st1]. cbn [fst snd] in Hpr. subst pr.
    intros [= <- <- <-] Hok [_ Hpd]. cbn [snd] in Hpd.
    apply (xelem_steps_one recf recf_ext); [apply gf_ne|exact Hpd|].
    intros m k c cs Ha Hc. exact (gf_cstep ois p Hok m k c cs Ha Hc).
  Qed.

  Lemma csteps_polygons_g ois : forall l st recs eps st', polygons_to_oas_g gf st l = (recs, eps, st') ->
    Forall ok l -> Forall wf_gep eps -> xelem_steps recf ois recs eps.
  Proof.
    induction l as [|p t IH]; intros st recs eps st' E Hok Hg.
    - injection E as <- <- <-. apply xelem_steps_nil.
    - cbn [polygons_to_oas_g] in E.
      destruct (polygon_to_oas_g gf st p) as [[r1 d1] st1] eqn:E1. destruct (polygons_to_oas_g gf st1 t) as [[r2 d2] st2] eqn:E2.
      injection E as <- <- <-. inversion Hok as [|? ? Hp Ht]; subst. inversion Hg as [|? ? Hg1 Hg2]; subst.
      change (d1 :: d2) with ([d1] ++ d2). apply xelem_steps_app.
      + exact (csteps_polygon_g ois st p r1 d1 st1 E1 Hp Hg1).
      + exact (IH st1 r2 d2 st2 E2 Ht Hg2).
  Qed.

  Definition wcell_oks_g (c : wcell) : Prop :=
    Forall ok (cl_polys c) /\ Forall wpath_oks (cl_paths c) /\ Forall wref_oks (cl_refs c) /\ Forall wlabel_oks (cl_labels c).

  Lemma csteps_cell_g ois cells ts st c recs gc ts' st' : cell_to_oas_g gf cells ts st c = (recs, gc, ts', st') ->
    wcell_oks_g c -> wf_gcell gc -> forall m k, m_abs m = true -> fresh_num gc (k_cells k) ->
    exists m' tg', xsteps recf ois m k recs m' (k_set_cells k (rcell_g gc :: k_cells k) tg') /\ m_abs m' = true.
  Proof.
    unfold cell_to_oas_g. intros E (Hp & Hh & Hr & Hl) ((i & Hn & Hi) & _ & Hg) m k Ha Hfresh.
    destruct (polygons_to_oas_g gf st (cl_polys c)) as [[r1 d1] st1] eqn:E1.
    destruct (flexpaths_to_oas st1 (cl_paths c)) as [[r2 d2] st2] eqn:E2.
    destruct (references_to_oas cells st2 (cl_refs c)) as [[r3 d3] st3] eqn:E3.
    destruct (labels_to_oas ts st3 (cl_labels c)) as [[[r4 d4] ts4] st4] eqn:E4.
    injection E as <- <- <- <-. cbn [c_name c_elems] in *. specialize (Hfresh i Hn). injection Hn as Hn.
    apply Forall_app in Hg. destruct Hg as [G1 Hg]. apply Forall_app in Hg. destruct Hg as [G2 Hg].
    apply Forall_app in Hg. destruct Hg as [G3 G4].
    pose proof (xelem_steps_app recf ois _ _ _ _ (csteps_polygons_g ois _ _ _ _ _ E1 Hp G1)
                 (xelem_steps_app recf ois _ _ _ _ (celem_x recf recf_ext ois _ _ (csteps_flexpaths ois _ _ _ _ _ E2 Hh G2))
                    (xelem_steps_app recf ois _ _ _ _ (celem_x recf recf_ext ois _ _ (csteps_references ois cells _ _ _ _ _ E3 Hr G3))
                       (celem_x recf recf_ext ois _ _ (csteps_labels ois _ _ _ _ _ _ _ E4 Hl G4))))) as Hall.
    set (c0 := mkCell (NNum i) [] []).
    destruct (Hall modal0 (k_set_cells k (c0 :: k_cells k) T_cell) c0 (k_cells k) eq_refl eq_refl) as (m' & S & A').
    exists m'. exists (match d1 ++ d2 ++ d3 ++ d4 with [] => T_cell | _ => T_elem end). split; [|exact A'].
    apply (xsteps_cons recf ois m k _ modal0 (k_set_cells k (c0 :: k_cells k) T_cell)); [discriminate| |].
    - intros rest. apply recf_ext. unfold cov_record. change OasisRecord_CELL_REF_NUM with 13. cbn [app rd_byte obnd].
      rewrite Hn. rewrite rd_uint_enc by exact Hi. cbn [obnd]. unfold modal_at_cell. cbn [DS d_cells].
      rewrite Hfresh. destruct k; reflexivity.
    - unfold after_elems in S. unfold rcell_g. cbn [c_name c_props c_elems].
      destruct (d1 ++ d2 ++ d3 ++ d4) as [|e0 et] eqn:Ed.
      + cbn [map rev]. subst c0. rewrite Hn in *. exact S.
      + rewrite push_eps_shape in S. subst c0. cbn [c_name c_props c_elems] in S. rewrite app_nil_r in S.
        rewrite Hn in *. destruct k; exact S.
  Qed.

  Lemma csteps_cells_g ois cells : forall l pos ts st recs gcs offs ts' st',
    cells_to_oas_g gf cells pos ts st l = (recs, gcs, offs, ts', st') ->
    Forall wcell_oks_g l -> Forall wf_gcell gcs -> NoDup (map c_name gcs) ->
    forall m k, m_abs m = true -> (forall gc, In gc gcs -> fresh_num gc (k_cells k)) ->
    exists m' tg', xsteps recf ois m k recs m' (k_set_cells k (rev (map rcell_g gcs) ++ k_cells k) tg') /\ m_abs m' = true.
  Proof.
    induction l as [|c t IH]; intros pos ts st recs gcs offs ts' st' E Hok Hg Hnd m k Ha Hfr.
    - injection E as <- <- <- <- <-. exists m, (k_target k). split; [|exact Ha]. destruct k; constructor.
    - cbn [cells_to_oas_g] in E.
      destruct (cell_to_oas_g gf cells ts st c) as [[[r1 d1] ts1] st1] eqn:E1.
      destruct (cells_to_oas_g gf cells (pos + reclen r1) ts1 st1 t) as [[[[r2 d2] o2] ts2] st2] eqn:E2.
      injection E as <- <- <- <- <-. inversion Hok as [|? ? Hc Ht]; subst. inversion Hg as [|? ? Hg1 Hg2]; subst.
      cbn [map] in Hnd. inversion Hnd as [|? ? Hnin Hnd2]; subst.
      destruct (csteps_cell_g ois cells ts st c r1 d1 ts1 st1 E1 Hc Hg1 m k Ha (Hfr d1 (or_introl eq_refl))) as (m1 & tg1 & S1 & A1).
      destruct (IH _ _ _ _ _ _ _ _ E2 Ht Hg2 Hnd2 m1 (k_set_cells k (rcell_g d1 :: k_cells k) tg1) A1) as (m2 & tg2 & S2 & A2).
      + intros gc Hin i Hi. cbn [k_set_cells k_cells existsb]. rewrite (Hfr gc (or_intror Hin) i Hi), orb_false_r.
        unfold cell_has_num, rcell_g. cbn [c_name]. destruct (c_name d1) as [s|j] eqn:Ej; [reflexivity|].
        apply N.eqb_neq. intros ->. apply Hnin. rewrite <- Hi. apply in_map. exact Hin.
      + exists m2, tg2. split; [|exact A2]. eapply xsteps_app; [exact S1|].
        cbn [map rev]. rewrite <- app_assoc. cbn [app]. destruct k; exact S2.
  Qed.

  Theorem writer_output_cov_decode_g : forall cfg l, wlib_ok_g gf l -> wlib_small_g gf l ->
    Forall wcell_oks_g (li_cells l) ->
    xdecode recf (write_oas_model_g gf cfg l) = Some (view_w_g gf cfg l).
  Proof.
    intros cfg l (Hlp & Hnd & Hcells & Hsize) (Hsmall & Hcnt) Hoks. specialize (Hsize cfg). specialize (Hcnt cfg).
    unfold view_w_g, cell_offsets_g. unfold write_oas_model_g in *. unfold write_oas_run_g in *.
    set (names := map cl_name (li_cells l)) in *.
    set (start := start_header ++ enc_real (li_unit l) ++ [1]) in *.
    (* the three stateful passes *)
    destruct (properties_to_oas_res (li_props l) pstate0 [] NR_names0) as (K1 & X1 & R1).
    pose proof (properties_to_oas_enc (li_props l) pstate0) as Enc1.
    destruct (properties_to_oas pstate0 (li_props l)) as [[r_lp d_lp] st1] eqn:E1. cbn [fst snd] in X1, R1, Enc1.
    set (pos1 := N.of_nat (length start) + reclen r_lp) in *.
    destruct (cells_to_oas_g_res gf gf_geom names (li_cells l) [] pos1 names0 [] st1 K1 eq_refl Hnd NR_names0 (proj1 X1))
      as (T2 & K2 & HT2 & _ & X2 & R2).
    pose proof (cells_offsets_bound_g gf names (li_cells l) pos1 names0 st1) as Hoffs.
    destruct (cells_to_oas_g gf names pos1 names0 st1 (li_cells l)) as [[[[r_c d_c] offs] ts] st2] eqn:E2.
    cbn [fst snd] in HT2, X2, R2, Hoffs.
    destruct (cellnames_to_oas_res cfg names offs (li_cells l) st2 K2 (proj1 X2)) as (K3 & X3 & R3).
    pose proof (cellnames_records_bound cfg names offs (li_cells l) st2) as Hcnb.
    destruct (cellnames_to_oas cfg names offs st2 (li_cells l)) as [[r_cn d_cn] st3] eqn:E3.
    cbn [fst snd] in X3, R3, Hcnb.
    cbn [run_failed run_start run_records run_end run_offsets run_ts run_ps] in *.
    (* no hash-map failure *)
    destruct X3 as (NR3 & PK3 & PV3). destruct X2 as (NR2 & PK2 & PV2). destruct X1 as (NR1 & PK1 & PV1).
    assert (Hnf : nm_fail ts || nm_fail (ps_names st3) = false).
    { destruct HT2 as (F1 & _). destruct NR3 as (F2 & _). rewrite F1, F2. reflexivity. }
    rewrite Hnf in *.
    set (r_ts := numbered_name_records OasisRecord_TEXTSTRING (nm_items ts)) in *.
    set (r_pn := numbered_name_records OasisRecord_PROPNAME (nm_items (ps_names st3))) in *.
    set (r_ps := propstring_records (ps_vals st3)) in *.
    set (VF := ps_vals st3) in *.
    (* sizes *)
    assert (Hfile : N.of_nat (length start) + reclen r_lp + reclen r_c + reclen r_cn + reclen r_ts + reclen r_pn + reclen r_ps < two64).
    { rewrite !app_length in Hsize. rewrite !concat_app, !app_length in Hsize. unfold reclen. lia. }
    destruct (names_records_bounds OasisRecord_TEXTSTRING (nm_items ts)) as [Bts1 Bts2]. fold r_ts in Bts1, Bts2.
    destruct (names_records_bounds OasisRecord_PROPNAME (nm_items (ps_names st3))) as [Bpn1 Bpn2]. fold r_pn in Bpn1, Bpn2.
    destruct (propstring_records_bounds VF) as [Bps1 Bps2]. fold r_ps in Bps1, Bps2.
    assert (LK : len_ok K3) by (unfold len_ok; rewrite <- (NR_items_len _ _ NR3); lia).
    assert (LT : len_ok T2) by (unfold len_ok; rewrite <- (NR_items_len _ _ HT2); lia).
    assert (LV : len_ok VF) by (unfold len_ok; lia).
    assert (LC : len_ok names) by (unfold len_ok, names; rewrite map_length; lia).
    (* what is written is well formed *)
    assert (PK13 : prefix K1 K3) by (eapply prefix_trans; eassumption).
    assert (PV13 : prefix (ps_vals st1) VF) by (eapply prefix_trans; eassumption).
    pose proof (props_res_wf K3 VF d_lp (li_props l) (R1 K3 VF PK13 PV13) Hlp LK LV) as Wlp.
    pose proof (cells_res_g_wf gf K3 VF T2 names d_c (li_cells l) (R2 K3 VF T2 PK3 PV3 (prefix_refl _)) Hcells LK LV LT LC) as Wc.
    pose proof (cn_res_wf cfg names offs K3 VF (pos1 + reclen r_c) d_cn (li_cells l) (R3 K3 VF (prefix_refl _) (prefix_refl _))
                  Hcells Hoffs ltac:(unfold pos1; lia) LK LV) as Wcn.
    (* the record loop *)
    set (u := real_of_bits (li_unit l)).
    destruct (csteps_props_lib false d_lp modal0 (k_init u) Wlp eq_refl eq_refl) as (m1 & SA0 & A1).
    pose proof (csteps_x recf recf_ext _ _ _ _ _ _ SA0) as SA.
    set (kA := k_set_lprops (k_init u) (rev d_lp ++ k_lprops (k_init u))) in *.
    destruct (csteps_cells_g false names (li_cells l) pos1 names0 st1 r_c d_c offs ts st2 E2 Hoks Wc
                (cells_res_g_nodup gf _ _ _ _ _ _ (R2 K3 VF T2 PK3 PV3 (prefix_refl _)) Hnd) m1 kA A1
                (fun gc _ i _ => eq_refl)) as (m2 & tg2 & SB & A2).
    set (kB := k_set_cells kA (rev (map rcell_g d_c) ++ k_cells kA) tg2) in *.
    destruct (csteps_cellnames false cfg names offs (li_cells l) st2 r_cn d_cn st3 E3
                (Forall_impl _ (fun c (H : wcell_okp c) => proj1 H) Hcells) Wcn m2 kB 0%nat A2
                (or_introl eq_refl) eq_refl (fun j _ => eq_refl)) as (m3 & SC0 & A3).
    fold names in SC0. pose proof (csteps_x recf recf_ext _ _ _ _ _ _ SC0) as SC. set (kC := k_after_cellnames kB 0 names d_cn) in *.
    destruct (k_after_cellnames_fields kB 0 names d_cn) as (FC1 & FC2 & FC3 & FC4 & FC5 & FC6 & FC7 & FC8 & FC9 & FC10 & FC11 & FC12).
    fold kC in FC1, FC2, FC3, FC4, FC5, FC6, FC7, FC8, FC9, FC10, FC11, FC12.
    (* TEXTSTRING *)
    destruct (NR_items ts T2 HT2) as (NDts & INts & PMts).
    assert (SD : xsteps recf false m3 kC r_ts m3 (k_after_ts kC (nm_items ts))).
    { apply (csteps_x recf recf_ext). apply csteps_textstrings; [left; rewrite FC10; reflexivity|apply (items_values_nodup _ _ PMts)|].
      intros kv Hin. split; [|split].
      - unfold wf_str. specialize (Bts2 kv Hin). lia.
      - destruct kv as [s v]. apply INts in Hin. cbn [snd].
        assert (N.to_nat v < length T2)%nat by (apply nth_error_Some; congruence).
        destruct Hcnt as [Hc1 _]. unfold nm_count in Hc1. rewrite (NR_count _ _ HT2) in Hc1. lia.
      - rewrite FC6. reflexivity. }
    set (kD := k_after_ts kC (nm_items ts)) in *.
    destruct (k_after_ts_fields kC (nm_items ts)) as (FD1 & FD2 & FD3 & FD4 & FD5 & FD6 & FD7 & FD8 & FD9 & FD10 & FD11).
    fold kD in FD1, FD2, FD3, FD4, FD5, FD6, FD7, FD8, FD9, FD10, FD11.
    (* PROPNAME *)
    destruct (NR_items (ps_names st3) K3 NR3) as (NDpn & INpn & PMpn).
    assert (SE : xsteps recf false m3 kD r_pn m3 (k_after_pn kD (nm_items (ps_names st3)))).
    { apply (csteps_x recf recf_ext). apply csteps_propnames; [left; rewrite FD10, FC11; reflexivity|apply (items_values_nodup _ _ PMpn)|].
      intros kv Hin. split; [|split].
      - unfold wf_str. specialize (Bpn2 kv Hin). lia.
      - destruct kv as [s v]. apply INpn in Hin. cbn [snd].
        assert (N.to_nat v < length K3)%nat by (apply nth_error_Some; congruence).
        destruct Hcnt as [_ Hc2]. unfold nm_count in Hc2. rewrite (NR_count _ _ NR3) in Hc2. lia.
      - rewrite FD7, FC7. reflexivity. }
    set (kE := k_after_pn kD (nm_items (ps_names st3))) in *.
    destruct (k_after_pn_fields kD (nm_items (ps_names st3))) as (FE1 & FE2 & FE3 & FE4 & FE5 & FE6 & FE7 & FE8 & FE9 & FE10).
    fold kE in FE1, FE2, FE3, FE4, FE5, FE6, FE7, FE8, FE9, FE10.
    (* PROPSTRING *)
    assert (SF : xsteps recf false m3 kE r_ps m3 (k_after_ps kE 0 VF)).
    { apply (csteps_x recf recf_ext). apply csteps_propstrings; [left; rewrite FE10, FD11, FC12; reflexivity|rewrite FE9, FD9, FC9; reflexivity| |].
      - apply Forall_forall. intros s Hin. unfold wf_str. specialize (Bps2 s Hin). lia.
      - intros j _. rewrite FE8, FD8, FC8. reflexivity. }
    set (kF := k_after_ps kE 0 VF) in *.
    destruct (k_after_ps_fields kE 0 VF) as (FF1 & FF2 & FF3 & FF4 & FF5 & FF6 & FF7 & FF8).
    fold kF in FF1, FF2, FF3, FF4, FF5, FF6, FF7, FF8.
    assert (Sall : xsteps recf false modal0 (k_init u) (r_lp ++ r_c ++ r_cn ++ r_ts ++ r_pn ++ r_ps) m3 kF).
    { rewrite Enc1. eapply xsteps_app; [exact SA|]. eapply xsteps_app; [exact SB|]. eapply xsteps_app; [exact SC|].
      eapply xsteps_app; [exact SD|]. eapply xsteps_app; [exact SE|exact SF]. }
    set (R := r_lp ++ r_c ++ r_cn ++ r_ts ++ r_pn ++ r_ps) in *.
    (* END *)
    pose proof (end_record_ok
                  (match li_cells l with [] => 0 | _ :: _ => pos1 + reclen r_c end)
                  (if 0 <? nm_count ts then pos1 + reclen r_c + reclen r_cn else 0)
                  (if 0 <? nm_count (ps_names st3) then pos1 + reclen r_c + reclen r_cn + reclen r_ts else 0)
                  (match VF with [] => 0 | _ :: _ => pos1 + reclen r_c + reclen r_cn + reclen r_ts + reclen r_pn end)) as Hend.
    match type of Hend with ?A -> ?B -> ?C -> ?D -> _ =>
      assert (W1 : A) by (unfold wf_u, pos1; destruct (li_cells l); lia);
      assert (W2 : B) by (unfold wf_u, pos1; destruct (0 <? nm_count ts); lia);
      assert (W3 : C) by (unfold wf_u, pos1; destruct (0 <? nm_count (ps_names st3)); lia);
      assert (W4 : D) by (unfold wf_u, pos1; destruct VF; lia)
    end.
    specialize (Hend W1 W2 W3 W4).
    destruct (end_record_w _ _ _ _) as [|code tail]; [contradiction|]. destruct Hend as [-> Hend].
    (* the tables at END *)
    assert (Epn : k_pn kF = rev (map swap_kv (nm_items (ps_names st3))) ++ []) by (rewrite FF7, FE7, FD7, FC7; reflexivity).
    assert (Eps : k_ps kF = rev (map swap_kv (enum_from 0 VF)) ++ []) by (rewrite FF8, FE8, FD8, FC8; reflexivity).
    assert (Ets : k_ts kF = rev (map swap_kv (nm_items ts)) ++ []) by (rewrite FF6, FE6, FD6, FC6; reflexivity).
    assert (Ecn : k_cn kF = rev (map swap_kv (enum_from 0 names)) ++ []) by (rewrite FF4, FE4, FD4, FC4; reflexivity).
    assert (Ecnp : k_cnp kF = rev (cnp_list 0 d_cn) ++ []) by (rewrite FF5, FE5, FD5, FC5; reflexivity).
    assert (Elp : k_lprops kF = rev d_lp ++ []) by (rewrite FF2, FE2, FD2, FC2; reflexivity).
    assert (Ecs : k_cells kF = rev (map rcell_g d_c) ++ []) by (rewrite FF3, FE3, FD3, FC3; reflexivity).
    assert (Eu : k_unit kF = u) by (rewrite FF1, FE1, FD1, FC1; reflexivity).
    assert (AgK : agrees (k_pn kF) K3) by (rewrite Epn; apply agrees_items; exact PMpn).
    assert (AgV : agrees (k_ps kF) VF) by (rewrite Eps; apply agrees_enum).
    assert (AgT : agrees (k_ts kF) T2) by (rewrite Ets; apply agrees_items; exact PMts).
    assert (AgC : agrees (k_cn kF) names) by (rewrite Ecn; apply agrees_enum).
    assert (Hfin : finalize (DS m3 kF) =
                   Some (mkLayout u (view_props (li_props l)) (map (view_cell_g gf cfg names offs) (li_cells l)))).
    { rewrite finalize_DS. rewrite Elp, app_nil_r, rev_involutive.
      rewrite (props_res_resolve (k_pn kF) (k_ps kF) K3 VF d_lp (li_props l) AgK AgV (R1 K3 VF PK13 PV13)). cbn [obnd].
      rewrite Ecs, app_nil_r, rev_involutive.
      pose proof (R2 K3 VF T2 PK3 PV3 (prefix_refl _)) as RC. pose proof (R3 K3 VF (prefix_refl _) (prefix_refl _)) as RN.
      rewrite (omap_nth (resolve_cell (DS m3 kF)) (map rcell_g d_c) (map (view_cell_g gf cfg names offs) (li_cells l))).
      - cbn [obnd]. rewrite Eu. reflexivity.
      - rewrite !map_length. apply (Forall2_length_eq _ _ _ RC).
      - intros j a b Ha Hb. rewrite nth_error_map in Ha, Hb.
        destruct (nth_error d_c j) as [gc|] eqn:Egc; [|discriminate]. destruct (nth_error (li_cells l) j) as [c|] eqn:Ec; [|discriminate].
        cbn [option_map] in Ha, Hb. injection Ha as <-. injection Hb as <-.
        destruct (Forall2_nth _ _ _ j gc c RC Egc Ec) as (i & Hi & Hres).
        assert (Hij : i = N.of_nat j).
        { pose proof (cell_index_some names (cl_name c) i Hi) as H1.
          assert (H2 : nth_error names j = Some (cl_name c)) by (unfold names; rewrite nth_error_map, Ec; reflexivity).
          assert (N.to_nat i = j); [|lia].
          apply (proj1 (NoDup_nth_error names) Hnd); [apply nth_error_Some; congruence|congruence]. }
        destruct (nth_error d_cn j) as [pd|] eqn:Epd.
        + apply (resolve_rcell_g_g gf m3 kF cfg names offs K3 VF T2 i gc c AgC AgT AgK AgV Hi Hres).
          rewrite Ecnp, app_nil_r, cnprops_rev, rev_involutive. rewrite Hij.
          change (N.of_nat j) with (N.of_nat (0 + j)). rewrite cnp_filter, Epd.
          apply (props_res_resolve (k_pn kF) (k_ps kF) K3 VF _ _ AgK AgV). apply (Forall2_nth _ _ _ j pd c RN Epd Ec).
        + exfalso. apply nth_error_None in Epd. rewrite (Forall2_length_eq _ _ _ RN) in Epd.
          assert (j < length (li_cells l))%nat by (apply nth_error_Some; congruence). lia. }
    (* (c8): every property given with a CELLNAME record resolves *)
    assert (Hc8 : exists x, omap (resolve_prop (k_pn kF) (k_ps kF)) (map snd (k_cnp kF)) = Some x).
    { apply omap_total. intros p Hin. apply in_map_iff in Hin. destruct Hin as (kp & <- & Hin).
      rewrite Ecnp, app_nil_r in Hin. apply in_rev in Hin. destruct (cnp_list_in _ _ _ Hin) as (pd & Hpd & Hp).
      pose proof (R3 K3 VF (prefix_refl _) (prefix_refl _)) as RN.
      destruct (Forall2_in_l _ _ _ pd RN Hpd) as (c & _ & Hres).
      destruct (Forall2_in_l _ _ _ (snd kp) Hres Hp) as (e & _ & He).
      exists (OasisWrite.view_prop e). apply (prop_res_resolve (k_pn kF) (k_ps kF) K3 VF _ _ AgK AgV He). }
    destruct Hc8 as (x8 & Hc8).
    (* the header *)
    unfold xdecode. unfold start, start_header. rewrite <- !app_assoc. rewrite strip_prefix_app. cbn [obnd].
    change OasisRecord_START with 1. cbn [app rd_byte obnd N.eqb Pos.eqb negb].
    match goal with |- context [rd_string (3 :: 49 :: 46 :: 48 :: ?X)] =>
      change (3 :: 49 :: 46 :: 48 :: X) with (wr_string version_1_0 ++ X) end.
    rewrite rd_string_enc by (unfold wf_str, two64; cbn; lia). cbn [obnd].
    change (strip_prefix version_1_0 version_1_0) with (Some (@nil N)). cbn [obnd].
    change (length version_1_0 =? 3)%nat with true. cbn [negb].
    rewrite cov_real_enc_real. cbn [obnd app].
    rewrite rd_uint_small by lia. cbn [obnd N.ltb N.compare Pos.compare Pos.compare_cont N.eqb].
    change (d_init (real_of_bits (li_unit l))) with (DS modal0 (k_init u)).
    apply (xloop_mono recf recf_ext (length R + 1)%nat).
    - rewrite (xsteps_loop recf false _ _ _ _ _ Sall 1%nat (2 :: tail)). cbn [xloop].
      assert (Hlast : cov_record false (DS m3 kF) (2 :: tail) =
                      Some (Done (mkLayout u (view_props (li_props l)) (map (view_cell_g gf cfg names offs) (li_cells l))))).
      { unfold cov_record. cbn [rd_byte obnd]. rewrite Hend. unfold cov_finalize. cbn [DS d_propnames d_propstrings d_cn_props].
        rewrite Hc8. cbn [obnd]. rewrite Hfin. reflexivity. }
      rewrite (recf_ext _ _ _ _ Hlast). reflexivity.
    - rewrite app_length. pose proof (concat_length_ge R (xsteps_nonempty recf _ _ _ _ _ _ Sall)). cbn [length]. lia.
  Qed.
End GenericCov.

(* ================================================================== 3. the writer under a flag word *)
Definition wlib_small_d (flags : dflags) (l : wlib) : Prop := wlib_small_g (geom_d (fst flags) (snd flags)) l.
(* guard (c5) on the writer's side: no polygon is written as a CTRAPEZOID of type 25 (a square under
   DETECT_TRAPEZOIDS without DETECT_RECTANGLES) *)
Definition no_ctrap25 (flags : dflags) (l : wlib) : Prop :=
  Forall (fun c => Forall (fun p => writes_ctrap25 (fst flags) (snd flags) p = false) (cl_polys c)) (li_cells l).

Lemma no_ctrap25_rect dt l : no_ctrap25 (true, dt) l.
Proof.
  unfold no_ctrap25. cbn [fst snd]. apply Forall_forall. intros c _. apply Forall_forall. intros p _. apply writes_ctrap25_rect.
Qed.
Lemma no_ctrap25_notrap dr l : no_ctrap25 (dr, false) l.
Proof.
  unfold no_ctrap25. cbn [fst snd]. apply Forall_forall. intros c _. apply Forall_forall. intros p _. apply writes_ctrap25_notrap.
Qed.
Lemma wlib_small_d_off l : wlib_small_d (false, false) l <-> wlib_small l.
Proof.
  unfold wlib_small_d, wlib_small_g, wlib_small. cbn [fst snd]. rewrite geom_d_off.
  split; intros [H1 H2]; (split; [exact H1|]); intros cfg; specialize (H2 cfg);
    [rewrite <- write_oas_run_g_off|rewrite write_oas_run_g_off]; exact H2.
Qed.

Theorem writer_output_cov_decode_d_lemma : forall cfg flags l,
  wlib_ok_d flags l -> wlib_small_d flags l -> no_ctrap25 flags l ->
  cov_oas_decode (write_oas_model_d cfg flags l) = Some (view_w_d cfg flags l).
Proof.
  intros cfg flags l Hok Hs H25. unfold write_oas_model_d, view_w_d. rewrite <- xdecode_cov.
  apply (writer_output_cov_decode_g (geom_d (fst flags) (snd flags)) (poly_cov_ok (fst flags) (snd flags)) cov_record
           (fun _ _ _ _ H => H));
    [intros p; apply geom_d_is_geom|intros p; apply geom_d_nonempty|apply geom_d_cstep|exact Hok|exact Hs|].
  destruct Hok as (_ & _ & Hcells & _). destruct Hs as (Hsmall & _). unfold no_ctrap25 in H25.
  rewrite Forall_forall in *. intros c Hc.
  destruct (wcell_oks_intro c (Hcells c Hc) (Hsmall c Hc)) as (P1 & P2 & P3 & P4).
  split; [|split; [exact P2|split; [exact P3|exact P4]]].
  specialize (H25 c Hc). rewrite Forall_forall in *. intros p Hp. split; [apply P1; exact Hp|apply H25; exact Hp].
Qed.

Theorem writer_output_covered_d_lemma : forall cfg flags l,
  wlib_ok_d flags l -> wlib_small_d flags l -> no_ctrap25 flags l -> covered (write_oas_model_d cfg flags l).
Proof. intros cfg flags l H1 H2 H3. unfold covered. rewrite (writer_output_cov_decode_d_lemma cfg flags l H1 H2 H3). discriminate. Qed.

(* save with the detection flags, then load: the library as the file holds it *)
Theorem oas_models_roundtrip_d_lemma : forall cfg flags l,
  wlib_ok_d flags l -> wlib_small_d flags l -> no_ctrap25 flags l ->
  read_oas_model (write_oas_model_d cfg flags l) = Ok (OasisRead.view (view_w_d cfg flags l)).
Proof.
  intros cfg flags l H1 H2 H3. apply OasisReadProofs.cov_reader_ok_lemma. apply writer_output_cov_decode_d_lemma; assumption.
Qed.

(* ---- guard (c5) relaxed (OasisReadRelaxed.v): EVERY flag word, no side condition *)
Lemma cov_record5_ctrap25 ois m k c cs body e m1 rest : k_cells k = c :: cs ->
  cov_ctrapezoid_gen false m (body ++ rest) = None ->
  cov_ctrapezoid_gen true m (body ++ rest) = Some (e, m1, rest) ->
  cov_record5 ois (DS m k) ((26 :: body) ++ rest) =
  Some (Cont (DS (forget_h m1) (k_set_cells k (push_elem c e :: cs) T_elem)) rest).
Proof.
  intros Hc Hf Ht. unfold cov_record5.
  assert (E : cov_record ois (DS m k) ((26 :: body) ++ rest) = None).
  { unfold cov_record. cbn [app rd_byte obnd]. unfold cov_elem_step, cov_ctrapezoid. cbn [DS d_modal]. rewrite Hf. reflexivity. }
  rewrite E. cbn [app]. change (26 =? 26) with true. cbv iota.
  unfold cov_elem_step, cov_ctrapezoid5. cbn [DS d_modal]. rewrite Ht. cbn [obnd].
  unfold add_elem. cbn [DS d_cells]. rewrite Hc. reflexivity.
Qed.

Lemma geom_d_cstep5 dr dt : geom_step cov_record5 wpoly_oks (geom_d dr dt).
Proof.
  intros ois p [Hok Hs] m k c cs Ha Hc.
  destruct (writes_ctrap25 dr dt p) eqn:W.
  - (* the CTRAPEZOID 25 record: rejected by cov_record, taken by the relaxed branch *)
    unfold writes_ctrap25 in W. unfold geom_d.
    destruct (if dr then is_rectangle (py_pts p) else None) as [cs0|] eqn:Er; [discriminate|].
    destruct (if dt then is_trapezoid (py_pts p) else None) as [t|] eqn:Et; [|discriminate].
    assert (Ht : is_trapezoid (py_pts p) = Some t) by (destruct dt; [exact Et|discriminate]).
    assert (Ety : (25 <? tr_ty t) = false) by (apply N.eqb_eq in W; rewrite W; reflexivity).
    destruct (cov_ctrapezoid_gen_w false m p t Hok Hs Ht Ety Ha) as (body & m1 & E & D & A1).
    destruct (cov_ctrapezoid_gen_w true m p t Hok Hs Ht Ety Ha) as (body' & m1' & E' & D' & A1').
    assert (body' = body) by congruence. subst body'.
    exists (forget_h m1'). split; [|exact A1']. intros rest. rewrite E.
    apply (cov_record5_ctrap25 ois m k c cs body _ m1' rest Hc).
    + rewrite (D rest), W. reflexivity.
    + rewrite (D' rest). reflexivity.
  - destruct (geom_d_cstep dr dt ois p (conj (conj Hok Hs) W) m k c cs Ha Hc) as (m1 & D & A1).
    exists m1. split; [|exact A1]. intros rest. apply cov_record5_ext. exact (D rest).
Qed.

Theorem writer_output_cov5_decode_d_lemma : forall cfg flags l,
  wlib_ok_d flags l -> wlib_small_d flags l ->
  xdecode cov_record5 (write_oas_model_d cfg flags l) = Some (view_w_d cfg flags l).
Proof.
  intros cfg flags l Hok Hs. unfold write_oas_model_d, view_w_d.
  apply (writer_output_cov_decode_g (geom_d (fst flags) (snd flags)) wpoly_oks cov_record5 cov_record5_ext);
    [intros p; apply geom_d_is_geom|intros p; apply geom_d_nonempty|apply geom_d_cstep5|exact Hok|exact Hs|].
  destruct Hok as (_ & _ & Hcells & _). destruct Hs as (Hsmall & _).
  rewrite Forall_forall in *. intros c Hc. exact (wcell_oks_intro c (Hcells c Hc) (Hsmall c Hc)).
Qed.

(* save under ANY flag word, then load: the library as the file holds it *)
Theorem oas_models_roundtrip_d_all_lemma : forall cfg flags l, wlib_ok_d flags l -> wlib_small_d flags l ->
  read_oas_model (write_oas_model_d cfg flags l) = Ok (OasisRead.view (view_w_d cfg flags l)).
Proof. intros cfg flags l H1 H2. apply cov5_reader_ok_lemma. apply writer_output_cov5_decode_d_lemma; assumption. Qed.

(* ================================================================== 4. similarity: an equivalence, carried by the reader's view *)
Lemma Forall2_sym {A B} (R : A -> B -> Prop) (S : B -> A -> Prop) :
  (forall a b, R a b -> S b a) -> forall l l', Forall2 R l l' -> Forall2 S l' l.
Proof. intros H l l' F. induction F; constructor; auto. Qed.
Lemma Forall2_trans {A B C} (R : A -> B -> Prop) (S : B -> C -> Prop) (T : A -> C -> Prop) :
  (forall a b c, R a b -> S b c -> T a c) -> forall l1 l2 l3, Forall2 R l1 l2 -> Forall2 S l2 l3 -> Forall2 T l1 l3.
Proof.
  intros H l1 l2 l3 F. revert l3. induction F as [|a b l1 l2 Hab F IH]; intros l3 G; inversion G; subst; constructor; eauto.
Qed.

Lemma same_polygon_sym e e' : same_polygon e e' -> same_polygon e' e.
Proof. intros (ldr & A & B & C). exists ldr. split; [exact B|]. split; [exact A|]. apply same_cycle_sym. exact C. Qed.
Lemma elem_sim_sym e e' : elem_sim e e' -> elem_sim e' e.
Proof. intros [->|H]; [left; reflexivity|right; apply same_polygon_sym; exact H]. Qed.
Lemma elem_sim_trans e1 e2 e3 : elem_sim e1 e2 -> elem_sim e2 e3 -> elem_sim e1 e3.
Proof.
  intros [->|H1] [->|H2]; [left; reflexivity|right; exact H2|right; exact H1|].
  right. destruct H1 as (ldr & A1 & B1 & C1). destruct H2 as (ldr' & A2 & B2 & C2).
  exists ldr. split; [exact A1|]. split; [congruence|]. eapply same_cycle_trans; eassumption.
Qed.
Lemma prop_sim_sym p q : prop_sim p q -> prop_sim q p.
Proof. intros (A & B & C). split; [auto|]. split; [auto|]. destruct C as [C|C]; [left; auto|right; congruence]. Qed.
Lemma prop_sim_trans p q r : prop_sim p q -> prop_sim q r -> prop_sim p r.
Proof.
  intros (A1 & B1 & C1) (A2 & B2 & C2). split; [congruence|]. split; [congruence|].
  destruct C1 as [C1|C1]; [|right; exact C1]. destruct C2 as [C2|C2]; [left; congruence|right; congruence].
Qed.
Lemma ep_sim_sym a b : ep_sim a b -> ep_sim b a.
Proof. intros [A B]. split; [apply elem_sim_sym; exact A|auto]. Qed.
Lemma ep_sim_trans a b c : ep_sim a b -> ep_sim b c -> ep_sim a c.
Proof. intros [A1 B1] [A2 B2]. split; [eapply elem_sim_trans; eassumption|congruence]. Qed.
Lemma cell_sim_sym c c' : cell_sim c c' -> cell_sim c' c.
Proof.
  intros (A & B & C). split; [auto|]. split; [exact (Forall2_sym _ _ prop_sim_sym _ _ B)|exact (Forall2_sym _ _ ep_sim_sym _ _ C)].
Qed.
Lemma cell_sim_trans c1 c2 c3 : cell_sim c1 c2 -> cell_sim c2 c3 -> cell_sim c1 c3.
Proof.
  intros (A1 & B1 & C1) (A2 & B2 & C2). split; [congruence|].
  split; [exact (Forall2_trans _ _ _ prop_sim_trans _ _ _ B1 B2)|exact (Forall2_trans _ _ _ ep_sim_trans _ _ _ C1 C2)].
Qed.
Lemma layout_sim_sym L L' : layout_sim L L' -> layout_sim L' L.
Proof. intros (A & B & C). split; [auto|]. split; [auto|]. exact (Forall2_sym _ _ cell_sim_sym _ _ C). Qed.
Lemma layout_sim_trans L1 L2 L3 : layout_sim L1 L2 -> layout_sim L2 L3 -> layout_sim L1 L3.
Proof.
  intros (A1 & B1 & C1) (A2 & B2 & C2). split; [congruence|]. split; [congruence|].
  exact (Forall2_trans _ _ _ cell_sim_trans _ _ _ C1 C2).
Qed.

(* ---- what gdstk holds after loading: GPolygon layer datatype vertices repetition; two loaded libraries are similar when
   they differ only in the vertex cycle of polygons (starting vertex, orientation) and in S_CELL_OFFSET values *)
Definition gelem_sim (a b : gelem bytes) : Prop :=
  a = b \/ exists l d p p' r, a = GPolygon l d p r /\ b = GPolygon l d p' r /\ same_cycle p p'.
Definition gep_sim (a b : gelem bytes * list (gprop bytes)) : Prop := gelem_sim (fst a) (fst b) /\ snd a = snd b.
Definition gprop_sim (p q : gprop bytes) : Prop :=
  gp_name p = gp_name q /\ (gp_vals p = gp_vals q \/ gp_name p = cstr s_cell_offset_name).
Definition gcell_sim (c c' : gcell bytes) : Prop :=
  gc_name c = gc_name c' /\ Forall2 gprop_sim (gc_props c) (gc_props c') /\ Forall2 gep_sim (gc_elems c) (gc_elems c').
Definition rlib_sim (A B : rlib) : Prop :=
  match A, B with
  | RLib u ps cs, RLib u' ps' cs' => u = u' /\ ps = ps' /\ Forall2 gcell_sim cs cs'
  | _, _ => False
  end.

Lemma view_elem_poly {nm} (nmf : nref -> nm) found e l d r : elem_ldr e = Some (l, d, r) ->
  view_elem nmf found e = GPolygon l d (elem_points e) (view_orep r).
Proof. destruct e; cbn [elem_ldr]; intros H; try discriminate; inversion H; subst; reflexivity. Qed.

Lemma view_elem_sim found e e' : elem_sim e e' -> gelem_sim (view_elem cname found e) (view_elem cname found e').
Proof.
  intros [->|([[l d] r] & A & B & C)]; [left; reflexivity|]. right.
  rewrite (view_elem_poly cname found e l d r A), (view_elem_poly cname found e' l d r B).
  exists l, d, (elem_points e), (elem_points e'), (view_orep r). auto.
Qed.

Lemma view_prop_sim p q : prop_sim p q -> gprop_sim (OasisRead.view_prop cname p) (OasisRead.view_prop cname q).
Proof.
  intros (A & B & C). unfold gprop_sim, OasisRead.view_prop. cbn [gp_name gp_vals]. split; [rewrite A; reflexivity|].
  destruct C as [C|C]; [left; rewrite C; reflexivity|right; rewrite C; reflexivity].
Qed.

Lemma view_cell_sim names c c' : cell_sim c c' -> gcell_sim (OasisRead.view_cell names c) (OasisRead.view_cell names c').
Proof.
  intros (A & B & C). unfold gcell_sim, OasisRead.view_cell. cbn [gc_name gc_props gc_elems].
  split; [rewrite A; reflexivity|]. split.
  - induction B as [|p q ps qs Hpq _ IH]; cbn [map]; [constructor|]. constructor; [apply view_prop_sim; exact Hpq|exact IH].
  - induction C as [|a b l1 l2 [Hab1 Hab2] _ IH]; cbn [map]; [constructor|]. constructor; [|exact IH].
    split; cbn [fst snd]; [apply view_elem_sim; exact Hab1|rewrite Hab2; reflexivity].
Qed.

Theorem view_sim_lemma : forall L L', layout_sim L L' -> rlib_sim (OasisRead.view L) (OasisRead.view L').
Proof.
  intros L L' (A & B & C). unfold OasisRead.view, rlib_sim. split; [exact A|]. split; [rewrite B; reflexivity|].
  assert (En : map (fun c => cname (c_name c)) (l_cells L) = map (fun c => cname (c_name c)) (l_cells L')).
  { induction C as [|c c' l1 l2 (Hn & _) _ IH]; [reflexivity|]. cbn [map]. rewrite Hn, IH. reflexivity. }
  rewrite En. generalize (map (fun c => cname (c_name c)) (l_cells L')). intros names.
  clear En. induction C as [|c c' l1 l2 Hcc _ IH]; cbn [map]; [constructor|]. constructor; [apply view_cell_sim; exact Hcc|exact IH].
Qed.

(* ================================================================== 5. the statements *)
(* (b) loading the detected file and loading the undetected file give similar libraries *)
Theorem reader_detected_vs_plain_lemma : forall cfg flags l,
  wlib_ok l -> wlib_small l -> wlib_ok_d flags l -> wlib_small_d flags l ->
  exists A B, read_oas_model (write_oas_model_d cfg flags l) = Ok A /\
              read_oas_model (write_oas_model cfg l) = Ok B /\ rlib_sim A B.
Proof.
  intros cfg flags l H1 H2 H3 H4.
  exists (OasisRead.view (view_w_d cfg flags l)), (OasisRead.view (view_w cfg l)).
  split; [apply oas_models_roundtrip_d_all_lemma; assumption|]. split; [apply oas_models_roundtrip_full_lemma; assumption|].
  apply view_sim_lemma. apply view_w_d_sim_lemma. apply H1.
Qed.

(* (c) flag independence, for the strict decoder (every flag word) ... *)
Theorem decoder_flag_independence_lemma : forall cfg f1 f2 l, wlib_ok_d f1 l -> wlib_ok_d f2 l ->
  exists L1 L2, spec_oas_decode (write_oas_model_d cfg f1 l) = Some L1 /\
                spec_oas_decode (write_oas_model_d cfg f2 l) = Some L2 /\ layout_sim L1 L2.
Proof.
  intros cfg f1 f2 l H1 H2. exists (view_w_d cfg f1 l), (view_w_d cfg f2 l).
  split; [apply oas_writer_conforms_d_lemma; exact H1|]. split; [apply oas_writer_conforms_d_lemma; exact H2|].
  destruct H1 as (_ & _ & Hc & _).
  eapply layout_sim_trans; [apply view_w_d_sim_lemma; exact Hc|]. apply layout_sim_sym. apply view_w_d_sim_lemma. exact Hc.
Qed.

(* ... and for the reader model *)
Theorem reader_flag_independence_lemma : forall cfg f1 f2 l,
  wlib_ok_d f1 l -> wlib_small_d f1 l -> wlib_ok_d f2 l -> wlib_small_d f2 l ->
  exists A B, read_oas_model (write_oas_model_d cfg f1 l) = Ok A /\
              read_oas_model (write_oas_model_d cfg f2 l) = Ok B /\ rlib_sim A B.
Proof.
  intros cfg f1 f2 l H1 H2 H4 H5.
  exists (OasisRead.view (view_w_d cfg f1 l)), (OasisRead.view (view_w_d cfg f2 l)).
  split; [apply oas_models_roundtrip_d_all_lemma; assumption|]. split; [apply oas_models_roundtrip_d_all_lemma; assumption|].
  apply view_sim_lemma. destruct H1 as (_ & _ & Hc & _).
  eapply layout_sim_trans; [apply view_w_d_sim_lemma; exact Hc|]. apply layout_sim_sym. apply view_w_d_sim_lemma. exact Hc.
Qed.

(* ================================================================== non-vacuity, and the gap left by guard (c5) *)
Example sample_dlib_small : forall flags, wlib_small_d flags sample_dlib.
Proof.
  intros [dr dt]. split.
  - repeat (first [apply Forall_nil | apply Forall_cons | split]); unfold u32, lim31; cbn; try exact I; lia.
  - intros [[|]]; destruct dr, dt; vm_compute; split; discriminate.
Qed.
Example sample_dlib_roundtrip : forall cfg dt,
  read_oas_model (write_oas_model_d cfg (true, dt) sample_dlib) = Ok (OasisRead.view (view_w_d cfg (true, dt) sample_dlib)).
Proof.
  intros cfg dt. apply oas_models_roundtrip_d_lemma; [apply sample_dlib_ok|apply sample_dlib_small|apply no_ctrap25_rect].
Qed.
Example sample_dlib_flag_independence : forall cfg f1 f2, exists A B,
  read_oas_model (write_oas_model_d cfg f1 sample_dlib) = Ok A /\
  read_oas_model (write_oas_model_d cfg f2 sample_dlib) = Ok B /\ rlib_sim A B.
Proof.
  intros cfg f1 f2. apply reader_flag_independence_lemma;
    [apply sample_dlib_ok|apply sample_dlib_small|apply sample_dlib_ok|apply sample_dlib_small].
Qed.

(* a square under DETECT_TRAPEZOIDS alone is written as CTRAPEZOID 25, which guard (c5) keeps out of `covered` (the reader
   leaves the modal height alone where the strict decoder sets it): OasisReadProofs.cov_reader_ok_lemma does not apply to this
   file; the relaxed guard of OasisReadRelaxed.v does (oas_models_roundtrip_d_all_lemma) *)
Definition square_lib : wlib :=
  mkWLib 4652007308841189376 [] [ mkWCell [84] [ mkWPoly 1 0 [(0, 0); (4, 0); (4, 4); (0, 4)]%Z WNone [] ] [] [] [] [] ].
Example ctrap25_outside_covered :
  no_ctrap25 (false, true) square_lib -> False.
Proof. unfold no_ctrap25. intros H. inversion H as [|? ? H1 _]; subst. inversion H1 as [|? ? H2 _]; subst. vm_compute in H2. discriminate. Qed.
Example ctrap25_file :
  cov_oas_decode (write_oas_model_d (mkWCfg false) (false, true) square_lib) = None /\
  spec_oas_decode (write_oas_model_d (mkWCfg false) (false, true) square_lib) =
    Some (view_w_d (mkWCfg false) (false, true) square_lib) /\
  read_oas_model (write_oas_model_d (mkWCfg false) (false, true) square_lib) =
    Ok (OasisRead.view (view_w_d (mkWCfg false) (false, true) square_lib)).
Proof. split; [vm_compute; reflexivity|split; vm_compute; reflexivity]. Qed.

(* hence "the writer's output is always covered" is false for the flag word (false, true) ... *)
Example square_lib_ok : wlib_ok_d (false, true) square_lib /\ wlib_small_d (false, true) square_lib.
Proof.
  split.
  - split; [constructor|split; [|split]].
    + cbn. repeat constructor; cbn; intuition discriminate.
    + assert (Hz : forall a b : Z, (- 2 ^ 62 < a < 2 ^ 62)%Z -> (- 2 ^ 62 < b < 2 ^ 62)%Z -> ptc (a, b)) by (intros; split; assumption).
      repeat (first [apply Forall_nil | apply Forall_cons | split]);
        try exact I; try (apply Hz; lia); try discriminate;
        unfold wf_str, wf_u, fits63, wf_pt; cbn [fst snd length];
        rewrite ?two64_val, ?two63_val; try lia.
    + intros [[|]]; vm_compute; reflexivity.
  - split.
    + repeat (first [apply Forall_nil | apply Forall_cons | split]); unfold u32, lim31; cbn; try exact I; lia.
    + intros [[|]]; vm_compute; split; discriminate.
Qed.
Theorem writer_output_covered_d_refuted_lemma : exists cfg flags l,
  wlib_ok_d flags l /\ wlib_small_d flags l /\ ~ covered (write_oas_model_d cfg flags l).
Proof.
  exists (mkWCfg false), (false, true), square_lib. split; [apply square_lib_ok|]. split; [apply square_lib_ok|].
  unfold covered. rewrite (proj1 ctrap25_file). intros H. apply H. reflexivity.
Qed.
(* ... and holds for the other three *)
Lemma no_ctrap25_flags flags l : fst flags = true \/ snd flags = false -> no_ctrap25 flags l.
Proof. destruct flags as [dr dt]. cbn [fst snd]. intros [->| ->]; [apply no_ctrap25_rect|apply no_ctrap25_notrap]. Qed.

Check writer_output_cov_decode_d_lemma.
Check oas_models_roundtrip_d_lemma.
Check oas_models_roundtrip_d_all_lemma.
Check reader_detected_vs_plain_lemma.
Check decoder_flag_independence_lemma.
Check reader_flag_independence_lemma.
Print Assumptions reader_detected_vs_plain_lemma.
Print Assumptions decoder_flag_independence_lemma.
Print Assumptions reader_flag_independence_lemma.
