(* C08 — proofs about the Arc section (ArcSection.v), over the reals with Coquelicot.

   (i)   arc_gradient_is_derivative_lemma: for EVERY real u (inside [0,1], at the ends and on the
         linear continuation) SubPath::gradient is the derivative of SubPath::eval, componentwise,
         for any radii / angles / cos_rot / sin_rot / trafo;  arc_gradient_continuous_lemma: the
         gradient is continuous, so the section with its continuation is C1
   (ii)  arc_endpoints_lemma, arc_continuation_lemma (the tangent lines at both ends)
   (iii) arc_trafo_lemma / trafo_derive_lemma: eval under the affine trafo has the linear part
         applied to the gradient
   (iv)  circular arcs: arc_circle_lemma (distance k r from the transformed centre, |gradient| =
         k r |angle_f - angle_i| under a similarity of factor k)
   (v)   the normal: vnormal_unit_lemma (unit, orthogonal, on the LEFT of the gradient),
         arc_gradient_nonzero_lemma, arc_circle_offset_lemma (the offset curve of a circular arc is
         the concentric arc of radius r - sign(angle_f - angle_i) * offset)
   (vi)  constructors: rp_arc_lemma (starts at the end point, new end point = eval at 1, cos_rot /
         sin_rot a rotation), rp_turn_tangent_lemma (a turn starts along the previous direction) *)
From Coq Require Import Reals Lra Psatz.
Set Warnings "-ambiguous-paths".   (* Coquelicot declares Rbar coercions that trigger it on every load *)
From Coquelicot Require Import Coquelicot.
Require Import ArcSection.
Local Open Scope R_scope.

(* ================================================================== clamp *)
Lemma clamp01R_id u : 0 <= u <= 1 -> clamp01R u = u.
Proof.
  intros H. unfold clamp01R. destruct (Rlt_dec u 0); [lra|]. destruct (Rgt_dec u 1); [lra|reflexivity].
Qed.
Lemma clamp01R_lo u : u <= 0 -> clamp01R u = 0.
Proof.
  intros H. unfold clamp01R. destruct (Rlt_dec u 0); [reflexivity|].
  destruct (Rgt_dec u 1); lra.
Qed.
Lemma clamp01R_hi u : 1 <= u -> clamp01R u = 1.
Proof.
  intros H. unfold clamp01R. destruct (Rlt_dec u 0); [lra|].
  destruct (Rgt_dec u 1); lra.
Qed.
Lemma clamp01R_range u : 0 <= clamp01R u <= 1.
Proof. unfold clamp01R. destruct (Rlt_dec u 0); [lra|]. destruct (Rgt_dec u 1); lra. Qed.

Lemma clamp01R_lipschitz a b : Rabs (clamp01R a - clamp01R b) <= Rabs (a - b).
Proof.
  unfold clamp01R.
  destruct (Rlt_dec a 0); destruct (Rlt_dec b 0); try destruct (Rgt_dec a 1); try destruct (Rgt_dec b 1);
    unfold Rabs; repeat match goal with |- context [Rcase_abs ?x] => destruct (Rcase_abs x) end; lra.
Qed.

Lemma clamp01R_continuous u : continuous clamp01R u.
Proof.
  apply continuity_pt_filterlim. intros eps Heps.
  exists eps. split; [exact Heps|]. intros x [_ Hx]. simpl in *. unfold R_dist in *.
  eapply Rle_lt_trans; [apply clamp01R_lipschitz|exact Hx].
Qed.

(* ================================================================== gluing tangent lines *)
(* a differentiable f, continued outside [0,1] by its tangent lines, is differentiable everywhere
   with derivative df (clamp t) *)
Definition glued (f df : R -> R) (t : R) : R :=
  if Rlt_dec t 0 then f 0 + df 0 * t else if Rgt_dec t 1 then f 1 + df 1 * (t - 1) else f t.

Lemma glued_at_0 f df : glued f df 0 = f 0.
Proof. unfold glued. destruct (Rlt_dec 0 0); [lra|]. destruct (Rgt_dec 0 1); [lra|reflexivity]. Qed.
Lemma glued_at_1 f df : glued f df 1 = f 1.
Proof. unfold glued. destruct (Rlt_dec 1 0); [lra|]. destruct (Rgt_dec 1 1); [lra|reflexivity]. Qed.

Lemma glued_derive (f df : R -> R) :
  (forall t, is_derive f t (df t)) ->
  forall t, is_derive (glued f df) t (df (clamp01R t)).
Proof.
  intros Hf t.
  destruct (Rlt_dec t 0) as [Hneg|Hnn].
  - (* on the left continuation *)
    rewrite clamp01R_lo by lra.
    apply (is_derive_ext_loc (fun t => f 0 + df 0 * t)).
    + apply (locally_interval _ t m_infty 0); simpl; try exact I; try exact Hneg.
      intros y _ Hy. unfold glued. destruct (Rlt_dec y 0); [reflexivity|lra].
    + auto_derive; [exact I|ring].
  - destruct (Rgt_dec t 1) as [Hbig|Hle].
    + (* on the right continuation *)
      rewrite clamp01R_hi by lra.
      apply (is_derive_ext_loc (fun t => f 1 + df 1 * (t - 1))).
      * apply (locally_interval _ t 1 p_infty); simpl; try exact I; try exact Hbig.
        intros y Hy _. unfold glued. destruct (Rlt_dec y 0); [lra|].
        destruct (Rgt_dec y 1); [reflexivity|lra].
      * auto_derive; [exact I|ring].
    + rewrite clamp01R_id by lra.
      destruct (Req_dec t 0) as [E0|N0]; [|destruct (Req_dec t 1) as [E1|N1]].
      * (* the junction at 0 *)
        subst t. apply is_derive_Reals. intros eps Heps.
        pose proof (proj1 (is_derive_Reals f 0 (df 0)) (Hf 0)) as Hd.
        destruct (Hd eps Heps) as [delta Hdelta].
        assert (Hm : 0 < Rmin delta 1) by (apply Rmin_pos; [apply cond_pos|lra]).
        exists (mkposreal _ Hm). intros h Hh Hhd. simpl in Hhd.
        assert (Hh1 : Rabs h < delta) by (eapply Rlt_le_trans; [exact Hhd|apply Rmin_l]).
        assert (Hh2 : Rabs h < 1) by (eapply Rlt_le_trans; [exact Hhd|apply Rmin_r]).
        rewrite glued_at_0. unfold glued.
        destruct (Rlt_dec (0 + h) 0) as [Hl|Hl].
        -- replace ((f 0 + df 0 * (0 + h) - f 0) / h - df 0) with 0 by (field; exact Hh).
           rewrite Rabs_R0. exact Heps.
        -- destruct (Rgt_dec (0 + h) 1) as [Hg|Hg].
           ++ exfalso. rewrite Rabs_pos_eq in Hh2 by lra. lra.
           ++ apply Hdelta; assumption.
      * (* the junction at 1 *)
        subst t. apply is_derive_Reals. intros eps Heps.
        pose proof (proj1 (is_derive_Reals f 1 (df 1)) (Hf 1)) as Hd.
        destruct (Hd eps Heps) as [delta Hdelta].
        assert (Hm : 0 < Rmin delta 1) by (apply Rmin_pos; [apply cond_pos|lra]).
        exists (mkposreal _ Hm). intros h Hh Hhd. simpl in Hhd.
        assert (Hh1 : Rabs h < delta) by (eapply Rlt_le_trans; [exact Hhd|apply Rmin_l]).
        assert (Hh2 : Rabs h < 1) by (eapply Rlt_le_trans; [exact Hhd|apply Rmin_r]).
        rewrite glued_at_1. unfold glued.
        destruct (Rlt_dec (1 + h) 0) as [Hl|Hl].
        -- exfalso. rewrite Rabs_left in Hh2 by lra. lra.
        -- destruct (Rgt_dec (1 + h) 1) as [Hg|Hg].
           ++ replace ((f 1 + df 1 * (1 + h - 1) - f 1) / h - df 1) with 0 by (field; exact Hh).
              rewrite Rabs_R0. exact Heps.
           ++ apply Hdelta; assumption.
      * (* strictly inside *)
        apply (is_derive_ext_loc f); [|apply Hf].
        apply (locally_interval _ t 0 1); simpl; try lra.
        intros y Hy0 Hy1. unfold glued. destruct (Rlt_dec y 0); [lra|].
        destruct (Rgt_dec y 1); [lra|reflexivity].
Qed.

(* ================================================================== (iii) the transformation *)
(* any curve: the affine trafo of eval has the linear part of trafo applied to the gradient *)
Theorem trafo_derive_lemma (fx fy : R -> R) (tr : rtrafo) (u dx dy : R) :
  is_derive fx u dx -> is_derive fy u dy ->
  is_derive (fun t => fst (aff_apply tr (fx t, fy t))) u (fst (lin_apply tr (dx, dy))) /\
  is_derive (fun t => snd (aff_apply tr (fx t, fy t))) u (snd (lin_apply tr (dx, dy))).
Proof.
  intros Hx Hy. unfold aff_apply, lin_apply. cbn [fst snd].
  split.
  - auto_derive.
    + split; [eexists; exact Hx|split; [eexists; exact Hy|exact I]].
    + replace (Derive (fun x : R => fx x) u) with dx by (symmetry; apply is_derive_unique; exact Hx).
      replace (Derive (fun x : R => fy x) u) with dy by (symmetry; apply is_derive_unique; exact Hy).
      ring.
  - auto_derive.
    + split; [eexists; exact Hx|split; [eexists; exact Hy|exact I]].
    + replace (Derive (fun x : R => fx x) u) with dx by (symmetry; apply is_derive_unique; exact Hx).
      replace (Derive (fun x : R => fy x) u) with dy by (symmetry; apply is_derive_unique; exact Hy).
      ring.
Qed.

(* the untransformed arc point and the untransformed gradient, everywhere (no clamp) *)
Lemma arc_point_raw_derive s u :
  is_derive (fun t => fst (arc_point_raw s t)) u (fst (arc_grad_raw s u)) /\
  is_derive (fun t => snd (arc_point_raw s t)) u (snd (arc_grad_raw s u)).
Proof.
  unfold arc_point_raw, arc_grad_raw, rlerp. cbv zeta. cbn [fst snd].
  split; (auto_derive; [exact I|];
          replace (a_ai s * (1 + - u) + a_af s * u) with (a_ai s * (1 - u) + a_af s * u) by ring; ring).
Qed.

Lemma arc_eval01_derive s tr u :
  is_derive (fun t => fst (arc_eval01 s tr t)) u (fst (arc_gradient01 s tr u)) /\
  is_derive (fun t => snd (arc_eval01 s tr t)) u (snd (arc_gradient01 s tr u)).
Proof.
  destruct (arc_point_raw_derive s u) as [Hx Hy].
  destruct (trafo_derive_lemma _ _ tr u _ _ Hx Hy) as [Tx Ty].
  unfold arc_eval01, arc_gradient01.
  split.
  - eapply is_derive_ext; [|replace (arc_grad_raw s u) with (fst (arc_grad_raw s u), snd (arc_grad_raw s u))
                             by (destruct (arc_grad_raw s u); reflexivity); exact Tx].
    intros t. cbn beta. destruct (arc_point_raw s t); reflexivity.
  - eapply is_derive_ext; [|replace (arc_grad_raw s u) with (fst (arc_grad_raw s u), snd (arc_grad_raw s u))
                             by (destruct (arc_grad_raw s u); reflexivity); exact Ty].
    intros t. cbn beta. destruct (arc_point_raw s t); reflexivity.
Qed.

(* SubPath::eval is the glued function of its [0,1] formula, componentwise *)
Lemma arc_eval_glued s tr t :
  fst (arc_eval s tr t)
  = glued (fun t => fst (arc_eval01 s tr t)) (fun t => fst (arc_gradient01 s tr t)) t /\
  snd (arc_eval s tr t)
  = glued (fun t => snd (arc_eval01 s tr t)) (fun t => snd (arc_gradient01 s tr t)) t.
Proof.
  unfold arc_eval, glued, arc_gradient. cbv zeta.
  rewrite (clamp01R_id 0), (clamp01R_id 1) by lra.
  destruct (Rlt_dec t 0); [split; reflexivity|].
  destruct (Rgt_dec t 1); split; reflexivity.
Qed.

(* ================================================================== (i) gradient = derivative *)
Theorem arc_gradient_is_derivative_lemma : forall (s : arc_section) (tr : rtrafo) (u : R),
  is_derive (fun t => fst (arc_eval s tr t)) u (fst (arc_gradient s tr u)) /\
  is_derive (fun t => snd (arc_eval s tr t)) u (snd (arc_gradient s tr u)).
Proof.
  intros s tr u. unfold arc_gradient. cbv zeta.
  split.
  - apply (is_derive_ext (glued (fun t => fst (arc_eval01 s tr t)) (fun t => fst (arc_gradient01 s tr t)))).
    + intros t. symmetry. apply arc_eval_glued.
    + apply (glued_derive (fun t => fst (arc_eval01 s tr t)) (fun t => fst (arc_gradient01 s tr t))).
      intros t. apply arc_eval01_derive.
  - apply (is_derive_ext (glued (fun t => snd (arc_eval01 s tr t)) (fun t => snd (arc_gradient01 s tr t)))).
    + intros t. symmetry. apply arc_eval_glued.
    + apply (glued_derive (fun t => snd (arc_eval01 s tr t)) (fun t => snd (arc_gradient01 s tr t))).
      intros t. apply arc_eval01_derive.
Qed.

(* the form asked for: 0 <= u <= 1 (there eval is the closed formula and the clamp is the identity) *)
Corollary arc_gradient_is_derivative_01 : forall (s : arc_section) (tr : rtrafo) (u : R),
  0 <= u <= 1 ->
  arc_eval s tr u = arc_eval01 s tr u /\ arc_gradient s tr u = arc_gradient01 s tr u /\
  is_derive (fun t => fst (arc_eval s tr t)) u (fst (arc_gradient01 s tr u)) /\
  is_derive (fun t => snd (arc_eval s tr t)) u (snd (arc_gradient01 s tr u)).
Proof.
  intros s tr u Hu.
  assert (E : arc_gradient s tr u = arc_gradient01 s tr u).
  { unfold arc_gradient. cbv zeta. now rewrite clamp01R_id. }
  split; [|split; [exact E|]].
  - unfold arc_eval. destruct (Rlt_dec u 0); [lra|]. destruct (Rgt_dec u 1); [lra|reflexivity].
  - rewrite <- E. apply arc_gradient_is_derivative_lemma.
Qed.

(* the gradient is a continuous function of u on the whole line: eval is C1 *)
Theorem arc_gradient_continuous_lemma : forall (s : arc_section) (tr : rtrafo) (u : R),
  continuous (fun t => fst (arc_gradient s tr t)) u /\
  continuous (fun t => snd (arc_gradient s tr t)) u.
Proof.
  intros s tr u. unfold arc_gradient. cbv zeta.
  split.
  - apply (continuous_comp clamp01R (fun v => fst (arc_gradient01 s tr v))).
    + apply clamp01R_continuous.
    + apply (@ex_derive_continuous R_AbsRing R_NormedModule).
      unfold arc_gradient01, lin_apply, arc_grad_raw, rlerp. cbv zeta. cbn [fst snd].
      auto_derive. exact I.
  - apply (continuous_comp clamp01R (fun v => snd (arc_gradient01 s tr v))).
    + apply clamp01R_continuous.
    + apply (@ex_derive_continuous R_AbsRing R_NormedModule).
      unfold arc_gradient01, lin_apply, arc_grad_raw, rlerp. cbv zeta. cbn [fst snd].
      auto_derive. exact I.
Qed.

(* ================================================================== (ii) end points, continuation *)
(* the point of the untransformed ellipse at parameter angle a *)
Definition arc_at_angle (s : arc_section) (a : R) : rpt :=
  (a_cx s + (a_rx s * cos a * a_cr s - a_ry s * sin a * a_sr s),
   a_cy s + (a_rx s * cos a * a_sr s + a_ry s * sin a * a_cr s)).

Theorem arc_endpoints_lemma : forall (s : arc_section) (tr : rtrafo),
  arc_eval s tr 0 = aff_apply tr (arc_at_angle s (a_ai s)) /\
  arc_eval s tr 1 = aff_apply tr (arc_at_angle s (a_af s)).
Proof.
  intros s tr.
  assert (E0 : rlerp (a_ai s) (a_af s) 0 = a_ai s) by (unfold rlerp; ring).
  assert (E1 : rlerp (a_ai s) (a_af s) 1 = a_af s) by (unfold rlerp; ring).
  unfold arc_eval.
  destruct (Rlt_dec 0 0); [lra|]. destruct (Rgt_dec 0 1); [lra|].
  destruct (Rlt_dec 1 0); [lra|]. destruct (Rgt_dec 1 1); [lra|].
  unfold arc_eval01, arc_point_raw, arc_at_angle. cbv zeta. rewrite E0, E1. split; reflexivity.
Qed.

(* at every u the point lies on the ellipse, at the interpolated parameter angle *)
Lemma arc_eval01_at_angle s tr u :
  arc_eval01 s tr u = aff_apply tr (arc_at_angle s (rlerp (a_ai s) (a_af s) u)).
Proof. reflexivity. Qed.

(* outside [0,1]: the tangent line at the nearer end; the gradient is the end gradient *)
Theorem arc_continuation_lemma : forall (s : arc_section) (tr : rtrafo) (u : R),
  (u < 0 ->
     arc_eval s tr u = (fst (arc_eval s tr 0) + u * fst (arc_gradient s tr 0),
                        snd (arc_eval s tr 0) + u * snd (arc_gradient s tr 0)) /\
     arc_gradient s tr u = arc_gradient s tr 0) /\
  (1 < u ->
     arc_eval s tr u = (fst (arc_eval s tr 1) + (u - 1) * fst (arc_gradient s tr 1),
                        snd (arc_eval s tr 1) + (u - 1) * snd (arc_gradient s tr 1)) /\
     arc_gradient s tr u = arc_gradient s tr 1).
Proof.
  intros s tr u.
  assert (A0 : arc_eval s tr 0 = arc_eval01 s tr 0).
  { unfold arc_eval. destruct (Rlt_dec 0 0); [lra|]. destruct (Rgt_dec 0 1); [lra|reflexivity]. }
  assert (A1 : arc_eval s tr 1 = arc_eval01 s tr 1).
  { unfold arc_eval. destruct (Rlt_dec 1 0); [lra|]. destruct (Rgt_dec 1 1); [lra|reflexivity]. }
  split; intros Hu.
  - split.
    + rewrite A0. unfold arc_eval. destruct (Rlt_dec u 0); [|lra]. cbv zeta. f_equal; ring.
    + unfold arc_gradient. cbv zeta. rewrite (clamp01R_lo u), (clamp01R_id 0) by lra. reflexivity.
  - split.
    + rewrite A1. unfold arc_eval. destruct (Rlt_dec u 0); [lra|]. destruct (Rgt_dec u 1); [|lra].
      cbv zeta. f_equal; ring.
    + unfold arc_gradient. cbv zeta. rewrite (clamp01R_hi u), (clamp01R_id 1) by lra. reflexivity.
Qed.

(* ================================================================== (iii) for the arc *)
Theorem arc_trafo_lemma : forall (s : arc_section) (tr : rtrafo) (u : R),
  0 <= u <= 1 ->
  arc_eval s tr u = aff_apply tr (arc_eval s rtrafo_id u) /\
  arc_gradient s tr u = lin_apply tr (arc_gradient s rtrafo_id u).
Proof.
  intros s tr u Hu.
  assert (Hid : forall p, aff_apply rtrafo_id p = p).
  { intros [x y]. unfold aff_apply, rtrafo_id. cbn. f_equal; ring. }
  assert (Hlid : forall p, lin_apply rtrafo_id p = p).
  { intros [x y]. unfold lin_apply, rtrafo_id. cbn. f_equal; ring. }
  split.
  - unfold arc_eval. destruct (Rlt_dec u 0); [lra|]. destruct (Rgt_dec u 1); [lra|].
    unfold arc_eval01. now rewrite Hid.
  - unfold arc_gradient, arc_gradient01. cbv zeta. now rewrite Hlid.
Qed.

(* ================================================================== (iv) circular arcs *)
Lemma lin_apply_similar tr k v : rt_similar tr k ->
  vlen_sq (lin_apply tr v) = k * k * vlen_sq v.
Proof.
  intros (H1 & H2 & H3). unfold vlen_sq, lin_apply. cbn [fst snd].
  destruct v as [x y]. cbn [fst snd].
  transitivity (x * x * (m0 tr * m0 tr + m3 tr * m3 tr) + y * y * (m1 tr * m1 tr + m4 tr * m4 tr)
                + 2 * x * y * (m0 tr * m1 tr + m3 tr * m4 tr)); [ring|].
  rewrite H1, H2, H3. ring.
Qed.

Lemma arc_grad_raw_len_sq s u : a_cr s * a_cr s + a_sr s * a_sr s = 1 ->
  vlen_sq (arc_grad_raw s u)
  = (a_af s - a_ai s) * (a_af s - a_ai s) *
    (a_rx s * a_rx s * (sin (rlerp (a_ai s) (a_af s) u) * sin (rlerp (a_ai s) (a_af s) u)) +
     a_ry s * a_ry s * (cos (rlerp (a_ai s) (a_af s) u) * cos (rlerp (a_ai s) (a_af s) u))).
Proof.
  intros Hrot. unfold vlen_sq, arc_grad_raw. cbv zeta. cbn [fst snd].
  set (a := rlerp (a_ai s) (a_af s) u). set (d := a_af s - a_ai s).
  transitivity ((a_cr s * a_cr s + a_sr s * a_sr s) *
                (d * d * (a_rx s * a_rx s * (sin a * sin a) + a_ry s * a_ry s * (cos a * cos a)))); [ring|].
  rewrite Hrot. ring.
Qed.

Lemma sqrt_sq_abs x : sqrt (x * x) = Rabs x.
Proof. apply sqrt_Rsqr_abs. Qed.

(* a circular arc (radius_x = radius_y = r, cos_rot / sin_rot a rotation) under a similarity of factor
   k: every point is at distance k r from the transformed centre and the gradient has length
   k r |angle_f - angle_i| (speed is constant: the parameter is proportional to arc length) *)
Theorem arc_circle_lemma : forall (s : arc_section) (tr : rtrafo) (k r u : R),
  a_rx s = r -> a_ry s = r -> a_cr s * a_cr s + a_sr s * a_sr s = 1 -> rt_similar tr k ->
  0 <= k -> 0 <= r -> 0 <= u <= 1 ->
  let c := aff_apply tr (a_cx s, a_cy s) in
  let p := arc_eval s tr u in
  let g := arc_gradient s tr u in
  vlen (fst p - fst c, snd p - snd c) = k * r /\
  vlen g = k * r * Rabs (a_af s - a_ai s) /\
  vdotR (fst p - fst c, snd p - snd c) g = 0.
Proof.
  intros s tr k r u Hrx Hry Hrot Hsim Hk Hr Hu c p g.
  destruct (arc_gradient_is_derivative_01 s tr u Hu) as (Ep & Eg & _).
  unfold p, g. rewrite Ep, Eg. clear p g Ep Eg.
  set (a := rlerp (a_ai s) (a_af s) u).
  pose proof (sin2_cos2 a) as Hsc. unfold Rsqr in Hsc.
  (* the radius vector is the linear part applied to r Rot (cos a, sin a) *)
  set (w := (r * cos a * a_cr s - r * sin a * a_sr s, r * cos a * a_sr s + r * sin a * a_cr s)).
  assert (Ew : (fst (arc_eval01 s tr u) - fst c, snd (arc_eval01 s tr u) - snd c) = lin_apply tr w).
  { unfold c, arc_eval01, aff_apply, lin_apply, arc_point_raw, w. cbv zeta. cbn [fst snd].
    fold a. rewrite Hrx, Hry. f_equal; ring. }
  assert (Hw : vlen_sq w = r * r).
  { unfold vlen_sq, w. cbn [fst snd].
    transitivity (r * r * (a_cr s * a_cr s + a_sr s * a_sr s) * (sin a * sin a + cos a * cos a)); [ring|].
    rewrite Hrot, Hsc. ring. }
  split; [|split].
  - rewrite Ew. unfold vlen. rewrite (lin_apply_similar tr k w Hsim), Hw.
    replace (k * k * (r * r)) with ((k * r) * (k * r)) by ring.
    rewrite sqrt_sq_abs. apply Rabs_pos_eq. apply Rmult_le_pos; assumption.
  - unfold vlen, arc_gradient01. rewrite (lin_apply_similar tr k _ Hsim), (arc_grad_raw_len_sq s u Hrot).
    fold a. rewrite Hrx, Hry.
    set (d := a_af s - a_ai s).
    replace (k * k * (d * d * (r * r * (sin a * sin a) + r * r * (cos a * cos a))))
      with ((k * r * d) * (k * r * d) * (sin a * sin a + cos a * cos a)) by ring.
    rewrite Hsc, Rmult_1_r, sqrt_sq_abs, !Rabs_mult, (Rabs_pos_eq k), (Rabs_pos_eq r) by assumption.
    reflexivity.
  - (* radius and tangent are orthogonal, also after the similarity *)
    rewrite Ew. unfold arc_gradient01.
    destruct Hsim as (H1 & H2 & H3).
    unfold vdotR, lin_apply, arc_grad_raw, w. cbv zeta. cbn [fst snd]. fold a. rewrite Hrx, Hry.
    set (d := a_af s - a_ai s). set (cr := a_cr s). set (sr := a_sr s).
    set (X := r * cos a * cr - r * sin a * sr). set (Y := r * cos a * sr + r * sin a * cr).
    set (GX := - r * d * sin a * cr - r * d * cos a * sr).
    set (GY := - r * d * sin a * sr + r * d * cos a * cr).
    transitivity (X * GX * (m0 tr * m0 tr + m3 tr * m3 tr) + Y * GY * (m1 tr * m1 tr + m4 tr * m4 tr)
                  + (X * GY + Y * GX) * (m0 tr * m1 tr + m3 tr * m4 tr)); [ring|].
    rewrite H1, H2, H3.
    replace (X * GX * (k * k) + Y * GY * (k * k) + (X * GY + Y * GX) * 0)
      with (k * k * (X * GX + Y * GY)) by ring.
    replace (X * GX + Y * GY) with 0; [ring|].
    unfold X, Y, GX, GY. ring.
Qed.

(* the same without transformation: distance r from `center`, |gradient| = r |angle_f - angle_i| *)
Corollary arc_circle_identity_lemma : forall (s : arc_section) (r u : R),
  a_rx s = r -> a_ry s = r -> a_cr s * a_cr s + a_sr s * a_sr s = 1 -> 0 <= r -> 0 <= u <= 1 ->
  let p := arc_eval s rtrafo_id u in
  vlen (fst p - a_cx s, snd p - a_cy s) = r /\
  vlen (arc_gradient s rtrafo_id u) = r * Rabs (a_af s - a_ai s).
Proof.
  intros s r u Hrx Hry Hrot Hr Hu p.
  assert (Hsim : rt_similar rtrafo_id 1).
  { unfold rt_similar, rtrafo_id. cbn. repeat split; ring. }
  destruct (arc_circle_lemma s rtrafo_id 1 r u Hrx Hry Hrot Hsim ltac:(lra) Hr Hu) as (H1 & H2 & _).
  assert (Ec : aff_apply rtrafo_id (a_cx s, a_cy s) = (a_cx s, a_cy s)).
  { unfold aff_apply, rtrafo_id. cbn. f_equal; ring. }
  rewrite Ec in H1. cbn [fst snd] in H1.
  split; [unfold p; rewrite H1; ring|rewrite H2; ring].
Qed.

(* ================================================================== (v) the normal *)
Lemma vlen_pos_iff v : 0 < vlen v <-> v <> (0, 0).
Proof.
  destruct v as [x y]. unfold vlen, vlen_sq. cbn [fst snd].
  pose proof (Rle_0_sqr x) as Hx. pose proof (Rle_0_sqr y) as Hy. unfold Rsqr in *.
  split.
  - intros H E. inversion E; subst. replace (0 * 0 + 0 * 0) with 0 in H by ring. rewrite sqrt_0 in H. lra.
  - intros H. apply sqrt_lt_R0.
    destruct (Req_dec x 0) as [Ex|Nx]; [destruct (Req_dec y 0) as [Ey|Ny]|].
    + subst. exfalso. apply H. reflexivity.
    + assert (0 < y * y) by (destruct (Rtotal_order y 0) as [?|[?|?]]; nra). lra.
    + assert (0 < x * x) by (destruct (Rtotal_order x 0) as [?|[?|?]]; nra). lra.
Qed.

(* ortho + normalize of a non-zero vector g: a unit vector, orthogonal to g, on its LEFT
   (g x n = |g| > 0: ortho is the rotation by +90 degrees) *)
Theorem vnormal_unit_lemma : forall g : rpt, g <> (0, 0) ->
  let n := vnormalize (vortho g) in
  vlen_sq n = 1 /\ vdotR g n = 0 /\ vcrossR g n = vlen g /\ 0 < vlen g.
Proof.
  intros g Hg n.
  assert (Hl : 0 < vlen g) by (apply vlen_pos_iff; exact Hg).
  assert (Ho : vlen (vortho g) = vlen g).
  { unfold vlen, vlen_sq, vortho. cbn [fst snd]. f_equal. ring. }
  assert (Hsq : vlen g * vlen g = vlen_sq g).
  { unfold vlen. apply sqrt_sqrt. unfold vlen_sq.
    pose proof (Rle_0_sqr (fst g)). pose proof (Rle_0_sqr (snd g)). unfold Rsqr in *. lra. }
  unfold n, vnormalize. cbv zeta. rewrite Ho.
  destruct (Rlt_dec 0 (vlen g)) as [_|C]; [|contradiction].
  unfold vlen_sq, vdotR, vcrossR, vortho in *. cbn [fst snd] in *.
  set (L := vlen g) in *.
  repeat split; try assumption.
  - replace (- snd g / L * (- snd g / L) + fst g / L * (fst g / L))
      with ((fst g * fst g + snd g * snd g) / (L * L)) by (field; lra).
    rewrite <- Hsq. field. lra.
  - field. lra.
  - replace (fst g * (fst g / L) - snd g * (- snd g / L))
      with ((fst g * fst g + snd g * snd g) / L) by (field; lra).
    rewrite <- Hsq. field. lra.
Qed.

(* the gradient of a non-degenerate arc never vanishes, so the normal above is defined everywhere *)
Theorem arc_gradient_nonzero_lemma : forall (s : arc_section) (tr : rtrafo) (u : R),
  a_rx s <> 0 -> a_ry s <> 0 -> a_af s <> a_ai s ->
  a_cr s * a_cr s + a_sr s * a_sr s = 1 -> rt_det tr <> 0 ->
  arc_gradient s tr u <> (0, 0).
Proof.
  intros s tr u Hrx Hry Hd Hrot Hdet E.
  unfold arc_gradient, arc_gradient01, lin_apply in E. cbv zeta in E.
  set (v := clamp01R u) in E.
  remember (arc_grad_raw s v) as g eqn:Eg. destruct g as [gx gy]. cbn [fst snd] in E.
  injection E as E1 E2.
  unfold rt_det in Hdet.
  (* the linear part is invertible *)
  assert (Gx : gx = 0).
  { assert (gx * (m0 tr * m4 tr - m1 tr * m3 tr) = 0).
    { transitivity (m4 tr * (gx * m0 tr + gy * m1 tr) - m1 tr * (gx * m3 tr + gy * m4 tr)); [ring|].
      rewrite E1, E2. ring. }
    apply Rmult_integral in H. destruct H; [assumption|contradiction]. }
  assert (Gy : gy = 0).
  { assert (gy * (m0 tr * m4 tr - m1 tr * m3 tr) = 0).
    { transitivity (m0 tr * (gx * m3 tr + gy * m4 tr) - m3 tr * (gx * m0 tr + gy * m1 tr)); [ring|].
      rewrite E1, E2. ring. }
    apply Rmult_integral in H. destruct H; [assumption|contradiction]. }
  subst gx gy.
  unfold arc_grad_raw in Eg. cbv zeta in Eg.
  set (a := rlerp (a_ai s) (a_af s) v) in Eg.
  set (dx := - a_rx s * (a_af s - a_ai s) * sin a) in Eg.
  set (dy := a_ry s * (a_af s - a_ai s) * cos a) in Eg.
  injection Eg as F1 F2.
  (* the rotation is invertible *)
  assert (Dx : dx = 0).
  { transitivity ((a_cr s * a_cr s + a_sr s * a_sr s) * dx); [rewrite Hrot; ring|].
    transitivity (a_cr s * (dx * a_cr s - dy * a_sr s) + a_sr s * (dx * a_sr s + dy * a_cr s)); [ring|].
    rewrite <- F1, <- F2. ring. }
  assert (Dy : dy = 0).
  { transitivity ((a_cr s * a_cr s + a_sr s * a_sr s) * dy); [rewrite Hrot; ring|].
    transitivity (a_cr s * (dx * a_sr s + dy * a_cr s) - a_sr s * (dx * a_cr s - dy * a_sr s)); [ring|].
    rewrite <- F1, <- F2. ring. }
  assert (Hdd : a_af s - a_ai s <> 0) by lra.
  assert (S0 : sin a = 0).
  { unfold dx in Dx. apply Rmult_integral in Dx. destruct Dx as [Dx|Dx]; [|exact Dx].
    apply Rmult_integral in Dx. destruct Dx as [Dx|Dx]; [|contradiction].
    exfalso. apply Hrx. lra. }
  assert (C0 : cos a = 0).
  { unfold dy in Dy. apply Rmult_integral in Dy. destruct Dy as [Dy|Dy]; [|exact Dy].
    apply Rmult_integral in Dy. destruct Dy as [Dy|Dy]; contradiction. }
  pose proof (sin2_cos2 a) as Hsc. unfold Rsqr in Hsc. rewrite S0, C0 in Hsc. lra.
Qed.

(* hence the spine normal of RobustPath::center_position is a unit vector orthogonal to the
   gradient, on its left, for every u *)
Theorem arc_spine_normal_unit_lemma : forall (s : arc_section) (tr : rtrafo) (u : R),
  a_rx s <> 0 -> a_ry s <> 0 -> a_af s <> a_ai s ->
  a_cr s * a_cr s + a_sr s * a_sr s = 1 -> rt_det tr <> 0 ->
  let g := arc_gradient s tr u in
  let n := arc_spine_normal s tr u in
  vlen_sq n = 1 /\ vdotR g n = 0 /\ vcrossR g n = vlen g /\ 0 < vlen g.
Proof.
  intros s tr u Hrx Hry Hd Hrot Hdet g n.
  apply vnormal_unit_lemma. apply arc_gradient_nonzero_lemma; assumption.
Qed.

(* the centre curve of a circular arc displaced by `offset_value` (RobustPath::center_position,
   identity trafo) is the concentric arc of radius r - sign(angle_f - angle_i) * offset_value at the
   same parameter angle: a positive offset lies on the LEFT of the direction of travel, i.e. towards
   the centre for a counter-clockwise arc *)
Theorem arc_circle_offset_lemma : forall (s : arc_section) (r off u : R),
  a_rx s = r -> a_ry s = r -> 0 < r -> a_af s <> a_ai s ->
  a_cr s * a_cr s + a_sr s * a_sr s = 1 -> 0 <= u <= 1 ->
  let a := rlerp (a_ai s) (a_af s) u in
  let sg := (a_af s - a_ai s) / Rabs (a_af s - a_ai s) in
  let rr := r - sg * off in
  arc_center_position s rtrafo_id off u
  = (a_cx s + (rr * cos a * a_cr s - rr * sin a * a_sr s),
     a_cy s + (rr * cos a * a_sr s + rr * sin a * a_cr s)).
Proof.
  intros s r off u Hrx Hry Hr Hd Hrot Hu a sg rr.
  assert (Hsim : rt_similar rtrafo_id 1).
  { unfold rt_similar, rtrafo_id. cbn. repeat split; ring. }
  destruct (arc_circle_lemma s rtrafo_id 1 r u Hrx Hry Hrot Hsim ltac:(lra) ltac:(lra) Hu)
    as (_ & Hlen & _).
  destruct (arc_gradient_is_derivative_01 s rtrafo_id u Hu) as (Ep & Eg & _).
  set (d := a_af s - a_ai s) in *.
  assert (Had : 0 < Rabs d) by (apply Rabs_pos_lt; unfold d; lra).
  unfold arc_center_position, arc_spine_normal. cbv zeta.
  set (g := arc_gradient s rtrafo_id u) in *.
  assert (Ho : vlen (vortho g) = vlen g).
  { unfold vlen, vlen_sq, vortho. cbn [fst snd]. f_equal. ring. }
  unfold vnormalize. cbv zeta. rewrite Ho, Hlen.
  destruct (Rlt_dec 0 (1 * r * Rabs d)) as [_|C]; [|exfalso; apply C; nra].
  assert (Gx : fst g = - r * d * sin a * a_cr s - r * d * cos a * a_sr s).
  { rewrite Eg. unfold arc_gradient01, lin_apply, arc_grad_raw, rtrafo_id. cbn.
    fold a d. rewrite Hrx, Hry. ring. }
  assert (Gy : snd g = - r * d * sin a * a_sr s + r * d * cos a * a_cr s).
  { rewrite Eg. unfold arc_gradient01, lin_apply, arc_grad_raw, rtrafo_id. cbn.
    fold a d. rewrite Hrx, Hry. ring. }
  clearbody g.
  rewrite Ep. unfold arc_eval01, aff_apply, arc_point_raw, rtrafo_id, vortho. cbn.
  fold a. rewrite Gx, Gy, Hrx, Hry. unfold rr, sg. fold d.
  f_equal; field; lra.
Qed.

(* ================================================================== (vi) constructors *)
(* RobustPath::arc: the new section starts at the current end point, the stored end point is the
   section's point at u = 1, cos_rot / sin_rot are a rotation, and the angles are relative to it *)
Theorem rp_arc_lemma : forall (ep : rpt) (rx ry ia fa rot : R),
  let s := fst (rp_arc ep rx ry ia fa rot) in
  let ep' := snd (rp_arc ep rx ry ia fa rot) in
  arc_eval s rtrafo_id 0 = ep /\ arc_eval s rtrafo_id 1 = ep' /\
  a_cr s * a_cr s + a_sr s * a_sr s = 1 /\
  a_af s - a_ai s = fa - ia /\ a_rx s = rx /\ a_ry s = ry.
Proof.
  intros ep rx ry ia fa rot s ep'.
  destruct (arc_endpoints_lemma s rtrafo_id) as [E0 E1]. rewrite E0, E1.
  unfold s, ep', rp_arc, arc_at_angle, aff_apply, rtrafo_id. cbn.
  destruct ep as [ex ey]. cbn [fst snd].
  repeat split.
  - f_equal; ring.
  - f_equal; ring.
  - pose proof (sin2_cos2 rot) as H. unfold Rsqr in H. lra.
  - ring.
Qed.

(* RobustPath::turn: the arc starts in the direction phi of the previous section (for either sign
   of the angle), with speed radius * |angle| *)
Theorem rp_turn_tangent_lemma : forall (ep : rpt) (phi radius angle : R),
  let s := fst (rp_turn ep phi radius angle) in
  arc_gradient s rtrafo_id 0
  = (radius * Rabs angle * cos phi, radius * Rabs angle * sin phi) /\
  arc_eval s rtrafo_id 0 = ep /\ a_rx s = radius /\ a_ry s = radius.
Proof.
  intros ep phi radius angle s.
  split; [|split; [|split; reflexivity]].
  - unfold arc_gradient. cbv zeta. rewrite clamp01R_id by lra.
    unfold s, rp_turn, rp_arc, arc_gradient01, lin_apply, arc_grad_raw, rlerp, rtrafo_id. cbn.
    rewrite cos_0, sin_0.
    destruct (Rlt_dec angle 0) as [Hn|Hp].
    + rewrite (Rabs_left angle) by exact Hn.
      replace ((phi + / 2 * PI - 0) * (1 - 0) + (phi + / 2 * PI + angle - 0) * 0) with (phi + PI / 2) by field.
      rewrite sin_plus, cos_plus, cos_PI2, sin_PI2. f_equal; ring.
    + rewrite (Rabs_right angle) by lra.
      replace ((phi + - / 2 * PI - 0) * (1 - 0) + (phi + - / 2 * PI + angle - 0) * 0) with (phi - PI / 2) by field.
      rewrite sin_minus, cos_minus, cos_PI2, sin_PI2. f_equal; ring.
  - unfold s, rp_turn. apply (rp_arc_lemma ep radius radius).
Qed.

(* ================================================================== examples *)
(* the hypotheses are satisfiable on a non-trivial input: the quarter circle of radius 2 around the
   origin from angle 0 to pi/2, rotation 0, scaled by 3: the point at u = 1 is (0, 6), the gradient
   there is (-3 pi, 0), its length 3 * 2 * pi/2 *)
Example arc_example :
  let s := mkArc 0 0 2 2 0 (PI / 2) 1 0 in
  let tr := mkRT 3 0 0 0 3 0 in
  arc_eval s tr 1 = (0, 6) /\ arc_gradient s tr 1 = (- (3 * PI), 0) /\
  rt_similar tr 3 /\ arc_gradient s tr 1 <> (0, 0).
Proof.
  intros s tr.
  assert (E : rlerp 0 (PI / 2) 1 = PI / 2) by (unfold rlerp; field).
  repeat split.
  - destruct (arc_endpoints_lemma s tr) as [_ E1]. rewrite E1.
    unfold arc_at_angle, aff_apply, s, tr. cbn. rewrite cos_PI2, sin_PI2. f_equal; ring.
  - unfold arc_gradient. cbv zeta. rewrite clamp01R_id by lra.
    unfold arc_gradient01, lin_apply, arc_grad_raw, s, tr. cbn. rewrite E, cos_PI2, sin_PI2.
    f_equal; field.
  - unfold tr. cbn. ring.
  - unfold tr. cbn. ring.
  - unfold tr. cbn. ring.
  - apply arc_gradient_nonzero_lemma; unfold s, tr, rt_det; cbn; try lra.
    pose proof PI_RGT_0. lra.
Qed.
