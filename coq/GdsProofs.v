(* Theorems about the GDSII reader / writer models (C01, C03, C17). *)
Require Import Base GdsFrame GdsFrameProofs GdsModel GdsWrite.
From Coq Require Import ZArith Lia ZifyBool ZifyN ZifyNat.
Local Open Scope N_scope.

(* ================================================================== C17: tag filter commutes *)
Definition filter_cell (ts : list (Z * Z)) (c : gcell) : gcell :=
  {| c_name := c_name c;
     c_polys := filter (fun p => tag_sel ts (p_layer p) (p_type p)) (c_polys c);
     c_paths := filter (fun h => tag_sel ts (h_layer h) (h_type h)) (c_paths c);
     c_refs := c_refs c; c_labels := c_labels c |}.
Definition filter_lib (ts : list (Z * Z)) (l : glib) : glib :=
  {| g_name := g_name l; g_units := g_units l; g_cells := map (filter_cell ts) (g_cells l) |}.
Definition filter_cur ts (c : option (gcell * bool)) : option (gcell * bool) :=
  match c with Some (c, b) => Some (filter_cell ts c, b) | None => None end.
Definition filter_state ts (st : rstate) : rstate :=
  {| s_name := s_name st; s_units := s_units st; s_done := map (filter_cell ts) (s_done st);
     s_cur := filter_cur ts (s_cur st); s_open := s_open st; s_width := s_width st; s_key := s_key st;
     s_path_started := s_path_started st |}.
Definition filter_sres ts (x : sres) : sres :=
  match x with SCont st => SCont (filter_state ts st) | SRet l => SRet (filter_lib ts l) | SCrash => SCrash end.

Lemma commit_filter ts c e : commit (Some ts) (filter_cell ts c) e = filter_cell ts (commit None c e).
Proof.
  destruct e as [p|h|r|l]; unfold commit, filter_cell; cbn [c_name c_polys c_paths c_refs c_labels].
  - rewrite filter_app. cbn [filter].
    destruct (tag_sel ts (p_layer p) (p_type p)); [reflexivity|]. rewrite app_nil_r. reflexivity.
  - rewrite filter_app. cbn [filter].
    destruct (tag_sel ts (h_layer h) (h_type h)); [reflexivity|]. rewrite app_nil_r. reflexivity.
  - reflexivity.
  - reflexivity.
Qed.

Lemma flush_cur_filter ts st : flush_cur (filter_state ts st) = map (filter_cell ts) (flush_cur st).
Proof.
  unfold flush_cur, filter_state. cbn [s_cur s_done]. destruct (s_cur st) as [[c [|]]|]; cbn [filter_cur];
    try reflexivity. rewrite map_app. reflexivity.
Qed.

Lemma step_filter ts st r :
  step_gds (Some ts) (filter_state ts st) r = filter_sres ts (step_gds None st r).
Proof.
  pose proof (flush_cur_filter ts st) as Hfl.
  unfold step_gds. destruct st as [nm un dn cu op wd ky ps].
  unfold filter_state, flush_cur in *.
  cbn [s_name s_units s_done s_cur s_open s_width s_key s_path_started] in *.
  destruct (kind_of (rtype r));
    cbn [filter_state s_name s_units s_done s_cur s_open s_width s_key s_path_started with_open with_cur
         with_name with_units with_done with_width with_key with_started filter_sres filter_cur filter_lib
         g_name g_units g_cells];
    try reflexivity.
  - (* ENDLIB *) rewrite Hfl. reflexivity.
  - (* BGNSTR *) rewrite Hfl. reflexivity.
  - (* STRNAME *) destruct cu as [[c b]|]; reflexivity.
  - (* LAYER *) destruct op as [[p|h|rf|l]|]; reflexivity.
  - (* DATATYPE *) destruct op as [[p|h|rf|l]|]; reflexivity.
  - (* WIDTH *) destruct op as [[p|h|rf|l]|]; reflexivity.
  - (* XY *) destruct op as [[p|h|rf|l]|]; reflexivity.
  - (* ENDEL *) destruct op as [[p|h|rf|l]|]; try reflexivity;
      try (destruct (drop_closing (p_pts p)); [|reflexivity]);
      (destruct cu as [[c b]|]; [|reflexivity]);
      cbn [filter_cur filter_sres filter_state with_open with_cur s_name s_units s_done s_cur s_open s_width s_key s_path_started];
      rewrite commit_filter; reflexivity.
  - destruct op as [[p|h|rf|l]|]; reflexivity.
  - destruct op as [[p|h|rf|l]|]; reflexivity.
  - destruct op as [[p|h|rf|l]|]; reflexivity.
  - destruct op as [[p|h|rf|l]|]; reflexivity.
  - destruct op as [[p|h|rf|l]|]; reflexivity.
  - destruct op as [[p|h|rf|l]|]; reflexivity.
  - destruct op as [[p|h|rf|l]|]; reflexivity.
  - destruct op as [[p|h|rf|l]|]; reflexivity.
  - destruct op as [[p|h|rf|l]|]; reflexivity.
  - destruct op as [e|]; reflexivity.
  - destruct op as [[p|h|rf|l]|]; reflexivity.
  - destruct op as [[p|h|rf|l]|]; reflexivity.
Qed.

Definition omap {A B} (f : A -> B) (o : outcome A) : outcome B :=
  match o with Ok a => Ok (f a) | ErrEof => ErrEof | ErrOverflow => ErrOverflow | ErrInvalid => ErrInvalid
          | Crash => Crash | Hang => Hang end.

Lemma loop_filter ts fuel : forall st bs,
  reader_loop rstate (option glib) (step_for_loop (Some ts)) fuel (filter_state ts st) bs =
  omap (fun '(r, rest) => (option_map (filter_lib ts) r, rest))
       (reader_loop rstate (option glib) (step_for_loop None) fuel st bs).
Proof.
  induction fuel as [|f IH]; intros st bs; cbn [reader_loop omap]; [reflexivity|].
  destruct (next_record bs) as [[r rest]| | | | |]; cbn [omap]; try reflexivity.
  unfold step_for_loop. rewrite step_filter.
  destruct (step_gds None st r) as [st'|l|]; cbn [filter_sres omap option_map]; [apply IH|reflexivity|reflexivity].
Qed.

Theorem filter_commutes_lemma ts bs :
  read_gds_model (Some ts) bs = omap (filter_lib ts) (read_gds_model None bs).
Proof.
  unfold read_gds_model, reader.
  change init_state with (filter_state ts init_state) at 1.
  rewrite loop_filter.
  destruct (reader_loop rstate (option glib) (step_for_loop None) (S (length bs)) init_state bs)
    as [[[l|] rest]| | | | |]; reflexivity.
Qed.

(* what the filter compares: a LAYER field 0x8001 is stored as 4294934529 (sign-extended into a uint32); a filter tag
   with that number selects it, one with 32769 does not, and small tags behave as before *)
Example tag_sel_wide :
  tag_sel [(4294934529, 0)%Z] (-32767) 0 = true /\ tag_sel [(32769, 0)%Z] (-32767) 0 = false /\
  tag_sel [(5, 7)%Z] 5 7 = true /\ tag_sel [(5, 7)%Z] 5 8 = false.
Proof. vm_compute. repeat split; reflexivity. Qed.

(* ================================================================== C17: timestamps are not read by the loader *)
(* The loader ignores the payload of BGNLIB (1) and BGNSTR (5) records: rewriting it changes nothing *)
Lemma step_ignores_timestamps f st r p' :
  rtype r = 1 \/ rtype r = 5 ->
  step_gds f st {| rtype := rtype r; dtype := dtype r; payload := p' |} = step_gds f st r.
Proof.
  intros [H|H]; unfold step_gds; cbn [rtype dtype payload]; rewrite H; reflexivity.
Qed.
