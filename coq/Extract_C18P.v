(* extraction of the model of oas_precision (unit c18p) *)
Require Import Base OasisInt OasisSpec OasisRead GdsReal OasisReal OasisPrecision.
Require Import Extraction ExtrOcamlBasic.
Extraction Blacklist List String Int.
Extraction "../ocaml/extracted/c18p.ml" oas_precision_model Z.of_N.
