(* Winding.v -- exact integer decision procedures used as the specification-side oracle of the
   Tier-B geometry properties (C05 boolean, C12 fracture/slice, C13 offset):
     wn              crossing-sum winding number with the half-open rule
     on_boundary     point on some edge
     shoelace2       twice the signed area
     covers          a group covers a point when one of its polygons has non-zero winding there
     seg_closer_than squared point-segment distance < r2, decided in integers (projection split)
   Definitions only; the theorems are in WindingProofs.v.  Everything is over Z*Z: the harness
   converts the implementation's doubles EXACTLY to a common integer grid before calling these. *)
From Coq Require Import List ZArith Bool Lia.
Import ListNotations.
Open Scope Z_scope.

Definition point := (Z * Z)%type.
Definition polygon := list point.

(* ------------------------------------------------------------------ sums over a cyclic list *)
Section Cyc.
  Context {A : Type}.

  (* sum of f over consecutive pairs of an open vertex list *)
  Fixpoint path_sum (f : A -> A -> Z) (l : list A) : Z :=
    match l with
    | a :: ((b :: _) as t) => f a b + path_sum f t
    | _ => 0
    end.

  (* sum of f over the consecutive pairs of the closed list (last vertex connects to the first) *)
  Definition cyc_sum (f : A -> A -> Z) (l : list A) : Z :=
    match l with
    | [] => 0
    | a :: _ => path_sum f (l ++ [a])
    end.

  Fixpoint path_exists (g : A -> A -> bool) (l : list A) : bool :=
    match l with
    | a :: ((b :: _) as t) => g a b || path_exists g t
    | _ => false
    end.

  Definition cyc_exists (g : A -> A -> bool) (l : list A) : bool :=
    match l with
    | [] => false
    | a :: _ => path_exists g (l ++ [a])
    end.
End Cyc.

(* ------------------------------------------------------------------ orientation, winding *)
(* cross product (b-a) x (p-a): > 0 when p is strictly to the left of the directed line a->b *)
Definition orient (a b p : point) : Z :=
  (fst b - fst a) * (snd p - snd a) - (fst p - fst a) * (snd b - snd a).

(* contribution of the directed edge a->b to the winding number around p.
   Half-open rule: an upward edge counts for  a.y <= p.y < b.y, a downward one for
   b.y <= p.y < a.y; horizontal edges never count. *)
Definition w (p a b : point) : Z :=
  if snd a <=? snd p then
    if snd p <? snd b then (if 0 <? orient a b p then 1 else 0) else 0
  else
    if snd b <=? snd p then (if orient a b p <? 0 then -1 else 0) else 0.

Definition wn (poly : polygon) (p : point) : Z := cyc_sum (w p) poly.

Definition on_seg (p a b : point) : bool :=
  (orient a b p =? 0)
  && (Z.min (fst a) (fst b) <=? fst p) && (fst p <=? Z.max (fst a) (fst b))
  && (Z.min (snd a) (snd b) <=? snd p) && (snd p <=? Z.max (snd a) (snd b)).

Definition on_boundary (poly : polygon) (p : point) : bool := cyc_exists (on_seg p) poly.

(* twice the signed area (positive = counter-clockwise) *)
Definition shoe (a b : point) : Z := fst a * snd b - fst b * snd a.
Definition shoelace2 (poly : polygon) : Z := cyc_sum shoe poly.

(* L1 length of the boundary: an upper bound of the perimeter, used for rounding allowances *)
Definition l1 (a b : point) : Z := Z.abs (fst b - fst a) + Z.abs (snd b - snd a).
Definition perim1 (poly : polygon) : Z := cyc_sum l1 poly.

Definition inside (poly : polygon) (p : point) : bool := negb (wn poly p =? 0).
Definition covers (group : list polygon) (p : point) : bool := existsb (fun g => inside g p) group.

Definition zsum (l : list Z) : Z := fold_right Z.add 0 l.
(* sum of the winding numbers of the polygons of a group *)
Definition wn_sum (group : list polygon) (p : point) : Z := zsum (map (fun g => wn g p) group).
(* number of polygons of the group that cover p *)
Definition cover_count (group : list polygon) (p : point) : Z :=
  zsum (map (fun g => if inside g p then 1 else 0) group).

(* ------------------------------------------------------------------ exact distance tests *)
(* dist(p, segment ab)^2 < r2 ?   t = (p-a).(b-a) is the projection parameter times |b-a|^2. *)
Definition seg_closer_than (p a b : point) (r2 : Z) : bool :=
  let dx := fst b - fst a in
  let dy := snd b - snd a in
  let vx := fst p - fst a in
  let vy := snd p - snd a in
  let t := vx * dx + vy * dy in
  let L := dx * dx + dy * dy in
  if t <=? 0 then vx * vx + vy * vy <? r2
  else if L <=? t then
    (let ux := fst p - fst b in let uy := snd p - snd b in ux * ux + uy * uy <? r2)
  else
    (let c := dx * vy - dy * vx in c * c <? r2 * L).

Definition poly_closer_than (p : point) (poly : polygon) (r2 : Z) : bool :=
  cyc_exists (fun a b => seg_closer_than p a b r2) poly.

(* cheap necessary condition (bounding box of the edge inflated by r), so that the multiplications
   are only done for nearby edges; seg_near_lemma shows it does not change the answer *)
Definition seg_near_box (p a b : point) (r : Z) : bool :=
  (Z.min (fst a) (fst b) - r <? fst p) && (fst p <? Z.max (fst a) (fst b) + r)
  && (Z.min (snd a) (snd b) - r <? snd p) && (snd p <? Z.max (snd a) (snd b) + r).

Definition seg_near (p a b : point) (r : Z) : bool :=
  seg_near_box p a b r && seg_closer_than p a b (r * r).

Definition poly_near (p : point) (poly : polygon) (r : Z) : bool :=
  cyc_exists (fun a b => seg_near p a b r) poly.

Definition group_near (p : point) (group : list polygon) (r : Z) : bool :=
  existsb (fun g => poly_near p g r) group.

(* the point of the segment at parameter n/d (0 <= n <= d), scaled by d, and its squared
   distance to p scaled by d^2: the specification seg_closer_than is proved against *)
Definition dist2_at (p a b : point) (n d : Z) : Z :=
  let ex := d * (fst p - fst a) - n * (fst b - fst a) in
  let ey := d * (snd p - snd a) - n * (snd b - snd a) in
  ex * ex + ey * ey.

Definition closer_spec (p a b : point) (r2 : Z) : Prop :=
  exists n d, 0 < d /\ 0 <= n <= d /\ dist2_at p a b n d < r2 * (d * d).

(* the squared distance itself as a fraction num/den (den > 0) *)
Definition seg_dist2 (p a b : point) : Z * Z :=
  let dx := fst b - fst a in
  let dy := snd b - snd a in
  let vx := fst p - fst a in
  let vy := snd p - snd a in
  let t := vx * dx + vy * dy in
  let L := dx * dx + dy * dy in
  if t <=? 0 then (vx * vx + vy * vy, 1)
  else if L <=? t then
    (let ux := fst p - fst b in let uy := snd p - snd b in (ux * ux + uy * uy, 1))
  else
    (let c := dx * vy - dy * vx in (c * c, L)).
