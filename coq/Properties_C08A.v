(* C08A (second proof file of C08) - the Arc section of a RobustPath over the reals: SubPath::eval /
   SubPath::gradient for SubPathType::Arc, the spine normal, RobustPath::arc / turn.
   Theorem-only file: every proof is `exact <lemma>`; Print Assumptions under each. *)
From Coq Require Import Reals.
Set Warnings "-ambiguous-paths".   (* Coquelicot declares Rbar coercions that trigger it on every load *)
From Coquelicot Require Import Coquelicot.
Require Import ArcSection ArcSectionProofs.
Local Open Scope R_scope.

(* SubPath::gradient is the derivative of SubPath::eval at EVERY real parameter (inside [0,1], at the
   ends, on the linear continuation), any radii / angles / cos_rot / sin_rot / trafo *)
Theorem arc_gradient_is_derivative : forall (s : arc_section) (tr : rtrafo) (u : R),
  is_derive (fun t => fst (arc_eval s tr t)) u (fst (arc_gradient s tr u)) /\
  is_derive (fun t => snd (arc_eval s tr t)) u (snd (arc_gradient s tr u)).
Proof. exact arc_gradient_is_derivative_lemma. Qed.
Print Assumptions arc_gradient_is_derivative.

(* on [0,1] eval is the closed formula, the clamp is the identity, and the derivative is the closed gradient formula *)
Theorem arc_gradient_is_derivative_unit_interval : forall (s : arc_section) (tr : rtrafo) (u : R),
  0 <= u <= 1 ->
  arc_eval s tr u = arc_eval01 s tr u /\ arc_gradient s tr u = arc_gradient01 s tr u /\
  is_derive (fun t => fst (arc_eval s tr t)) u (fst (arc_gradient01 s tr u)) /\
  is_derive (fun t => snd (arc_eval s tr t)) u (snd (arc_gradient01 s tr u)).
Proof. exact arc_gradient_is_derivative_01. Qed.
Print Assumptions arc_gradient_is_derivative_unit_interval.

(* the gradient is continuous on the whole line: the section with its continuation is C1 *)
Theorem arc_gradient_continuous : forall (s : arc_section) (tr : rtrafo) (u : R),
  continuous (fun t => fst (arc_gradient s tr t)) u /\
  continuous (fun t => snd (arc_gradient s tr t)) u.
Proof. exact arc_gradient_continuous_lemma. Qed.
Print Assumptions arc_gradient_continuous.

(* end points: the points of the ellipse at angle_i and angle_f, transformed *)
Theorem arc_endpoints : forall (s : arc_section) (tr : rtrafo),
  arc_eval s tr 0 = aff_apply tr (arc_at_angle s (a_ai s)) /\
  arc_eval s tr 1 = aff_apply tr (arc_at_angle s (a_af s)).
Proof. exact arc_endpoints_lemma. Qed.
Print Assumptions arc_endpoints.

(* outside [0,1]: the tangent line at the nearer end, constant gradient *)
Theorem arc_continuation : forall (s : arc_section) (tr : rtrafo) (u : R),
  (u < 0 ->
     arc_eval s tr u = (fst (arc_eval s tr 0) + u * fst (arc_gradient s tr 0),
                        snd (arc_eval s tr 0) + u * snd (arc_gradient s tr 0)) /\
     arc_gradient s tr u = arc_gradient s tr 0) /\
  (1 < u ->
     arc_eval s tr u = (fst (arc_eval s tr 1) + (u - 1) * fst (arc_gradient s tr 1),
                        snd (arc_eval s tr 1) + (u - 1) * snd (arc_gradient s tr 1)) /\
     arc_gradient s tr u = arc_gradient s tr 1).
Proof. exact arc_continuation_lemma. Qed.
Print Assumptions arc_continuation.

(* any curve: eval under the affine trafo has the linear part of trafo applied to the gradient *)
Theorem trafo_derive : forall (fx fy : R -> R) (tr : rtrafo) (u dx dy : R),
  is_derive fx u dx -> is_derive fy u dy ->
  is_derive (fun t => fst (aff_apply tr (fx t, fy t))) u (fst (lin_apply tr (dx, dy))) /\
  is_derive (fun t => snd (aff_apply tr (fx t, fy t))) u (snd (lin_apply tr (dx, dy))).
Proof. exact trafo_derive_lemma. Qed.
Print Assumptions trafo_derive.

(* for the arc: eval / gradient with trafo = trafo applied to eval / gradient without *)
Theorem arc_trafo : forall (s : arc_section) (tr : rtrafo) (u : R),
  0 <= u <= 1 ->
  arc_eval s tr u = aff_apply tr (arc_eval s rtrafo_id u) /\
  arc_gradient s tr u = lin_apply tr (arc_gradient s rtrafo_id u).
Proof. exact arc_trafo_lemma. Qed.
Print Assumptions arc_trafo.

(* circular arc under a similarity of factor k: distance k r from the transformed centre, speed k r |angle_f - angle_i|, radius orthogonal to tangent *)
Theorem arc_circle : forall (s : arc_section) (tr : rtrafo) (k r u : R),
  a_rx s = r -> a_ry s = r -> a_cr s * a_cr s + a_sr s * a_sr s = 1 -> rt_similar tr k ->
  0 <= k -> 0 <= r -> 0 <= u <= 1 ->
  let c := aff_apply tr (a_cx s, a_cy s) in
  let p := arc_eval s tr u in
  let g := arc_gradient s tr u in
  vlen (fst p - fst c, snd p - snd c) = k * r /\
  vlen g = k * r * Rabs (a_af s - a_ai s) /\
  vdotR (fst p - fst c, snd p - snd c) g = 0.
Proof. exact arc_circle_lemma. Qed.
Print Assumptions arc_circle.

Theorem arc_circle_identity : forall (s : arc_section) (r u : R),
  a_rx s = r -> a_ry s = r -> a_cr s * a_cr s + a_sr s * a_sr s = 1 -> 0 <= r -> 0 <= u <= 1 ->
  let p := arc_eval s rtrafo_id u in
  vlen (fst p - a_cx s, snd p - a_cy s) = r /\
  vlen (arc_gradient s rtrafo_id u) = r * Rabs (a_af s - a_ai s).
Proof. exact arc_circle_identity_lemma. Qed.
Print Assumptions arc_circle_identity.

(* ortho + normalize of a non-zero gradient: unit, orthogonal, on the LEFT (g x n = |g| > 0) *)
Theorem vnormal_unit : forall g : rpt, g <> (0, 0) ->
  let n := vnormalize (vortho g) in
  vlen_sq n = 1 /\ vdotR g n = 0 /\ vcrossR g n = vlen g /\ 0 < vlen g.
Proof. exact vnormal_unit_lemma. Qed.
Print Assumptions vnormal_unit.

(* the gradient of a non-degenerate arc under an invertible trafo never vanishes *)
Theorem arc_gradient_nonzero : forall (s : arc_section) (tr : rtrafo) (u : R),
  a_rx s <> 0 -> a_ry s <> 0 -> a_af s <> a_ai s ->
  a_cr s * a_cr s + a_sr s * a_sr s = 1 -> rt_det tr <> 0 ->
  arc_gradient s tr u <> (0, 0).
Proof. exact arc_gradient_nonzero_lemma. Qed.
Print Assumptions arc_gradient_nonzero.

(* the spine normal of center_position is the unit left normal at every u *)
Theorem arc_spine_normal_unit : forall (s : arc_section) (tr : rtrafo) (u : R),
  a_rx s <> 0 -> a_ry s <> 0 -> a_af s <> a_ai s ->
  a_cr s * a_cr s + a_sr s * a_sr s = 1 -> rt_det tr <> 0 ->
  let g := arc_gradient s tr u in
  let n := arc_spine_normal s tr u in
  vlen_sq n = 1 /\ vdotR g n = 0 /\ vcrossR g n = vlen g /\ 0 < vlen g.
Proof. exact arc_spine_normal_unit_lemma. Qed.
Print Assumptions arc_spine_normal_unit.

(* the offset curve of a circular arc is the concentric arc of radius r - sign(angle_f - angle_i) * offset *)
Theorem arc_circle_offset : forall (s : arc_section) (r off u : R),
  a_rx s = r -> a_ry s = r -> 0 < r -> a_af s <> a_ai s ->
  a_cr s * a_cr s + a_sr s * a_sr s = 1 -> 0 <= u <= 1 ->
  let a := rlerp (a_ai s) (a_af s) u in
  let sg := (a_af s - a_ai s) / Rabs (a_af s - a_ai s) in
  let rr := r - sg * off in
  arc_center_position s rtrafo_id off u
  = (a_cx s + (rr * cos a * a_cr s - rr * sin a * a_sr s),
     a_cy s + (rr * cos a * a_sr s + rr * sin a * a_cr s)).
Proof. exact arc_circle_offset_lemma. Qed.
Print Assumptions arc_circle_offset.

(* RobustPath::arc: starts at the current end point, stores eval(1) as the new one, cos_rot / sin_rot a rotation *)
Theorem rp_arc_correct : forall (ep : rpt) (rx ry ia fa rot : R),
  let s := fst (rp_arc ep rx ry ia fa rot) in
  let ep' := snd (rp_arc ep rx ry ia fa rot) in
  arc_eval s rtrafo_id 0 = ep /\ arc_eval s rtrafo_id 1 = ep' /\
  a_cr s * a_cr s + a_sr s * a_sr s = 1 /\
  a_af s - a_ai s = fa - ia /\ a_rx s = rx /\ a_ry s = ry.
Proof. exact rp_arc_lemma. Qed.
Print Assumptions rp_arc_correct.

(* RobustPath::turn starts along the direction phi of the previous section, for either sign of the angle *)
Theorem rp_turn_tangent : forall (ep : rpt) (phi radius angle : R),
  let s := fst (rp_turn ep phi radius angle) in
  arc_gradient s rtrafo_id 0
  = (radius * Rabs angle * cos phi, radius * Rabs angle * sin phi) /\
  arc_eval s rtrafo_id 0 = ep /\ a_rx s = radius /\ a_ry s = radius.
Proof. exact rp_turn_tangent_lemma. Qed.
Print Assumptions rp_turn_tangent.
