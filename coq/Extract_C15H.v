(* extraction of unit c15_hobby: the binary64 instances of gauss_jordan / hobby (Hobby.v, HobbyInst.v) on bit patterns
   and the exact-rational specification line of the gj cases *)
Require Import Base Hobby HobbyInst.
From Flocq Require Import Core BinarySingleNaN Binary Bits.
Require Import Extraction ExtrOcamlBasic.
Extraction Blacklist List String Int.
Extraction "../ocaml/extracted/c15_hobby.ml" Z.of_N gj64_bits hobby64_bits gj_exact_bits.
