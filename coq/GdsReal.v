(* Model of the GDSII 8-byte real codec of src/gdsii.cpp (gdsii_real_from_double,
   gdsii_real_to_double) on exact dyadic numbers, and of the byte swaps of src/utils.cpp
   (big_endian_swap16/32/64).  Definitions only; Z / N / Q, no floating point. *)
Require Import Base.
From Coq Require Import QArith.
Local Open Scope Z_scope.

(* ================================================================== dyadic numbers
   A positive double is m * 2^e with 2^52 <= m < 2^53 (normal) — the model takes any m > 0. *)
Definition Qpow2 (k : Z) : Q := Qpower (2 # 1) k.
Definition dyval (m e : Z) : Q := inject_Z m * Qpow2 e.

(* ================================================================== gdsii_real_to_double
     exponent = ((real & 0x7F00000000000000) >> 54) - 256;          = 4 * (e7 - 64)
     mantissa = (double)(real & 0x00FFFFFFFFFFFFFF) / 2^56;
     result   = mantissa * exp2(exponent);   return (real & 0x8000000000000000) ? -result : result;
   Exact value as (negative?, integer mantissa M, binary exponent k): value = +- M * 2^k. *)
Definition gds_exp_mask : N := 9151314442816847872.    (* 0x7F00000000000000 *)
Definition gds_mant_mask : N := 72057594037927935.     (* 0x00FFFFFFFFFFFFFF *)
Definition gds_sign_mask : N := 9223372036854775808.   (* 0x8000000000000000 *)

Definition gds_decode_dy (real : N) : bool * N * Z :=
  let exponent := Z.of_N (N.shiftr (N.land real gds_exp_mask) 54) - 256 in
  let mantissa := N.land real gds_mant_mask in
  ((0 <? N.land real gds_sign_mask)%N, mantissa, exponent - 56).

Definition gds_decode (real : N) : Q :=
  let '(neg, m, k) := gds_decode_dy real in
  if neg then - dyval (Z.of_N m) k else dyval (Z.of_N m) k.

(* what the C++ actually returns: `(double)mantissa` rounds a 56-bit integer to 53 significant bits
   (to nearest, ties to even); dividing by 2^56 and scaling by 2^exponent are exact (the results lie
   between 2^-312 and 2^252).  [round53 m] = the rounded integer. *)
Definition round53 (m : N) : N :=
  let k := (N.size m - 53)%N in           (* number of bits to drop; N.sub saturates at 0 *)
  if (k =? 0)%N then m
  else
    let q := N.shiftr m k in
    let r := N.land m (N.ones k) in
    let half := N.shiftl 1 (k - 1) in
    let q' := if (half <? r)%N || ((r =? half)%N && N.odd q) then (q + 1)%N else q in
    N.shiftl q' k.

Definition gds_to_double_dy (real : N) : bool * N * Z :=
  let '(neg, m, k) := gds_decode_dy real in (neg, round53 m, k).

(* ================================================================== gdsii_real_from_double
     if (value == 0) return 0;  sign -> u8_1 = 0x80, value = -value;
     int binary_exponent; frexp(value, &binary_exponent);      value in [2^(be-1), 2^be)
     exponent = ceil(0.25 * binary_exponent);
     mantissa = (uint64_t)(value * pow(16, 14 - exponent));
     u8_1 += (uint8_t)(64 + exponent);
     result = ((uint64_t)u8_1 << 56) | (mantissa & 0x00FFFFFFFFFFFFFF);
   value = m * 2^e > 0.  [gds_encode_with E] is the tail of the function for a given exponent E:
   value * 16^(14-E) is exact in a double (a power-of-two scaling of a normal number that stays
   normal), the cast truncates: floor (m * 2^(e + 4*(14-E))). *)
Definition gds_encode_with (E : Z) (neg : bool) (m e : Z) : N :=
  let mantissa := (Z.to_N (Z.shiftl m (e + 4 * (14 - E))) mod 2 ^ 64)%N in
  let u8_1 := (((if neg then 128 else 0) + Z.to_N ((64 + E) mod 256)) mod 256)%N in
  N.lor (N.shiftl u8_1 56) (N.land mantissa gds_mant_mask).

Definition gds_encode_zero : N := 0%N.

(* frexp: binary_exponent = e + (number of bits of m), also for denormal inputs (frexp normalises);
   0.25 * binary_exponent and ceil are exact.  ceil (b / 4) = floor ((b + 3) / 4).
   This is the exponent for which the stored mantissa lies in [2^52, 2^56) when m has 53 bits:
   16^(E-1) <= value < 16^E. *)
Definition frexp_exponent (m e : Z) : Z := e + Z.log2 m + 1.
Definition ideal_exponent (m e : Z) : Z := (frexp_exponent m e + 3) / 4.

(* the whole function on a non-zero double +- m * 2^e.  Outside 16^-65 <= value < 16^63 (in
   particular for denormal doubles) `(uint8_t)(64 + exponent)` is applied to a value outside
   0..255, which C++ leaves undefined: the theorems exclude that range explicitly. *)
Definition gds_encode (neg : bool) (m e : Z) : N := gds_encode_with (ideal_exponent m e) neg m e.

(* ================================================================== byte swaps (src/utils.cpp)
     swap16: (b << 8) | (b >> 8)                                            in uint16_t
     swap32: (b << 24) | ((b & 0x0000FF00) << 8) | ((b & 0x00FF0000) >> 8) | (b >> 24)
     swap64: (b << 56) | ((b & 0xFF00) << 40) | ((b & 0xFF0000) << 24) | ((b & 0xFF000000) << 8) |
             ((b & 0xFF00000000) >> 8) | ((b & 0xFF0000000000) >> 24) |
             ((b & 0xFF000000000000) >> 40) | (b >> 56)
   Left shifts are truncated to the width of the type. *)
Local Open Scope N_scope.
Definition swap16 (b : N) : N :=
  (N.lor (N.shiftl b 8) (N.shiftr b 8)) mod 2 ^ 16.   (* computed in int, stored in uint16_t *)

Definition swap32 (b : N) : N :=
  N.lor (N.lor (N.lor (N.shiftl b 24 mod 2 ^ 32)
                      (N.shiftl (N.land b 65280) 8 mod 2 ^ 32))
               (N.shiftr (N.land b 16711680) 8))
        (N.shiftr b 24).

Definition swap64 (b : N) : N :=
  N.lor (N.lor (N.lor (N.lor (N.lor (N.lor (N.lor
    (N.shiftl b 56 mod 2 ^ 64)
    (N.shiftl (N.land b 65280) 40 mod 2 ^ 64))
    (N.shiftl (N.land b 16711680) 24 mod 2 ^ 64))
    (N.shiftl (N.land b 4278190080) 8 mod 2 ^ 64))
    (N.shiftr (N.land b 1095216660480) 8))
    (N.shiftr (N.land b 280375465082880) 24))
    (N.shiftr (N.land b 71776119061217280) 40))
    (N.shiftr b 56).

(* specification: little-endian bytes of a value, and back *)
Fixpoint bytes_le (n : nat) (b : N) : list N :=
  match n with O => [] | S k => b mod 256 :: bytes_le k (b / 256) end.
Fixpoint of_bytes_le (l : list N) : N :=
  match l with [] => 0 | x :: t => x + 256 * of_bytes_le t end.

(* ================================================================== glue for the correspondence run *)
Local Open Scope Z_scope.
(* a finite non-zero IEEE binary64 pattern as (negative?, m, e), value = +- m * 2^e *)
Definition dbl_decompose (bits : N) : option (bool * Z * Z) :=
  let frac := Z.of_N (N.land bits (N.ones 52)) in
  let ex := Z.of_N (N.land (N.shiftr bits 52) (N.ones 11)) in
  let neg := N.testbit bits 63 in
  if ex =? 2047 then None                       (* infinity / NaN *)
  else if ex =? 0 then (if frac =? 0 then None else Some (neg, frac, -1074))
  else Some (neg, 2 ^ 52 + frac, ex - 1075).

(* the exponent byte 64 + E is a 7-bit value: 16^-65 <= value < 16^63 *)
Definition gds_in_range (m e : Z) : bool :=
  (-64 <=? ideal_exponent m e) && (ideal_exponent m e <=? 63).
