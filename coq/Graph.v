(* C16 model: the cell graph of a gdstk Library and the edits / queries of
   src/library.cpp, src/cell.cpp, src/rawcell.cpp.

   Identities.  A Cell* / RawCell* is modelled by the index of the object in a store
   (`l_cells`, `l_raws`): objects are numbered in creation order, an object is never freed
   during a history, so "pointer equality" is equality of indices.  A library is the pair of
   ordered arrays `cell_array`, `rawcell_array` (lists of indices) over that store; cells that
   are not (or no longer) in the arrays stay in the store, exactly as removed / replaced cells
   stay alive in the C++ (the library does not own them).

   Names are `N` identifiers (strcmp equality = N equality); tags are (layer, type) pairs. *)
Require Import Base.
From Coq Require Import List NArith Bool Arith Lia.
Import ListNotations.

Definition name := N.
Definition tag := (N * N)%type.

(* ReferenceType { Cell, RawCell, Name } and the union it discriminates *)
Inductive target : Type :=
| ToCell (c : nat)
| ToRaw (r : nat)
| ByName (s : name).

Record cell : Type := mkCell {
  c_name : name;
  c_refs : list target;     (* reference_array, in order *)
  c_ptags : list tag;       (* tags of polygon_array, then of every flexpath / robustpath element *)
  c_ltags : list tag        (* tags of label_array *)
}.

Record rawcell : Type := mkRaw {
  r_name : name;
  r_deps : list nat         (* RawCell::dependencies (RawCell* pointers) *)
}.

Record lib : Type := mkLib {
  l_cells : list cell;      (* store: every Cell object alive, by identity *)
  l_raws : list rawcell;    (* store: every RawCell object alive *)
  l_carr : list nat;        (* Library::cell_array *)
  l_rarr : list nat         (* Library::rawcell_array *)
}.

Definition dummy_cell : cell := mkCell 0%N [] [] [].
Definition dummy_raw : rawcell := mkRaw 0%N [].

(* Dereference.  Identities occurring in a state are always valid (invariant `ids_ok`, proved
   preserved in GraphProofs.v); the default is never reached from such states. *)
Definition cell_at (L : lib) (i : nat) : cell := nth i (l_cells L) dummy_cell.
Definition raw_at (L : lib) (r : nat) : rawcell := nth r (l_raws L) dummy_raw.
Definition cname (L : lib) (i : nat) : name := c_name (cell_at L i).
Definition rname (L : lib) (r : nat) : name := r_name (raw_at L r).

(* ------------------------------------------------------------------------------------------ *)
(* Array<T> helpers (include/gdstk/array.hpp)                                                   *)

Definition memb (x : nat) (l : list nat) : bool := existsb (Nat.eqb x) l.

(* items[index(old)] = new  (first occurrence; nothing when absent) *)
Fixpoint replace_first (old new : nat) (arr : list nat) : list nat :=
  match arr with
  | [] => []
  | x :: tl => if Nat.eqb x old then new :: tl else x :: replace_first old new tl
  end.

(* remove_unordered(index(old)):  items[index] = items[--count]  (nothing when absent) *)
Fixpoint remove_unordered (old : nat) (arr : list nat) : list nat :=
  match arr with
  | [] => []
  | x :: tl =>
      if Nat.eqb x old then
        match tl with
        | [] => []
        | _ :: _ => last tl 0 :: removelast tl
        end
      else x :: remove_unordered old tl
  end.

(* remove_item: ordered removal of the first occurrence *)
Fixpoint remove_item (x : nat) (arr : list nat) : list nat :=
  match arr with
  | [] => []
  | y :: tl => if Nat.eqb y x then tl else y :: remove_item x tl
  end.

(* ------------------------------------------------------------------------------------------ *)
(* Store updates: "for i < cell_array.count: for every reference of cell_array[i] ..."          *)

Fixpoint upd_at (f : cell -> cell) (i : nat) (st : list cell) : list cell :=
  match st, i with
  | [], _ => []
  | c :: tl, O => f c :: tl
  | c :: tl, S i' => c :: upd_at f i' tl
  end.

(* the loop over cell_array, in array order (a cell listed twice is visited twice) *)
Definition upd_members (f : cell -> cell) (arr : list nat) (st : list cell) : list cell :=
  fold_left (fun st i => upd_at f i st) arr st.

Definition map_refs (g : target -> target) (c : cell) : cell :=
  mkCell (c_name c) (map g (c_refs c)) (c_ptags c) (c_ltags c).

Definition set_name (nn : name) (c : cell) : cell :=
  mkCell nn (c_refs c) (c_ptags c) (c_ltags c).

(* ------------------------------------------------------------------------------------------ *)
(* get_cell / get_rawcell: first array entry with that name                                     *)

Fixpoint find_by (nm : nat -> name) (s : name) (arr : list nat) : option nat :=
  match arr with
  | [] => None
  | i :: tl => if N.eqb (nm i) s then Some i else find_by nm s tl
  end.

Definition get_cell (L : lib) (s : name) : option nat := find_by (cname L) s (l_carr L).
Definition get_rawcell (L : lib) (s : name) : option nat := find_by (rname L) s (l_rarr L).

(* ------------------------------------------------------------------------------------------ *)
(* Library::rename_cell                                                                        *)

(* body of the inner loop: Name references equal to old_name get new_name *)
Definition rename_ref (old_name new_name : name) (t : target) : target :=
  match t with
  | ByName s => if N.eqb s old_name then ByName new_name else t
  | _ => t
  end.

(* void Library::rename_cell(Cell* cell, const char* new_name) *)
Definition rename_cell_ptr (L : lib) (c : nat) (new_name : name) : lib :=
  let old_name := cname L c in
  let st1 := upd_members (map_refs (rename_ref old_name new_name)) (l_carr L) (l_cells L) in
  let st2 := upd_at (set_name new_name) c st1 in
  mkLib st2 (l_raws L) (l_carr L) (l_rarr L).

(* void Library::rename_cell(const char* old_name, const char* new_name) *)
Definition rename_cell_name (L : lib) (old_name new_name : name) : lib :=
  match get_cell L old_name with
  | Some c => rename_cell_ptr L c new_name
  | None => L
  end.

(* ------------------------------------------------------------------------------------------ *)
(* Library::replace_cell, four overloads.  The switch on ref->type of each overload is
   `retarget` with the overload's own tests: `mc` is the test applied to a ReferenceType::Cell
   reference, `mr` the test applied to a ReferenceType::RawCell reference, `nt` what a matching
   reference becomes; Name references equal to old_name are rewritten only when the names
   differ.  Cell / raw cell names are read during the loop but never written by it, so they are
   read from the state before the loop. *)

Definition retarget (mc mr : nat -> bool) (nt : target) (old_name new_name : name)
                    (t : target) : target :=
  match t with
  | ToCell c => if mc c then nt else t
  | ToRaw r => if mr r then nt else t
  | ByName s =>
      if negb (N.eqb old_name new_name) && N.eqb s old_name then ByName new_name else t
  end.

(* void Library::replace_cell(Cell* old_cell, Cell* new_cell) *)
Definition replace_cc (L : lib) (old new : nat) : lib :=
  let carr := replace_first old new (l_carr L) in
  let old_name := cname L old in
  let new_name := cname L new in
  let f := retarget (fun c => Nat.eqb c old)                   (* ref->cell == old_cell *)
                    (fun r => N.eqb (rname L r) old_name)      (* strcmp(ref->rawcell->name, old_name) == 0 *)
                    (ToCell new) old_name new_name in
  mkLib (upd_members (map_refs f) carr (l_cells L)) (l_raws L) carr (l_rarr L).

(* void Library::replace_cell(RawCell* old_cell, Cell* new_cell) *)
Definition replace_rc (L : lib) (old new : nat) : lib :=
  let found := memb old (l_rarr L) in
  let rarr := if found then remove_unordered old (l_rarr L) else l_rarr L in
  let carr := if found then l_carr L ++ [new] else l_carr L in
  let old_name := rname L old in
  let new_name := cname L new in
  let f := retarget (fun c => N.eqb (cname L c) old_name)      (* strcmp(ref->cell->name, old_name) == 0 *)
                    (fun r => Nat.eqb r old)                   (* ref->rawcell == old_cell *)
                    (ToCell new) old_name new_name in
  mkLib (upd_members (map_refs f) carr (l_cells L)) (l_raws L) carr rarr.

(* void Library::replace_cell(Cell* old_cell, RawCell* new_cell) *)
Definition replace_cr (L : lib) (old new : nat) : lib :=
  let found := memb old (l_carr L) in
  let carr := if found then remove_unordered old (l_carr L) else l_carr L in
  let rarr := if found then l_rarr L ++ [new] else l_rarr L in
  let old_name := cname L old in
  let new_name := rname L new in
  let f := retarget (fun c => Nat.eqb c old)
                    (fun r => N.eqb (rname L r) old_name)
                    (ToRaw new) old_name new_name in
  mkLib (upd_members (map_refs f) carr (l_cells L)) (l_raws L) carr rarr.

(* void Library::replace_cell(RawCell* old_cell, RawCell* new_cell) *)
Definition replace_rr (L : lib) (old new : nat) : lib :=
  let rarr := replace_first old new (l_rarr L) in
  let old_name := rname L old in
  let new_name := rname L new in
  let f := retarget (fun c => N.eqb (cname L c) old_name)
                    (fun r => Nat.eqb r old)
                    (ToRaw new) old_name new_name in
  mkLib (upd_members (map_refs f) (l_carr L) (l_cells L)) (l_raws L) (l_carr L) rarr.

(* ------------------------------------------------------------------------------------------ *)
(* TagMap and remap_tags                                                                       *)

Definition tag_eqb (a b : tag) : bool := N.eqb (fst a) (fst b) && N.eqb (snd a) (snd b).

(* A TagMap is given by the sequence of TagMap::set(key, value) calls that built it.  get(key)
   is the value of the last set for that key, the key itself when there is none (set(k, k)
   deletes the entry, and get then returns k: the same value). *)
Definition tagmap := list (tag * tag).
Definition tm_get (m : tagmap) (k : tag) : tag :=
  fold_left (fun acc kv => if tag_eqb (fst kv) k then snd kv else acc) m k.

(* void Cell::remap_tags(const TagMap& map) *)
Definition remap_cell (m : tagmap) (c : cell) : cell :=
  mkCell (c_name c) (c_refs c) (map (tm_get m) (c_ptags c)) (map (tm_get m) (c_ltags c)).

(* void Library::remap_tags(const TagMap& map) *)
Definition remap_tags (L : lib) (m : tagmap) : lib :=
  mkLib (upd_members (remap_cell m) (l_carr L) (l_cells L)) (l_raws L) (l_carr L) (l_rarr L).

(* ------------------------------------------------------------------------------------------ *)
(* Copies                                                                                      *)

(* Cell::copy_from(cell, new_name, deep_copy = true): Reference::copy_from copies the target
   pointer (or duplicates the name string) *)
Definition copy_cell (c : cell) (nn : option name) : cell :=
  mkCell (match nn with Some s => s | None => c_name c end) (c_refs c) (c_ptags c) (c_ltags c).

(* Library::copy_from(library, deep_copy): with deep_copy every member cell is duplicated (new
   identities, in array order) and the new array lists the duplicates; the duplicates'
   references keep the pointers of the originals.  rawcell_array is copied as is.  Without
   deep_copy both arrays are copied as they are. *)
Definition copy_lib (L : lib) (deep : bool) : lib :=
  if deep then
    let n := length (l_cells L) in
    let news := map (fun i => copy_cell (cell_at L i) None) (l_carr L) in
    mkLib (l_cells L ++ news) (l_raws L) (seq n (length (l_carr L))) (l_rarr L)
  else L.

(* ------------------------------------------------------------------------------------------ *)
(* Operations of a history                                                                     *)

Inductive op : Type :=
| OpNewCell (c : cell)                      (* allocate a cell (not inserted in the library) *)
| OpNewRaw (r : rawcell)                    (* allocate a raw cell (not inserted) *)
| OpCopyCell (src : nat) (nn : option name) (* new cell = Cell::copy_from(src, nn, true) *)
| OpAddCell (i : nat)                       (* cell_array.append(cell) *)
| OpAddRaw (r : nat)                        (* rawcell_array.append(rawcell) *)
| OpRemoveCell (i : nat)                    (* cell_array.remove_item(cell) *)
| OpRemoveRaw (r : nat)                     (* rawcell_array.remove_item(rawcell) *)
| OpRenamePtr (i : nat) (nn : name)
| OpRenameName (old nn : name)
| OpReplaceCC (old new : nat)
| OpReplaceRC (old new : nat)
| OpReplaceCR (old new : nat)
| OpReplaceRR (old new : nat)
| OpRemap (m : tagmap)
| OpCopyLib (deep : bool).                  (* continue with Library::copy_from(lib, deep) *)

Definition step (L : lib) (o : op) : lib :=
  match o with
  | OpNewCell c => mkLib (l_cells L ++ [c]) (l_raws L) (l_carr L) (l_rarr L)
  | OpNewRaw r => mkLib (l_cells L) (l_raws L ++ [r]) (l_carr L) (l_rarr L)
  | OpCopyCell src nn =>
      mkLib (l_cells L ++ [copy_cell (cell_at L src) nn]) (l_raws L) (l_carr L) (l_rarr L)
  | OpAddCell i => mkLib (l_cells L) (l_raws L) (l_carr L ++ [i]) (l_rarr L)
  | OpAddRaw r => mkLib (l_cells L) (l_raws L) (l_carr L) (l_rarr L ++ [r])
  | OpRemoveCell i => mkLib (l_cells L) (l_raws L) (remove_item i (l_carr L)) (l_rarr L)
  | OpRemoveRaw r => mkLib (l_cells L) (l_raws L) (l_carr L) (remove_item r (l_rarr L))
  | OpRenamePtr i nn => rename_cell_ptr L i nn
  | OpRenameName old nn => rename_cell_name L old nn
  | OpReplaceCC old new => replace_cc L old new
  | OpReplaceRC old new => replace_rc L old new
  | OpReplaceCR old new => replace_cr L old new
  | OpReplaceRR old new => replace_rr L old new
  | OpRemap m => remap_tags L m
  | OpCopyLib deep => copy_lib L deep
  end.

Definition run (ops : list op) (L : lib) : lib := fold_left step ops L.

(* ------------------------------------------------------------------------------------------ *)
(* Map<Cell*> / Map<RawCell*>: string-keyed map; set overwrites the value of an existing key   *)

Definition dmap := list (name * nat).

Fixpoint mget (k : name) (m : dmap) : option nat :=
  match m with
  | [] => None
  | (k', v) :: tl => if N.eqb k' k then Some v else mget k tl
  end.

Fixpoint mset (k : name) (v : nat) (m : dmap) : dmap :=
  match m with
  | [] => [(k, v)]
  | (k', v') :: tl => if N.eqb k' k then (k, v) :: tl else (k', v') :: mset k v tl
  end.

(* `result.get(x->name) != x` *)
Definition not_mapped (m : dmap) (k : name) (v : nat) : bool :=
  match mget k m with
  | Some v' => negb (Nat.eqb v' v)
  | None => true
  end.

(* ------------------------------------------------------------------------------------------ *)
(* Dependency queries.  `rec` stands for the recursive call; fuel exhausted = the C++ recursion
   does not end (stack exhaustion): Crash.                                                      *)

(* loop of Cell::get_dependencies over reference_array *)
Fixpoint deps_loop (L : lib) (rec : nat -> dmap -> outcome dmap) (recursive : bool)
                   (refs : list target) (m : dmap) : outcome dmap :=
  match refs with
  | [] => Ok m
  | ToCell j :: tl =>
      obind (if recursive && not_mapped m (cname L j) j then rec j m else Ok m)
            (fun m1 => deps_loop L rec recursive tl (mset (cname L j) j m1))
  | _ :: tl => deps_loop L rec recursive tl m
  end.

(* void Cell::get_dependencies(bool recursive, Map<Cell*>& result) const *)
Fixpoint cell_deps (fuel : nat) (L : lib) (recursive : bool) (i : nat) (m : dmap) : outcome dmap :=
  match fuel with
  | O => Crash
  | S fuel' => deps_loop L (cell_deps fuel' L true) recursive (c_refs (cell_at L i)) m
  end.

(* loop of RawCell::get_dependencies over dependencies *)
Fixpoint rdeps_loop (L : lib) (rec : nat -> dmap -> outcome dmap) (recursive : bool)
                    (deps : list nat) (m : dmap) : outcome dmap :=
  match deps with
  | [] => Ok m
  | d :: tl =>
      obind (if recursive && not_mapped m (rname L d) d then rec d m else Ok m)
            (fun m1 => rdeps_loop L rec recursive tl (mset (rname L d) d m1))
  end.

(* void RawCell::get_dependencies(bool recursive, Map<RawCell*>& result) const *)
Fixpoint raw_deps (fuel : nat) (L : lib) (recursive : bool) (r : nat) (m : dmap) : outcome dmap :=
  match fuel with
  | O => Crash
  | S fuel' => rdeps_loop L (raw_deps fuel' L true) recursive (r_deps (raw_at L r)) m
  end.

(* loop of Cell::get_raw_dependencies over reference_array *)
Fixpoint crdeps_loop (L : lib) (rfuel : nat) (rec : nat -> dmap -> outcome dmap) (recursive : bool)
                     (refs : list target) (m : dmap) : outcome dmap :=
  match refs with
  | [] => Ok m
  | ToRaw r :: tl =>
      obind (if recursive && not_mapped m (rname L r) r then raw_deps rfuel L true r m else Ok m)
            (fun m1 => crdeps_loop L rfuel rec recursive tl (mset (rname L r) r m1))
  | ToCell j :: tl =>
      obind (if recursive then rec j m else Ok m)
            (fun m1 => crdeps_loop L rfuel rec recursive tl m1)
  | ByName _ :: tl => crdeps_loop L rfuel rec recursive tl m
  end.

(* void Cell::get_raw_dependencies(bool recursive, Map<RawCell*>& result) const *)
Fixpoint cell_raw_deps (fuel rfuel : nat) (L : lib) (recursive : bool) (i : nat) (m : dmap)
  : outcome dmap :=
  match fuel with
  | O => Crash
  | S fuel' =>
      crdeps_loop L rfuel (cell_raw_deps fuel' rfuel L true) recursive (c_refs (cell_at L i)) m
  end.

(* fuel = number of objects + 1 *)
Definition cfuel (L : lib) : nat := S (length (l_cells L)).
Definition rfuel (L : lib) : nat := S (length (l_raws L)).

(* sorted, duplicate-free list of naturals *)
Fixpoint ins_nat (x : nat) (l : list nat) : list nat :=
  match l with
  | [] => [x]
  | y :: tl => if Nat.ltb x y then x :: l else if Nat.eqb x y then l else y :: ins_nat x tl
  end.
Definition sort_nat (l : list nat) : list nat := fold_right ins_nat [] l.

Definition map_values (m : dmap) : list nat := sort_nat (map snd m).

Definition omap {A B} (f : A -> B) (x : outcome A) : outcome B := obind x (fun a => Ok (f a)).

(* the queries as the caller sees them: the set of values of the result map *)
Definition get_dependencies (L : lib) (recursive : bool) (i : nat) : outcome (list nat) :=
  omap map_values (cell_deps (cfuel L) L recursive i []).
Definition get_raw_dependencies (L : lib) (recursive : bool) (i : nat) : outcome (list nat) :=
  omap map_values (cell_raw_deps (cfuel L) (rfuel L) L recursive i []).
Definition raw_get_dependencies (L : lib) (recursive : bool) (r : nat) : outcome (list nat) :=
  omap map_values (raw_deps (rfuel L) L recursive r []).

(* ------------------------------------------------------------------------------------------ *)
(* Library::top_level: name-keyed maps of the direct dependencies of every member              *)

(* Cell::get_dependencies(false, m) *)
Definition direct_cell_deps (L : lib) (i : nat) (m : dmap) : dmap :=
  fold_left (fun m t => match t with ToCell j => mset (cname L j) j m | _ => m end)
            (c_refs (cell_at L i)) m.
(* Cell::get_raw_dependencies(false, m) *)
Definition direct_cell_raw_deps (L : lib) (i : nat) (m : dmap) : dmap :=
  fold_left (fun m t => match t with ToRaw r => mset (rname L r) r m | _ => m end)
            (c_refs (cell_at L i)) m.
(* RawCell::get_dependencies(false, m) *)
Definition direct_raw_deps (L : lib) (r : nat) (m : dmap) : dmap :=
  fold_left (fun m d => mset (rname L d) d m) (r_deps (raw_at L r)) m.

Definition top_cell_map (L : lib) : dmap :=
  fold_left (fun m i => direct_cell_deps L i m) (l_carr L) [].
Definition top_raw_map (L : lib) : dmap :=
  fold_left (fun m r => direct_raw_deps L r m) (l_rarr L)
            (fold_left (fun m i => direct_cell_raw_deps L i m) (l_carr L) []).

(* void Library::top_level(Array<Cell*>& top_cells, Array<RawCell*>& top_rawcells) const *)
Definition top_level (L : lib) : list nat * list nat :=
  let cd := top_cell_map L in
  let rd := top_raw_map L in
  (filter (fun i => not_mapped cd (cname L i) i) (l_carr L),
   filter (fun r => not_mapped rd (rname L r) r) (l_rarr L)).

(* ------------------------------------------------------------------------------------------ *)
(* Tag queries: Set<Tag>; results as sorted duplicate-free lists                                *)

Definition tag_ltb (a b : tag) : bool :=
  N.ltb (fst a) (fst b) || (N.eqb (fst a) (fst b) && N.ltb (snd a) (snd b)).

Fixpoint ins_tag (x : tag) (l : list tag) : list tag :=
  match l with
  | [] => [x]
  | y :: tl => if tag_ltb x y then x :: l else if tag_eqb x y then l else y :: ins_tag x tl
  end.

(* Cell::get_shape_tags / get_label_tags: result.add(tag) for every element *)
Definition cell_shape_tags (c : cell) (s : list tag) : list tag := fold_left (fun s t => ins_tag t s) (c_ptags c) s.
Definition cell_label_tags (c : cell) (s : list tag) : list tag := fold_left (fun s t => ins_tag t s) (c_ltags c) s.

(* Library::get_shape_tags / get_label_tags *)
Definition get_shape_tags (L : lib) : list tag :=
  fold_left (fun s i => cell_shape_tags (cell_at L i) s) (l_carr L) [].
Definition get_label_tags (L : lib) : list tag :=
  fold_left (fun s i => cell_label_tags (cell_at L i) s) (l_carr L) [].

(* ------------------------------------------------------------------------------------------ *)
(* What a reference designates: the object pointed to, or for a Name reference the library
   member of that name (get_cell, then get_rawcell)                                             *)

Inductive obj : Type := OCell (i : nat) | ORaw (r : nat).

Definition resolve (L : lib) (t : target) : option obj :=
  match t with
  | ToCell i => Some (OCell i)
  | ToRaw r => Some (ORaw r)
  | ByName s =>
      match get_cell L s with
      | Some i => Some (OCell i)
      | None => match get_rawcell L s with Some r => Some (ORaw r) | None => None end
      end
  end.
