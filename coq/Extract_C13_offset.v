Require Import Base Winding ClipGlue GeomOracle.
Require Import Extraction ExtrOcamlBasic.
Extraction Blacklist List String Int.
Extraction "../ocaml/extracted/c13_offset.ml" wn inside covers wn_sum cover_count shoelace2 perim1
  seg_closer_than poly_closer_than poly_near group_near sample_ok first_bad count_ok
  grow_verdict shrink_each_verdict shrink_union_verdict near_any same_region_verdict area2 perim_sum
  Z.add Z.sub Z.mul Z.opp Z.abs Z.leb Z.ltb Z.eqb Z.max Z.min Z.of_nat N.add.
