(* C06 (unit c06_own) - OWNERSHIP model of the copy functions and collectors of gdstk.

   "Copies are independent of their source" (C06; also C11 "one translated, otherwise identical copy" and
   C16 copy) is an aliasing statement.  Immutable Gallina values make it trivially true, so this file
   models what the other models cannot express: every gdstk object is a tree of fields, some of which are
   OWNING pointers to heap buffers identified by addresses (N, 0 = NULL), some NON-owning pointers
   (Reference::cell / rawcell, user data of callbacks, RawCell pointers of a library), and an allocator
   whose state is the next fresh address.  The copy functions are transcribed statement by statement
   (allocation order = order of the C++ statements) in a state + log monad: the log lists every
   allocation, every memcpy (new buffer, source buffer, how much), every in-place write and every free.

   Transcribed: Array<T>::copy_from (include/gdstk/array.hpp), copy_string (src/utils.cpp),
   Repetition::copy_from / clear (src/repetition.cpp), property_values_copy / properties_copy /
   properties_clear (src/property.cpp), Polygon / FlexPath / RobustPath / Label / Reference ::copy_from,
   ::clear, ::apply_repetition (src/polygon.cpp, flexpath.cpp, robustpath.cpp, label.cpp, reference.cpp),
   RaithData::copy_from (src/raithdata.cpp), Cell::copy_from (deep and shallow, new name), Cell::clear,
   Cell::free_all, Cell::get_polygons / get_flexpaths / get_robustpaths / get_labels and the
   Reference::get_* they recurse through (src/cell.cpp, src/reference.cpp, include/gdstk/cell.hpp),
   Library::copy_from (deep / shallow), clear, free_all (src/library.cpp, include/gdstk/library.hpp).

   Conventions.
   * A buffer's CONTENT is a list of words (Z).  For a struct allocated on the heap (a Polygon held by a
     cell, a Property node, the `elements` array of a path) the content stands for its scalar fields; the
     pointers it holds are the tree structure.  Discriminants that drive the control flow (tags, enum
     types, counts) are tree-level data (`meta`), not heap content.
   * `Raw t` marks an owning pointer that lives INSIDE a buffer which copy_from duplicates with memcpy and
     never looks into: the control-point array `SubPath::ctrl` of a general Bezier section inside
     RobustPath::subpath_array.  A bytewise copy of the enclosing buffer copies the pointer, not the
     array (see OwnershipProofs.robustpath_copy_shares_ctrl).
   * `Ext a` is a non-owning pointer copied by value: both the source and the copy designate the same
     object, which neither owns (target cell of a reference, `*_function_data` of a path element, the
     `data` of a Parametric interpolation or section, a RawCell of a library).
   * allocate(0) returns a fresh non-NULL address (glibc); free(NULL) is a no-op; freeing an address twice
     is undefined behaviour: Crash.  copy_string(NULL) calls strlen(NULL): Crash.  memcpy from a NULL
     `items` with a positive count: Crash.
   * Temporaries that no object ever points to (the `offsets` array of apply_repetition / Reference::get_*,
     the caller's result Array<X*>) are not modelled; `reallocate` of the element array in the filtered
     path collectors is one buffer (only its final address is observable).
   * The outline polygons of Cell::get_polygons(include_paths = true) are one polygon per path element that
     passes the filter, each with a newly allocated vertex buffer of unknown size plus a copy of the path's
     repetition and properties (FlexPath::to_polygons / RobustPath::to_polygons); that to_polygons first
     calls remove_overlapping_points on the SOURCE FlexPath is outside the model (generated spines have no
     overlapping points). *)
From Coq Require Import List NArith ZArith Bool Lia.
Require Import Base Generated.
Import ListNotations.
Local Open Scope N_scope.

(* ------------------------------------------------------------------------------------------------ *)
(* Heap, views, events                                                                                *)

Definition addr := N.

Inductive view : Type :=
| VAll                (* the whole buffer (scalar fields of a struct) *)
| VFirst (n : nat)    (* the first n items (memcpy of count items) *)
| VStr                (* up to and including the first NUL (strlen + 1 bytes) *)
| VNone.              (* nothing: the buffer holds pointers only *)

Fixpoint strz (l : list Z) : list Z :=
  match l with
  | [] => [0%Z]
  | x :: t => if Z.eqb x 0 then [0%Z] else x :: strz t
  end.

Definition look (v : view) (l : list Z) : list Z :=
  match v with
  | VAll => l
  | VFirst n => firstn n l
  | VStr => strz l
  | VNone => []
  end.

Definition heap := addr -> list Z.
Definition load (h : heap) (a : addr) : list Z := if a =? 0 then [] else h a.
Definition store (h : heap) (a : addr) (l : list Z) : heap := fun x => if x =? a then l else h x.

Inductive event : Type :=
| EAlloc (a : addr)                 (* allocate / allocate_clear / reallocate(NULL, ...) returned a *)
| ECopy (d s : addr) (v : view)     (* the part v of buffer s was copied into buffer d *)
| EWrite (a : addr)                 (* buffer a was modified in place (translate, transform) *)
| EFree (a : addr).                 (* free_allocation(a) *)

Definition wr_target (e : event) : addr :=
  match e with EAlloc a => a | ECopy d _ _ => d | EWrite a => a | EFree a => a end.

(* what an event does to the contents; `w` is what an in-place write computes (unknown to the model: every
   theorem holds for all w) *)
Definition apply_event (w : addr -> list Z -> list Z) (h : heap) (e : event) : heap :=
  match e with
  | EAlloc a => store h a []
  | ECopy d s v => store h d (look v (load h s))
  | EWrite a => store h a (w a (load h a))
  | EFree _ => h
  end.
Definition replay (w : addr -> list Z -> list Z) (l : list event) (h : heap) : heap :=
  fold_left (apply_event w) l h.

Fixpoint freed (l : list event) : list addr :=
  match l with
  | [] => []
  | EFree a :: t => a :: freed t
  | _ :: t => freed t
  end.
Fixpoint mem (a : addr) (l : list addr) : bool :=
  match l with [] => false | x :: t => if x =? a then true else mem a t end.

(* ------------------------------------------------------------------------------------------------ *)
(* Ownership trees                                                                                    *)

Inductive bkind : Type :=
| KData (n : nat)    (* Array<T>::items of plain data, n = count *)
| KBytes (n : nat)   (* PropertyValue::bytes, n = count *)
| KStr               (* char* duplicated with copy_string (NULL crashes) *)
| KStrOpt            (* char* duplicated only when not NULL (RaithData::base_cell_name) *)
| KNode              (* heap-allocated struct / array of structs: scalars assigned field by field *)
| KPtrs (n : nat).   (* Array<X*>::items of a Cell / Library that owns the X *)

Definition view_of (k : bkind) : view :=
  match k with
  | KData n => VFirst n
  | KBytes n => VFirst n
  | KStr => VStr
  | KStrOpt => VStr
  | KNode => VAll
  | KPtrs _ => VNone
  end.

Inductive otree : Type :=
| Buf (a : addr) (k : bkind) (cap : option N) (meta : list N) (kids : list otree)
| Grp (meta : list N) (kids : list otree)      (* an inline sub-structure (no buffer of its own) *)
| Ext (a : addr)                               (* non-owning pointer *)
| Raw (t : otree).                             (* owning pointer inside a bytewise-copied buffer *)

Definition nz (a : addr) : list addr := if a =? 0 then [] else [a].

(* the buffers reachable through owning pointers, in walk (pre-) order *)
Fixpoint addrs (t : otree) : list addr :=
  match t with
  | Buf a _ _ _ k => nz a ++ flat_map addrs k
  | Grp _ k => flat_map addrs k
  | Ext _ => []
  | Raw t' => addrs t'
  end.

(* the same without what hangs below a Raw pointer *)
Fixpoint addrs_nr (t : otree) : list addr :=
  match t with
  | Buf a _ _ _ k => nz a ++ flat_map addrs_nr k
  | Grp _ k => flat_map addrs_nr k
  | Ext _ => []
  | Raw _ => []
  end.
Fixpoint raws (t : otree) : list addr :=
  match t with
  | Buf _ _ _ _ k => flat_map raws k
  | Grp _ k => flat_map raws k
  | Ext _ => []
  | Raw t' => addrs t'
  end.
Fixpoint no_raw (t : otree) : bool :=
  match t with
  | Buf _ _ _ _ k => forallb no_raw k
  | Grp _ k => forallb no_raw k
  | Ext _ => true
  | Raw _ => false
  end.

(* the immutable value an object denotes in a heap: addresses erased, contents read through the owning
   pointers (capacities are not part of it) *)
Inductive dtree : Type :=
| D (content : list Z) (meta : list N) (kids : list dtree)
| DExt (a : addr).

Fixpoint erase (h : heap) (t : otree) : dtree :=
  match t with
  | Buf a k _ m kids => D (look (view_of k) (load h a)) m (map (erase h) kids)
  | Grp m kids => D [] m (map (erase h) kids)
  | Ext a => DExt a
  | Raw t' => D [] [] [erase h t']
  end.

(* ------------------------------------------------------------------------------------------------ *)
(* Allocator + log monad                                                                              *)

Record st : Type := mkSt { nxt : addr; evs : list event }.
Definition M (A : Type) : Type := st -> outcome (A * st).

Definition ret {A} (a : A) : M A := fun s => Ok (a, s).
Definition bind {A B} (m : M A) (f : A -> M B) : M B :=
  fun s => match m s with
           | Ok (a, s') => f a s'
           | ErrEof => ErrEof | ErrOverflow => ErrOverflow | ErrInvalid => ErrInvalid
           | Crash => Crash | Hang => Hang
           end.
Notation "x <- m ;; f" := (bind m (fun x => f)) (at level 61, m at next level, right associativity).
Notation "m ;;; f" := (bind m (fun _ => f)) (at level 61, right associativity).

Definition crash {A} : M A := fun _ => Crash.
Definition hang {A} : M A := fun _ => Hang.
Definition emit (e : event) : M unit := fun s => Ok (tt, mkSt (nxt s) (evs s ++ [e])).
Definition alloc : M addr := fun s => Ok (nxt s, mkSt (nxt s + 1) (evs s ++ [EAlloc (nxt s)])).
(* allocate + memcpy / field-by-field assignment from src *)
Definition alloc_copy (src : addr) (v : view) : M addr :=
  a <- alloc ;; emit (ECopy a src v) ;;; ret a.
(* free_allocation *)
Definition mfree (a : addr) : M unit :=
  fun s => if a =? 0 then Ok (tt, s)
           else if mem a (freed (evs s)) then Crash
           else Ok (tt, mkSt (nxt s) (evs s ++ [EFree a])).

Definition mapM {A B} (f : A -> M B) : list A -> M (list B) :=
  fix go (l : list A) : M (list B) :=
    match l with
    | [] => ret []
    | x :: r => y <- f x ;; r' <- go r ;; ret (y :: r')
    end.
Fixpoint iterM {A} (f : A -> M unit) (l : list A) : M unit :=
  match l with
  | [] => ret tt
  | x :: r => f x ;;; iterM f r
  end.
Fixpoint repeatM {A} (n : nat) (m : M A) : M (list A) :=
  match n with
  | O => ret []
  | S k => x <- m ;; r <- repeatM k m ;; ret (x :: r)
  end.

(* ------------------------------------------------------------------------------------------------ *)
(* The generic deep copy of a tree: what copy_from does to each kind of pointer                       *)

Fixpoint tcopy (t : otree) : M otree :=
  match t with
  | Ext a => ret (Ext a)                        (* copied by value *)
  | Raw t' => ret (Raw t')                      (* the pointer is copied with the bytes around it *)
  | Grp m kids => kids' <- mapM tcopy kids ;; ret (Grp m kids')
  | Buf a k cap m kids =>
      match k with
      | KData n =>
          match n with
          | O => kids' <- mapM tcopy kids ;; ret (Buf 0 (KData 0) (Some 0) m kids')
          | S _ =>
              if a =? 0 then crash
              else a' <- alloc_copy a (VFirst n) ;; kids' <- mapM tcopy kids ;;
                   ret (Buf a' (KData n) (Some (N.of_nat n)) m kids')
          end
      | KBytes n => a' <- alloc_copy a (VFirst n) ;; kids' <- mapM tcopy kids ;; ret (Buf a' k cap m kids')
      | KStr =>
          if a =? 0 then crash
          else a' <- alloc_copy a VStr ;; kids' <- mapM tcopy kids ;; ret (Buf a' k cap m kids')
      | KStrOpt =>
          if a =? 0 then kids' <- mapM tcopy kids ;; ret (Buf 0 k cap m kids')
          else a' <- alloc_copy a VStr ;; kids' <- mapM tcopy kids ;; ret (Buf a' k cap m kids')
      | KNode => a' <- alloc_copy a VAll ;; kids' <- mapM tcopy kids ;; ret (Buf a' k cap m kids')
      | KPtrs n => a' <- alloc ;; kids' <- mapM tcopy kids ;; ret (Buf a' k cap m kids')
      end
  end.

(* ------------------------------------------------------------------------------------------------ *)
(* Array<T>, strings, Repetition, properties                                                          *)

Record arr : Type := mkArr { a_cap : N; a_cnt : N; a_items : addr }.
Definition arr0 : arr := mkArr 0 0 0.

Definition arr_tree (kids : list otree) (a : arr) : otree :=
  Buf (a_items a) (KData (N.to_nat (a_cnt a))) (Some (a_cap a)) [a_cnt a] kids.
Definition ptrs_tree (kids : list otree) (a : arr) : otree :=
  Buf (a_items a) (KPtrs (N.to_nat (a_cnt a))) (Some (a_cap a)) [a_cnt a] kids.
Definition str_tree (a : addr) : otree := Buf a KStr None [] [].

(* void Array<T>::copy_from(const Array<T>& src)      ("the instance should be zeroed before copy_from")
     capacity = src.count; count = src.count;
     if (count > 0) { items = (T* )allocate(sizeof(T) * capacity); memcpy(items, src.items, sizeof(T) * count); }
     else items = NULL; *)
Definition array_copy_from (src : arr) : M arr :=
  match N.to_nat (a_cnt src) with
  | O => ret (mkArr 0 0 0)
  | S _ =>
      if a_items src =? 0 then crash
      else a <- alloc_copy (a_items src) (VFirst (N.to_nat (a_cnt src))) ;;
           ret (mkArr (a_cnt src) (a_cnt src) a)
  end.

(* char* copy_string(const char* str, uint64_t* len): size = 1 + strlen(str); allocate(size); memcpy *)
Definition copy_string (s : addr) : M addr :=
  if s =? 0 then crash else alloc_copy s VStr.

Inductive repetition : Type :=
| RNone
| RRect (columns rows : N)
| RRegular (columns rows : N)
| RExplicit (offsets : arr)
| RExplicitX (coords : arr)
| RExplicitY (coords : arr).

Definition rep_tree (r : repetition) : otree :=
  match r with
  | RNone => Grp [RepetitionType_None] []
  | RRect c w => Grp [RepetitionType_Rectangular; c; w] []
  | RRegular c w => Grp [RepetitionType_Regular; c; w] []
  | RExplicit a => Grp [RepetitionType_Explicit] [arr_tree [] a]
  | RExplicitX a => Grp [RepetitionType_ExplicitX] [arr_tree [] a]
  | RExplicitY a => Grp [RepetitionType_ExplicitY] [arr_tree [] a]
  end.

(* void Repetition::copy_from(const Repetition repetition): switch (type) - the scalar members by value,
   offsets.copy_from / coords.copy_from for the explicit kinds, None: return *)
Definition repetition_copy_from (r : repetition) : M repetition :=
  match r with
  | RNone => ret RNone
  | RRect c w => ret (RRect c w)
  | RRegular c w => ret (RRegular c w)
  | RExplicit a => a' <- array_copy_from a ;; ret (RExplicit a')
  | RExplicitX a => a' <- array_copy_from a ;; ret (RExplicitX a')
  | RExplicitY a => a' <- array_copy_from a ;; ret (RExplicitY a')
  end.

(* uint64_t Repetition::get_count() *)
Definition rep_count (r : repetition) : N :=
  match r with
  | RNone => 0
  | RRect c w => c * w
  | RRegular c w => c * w
  | RExplicit a => a_cnt a + 1
  | RExplicitX a => a_cnt a + 1
  | RExplicitY a => a_cnt a + 1
  end.
(* void Repetition::clear(): offsets.clear() / coords.clear() for the explicit kinds, then memset 0 *)
Definition rep_frees (r : repetition) : list addr :=
  match r with
  | RExplicit a => [a_items a]
  | RExplicitX a => [a_items a]
  | RExplicitY a => [a_items a]
  | _ => []
  end.

Inductive pvalue : Type :=
| PVScalar (node : addr) (ty : N)                     (* UnsignedInteger / Integer / Real *)
| PVString (node : addr) (cnt : N) (bytes : addr).    (* String: count + bytes *)
Record property : Type := mkProp { p_node : addr; p_name : addr; p_values : list pvalue }.

Definition pvalue_tree (v : pvalue) : otree :=
  match v with
  | PVScalar n ty => Buf n KNode None [ty] []
  | PVString n c b => Buf n KNode None [PropertyType_String; c] [Buf b (KBytes (N.to_nat c)) None [] []]
  end.
Definition property_tree (p : property) : otree :=
  Buf (p_node p) KNode None [] (str_tree (p_name p) :: map pvalue_tree (p_values p)).
Definition props_tree (l : list property) : otree := Grp [] (map property_tree l).

(* PropertyValue* property_values_copy(const PropertyValue* values): per node allocate, type and scalar by
   value, String: bytes = allocate(count) + memcpy *)
Definition pvalue_copy (v : pvalue) : M pvalue :=
  match v with
  | PVScalar n ty => n' <- alloc_copy n VAll ;; ret (PVScalar n' ty)
  | PVString n c b =>
      n' <- alloc_copy n VAll ;;
      b' <- alloc_copy b (VFirst (N.to_nat c)) ;;
      ret (PVString n' c b')
  end.
(* Property* properties_copy(const Property* properties): per node allocate, name = copy_string,
   value = property_values_copy *)
Definition property_copy (p : property) : M property :=
  n' <- alloc_copy (p_node p) VAll ;;
  name' <- copy_string (p_name p) ;;
  vs' <- mapM pvalue_copy (p_values p) ;;
  ret (mkProp n' name' vs').
Definition properties_copy (l : list property) : M (list property) := mapM property_copy l.

(* void properties_clear(Property*& properties): property_values_clear (String: free bytes; free node),
   free name, free node *)
Definition pvalue_frees (v : pvalue) : list addr :=
  match v with
  | PVScalar n _ => [n]
  | PVString n _ b => [b; n]
  end.
Definition property_frees (p : property) : list addr :=
  flat_map pvalue_frees (p_values p) ++ [p_name p; p_node p].
Definition props_frees (l : list property) : list addr := flat_map property_frees l.

(* ------------------------------------------------------------------------------------------------ *)
(* Polygon                                                                                            *)

Record polygon : Type := mkPolygon {
  pg_self : addr; pg_tag : N; pg_points : arr; pg_rep : repetition; pg_props : list property;
  pg_owner : addr }.

Definition polygon_tree (p : polygon) : otree :=
  Buf (pg_self p) KNode None [pg_tag p]
      [arr_tree [] (pg_points p); rep_tree (pg_rep p); props_tree (pg_props p)].

(* void Polygon::copy_from(const Polygon& polygon): tag; point_array.copy_from; repetition.copy_from;
   properties = properties_copy.  `owner` is not touched. *)
Definition polygon_copy_fields (src : polygon) : M (arr * repetition * list property) :=
  pts <- array_copy_from (pg_points src) ;;
  rep <- repetition_copy_from (pg_rep src) ;;
  props <- properties_copy (pg_props src) ;;
  ret (pts, rep, props).
Definition polygon_copy_from (self owner : addr) (src : polygon) : M polygon :=
  emit (ECopy self (pg_self src) VAll) ;;;
  f <- polygon_copy_fields src ;;
  ret (mkPolygon self (pg_tag src) (fst (fst f)) (snd (fst f)) (snd f) owner).
(* X* x = (X* )allocate_clear(sizeof(X)); x->copy_from(src) *)
Definition polygon_new_copy (src : polygon) : M polygon :=
  self <- alloc ;; polygon_copy_from self 0 src.

(* void Polygon::clear(): point_array.clear(); repetition.clear(); properties_clear(properties) *)
Definition polygon_frees (p : polygon) : list addr :=
  [a_items (pg_points p)] ++ rep_frees (pg_rep p) ++ props_frees (pg_props p).

(* ------------------------------------------------------------------------------------------------ *)
(* FlexPath                                                                                           *)

Record fp_element : Type := mkFE {
  fe_tag : N; fe_hwo : arr;
  fe_ext : list addr }.   (* join_function_data, end_function_data, bend_function_data *)
Record flexpath : Type := mkFlex {
  fp_self : addr; fp_spine : arr; fp_props : list property; fp_rep : repetition; fp_raith_name : addr;
  fp_elems : addr; fp_els : list fp_element; fp_owner : addr }.

Definition fe_tree (e : fp_element) : otree :=
  Grp [fe_tag e] (arr_tree [] (fe_hwo e) :: map Ext (fe_ext e)).
Definition flexpath_tree (f : flexpath) : otree :=
  Buf (fp_self f) KNode None []
      [arr_tree [] (fp_spine f); props_tree (fp_props f); rep_tree (fp_rep f);
       Buf (fp_raith_name f) KStrOpt None [] [];
       Buf (fp_elems f) KNode None [N.of_nat (length (fp_els f))] (map fe_tree (fp_els f))].

(* RaithData::copy_from: scalars; if (base_cell_name) free; base_cell_name = NULL;
   if (src.base_cell_name) base_cell_name = copy_string(...)         (destination zeroed: nothing to free) *)
Definition raith_name_copy (a : addr) : M addr :=
  if a =? 0 then ret 0 else alloc_copy a VStr.

Definition fe_copy (e : fp_element) : M fp_element :=
  hwo <- array_copy_from (fe_hwo e) ;; ret (mkFE (fe_tag e) hwo (fe_ext e)).

(* void FlexPath::copy_from(const FlexPath& path): spine.copy_from; properties_copy; repetition.copy_from;
   scalars; raith_data.copy_from; elements = allocate_clear(num_elements * sizeof); per element:
   half_width_and_offset.copy_from and the scalar / function / data members by value *)
Definition flexpath_copy_from (self owner : addr) (src : flexpath) : M flexpath :=
  emit (ECopy self (fp_self src) VAll) ;;;
  spine <- array_copy_from (fp_spine src) ;;
  props <- properties_copy (fp_props src) ;;
  rep <- repetition_copy_from (fp_rep src) ;;
  raith <- raith_name_copy (fp_raith_name src) ;;
  elems <- alloc_copy (fp_elems src) VAll ;;
  els <- mapM fe_copy (fp_els src) ;;
  ret (mkFlex self spine props rep raith elems els owner).
Definition flexpath_new_copy (src : flexpath) : M flexpath :=
  self <- alloc ;; flexpath_copy_from self 0 src.

(* void FlexPath::clear(): spine.clear(); raith_data.clear(); per element half_width_and_offset.clear();
   free_allocation(elements); repetition.clear(); properties_clear *)
Definition flexpath_frees (f : flexpath) : list addr :=
  [a_items (fp_spine f); fp_raith_name f] ++ map (fun e => a_items (fe_hwo e)) (fp_els f) ++
  [fp_elems f] ++ rep_frees (fp_rep f) ++ props_frees (fp_props f).

(* first branch of Cell::get_flexpaths (filter): the first matching element allocates the path and copies
   spine, properties, repetition, scalars, raith_data; every matching element grows `elements` with
   reallocate and copies its half_width_and_offset; no matching element: no path *)
Definition flexpath_filter_copy (tag : N) (src : flexpath) : M (list flexpath) :=
  match filter (fun e => fe_tag e =? tag) (fp_els src) with
  | [] => ret []
  | matching =>
      self <- alloc_copy (fp_self src) VAll ;;
      spine <- array_copy_from (fp_spine src) ;;
      props <- properties_copy (fp_props src) ;;
      rep <- repetition_copy_from (fp_rep src) ;;
      raith <- raith_name_copy (fp_raith_name src) ;;
      elems <- alloc ;;
      els <- mapM fe_copy matching ;;
      ret [mkFlex self spine props rep raith elems els 0]
  end.

(* ------------------------------------------------------------------------------------------------ *)
(* RobustPath                                                                                         *)

Inductive subpath : Type :=
| SPPlain (ty : N)               (* Segment, Arc, Bezier2, Bezier3: scalars only *)
| SPBezier (ctrl : arr)          (* general Bezier: Array<Vec2> ctrl inside the SubPath *)
| SPParam (ext : list addr).     (* Parametric: functions, func_data, grad_data *)
Record rp_element : Type := mkRE {
  re_tag : N;
  re_width : arr; re_wext : list addr;     (* width_array and the `data` of its Parametric entries *)
  re_offset : arr; re_oext : list addr;
  re_ext : list addr }.                    (* end_function_data *)
Record robustpath : Type := mkRobust {
  rp_self : addr; rp_props : list property; rp_rep : repetition;
  rp_subs : arr; rp_subpaths : list subpath;
  rp_elems : addr; rp_els : list rp_element; rp_owner : addr }.

Definition sp_tree (s : subpath) : otree :=
  match s with
  | SPPlain ty => Grp [ty] []
  | SPBezier c => Grp [2] [Raw (arr_tree [] c)]
  | SPParam ext => Grp [5] (map Ext ext)
  end.
Definition re_tree (e : rp_element) : otree :=
  Grp [re_tag e] (arr_tree (map Ext (re_wext e)) (re_width e) ::
                  arr_tree (map Ext (re_oext e)) (re_offset e) :: map Ext (re_ext e)).
Definition robustpath_tree (r : robustpath) : otree :=
  Buf (rp_self r) KNode None []
      [props_tree (rp_props r); rep_tree (rp_rep r);
       arr_tree (map sp_tree (rp_subpaths r)) (rp_subs r);
       Buf (rp_elems r) KNode None [N.of_nat (length (rp_els r))] (map re_tree (rp_els r))].

Definition re_copy (e : rp_element) : M rp_element :=
  w <- array_copy_from (re_width e) ;;
  o <- array_copy_from (re_offset e) ;;
  ret (mkRE (re_tag e) w (re_wext e) o (re_oext e) (re_ext e)).

(* void RobustPath::copy_from(const RobustPath& path): properties_copy; repetition.copy_from; end_point;
   subpath_array.copy_from (a memcpy of the SubPath structs: the `ctrl` arrays of general Bezier sections
   are NOT duplicated, the function / data pointers of Parametric sections are copied by value);
   elements = allocate_clear; scalars; per element scalars, width_array.copy_from, offset_array.copy_from
   (a memcpy of the Interpolation structs: function / data of Parametric entries by value) *)
Definition robustpath_copy_from (self owner : addr) (src : robustpath) : M robustpath :=
  emit (ECopy self (rp_self src) VAll) ;;;
  props <- properties_copy (rp_props src) ;;
  rep <- repetition_copy_from (rp_rep src) ;;
  subs <- array_copy_from (rp_subs src) ;;
  elems <- alloc_copy (rp_elems src) VAll ;;
  els <- mapM re_copy (rp_els src) ;;
  ret (mkRobust self props rep subs (rp_subpaths src) elems els owner).
Definition robustpath_new_copy (src : robustpath) : M robustpath :=
  self <- alloc ;; robustpath_copy_from self 0 src.

(* void RobustPath::clear(): subpath_array.clear() (the ctrl arrays inside are not freed); per element
   width_array.clear(), offset_array.clear(); free_allocation(elements); repetition.clear();
   properties_clear *)
Definition robustpath_frees (r : robustpath) : list addr :=
  [a_items (rp_subs r)] ++ flat_map (fun e => [a_items (re_width e); a_items (re_offset e)]) (rp_els r) ++
  [rp_elems r] ++ rep_frees (rp_rep r) ++ props_frees (rp_props r).

(* first branch of Cell::get_robustpaths (filter) *)
Definition robustpath_filter_copy (tag : N) (src : robustpath) : M (list robustpath) :=
  match filter (fun e => re_tag e =? tag) (rp_els src) with
  | [] => ret []
  | matching =>
      self <- alloc_copy (rp_self src) VAll ;;
      props <- properties_copy (rp_props src) ;;
      rep <- repetition_copy_from (rp_rep src) ;;
      subs <- array_copy_from (rp_subs src) ;;
      elems <- alloc ;;
      els <- mapM re_copy matching ;;
      ret [mkRobust self props rep subs (rp_subpaths src) elems els 0]
  end.

(* ------------------------------------------------------------------------------------------------ *)
(* Label, Reference                                                                                   *)

Record label : Type := mkLabel {
  lb_self : addr; lb_tag : N; lb_text : addr; lb_rep : repetition; lb_props : list property;
  lb_owner : addr }.
Definition label_tree (l : label) : otree :=
  Buf (lb_self l) KNode None [lb_tag l] [str_tree (lb_text l); rep_tree (lb_rep l); props_tree (lb_props l)].

(* void Label::copy_from(const Label& label): tag; text = copy_string(label.text); origin, anchor, rotation,
   magnification, x_reflection; repetition.copy_from; properties_copy *)
Definition label_copy_from (self owner : addr) (src : label) : M label :=
  emit (ECopy self (lb_self src) VAll) ;;;
  text <- copy_string (lb_text src) ;;
  rep <- repetition_copy_from (lb_rep src) ;;
  props <- properties_copy (lb_props src) ;;
  ret (mkLabel self (lb_tag src) text rep props owner).
Definition label_new_copy (src : label) : M label :=
  self <- alloc ;; label_copy_from self 0 src.
(* void Label::clear(): if (text) free; repetition.clear(); properties_clear *)
Definition label_frees (l : label) : list addr :=
  [lb_text l] ++ rep_frees (lb_rep l) ++ props_frees (lb_props l).

Inductive rtarget : Type :=
| RTCell (c : addr)      (* ReferenceType::Cell: Cell* cell, not owned *)
| RTRaw (c : addr)       (* ReferenceType::RawCell: RawCell* rawcell, not owned *)
| RTName (name : addr).  (* ReferenceType::Name: char* name, owned *)
Record reference : Type := mkRef {
  rf_self : addr; rf_target : rtarget; rf_rep : repetition; rf_props : list property; rf_owner : addr }.
Definition rt_tree (t : rtarget) : otree :=
  match t with
  | RTCell c => Grp [ReferenceType_Cell] [Ext c]
  | RTRaw c => Grp [ReferenceType_RawCell] [Ext c]
  | RTName n => Grp [ReferenceType_Name] [str_tree n]
  end.
Definition reference_tree (r : reference) : otree :=
  Buf (rf_self r) KNode None [] [rt_tree (rf_target r); rep_tree (rf_rep r); props_tree (rf_props r)].

(* void Reference::copy_from(const Reference& reference): type; Name: name = copy_string, otherwise
   cell = reference.cell (the pointer); origin, rotation, magnification, x_reflection;
   repetition.copy_from; properties_copy *)
Definition rtarget_copy (t : rtarget) : M rtarget :=
  match t with
  | RTCell c => ret (RTCell c)
  | RTRaw c => ret (RTRaw c)
  | RTName n => n' <- copy_string n ;; ret (RTName n')
  end.
Definition reference_copy_from (self owner : addr) (src : reference) : M reference :=
  emit (ECopy self (rf_self src) VAll) ;;;
  t <- rtarget_copy (rf_target src) ;;
  rep <- repetition_copy_from (rf_rep src) ;;
  props <- properties_copy (rf_props src) ;;
  ret (mkRef self t rep props owner).
Definition reference_new_copy (src : reference) : M reference :=
  self <- alloc ;; reference_copy_from self 0 src.
(* void Reference::clear(): Name: free name; repetition.clear(); properties_clear *)
Definition reference_frees (r : reference) : list addr :=
  match rf_target r with RTName n => [n] | _ => [] end ++ rep_frees (rf_rep r) ++ props_frees (rf_props r).

(* ------------------------------------------------------------------------------------------------ *)
(* Cell, Library                                                                                      *)

Record cell : Type := mkCell {
  c_self : addr; c_name : addr; c_props : list property;
  c_polys : arr; c_polygons : list polygon;
  c_refs : arr; c_references : list reference;
  c_flex : arr; c_flexpaths : list flexpath;
  c_robust : arr; c_robustpaths : list robustpath;
  c_labs : arr; c_labels : list label;
  c_owner : addr }.

Definition cell_tree (c : cell) : otree :=
  Buf (c_self c) KNode None []
      [str_tree (c_name c); props_tree (c_props c);
       ptrs_tree (map polygon_tree (c_polygons c)) (c_polys c);
       ptrs_tree (map reference_tree (c_references c)) (c_refs c);
       ptrs_tree (map flexpath_tree (c_flexpaths c)) (c_flex c);
       ptrs_tree (map robustpath_tree (c_robustpaths c)) (c_robust c);
       ptrs_tree (map label_tree (c_labels c)) (c_labs c)].

(* deep branch of Cell::copy_from for one element array:
     x_array.capacity = cell.x_array.capacity; count likewise;
     x_array.items = (X** )allocate(sizeof(X* ) * capacity);
     for each: *dst = (X* )allocate_clear(sizeof(X)); ( *dst)->copy_from( **src) *)
Definition ptrs_deep_copy {E} (new_copy : E -> M E) (a : arr) (l : list E) : M (arr * list E) :=
  items <- alloc ;;
  l' <- mapM new_copy l ;;
  ret (mkArr (a_cap a) (a_cnt a) items, l').

(* void Cell::copy_from(const Cell& cell, const char* new_name, bool deep_copy) *)
Definition cell_copy_from (self owner : addr) (src : cell) (new_name : addr) (deep : bool) : M cell :=
  emit (ECopy self (c_self src) VAll) ;;;
  name <- copy_string (if new_name =? 0 then c_name src else new_name) ;;
  props <- properties_copy (c_props src) ;;
  if deep then
    pa <- ptrs_deep_copy polygon_new_copy (c_polys src) (c_polygons src) ;;
    ra <- ptrs_deep_copy reference_new_copy (c_refs src) (c_references src) ;;
    fa <- ptrs_deep_copy flexpath_new_copy (c_flex src) (c_flexpaths src) ;;
    ba <- ptrs_deep_copy robustpath_new_copy (c_robust src) (c_robustpaths src) ;;
    la <- ptrs_deep_copy label_new_copy (c_labs src) (c_labels src) ;;
    ret (mkCell self name props (fst pa) (snd pa) (fst ra) (snd ra) (fst fa) (snd fa)
                (fst ba) (snd ba) (fst la) (snd la) owner)
  else
    (* x_array.copy_from(cell.x_array): a new items buffer holding the SAME element pointers *)
    pa <- array_copy_from (c_polys src) ;;
    ra <- array_copy_from (c_refs src) ;;
    fa <- array_copy_from (c_flex src) ;;
    ba <- array_copy_from (c_robust src) ;;
    la <- array_copy_from (c_labs src) ;;
    ret (mkCell self name props pa (c_polygons src) ra (c_references src) fa (c_flexpaths src)
                ba (c_robustpaths src) la (c_labels src) owner).
Definition cell_new_copy (src : cell) (new_name : addr) (deep : bool) : M cell :=
  self <- alloc ;; cell_copy_from self 0 src new_name deep.

(* void Cell::clear(): name; the five items buffers; properties_clear (the elements are NOT freed) *)
Definition cell_clear_frees (c : cell) : list addr :=
  [c_name c; a_items (c_polys c); a_items (c_refs c); a_items (c_flex c); a_items (c_robust c);
   a_items (c_labs c)] ++ props_frees (c_props c).
(* void Cell::free_all(): per element clear() + free_allocation, in the order polygons, flexpaths,
   robustpaths, references, labels; then clear() *)
Definition cell_free_all_frees (c : cell) : list addr :=
  flat_map (fun p => polygon_frees p ++ [pg_self p]) (c_polygons c) ++
  flat_map (fun p => flexpath_frees p ++ [fp_self p]) (c_flexpaths c) ++
  flat_map (fun p => robustpath_frees p ++ [rp_self p]) (c_robustpaths c) ++
  flat_map (fun p => reference_frees p ++ [rf_self p]) (c_references c) ++
  flat_map (fun p => label_frees p ++ [lb_self p]) (c_labels c) ++
  cell_clear_frees c.

Record library : Type := mkLib {
  l_self : addr; l_name : addr;
  l_cells : arr; l_cellobjs : list cell;
  l_raw : arr; l_rawcells : list addr;       (* RawCell pointers: shared on purpose, never freed by free_all *)
  l_props : list property; l_owner : addr }.
Definition library_tree (l : library) : otree :=
  Buf (l_self l) KNode None []
      [str_tree (l_name l);
       ptrs_tree (map cell_tree (l_cellobjs l)) (l_cells l);
       arr_tree (map Ext (l_rawcells l)) (l_raw l);
       props_tree (l_props l)].

(* void Library::copy_from(const Library& library, bool deep_copy): name = copy_string; unit, precision;
   deep: cell_array.capacity / count / items = allocate, per cell allocate_clear + copy_from(src, NULL, true);
   shallow: cell_array.copy_from; rawcell_array.copy_from in both cases.  `properties` is not copied. *)
Definition library_copy_from (self owner : addr) (src : library) (deep : bool) : M library :=
  emit (ECopy self (l_self src) VAll) ;;;
  name <- copy_string (l_name src) ;;
  ca <- (if deep then ptrs_deep_copy (fun c => cell_new_copy c 0 true) (l_cells src) (l_cellobjs src)
         else a <- array_copy_from (l_cells src) ;; ret (a, l_cellobjs src)) ;;
  raw <- array_copy_from (l_raw src) ;;
  ret (mkLib self name (fst ca) (snd ca) raw (l_rawcells src) [] owner).
Definition library_new_copy (src : library) (deep : bool) : M library :=
  self <- alloc ;; library_copy_from self 0 src deep.

(* void Library::clear(): name; cell_array.clear(); rawcell_array.clear(); properties_clear *)
Definition library_clear_frees (l : library) : list addr :=
  [l_name l; a_items (l_cells l); a_items (l_raw l)] ++ props_frees (l_props l).
(* void Library::free_all(): per cell free_all() + free_allocation(cell); clear() *)
Definition library_free_all_frees (l : library) : list addr :=
  flat_map (fun c => cell_free_all_frees c ++ [c_self c]) (l_cellobjs l) ++ library_clear_frees l.

(* ------------------------------------------------------------------------------------------------ *)
(* apply_repetition and the collectors, once for the four element kinds                               *)

Record ekind (E : Type) : Type := mkKind {
  ek_tree : E -> otree;
  ek_new_copy : E -> M E;                    (* allocate_clear + copy_from *)
  ek_rep : E -> repetition;
  ek_clear_rep : E -> E;                     (* repetition.clear() *)
  ek_translate_wr : E -> list addr;          (* buffers written by translate / origin += offset *)
  ek_transform_wr : E -> list addr;          (* buffers written by transform(magnification, ...) *)
  ek_own : option N -> cell -> M (list E) }. (* the first loop of Cell::get_X *)
Arguments ek_tree {E}. Arguments ek_new_copy {E}. Arguments ek_rep {E}. Arguments ek_clear_rep {E}.
Arguments ek_translate_wr {E}. Arguments ek_transform_wr {E}. Arguments ek_own {E}.

Definition writes (l : list addr) : M unit := iterM (fun a => if a =? 0 then ret tt else emit (EWrite a)) l.
Definition frees (l : list addr) : M unit := iterM mfree l.

(* void X::apply_repetition(Array<X*>& result):
     if (repetition.type == None) return;  get_offsets(offsets);  repetition.clear();
     if (offsets.count == 0) return;
     for (offset_count = offsets.count - 1; offset_count > 0; offset_count--)
         { x = allocate_clear; x->copy_from( *this); x->translate(offset); result.append_unsafe(x); } *)
Definition apply_repetition {E} (K : ekind E) (e : E) : M (E * list E) :=
  match ek_rep K e with
  | RNone => ret (e, [])
  | r =>
      frees (rep_frees r) ;;;
      let e' := ek_clear_rep K e in
      copies <- repeatM (N.to_nat (rep_count r - 1))
                        (c <- ek_new_copy K e' ;; writes (ek_translate_wr K c) ;;; ret c) ;;
      ret (e', copies)
  end.

(* for (i = start; i < finish; i++) result[i]->apply_repetition(result) *)
Fixpoint apply_all {E} (K : ekind E) (l : list E) : M (list E * list E) :=
  match l with
  | [] => ret ([], [])
  | e :: r =>
      ec <- apply_repetition K e ;;
      rr <- apply_all K r ;;
      ret (fst ec :: fst rr, snd ec ++ snd rr)
  end.

(* loop of Reference::get_X over the child's result: per src, per offset (count down), the last one moves
   src itself, the others are fresh copies; each is transformed *)
Definition ref_expand_one {E} (K : ekind E) (n : nat) (src : E) : M (list E) :=
  copies <- repeatM (n - 1) (c <- ek_new_copy K src ;; writes (ek_transform_wr K c) ;;; ret c) ;;
  match n with
  | O => ret []              (* a repetition of count 0: nothing is appended (src is leaked) *)
  | S _ => writes (ek_transform_wr K src) ;;; ret (copies ++ [src])
  end.

Fixpoint find_cell (env : list cell) (a : addr) : option cell :=
  match env with
  | [] => None
  | c :: r => if c_self c =? a then Some c else find_cell r a
  end.

Definition next_depth (depth : Z) : Z := if (depth >? 0)%Z then (depth - 1)%Z else (-1)%Z.

Definition ref_get {E} (K : ekind E) (rec : Z -> cell -> M (list E)) (env : list cell) (depth : Z)
           (r : reference) : M (list E) :=
  match rf_target r with
  | RTCell a =>
      match find_cell env a with
      | None => crash                       (* dangling Cell pointer *)
      | Some c =>
          child <- rec depth c ;;
          let n := match rf_rep r with RNone => 1%nat | rp => N.to_nat (rep_count rp) end in
          ls <- mapM (ref_expand_one K n) child ;;
          ret (concat ls)
      end
  | _ => ret []                             (* if (type != ReferenceType::Cell) return *)
  end.

(* void Cell::get_X(bool apply_repetitions, int64_t depth, bool filter, Tag tag, Array<X*>& result);
   `extra` = the outline polygons of get_polygons(include_paths = true), nothing for the other kinds *)
Fixpoint cell_get {E} (K : ekind E) (extra : option N -> cell -> M (list E)) (fuel : nat) (env : list cell)
         (apply_repetitions : bool) (depth : Z) (flt : option N) (c : cell) : M (list E) :=
  match fuel with
  | O => hang
  | S fuel' =>
      own <- ek_own K flt c ;;
      ex <- extra flt c ;;
      base <- (if apply_repetitions then
                 p <- apply_all K (own ++ ex) ;; ret (fst p ++ snd p)
               else ret (own ++ ex)) ;;
      if (depth =? 0)%Z then ret base
      else
        subs <- mapM (ref_get K (fun d c' => cell_get K extra fuel' env apply_repetitions d flt c')
                              env (next_depth depth)) (c_references c) ;;
        ret (base ++ concat subs)
  end.

Definition tag_match (flt : option N) (t : N) : bool :=
  match flt with None => true | Some x => t =? x end.

(* the four kinds *)
Definition polygon_kind : ekind polygon :=
  mkKind polygon polygon_tree polygon_new_copy pg_rep
         (fun p => mkPolygon (pg_self p) (pg_tag p) (pg_points p) RNone (pg_props p) (pg_owner p))
         (fun p => [a_items (pg_points p)])           (* translate: every vertex *)
         (fun p => [a_items (pg_points p)])           (* transform: every vertex *)
         (fun flt c => mapM polygon_new_copy (filter (fun p => tag_match flt (pg_tag p)) (c_polygons c))).

Definition label_kind : ekind label :=
  mkKind label label_tree label_new_copy lb_rep
         (fun l => mkLabel (lb_self l) (lb_tag l) (lb_text l) RNone (lb_props l) (lb_owner l))
         (fun l => [lb_self l])                       (* origin += offset *)
         (fun l => [lb_self l])                       (* origin, rotation, magnification, x_reflection *)
         (fun flt c => mapM label_new_copy (filter (fun l => tag_match flt (lb_tag l)) (c_labels c))).

Definition flexpath_kind : ekind flexpath :=
  mkKind flexpath flexpath_tree flexpath_new_copy fp_rep
         (fun f => mkFlex (fp_self f) (fp_spine f) (fp_props f) RNone (fp_raith_name f) (fp_elems f) (fp_els f)
                          (fp_owner f))
         (fun f => [a_items (fp_spine f)])            (* translate: the spine *)
         (fun f => a_items (fp_spine f) :: fp_elems f :: map (fun e => a_items (fe_hwo e)) (fp_els f))
                                                      (* transform: spine, end_extensions, widths and offsets *)
         (fun flt c => match flt with
                       | None => mapM flexpath_new_copy (c_flexpaths c)
                       | Some t => ls <- mapM (flexpath_filter_copy t) (c_flexpaths c) ;; ret (concat ls)
                       end).

Definition robustpath_kind : ekind robustpath :=
  mkKind robustpath robustpath_tree robustpath_new_copy rp_rep
         (fun r => mkRobust (rp_self r) (rp_props r) RNone (rp_subs r) (rp_subpaths r) (rp_elems r) (rp_els r)
                            (rp_owner r))
         (fun r => [rp_self r])                       (* trafo[2], trafo[5] *)
         (fun r => [rp_self r])                       (* trafo, width_scale, offset_scale *)
         (fun flt c => match flt with
                       | None => mapM robustpath_new_copy (c_robustpaths c)
                       | Some t => ls <- mapM (robustpath_filter_copy t) (c_robustpaths c) ;; ret (concat ls)
                       end).

Definition reference_kind : ekind reference :=      (* only Reference::apply_repetition uses it *)
  mkKind reference reference_tree reference_new_copy rf_rep
         (fun r => mkRef (rf_self r) (rf_target r) RNone (rf_props r) (rf_owner r))
         (fun r => [rf_self r]) (fun r => [rf_self r])
         (fun _ _ => ret []).

(* FlexPath::to_polygons / RobustPath::to_polygons as Cell::get_polygons(include_paths) sees them: per path
   element that passes the filter one polygon = new vertex buffer (sizes unknown: count 1 stands for
   "not empty"), allocate_clear, tag, repetition.copy_from, properties_copy *)
Definition outline_polygon (tag : N) (rep : repetition) (props : list property) : M polygon :=
  pts <- alloc ;;
  self <- alloc ;;
  rep' <- repetition_copy_from rep ;;
  props' <- properties_copy props ;;
  ret (mkPolygon self tag (mkArr 1 1 pts) rep' props' 0).
Definition flexpath_to_polygons (flt : option N) (f : flexpath) : M (list polygon) :=
  if a_cnt (fp_spine f) <? 2 then ret []             (* EmptyPath *)
  else mapM (fun e => outline_polygon (fe_tag e) (fp_rep f) (fp_props f))
            (filter (fun e => tag_match flt (fe_tag e)) (fp_els f)).
Definition robustpath_to_polygons (flt : option N) (r : robustpath) : M (list polygon) :=
  if a_cnt (rp_subs r) =? 0 then ret []
  else mapM (fun e => outline_polygon (re_tag e) (rp_rep r) (rp_props r))
            (filter (fun e => tag_match flt (re_tag e)) (rp_els r)).
Definition path_outlines (flt : option N) (c : cell) : M (list polygon) :=
  a <- mapM (flexpath_to_polygons flt) (c_flexpaths c) ;;
  b <- mapM (robustpath_to_polygons flt) (c_robustpaths c) ;;
  ret (concat a ++ concat b).
Definition no_extra {E} (flt : option N) (c : cell) : M (list E) := ret [].

Definition get_polygons (fuel : nat) (env : list cell) (ar ip : bool) (depth : Z) (flt : option N) (c : cell) :=
  cell_get polygon_kind (if ip then path_outlines else no_extra) fuel env ar depth flt c.
Definition get_flexpaths (fuel : nat) (env : list cell) (ar : bool) (depth : Z) (flt : option N) (c : cell) :=
  cell_get flexpath_kind no_extra fuel env ar depth flt c.
Definition get_robustpaths (fuel : nat) (env : list cell) (ar : bool) (depth : Z) (flt : option N) (c : cell) :=
  cell_get robustpath_kind no_extra fuel env ar depth flt c.
Definition get_labels (fuel : nat) (env : list cell) (ar : bool) (depth : Z) (flt : option N) (c : cell) :=
  cell_get label_kind no_extra fuel env ar depth flt c.

(* ------------------------------------------------------------------------------------------------ *)
(* Objects, states, operations                                                                        *)

Inductive obj : Type :=
| OPoly (p : polygon) | OFlex (f : flexpath) | ORobust (r : robustpath) | OLabel (l : label)
| ORef (r : reference) | OCell (c : cell) | OLib (l : library)
| OGone.                                   (* freed: the slot stays so that indices are stable *)

Definition obj_tree (o : obj) : otree :=
  match o with
  | OPoly p => polygon_tree p | OFlex f => flexpath_tree f | ORobust r => robustpath_tree r
  | OLabel l => label_tree l | ORef r => reference_tree r | OCell c => cell_tree c
  | OLib l => library_tree l | OGone => Grp [] []
  end.
(* `owned o`: the buffers reachable from o through owning pointers *)
Definition owned (o : obj) : list addr := addrs (obj_tree o).

Record state : Type := mkState { pool : list obj; mst : st }.

Inductive op : Type :=
| OpCopy (i : nat)                                     (* allocate_clear + copy_from (cell: deep, same name; library: deep) *)
| OpCellCopy (i : nat) (new_name : addr) (deep : bool) (* Cell::copy_from(cell, new_name, deep_copy) *)
| OpLibCopy (i : nat) (deep : bool)                    (* Library::copy_from(library, deep_copy) *)
| OpGet (what : N) (i : nat) (ar ip : bool) (depth : Z) (flt : option N)
                                                       (* what: 0 polygons, 1 flexpaths, 2 robustpaths, 3 labels *)
| OpApplyRep (i : nat)                                 (* X::apply_repetition(result) *)
| OpFree (i : nat)                                     (* clear() (cell / library: free_all()) + free_allocation *)
| OpClear (i : nat).                                   (* Cell::clear() / Library::clear() + free_allocation *)

Definition cells_of (o : obj) : list cell :=
  match o with OCell c => [c] | OLib l => l_cellobjs l | _ => [] end.
Definition env_of (p : list obj) : list cell := flat_map cells_of p.

Fixpoint set_nth {A} (n : nat) (x : A) (l : list A) : list A :=
  match l, n with
  | [], _ => []
  | _ :: t, O => x :: t
  | y :: t, S k => y :: set_nth k x t
  end.

Definition free_obj (o : obj) : M unit :=
  match o with
  | OPoly p => frees (polygon_frees p ++ [pg_self p])
  | OFlex f => frees (flexpath_frees f ++ [fp_self f])
  | ORobust r => frees (robustpath_frees r ++ [rp_self r])
  | OLabel l => frees (label_frees l ++ [lb_self l])
  | ORef r => frees (reference_frees r ++ [rf_self r])
  | OCell c => frees (cell_free_all_frees c ++ [c_self c])
  | OLib l => frees (library_free_all_frees l ++ [l_self l])
  | OGone => ret tt
  end.
Definition clear_obj (o : obj) : M unit :=
  match o with
  | OCell c => frees (cell_clear_frees c ++ [c_self c])
  | OLib l => frees (library_clear_frees l ++ [l_self l])
  | o' => free_obj o'
  end.

Definition fuel_of (p : list obj) : nat := S (length (env_of p)).

(* the effect of an operation on the pool: new pool, in the monad *)
Definition step_m (o : op) (p : list obj) : M (list obj) :=
  match o with
  | OpCopy i =>
      match nth i p OGone with
      | OPoly x => y <- polygon_new_copy x ;; ret (p ++ [OPoly y])
      | OFlex x => y <- flexpath_new_copy x ;; ret (p ++ [OFlex y])
      | ORobust x => y <- robustpath_new_copy x ;; ret (p ++ [ORobust y])
      | OLabel x => y <- label_new_copy x ;; ret (p ++ [OLabel y])
      | ORef x => y <- reference_new_copy x ;; ret (p ++ [ORef y])
      | OCell x => y <- cell_new_copy x 0 true ;; ret (p ++ [OCell y])
      | OLib x => y <- library_new_copy x true ;; ret (p ++ [OLib y])
      | OGone => crash
      end
  | OpCellCopy i nm deep =>
      match nth i p OGone with
      | OCell x => y <- cell_new_copy x nm deep ;; ret (p ++ [OCell y])
      | _ => crash
      end
  | OpLibCopy i deep =>
      match nth i p OGone with
      | OLib x => y <- library_new_copy x deep ;; ret (p ++ [OLib y])
      | _ => crash
      end
  | OpGet what i ar ip depth flt =>
      match nth i p OGone with
      | OCell c =>
          let env := env_of p in
          let fuel := fuel_of p in
          if what =? 0 then r <- get_polygons fuel env ar ip depth flt c ;; ret (p ++ map OPoly r)
          else if what =? 1 then r <- get_flexpaths fuel env ar depth flt c ;; ret (p ++ map OFlex r)
          else if what =? 2 then r <- get_robustpaths fuel env ar depth flt c ;; ret (p ++ map ORobust r)
          else r <- get_labels fuel env ar depth flt c ;; ret (p ++ map OLabel r)
      | _ => crash
      end
  | OpApplyRep i =>
      match nth i p OGone with
      | OPoly x => r <- apply_repetition polygon_kind x ;; ret (set_nth i (OPoly (fst r)) p ++ map OPoly (snd r))
      | OFlex x => r <- apply_repetition flexpath_kind x ;; ret (set_nth i (OFlex (fst r)) p ++ map OFlex (snd r))
      | ORobust x => r <- apply_repetition robustpath_kind x ;;
                     ret (set_nth i (ORobust (fst r)) p ++ map ORobust (snd r))
      | OLabel x => r <- apply_repetition label_kind x ;; ret (set_nth i (OLabel (fst r)) p ++ map OLabel (snd r))
      | ORef x => r <- apply_repetition reference_kind x ;; ret (set_nth i (ORef (fst r)) p ++ map ORef (snd r))
      | _ => crash
      end
  | OpFree i => free_obj (nth i p OGone) ;;; ret (set_nth i OGone p)
  | OpClear i => clear_obj (nth i p OGone) ;;; ret (set_nth i OGone p)
  end.

Definition step (o : op) (s : state) : outcome state :=
  match step_m o (pool s) (mst s) with
  | Ok (p, m) => Ok (mkState p m)
  | ErrEof => ErrEof | ErrOverflow => ErrOverflow | ErrInvalid => ErrInvalid
  | Crash => Crash | Hang => Hang
  end.
Fixpoint run (ops : list op) (s : state) : outcome state :=
  match ops with
  | [] => Ok s
  | o :: r => match step o s with
              | Ok s' => run r s'
              | ErrEof => ErrEof | ErrOverflow => ErrOverflow | ErrInvalid => ErrInvalid
              | Crash => Crash | Hang => Hang
              end
  end.

(* ------------------------------------------------------------------------------------------------ *)
(* Printing the aliasing pattern (what harness/c06_own.cpp prints from the real pointers)             *)

Inductive pitem : Type :=
| PBuf (a : addr) (k : bkind) (cap : option N) (meta : list N)
| PExt (a : addr).

Fixpoint ptrs (t : otree) : list pitem :=
  match t with
  | Buf a k cap m kids => PBuf a k cap m :: flat_map ptrs kids
  | Grp _ kids => flat_map ptrs kids
  | Ext a => [PExt a]
  | Raw t' => ptrs t'
  end.

(* canonical renumbering in order of first appearance, NULL stays 0 *)
Fixpoint lookup_num (a : addr) (tbl : list (addr * N)) : option N :=
  match tbl with
  | [] => None
  | (x, n) :: r => if x =? a then Some n else lookup_num a r
  end.
Definition number (a : addr) (tbl : list (addr * N)) : N * list (addr * N) :=
  if a =? 0 then (0, tbl)
  else match lookup_num a tbl with
       | Some n => (n, tbl)
       | None => let n := N.of_nat (length tbl) + 1 in (n, tbl ++ [(a, n)])
       end.

(* provenance of the contents of a buffer after a log: Some (origin, dirty) when the contents were copied
   (through any chain of copies) from buffer `origin`, dirty when written since; None: allocated by the
   log and never filled by a copy *)
Inductive prov : Type := PSelf | PFresh | PFrom (origin : addr) (dirty : bool).
Fixpoint prov_lookup (a : addr) (tbl : list (addr * prov)) : prov :=
  match tbl with
  | [] => PSelf
  | (x, p) :: r => if x =? a then p else prov_lookup a r
  end.
Definition prov_event (tbl : list (addr * prov)) (e : event) : list (addr * prov) :=
  match e with
  | EAlloc a => (a, PFresh) :: tbl
  | ECopy d s _ =>
      (d, match prov_lookup s tbl with
          | PSelf => PFrom s false
          | PFresh => PFresh
          | PFrom o dirty => PFrom o dirty
          end) :: tbl
  | EWrite a =>
      (a, match prov_lookup a tbl with
          | PSelf => PFrom a true
          | PFresh => PFresh
          | PFrom o _ => PFrom o true
          end) :: tbl
  | EFree _ => tbl
  end.
Definition prov_of (log : list event) : list (addr * prov) := fold_left prov_event log [].

Definition z_of_n (n : N) : Z := Z.of_N n.

(* tokens of the pattern line *)
Inductive pflag : Type :=
| FNone                 (* not a data buffer / not in the "after" part / NULL *)
| FShared               (* the address already existed before the operation *)
| FNew                  (* allocated by the operation, contents not copied from anywhere *)
| FDirty                (* copied, then written in place by the operation *)
| FFrom (n : N).        (* byte copy of the buffer with canonical number n (0: a buffer outside the pool) *)
Inductive ptok : Type :=
| TBuf (num : N) (k : bkind) (cap : option N) (hidden : bool) (flag : pflag)
| TExt (num : N)
| TSep                  (* end of an object *)
| TGone.                (* a freed slot *)

Definition is_ext (t : otree) : bool := match t with Ext _ => true | _ => false end.
Definition data_kind (k : bkind) : bool :=
  match k with KData _ => true | KBytes _ => true | KStr => true | KStrOpt => true | _ => false end.

Section Show.
  Variable hide : bool.
  Variable flagf : addr -> pflag.      (* the flag of a data buffer at this address *)

  Fixpoint show_tree (t : otree) (tbl : list (addr * N)) : list ptok * list (addr * N) :=
    match t with
    | Buf a k cap _ kids =>
        let (n, tbl1) := number a tbl in
        let fl := if (a =? 0) || negb (data_kind k) || existsb is_ext kids then FNone else flagf a in
        let (toks, tbl2) :=
          fold_left (fun (acc : list ptok * list (addr * N)) kid =>
                       let (ts, tb) := show_tree kid (snd acc) in (fst acc ++ ts, tb)) kids ([], tbl1) in
        (TBuf n k cap hide fl :: toks, tbl2)
    | Grp _ kids =>
        fold_left (fun (acc : list ptok * list (addr * N)) kid =>
                     let (ts, tb) := show_tree kid (snd acc) in (fst acc ++ ts, tb)) kids ([], tbl)
    | Ext a => let (n, tbl1) := number a tbl in ([TExt n], tbl1)
    | Raw t' => show_tree t' tbl
    end.
End Show.

Definition show_obj (hide : bool) (flagf : addr -> pflag) (o : obj) (tbl : list (addr * N))
  : list ptok * list (addr * N) :=
  match o with
  | OGone => ([TGone], tbl)
  | _ => let (ts, tb) := show_tree hide flagf (obj_tree o) tbl in (ts ++ [TSep], tb)
  end.

(* objects with index >= hide_from print their sizes hidden *)
Fixpoint show_pool (hide_from : option nat) (flagf : addr -> pflag) (p : list obj) (tbl : list (addr * N))
  : list ptok * list (addr * N) :=
  match p with
  | [] => ([], tbl)
  | o :: r =>
      let (ts, tb) := show_obj (match hide_from with Some O => true | _ => false end) flagf o tbl in
      let (ts2, tb2) := show_pool (match hide_from with Some (S k) => Some k | x => x end) flagf r tb in
      (ts ++ ts2, tb2)
  end.

(* the pattern of one operation: the pool before (B) and after (A) in ONE canonical numbering, the contents
   flags of A from the events of the operation *)
Definition show_step (before after : state) (hide_new : bool) : list ptok * list ptok :=
  let seg := skipn (length (evs (mst before))) (evs (mst after)) in
  let pv := prov_of seg in
  let baddrs := flat_map owned (pool before) in
  let '(tb, tbl) := show_pool None (fun _ => FNone) (pool before) [] in
  let flagf := fun a =>
    if mem a baddrs then FShared
    else match prov_lookup a pv with
         | PSelf => FShared
         | PFresh => FNew
         | PFrom o true => FDirty
         | PFrom o false => FFrom (match lookup_num o tbl with Some n => n | None => 0 end)
         end in
  let '(ta, _) := show_pool (if hide_new then Some (length (pool before)) else None) flagf (pool after) tbl in
  (tb, ta).

(* the initial allocator state: above every address that occurs anywhere in the pool or in the operations *)
Fixpoint all_values (t : otree) : list addr :=
  match t with
  | Buf a _ _ _ k => a :: flat_map all_values k
  | Grp _ k => flat_map all_values k
  | Ext a => [a]
  | Raw t' => all_values t'
  end.
Definition op_values (o : op) : list addr := match o with OpCellCopy _ nm _ => [nm] | _ => [] end.
Definition init_state (p : list obj) (ops : list op) : state :=
  mkState p (mkSt (1 + fold_left N.max (flat_map (fun o => all_values (obj_tree o)) p ++ flat_map op_values ops) 0) []).
