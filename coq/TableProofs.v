(* Proofs about the open-addressing table model of Table.v (C20, table part).
   Main results (towards the end of the file):
     table_refines_map_lemma      outputs of every history = outputs of an association list
                                  (all hash functions, all parameters with params_ok)
     table_no_failure_lemma       no Crash / Hang is reachable
     table_refines_map_eq_lemma   literal equality for histories that do not iterate
     tresize_grow_lemma           public resize to a capacity that is not smaller
     smap_/uset_/stylemap_refines_..., tagmap_refines_lemma   the four C++ instances
     current_constants_ok         the generated constants meet params_ok
     threshold_9_hangs            the side condition on the threshold is needed
   Proof plan: DESIGN.md Appendix A.1 (invariant = length, distinct keys, count, room, chain;
   deletion through the chain-or-pending loop invariant [cp]). *)
Require Import Base Generated Table.
From Coq Require Import Arith PeanoNat Lia Permutation.

(* ------------------------------------------------------------------ *)
(* lists                                                               *)
Lemma upd_length {A} (l : list A) i x : length (upd l i x) = length l.
Proof. revert i; induction l; destruct i; simpl; auto. Qed.
Lemma nth_upd_eq {A} (l : list A) i x d : i < length l -> nth i (upd l i x) d = x.
Proof. revert i; induction l; destruct i; simpl; intros; try lia; auto. apply IHl; lia. Qed.
Lemma nth_upd_neq {A} (l : list A) i j x d : i <> j -> nth j (upd l i x) d = nth j l d.
Proof. revert i j; induction l; destruct i, j; simpl; intros; try lia; auto. Qed.
Lemma nth_error_nth_in {A} (l : list A) i d : i < length l -> nth_error l i = Some (nth i l d).
Proof. revert i; induction l; destruct i; simpl; intros; try lia; auto. apply IHl; lia. Qed.
Lemma nth_repeat_none {A} (x : A) n i : nth i (repeat x n) x = x.
Proof. revert i; induction n; destruct i; simpl; auto. Qed.

(* ------------------------------------------------------------------ *)
(* modular arithmetic: everything about wrap-around is confined here    *)
Definition dist (c a i : nat) : nat := (i + c - a) mod c.

Lemma dist_lt c a i : 0 < c -> dist c a i < c.
Proof. intros. unfold dist. apply Nat.mod_upper_bound. lia. Qed.

Lemma dist_reach c a i : i < c -> a < c -> (a + dist c a i) mod c = i.
Proof.
  intros. unfold dist. assert (c <> 0) by lia.
  destruct (le_lt_dec a i).
  - replace (i + c - a) with ((i - a) + 1 * c) by lia. rewrite Nat.mod_add by lia.
    rewrite (Nat.mod_small (i - a)) by lia. replace (a + (i - a)) with i by lia.
    apply Nat.mod_small; lia.
  - rewrite (Nat.mod_small (i + c - a)) by lia. replace (a + (i + c - a)) with (i + 1 * c) by lia.
    rewrite Nat.mod_add by lia. apply Nat.mod_small; lia.
Qed.

Lemma dist_of_reach c a d : a < c -> d < c -> dist c a ((a + d) mod c) = d.
Proof.
  intros Ha Hd. unfold dist.
  destruct (le_lt_dec c (a + d)).
  - replace ((a + d) mod c) with (a + d - c).
    2:{ replace (a + d) with ((a + d - c) + 1 * c) at 2 by lia. rewrite Nat.mod_add by lia.
        rewrite Nat.mod_small; lia. }
    replace (a + d - c + c - a) with d by lia. apply Nat.mod_small; lia.
  - rewrite (Nat.mod_small (a + d)) by lia. replace (a + d + c - a) with (d + 1 * c) by lia.
    rewrite Nat.mod_add by lia. apply Nat.mod_small; lia.
Qed.

(* offsets below c from the same start reach different slots *)
Lemma mod_off_inj c s d1 d2 : d1 < c -> d2 < c -> (s + d1) mod c = (s + d2) mod c -> d1 = d2.
Proof.
  intros H1 H2 E. assert (Hc : c <> 0) by lia.
  rewrite <- (Nat.add_mod_idemp_l s d1 c Hc) in E. rewrite <- (Nat.add_mod_idemp_l s d2 c Hc) in E.
  pose proof (Nat.mod_upper_bound s c Hc) as Hs.
  rewrite <- (dist_of_reach c (s mod c) d1 Hs H1). rewrite <- (dist_of_reach c (s mod c) d2 Hs H2).
  rewrite E. reflexivity.
Qed.

Lemma mod_shift c a b x : c <> 0 -> a mod c = b mod c -> (a + x) mod c = (b + x) mod c.
Proof.
  intros Hc E. rewrite <- (Nat.add_mod_idemp_l a x c Hc). rewrite <- (Nat.add_mod_idemp_l b x c Hc).
  rewrite E. reflexivity.
Qed.

Lemma next_idx_mod c s : 0 < c -> next_idx c (s mod c) = S s mod c.
Proof.
  intros Hc. assert (c <> 0) by lia.
  pose proof (Nat.div_mod s c H) as E. pose proof (Nat.mod_upper_bound s c H) as B.
  unfold next_idx. remember (s / c) as q. remember (s mod c) as m.
  destruct (Nat.eqb_spec (S m) c).
  - replace (S s) with (0 + (S q) * c) by (rewrite E; lia). rewrite Nat.mod_add by lia.
    rewrite Nat.mod_small; lia.
  - replace (S s) with (S m + q * c) by (rewrite E; lia). rewrite Nat.mod_add by lia.
    rewrite Nat.mod_small; lia.
Qed.

(* every slot is reached from every start *)
Lemma reach c s i : i < c -> exists d, d < c /\ (s + d) mod c = i.
Proof.
  intros Hi. assert (Hc : c <> 0) by lia.
  pose proof (Nat.mod_upper_bound s c Hc) as Hs.
  exists (dist c (s mod c) i). split; [apply dist_lt; lia|].
  rewrite <- (Nat.add_mod_idemp_l s _ c Hc). apply dist_reach; auto.
Qed.

(* ------------------------------------------------------------------ *)
Section Proofs.
Variables K V : Type.
Variable keqb : K -> K -> bool.
Hypothesis keqb_spec : forall a b, keqb a b = true <-> a = b.
Variable hash : K -> N.
Variables initial growth thr : nat.

Notation table := (table K V).
Notation slot := (slot K V).
Notation probe := (probe K V keqb).
Notation get_slot := (get_slot K V keqb hash).
Notation put := (put K V).
Notation empty_table := (empty_table K V).

Lemma keqb_refl k : keqb k k = true.
Proof. apply keqb_spec; reflexivity. Qed.
Lemma keqb_neq a b : a <> b -> keqb a b = false.
Proof. intros H. destruct (keqb a b) eqn:E; auto. apply keqb_spec in E. contradiction. Qed.
Lemma key_dec (a b : K) : {a = b} + {a <> b}.
Proof.
  destruct (keqb a b) eqn:E; [left; apply keqb_spec; auto|].
  right; intros ->. rewrite keqb_refl in E. discriminate.
Qed.

Definition get (t : table) (i : nat) : slot := nth i (slots t) None.
Definition hm (t : table) (k : K) : nat := home K hash (cap t) k.
Definition hit (t : table) (k : K) (i : nat) : bool :=
  match get t i with None => true | Some (k', _) => keqb k' k end.
Definition occupied (t : table) (i : nat) : Prop := get t i <> None.

Lemma hm_lt t k : 0 < cap t -> hm t k < cap t.
Proof.
  intros Hc. unfold hm, home.
  assert (N.of_nat (cap t) <> 0%N) by lia.
  pose proof (N.mod_upper_bound (hash k) (N.of_nat (cap t)) H). lia.
Qed.

Lemma get_put_eq t i s : length (slots t) = cap t -> i < cap t -> get (put t i s) i = s.
Proof. intros. unfold get, Table.put; simpl. apply nth_upd_eq; lia. Qed.
Lemma get_put_neq t i j s : i <> j -> get (put t i s) j = get t j.
Proof. intros. unfold get, Table.put; simpl. apply nth_upd_neq; auto. Qed.
Lemma nth_error_get t i : length (slots t) = cap t -> i < cap t -> nth_error (slots t) i = Some (get t i).
Proof. intros. unfold get. apply nth_error_nth_in. lia. Qed.

(* ---- the probe walk ---- *)
Lemma probe_cases t k :
  length (slots t) = cap t -> 0 < cap t ->
  forall fuel s,
    (exists d, d < fuel /\ probe fuel t k (s mod cap t) = Ok ((s + d) mod cap t) /\
               hit t k ((s + d) mod cap t) = true /\
               forall d', d' < d -> hit t k ((s + d') mod cap t) = false)
    \/ (probe fuel t k (s mod cap t) = Hang /\ forall d, d < fuel -> hit t k ((s + d) mod cap t) = false).
Proof.
  intros Hlen Hc. induction fuel as [|f IH]; intros s.
  - right. split; [reflexivity|]. intros; lia.
  - assert (Hs : s mod cap t < cap t) by (apply Nat.mod_upper_bound; lia).
    cbn [Table.probe]. rewrite (nth_error_get t _ Hlen Hs).
    assert (H0 : hit t k ((s + 0) mod cap t) = hit t k (s mod cap t)) by (rewrite Nat.add_0_r; auto).
    destruct (get t (s mod cap t)) as [[k' v']|] eqn:G.
    + destruct (keqb k' k) eqn:E.
      * left. exists 0. rewrite Nat.add_0_r. repeat split; try lia; auto.
        unfold hit. rewrite G. auto.
      * rewrite next_idx_mod by auto.
        assert (Hh : hit t k (s mod cap t) = false) by (unfold hit; rewrite G; auto).
        destruct (IH (S s)) as [(d & Hd & Hp & Hh' & Hmin)|(Hp & Hall)].
        -- left. exists (S d). replace (s + S d) with (S s + d) by lia.
           repeat split; auto; try lia.
           intros d' Hd'. destruct d' as [|d'']; [rewrite H0; auto|].
           replace (s + S d'') with (S s + d'') by lia. apply Hmin. lia.
        -- right. split; auto. intros d Hd. destruct d as [|d'']; [rewrite H0; auto|].
           replace (s + S d'') with (S s + d'') by lia. apply Hall. lia.
    + left. exists 0. rewrite Nat.add_0_r. repeat split; try lia; auto.
      unfold hit. rewrite G. auto.
Qed.

Definition has_empty (t : table) : Prop := exists i, i < cap t /\ get t i = None.

(* get_slot returns the first slot on the probe path that is empty or holds the key *)
Lemma get_slot_ok t k :
  length (slots t) = cap t -> has_empty t ->
  exists d, d < cap t /\ get_slot t k = Ok ((hm t k + d) mod cap t) /\
            hit t k ((hm t k + d) mod cap t) = true /\
            forall d', d' < d -> hit t k ((hm t k + d') mod cap t) = false.
Proof.
  intros Hlen (e & He & Hge). assert (Hc : 0 < cap t) by lia.
  unfold Table.get_slot. destruct (Nat.eqb_spec (cap t) 0); [lia|].
  pose proof (hm_lt t k Hc) as Hh.
  destruct (probe_cases t k Hlen Hc (cap t) (hm t k)) as [(d & Hd & Hp & Hh' & Hmin)|(Hp & Hall)].
  - exists d. rewrite (Nat.mod_small (hm t k)) in Hp by auto. fold (hm t k). repeat split; auto.
  - exfalso. destruct (reach (cap t) (hm t k) e He) as (d & Hd & Hde).
    specialize (Hall d Hd). rewrite Hde in Hall. unfold hit in Hall. rewrite Hge in Hall. discriminate.
Qed.

(* ---- invariant ---- *)
Definition distinct (t : table) : Prop :=
  forall i j k v v', i < cap t -> j < cap t -> get t i = Some (k, v) -> get t j = Some (k, v') -> i = j.

Definition chain_at (t : table) (i : nat) : Prop :=
  forall k v, get t i = Some (k, v) ->
    forall d, d < dist (cap t) (hm t k) i -> occupied t ((hm t k + d) mod cap t).

Definition chain (t : table) : Prop := forall i, i < cap t -> chain_at t i.

Fixpoint count_some (l : list slot) : nat :=
  match l with
  | [] => 0
  | None :: tl => count_some tl
  | Some _ :: tl => S (count_some tl)
  end.

(* structural part *)
Definition SInv (t : table) : Prop := length (slots t) = cap t /\ distinct t /\ chain t.

(* full invariant: structure, count field, room for one more, load bound *)
Definition Inv (t : table) : Prop :=
  SInv t /\ count t = count_some (slots t) /\
  (cap t = 0 \/ (initial <= cap t /\ count t < cap t)) /\
  count t * 10 < cap t * thr + 10.

Definition stored (t : table) (k : K) (v : V) : Prop := exists i, i < cap t /\ get t i = Some (k, v).

(* counting *)
Lemma count_some_le (l : list slot) : count_some l <= length l.
Proof. induction l as [|[x|] l IH]; simpl; lia. Qed.

Lemma exists_empty (l : list slot) : count_some l < length l -> exists i, i < length l /\ nth i l None = None.
Proof.
  induction l as [|[x|] l IH]; simpl; intros H; try lia.
  - destruct IH as (i & Hi & Hn); [lia|]. exists (S i). split; [lia|auto].
  - exists 0. split; [lia|auto].
Qed.

Lemma exists_other_empty (l : list slot) :
  count_some l + 1 < length l -> forall r, exists e, e < length l /\ e <> r /\ nth e l None = None.
Proof.
  induction l as [|[x|] l IH]; simpl; intros H r; try lia.
  - destruct (IH ltac:(lia) (Nat.pred r)) as (e & He & Her & Hn).
    exists (S e). repeat split; auto; lia.
  - destruct r as [|r'].
    + destruct (exists_empty l ltac:(lia)) as (i & Hi & Hn). exists (S i). repeat split; auto; lia.
    + exists 0. repeat split; auto; lia.
Qed.

Lemma count_some_upd_fill (l : list slot) i x :
  i < length l -> nth i l None = None -> count_some (upd l i (Some x)) = S (count_some l).
Proof.
  revert i; induction l as [|[y|] l IH]; destruct i; simpl; intros Hi Hn; try lia; try discriminate; auto.
  - rewrite IH; auto; lia.
  - apply IH; auto; lia.
Qed.

Lemma count_some_upd_over (l : list slot) i x y :
  nth i l None = Some y -> count_some (upd l i (Some x)) = count_some l.
Proof.
  revert i; induction l as [|[z|] l IH]; destruct i; simpl; intros Hn; try discriminate; auto.
Qed.

Lemma count_some_upd_clear (l : list slot) i y :
  nth i l None = Some y -> S (count_some (upd l i None)) = count_some l.
Proof.
  revert i; induction l as [|[z|] l IH]; destruct i; simpl; intros Hn; try discriminate; auto.
Qed.

Lemma count_some_repeat n : count_some (repeat None n) = 0.
Proof. induction n; simpl; auto. Qed.

Lemma has_empty_count t :
  length (slots t) = cap t -> count_some (slots t) < cap t -> has_empty t.
Proof.
  intros Hl Hc. destruct (exists_empty (slots t)) as (i & Hi & Hn); [lia|].
  exists i. split; [lia|auto].
Qed.

(* ---- look-up finds the stored key ---- *)
Lemma get_slot_finds t k i v :
  length (slots t) = cap t -> distinct t -> chain_at t i -> has_empty t ->
  i < cap t -> get t i = Some (k, v) -> get_slot t k = Ok i.
Proof.
  intros Hlen Hdis Hch Hemp Hi Hg.
  destruct (get_slot_ok t k Hlen Hemp) as (d & Hd & Hp & Hhit & Hmin).
  rewrite Hp. f_equal.
  assert (Hc : 0 < cap t) by lia.
  pose proof (hm_lt t k Hc) as Hh.
  set (di := dist (cap t) (hm t k) i).
  assert (Hdi : (hm t k + di) mod cap t = i) by (apply dist_reach; auto).
  assert (Hdil : di < cap t) by (apply dist_lt; auto).
  destruct (lt_eq_lt_dec d di) as [[Hlt|Heq]|Hgt].
  - pose proof (Hch k v Hg d Hlt) as Hocc.
    set (r := (hm t k + d) mod cap t) in *.
    unfold hit in Hhit. unfold occupied in Hocc.
    destruct (get t r) as [[k' v']|] eqn:G; [|congruence].
    apply keqb_spec in Hhit. subst k'.
    assert (r < cap t) by (apply Nat.mod_upper_bound; lia).
    eapply Hdis; eauto.
  - subst d. auto.
  - specialize (Hmin di Hgt). rewrite Hdi in Hmin. unfold hit in Hmin. rewrite Hg in Hmin.
    rewrite keqb_refl in Hmin. discriminate.
Qed.

(* a key that is not stored is sent to an empty slot *)
Lemma get_slot_absent t k :
  length (slots t) = cap t -> has_empty t -> (forall v, ~ stored t k v) ->
  exists d, d < cap t /\ get_slot t k = Ok ((hm t k + d) mod cap t) /\
            get t ((hm t k + d) mod cap t) = None /\
            forall d', d' < d -> occupied t ((hm t k + d') mod cap t).
Proof.
  intros Hlen Hemp Habs.
  destruct (get_slot_ok t k Hlen Hemp) as (d & Hd & Hp & Hhit & Hmin).
  assert (Hc : 0 < cap t) by lia.
  exists d. repeat split; auto.
  - unfold hit in Hhit. destruct (get t ((hm t k + d) mod cap t)) as [[k' v']|] eqn:G; auto.
    apply keqb_spec in Hhit. subst k'. exfalso. apply (Habs v').
    exists ((hm t k + d) mod cap t). split; auto. apply Nat.mod_upper_bound; lia.
  - intros d' Hd'. specialize (Hmin d' Hd'). unfold hit in Hmin. unfold occupied.
    destruct (get t ((hm t k + d') mod cap t)); congruence.
Qed.

(* ---- chain-or-pending: the loop invariant of del ----
   [pend t s i]: slot i lies in the run of occupied slots that starts at position s (s is an
   unreduced position, the slot is s mod cap). *)
Definition pend (t : table) (s i : nat) : Prop :=
  exists d, d < cap t /\ i = (s + d) mod cap t /\
            forall d', d' <= d -> occupied t ((s + d') mod cap t).

Definition cp (t : table) (s : nat) : Prop :=
  forall i, i < cap t -> chain_at t i \/ pend t s i.

Lemma cp_of_chain t s : chain t -> cp t s.
Proof. intros H i Hi. left. auto. Qed.

Lemma chain_of_cp t s : cp t s -> get t (s mod cap t) = None -> chain t.
Proof.
  intros H Hn i Hi. destruct (H i Hi) as [Hc|(d & Hd & Hid & Hocc)]; auto.
  exfalso. specialize (Hocc 0 ltac:(lia)). rewrite Nat.add_0_r in Hocc. apply Hocc. auto.
Qed.

Lemma occupied_put_some t r e x :
  length (slots t) = cap t -> r < cap t -> occupied t x -> occupied (put t r (Some e)) x.
Proof.
  intros Hl Hr Hx. unfold occupied in *. destruct (Nat.eq_dec r x).
  - subst. rewrite get_put_eq by auto. congruence.
  - rewrite get_put_neq by auto. auto.
Qed.

Lemma cp_fill t s k v r d :
  length (slots t) = cap t -> 0 < cap t -> cp t s ->
  d < cap t -> r = (hm t k + d) mod cap t -> get t r = None ->
  (forall d', d' < d -> occupied t ((hm t k + d') mod cap t)) ->
  cp (put t r (Some (k, v))) s.
Proof.
  intros Hl Hc Hcp Hd Hr Hg Hbefore i Hi. simpl in Hi.
  assert (Hrc : r < cap t) by (subst r; apply Nat.mod_upper_bound; lia).
  pose proof (hm_lt t k Hc) as Hh.
  destruct (Nat.eq_dec i r).
  - subst i. left. intros k0 v0 G d0 Hd0. rewrite get_put_eq in G by auto. inversion G; subst k0 v0.
    change (hm (put t r (Some (k, v))) k) with (hm t k) in *.
    change (cap (put t r (Some (k, v)))) with (cap t) in *.
    rewrite Hr in Hd0. rewrite dist_of_reach in Hd0 by auto.
    apply occupied_put_some; auto.
  - destruct (Hcp i Hi) as [Hch|(d1 & Hd1 & Hid & Hocc)].
    + left. intros k0 v0 G d0 Hd0. rewrite get_put_neq in G by auto.
      change (hm (put t r (Some (k, v))) k0) with (hm t k0) in *.
      change (cap (put t r (Some (k, v)))) with (cap t) in *.
      apply occupied_put_some; auto. eapply Hch; eauto.
    + right. exists d1. change (cap (put t r (Some (k, v)))) with (cap t).
      repeat split; auto. intros d' Hd'. apply occupied_put_some; auto.
Qed.

Lemma bounded_search (f : nat -> bool) n :
  (exists d, d < n /\ f d = true) \/ (forall d, d < n -> f d = false).
Proof.
  induction n as [|n IH].
  - right. intros; lia.
  - destruct IH as [(d & Hd & Hf)|Hall].
    + left. exists d. split; [lia|auto].
    + destruct (f n) eqn:E.
      * left. exists n. split; [lia|auto].
      * right. intros d Hd. destruct (Nat.eq_dec d n); [subst; auto|apply Hall; lia].
Qed.

Lemma pend_vacate t s i :
  length (slots t) = cap t -> 0 < cap t -> pend t s i -> i <> s mod cap t ->
  pend (put t (s mod cap t) None) (S s) i.
Proof.
  intros Hl Hc (d & Hd & Hid & Hocc) Hne.
  destruct d as [|d1]; [rewrite Nat.add_0_r in Hid; contradiction|].
  exists d1. change (cap (put t (s mod cap t) None)) with (cap t).
  replace (S s + d1) with (s + S d1) by lia. repeat split; auto; try lia.
  intros d' Hd'. replace (S s + d') with (s + S d') by lia.
  unfold occupied. rewrite get_put_neq.
  - apply Hocc. lia.
  - intros E. rewrite <- (Nat.add_0_r s) in E at 1. apply mod_off_inj in E; lia.
Qed.

Lemma cp_vacate t s :
  length (slots t) = cap t -> 0 < cap t -> cp t s -> cp (put t (s mod cap t) None) (S s).
Proof.
  intros Hl Hc Hcp i Hi. simpl in Hi.
  assert (Hcn : cap t <> 0) by lia.
  set (g := s mod cap t).
  assert (Hg : g < cap t) by (apply Nat.mod_upper_bound; lia).
  destruct (Nat.eq_dec i g).
  - subst i. left. intros k v G. rewrite get_put_eq in G by auto. discriminate.
  - destruct (Hcp i Hi) as [Hch|Hp].
    2:{ right. apply pend_vacate; auto. }
    destruct (get t i) as [[k v]|] eqn:G.
    2:{ left. intros k v G'. rewrite get_put_neq in G' by auto. congruence. }
    pose proof (hm_lt t k Hc) as Hh.
    set (D := dist (cap t) (hm t k) i).
    destruct (bounded_search (fun d0 => Nat.eqb ((hm t k + d0) mod cap t) g) D) as [(d0 & Hd0 & E)|Hall].
    + right. apply pend_vacate; auto.
      apply Nat.eqb_eq in E.
      assert (HD : D < cap t) by (apply dist_lt; auto).
      exists (D - d0). repeat split; try lia.
      * assert (E' : (hm t k + d0) mod cap t = s mod cap t) by exact E.
        rewrite <- (mod_shift (cap t) _ _ (D - d0) Hcn E').
        replace (hm t k + d0 + (D - d0)) with (hm t k + D) by lia.
        symmetry. apply dist_reach; auto.
      * intros d' Hd'.
        assert (E' : (hm t k + d0) mod cap t = s mod cap t) by exact E.
        rewrite <- (mod_shift (cap t) _ _ d' Hcn E').
        destruct (Nat.eq_dec (d0 + d') D) as [Heq|Hneq].
        -- replace (hm t k + d0 + d') with (hm t k + D) by lia.
           unfold D. rewrite dist_reach by auto. unfold occupied. congruence.
        -- replace (hm t k + d0 + d') with (hm t k + (d0 + d')) by lia.
           apply (Hch k v G). fold D. lia.
    + left. intros k0 v0 G' d1 Hd1. rewrite get_put_neq in G' by auto.
      rewrite G in G'. inversion G'; subst k0 v0.
      change (hm (put t g None) k) with (hm t k) in *.
      change (cap (put t g None)) with (cap t) in *.
      fold D in Hd1. specialize (Hall d1 Hd1). apply Nat.eqb_neq in Hall.
      unfold occupied. rewrite get_put_neq by auto. apply (Hch k v G). fold D. auto.
Qed.

(* ---- distinctness under the two updates ---- *)
Lemma distinct_clear t g : length (slots t) = cap t -> distinct t -> distinct (put t g None).
Proof.
  intros Hl Hd i j k v v' Hi Hj Gi Gj. simpl in Hi, Hj.
  destruct (Nat.eq_dec g i); [subst; rewrite get_put_eq in Gi by auto; discriminate|].
  destruct (Nat.eq_dec g j); [subst; rewrite get_put_eq in Gj by auto; discriminate|].
  rewrite get_put_neq in Gi, Gj by auto. eauto.
Qed.

Lemma distinct_fill t r k v :
  length (slots t) = cap t -> distinct t -> r < cap t -> (forall v', ~ stored t k v') ->
  distinct (put t r (Some (k, v))).
Proof.
  intros Hl Hd Hr Habs i j k0 v0 v0' Hi Hj Gi Gj. simpl in Hi, Hj.
  destruct (Nat.eq_dec r i), (Nat.eq_dec r j); subst; auto.
  - rewrite get_put_eq in Gi by auto. rewrite get_put_neq in Gj by auto. inversion Gi; subst.
    exfalso. apply (Habs v0'). exists j; auto.
  - rewrite get_put_eq in Gj by auto. rewrite get_put_neq in Gi by auto. inversion Gj; subst.
    exfalso. apply (Habs v0). exists i; auto.
  - rewrite get_put_neq in Gi, Gj by auto. eauto.
Qed.

(* ---- the stored entries under the three updates ---- *)
Lemma stored_put_fill t r k v k' v' :
  length (slots t) = cap t -> r < cap t -> get t r = None ->
  (stored (put t r (Some (k, v))) k' v' <-> (k' = k /\ v' = v) \/ stored t k' v').
Proof.
  intros Hl Hr Hg. split.
  - intros (i & Hi & G). simpl in Hi. destruct (Nat.eq_dec r i).
    + subst. rewrite get_put_eq in G by auto. inversion G; auto.
    + rewrite get_put_neq in G by auto. right. exists i; auto.
  - intros [(-> & ->)|(i & Hi & G)].
    + exists r. split; auto. apply get_put_eq; auto.
    + exists i. split; auto. rewrite get_put_neq; auto. intros ->. congruence.
Qed.

Lemma stored_put_over t r k v0 v k' v' :
  length (slots t) = cap t -> distinct t -> r < cap t -> get t r = Some (k, v0) ->
  (stored (put t r (Some (k, v))) k' v' <-> (k' = k /\ v' = v) \/ (k' <> k /\ stored t k' v')).
Proof.
  intros Hl Hd Hr Hg. split.
  - intros (i & Hi & G). simpl in Hi. destruct (Nat.eq_dec r i).
    + subst. rewrite get_put_eq in G by auto. inversion G; auto.
    + rewrite get_put_neq in G by auto. right. split; [|exists i; auto].
      intros ->. apply n. eapply Hd; eauto.
  - intros [(-> & ->)|(Hne & i & Hi & G)].
    + exists r. split; auto. apply get_put_eq; auto.
    + exists i. split; auto. rewrite get_put_neq; auto. intros ->. congruence.
Qed.

Lemma stored_put_clear t g k v k' v' :
  length (slots t) = cap t -> distinct t -> g < cap t -> get t g = Some (k, v) ->
  (stored (put t g None) k' v' <-> k' <> k /\ stored t k' v').
Proof.
  intros Hl Hd Hg G0. split.
  - intros (i & Hi & G). simpl in Hi. destruct (Nat.eq_dec g i).
    + subst. rewrite get_put_eq in G by auto. discriminate.
    + rewrite get_put_neq in G by auto. split; [|exists i; auto].
      intros ->. apply n. eapply Hd; eauto.
  - intros (Hne & i & Hi & G). exists i. split; auto. rewrite get_put_neq; auto.
    intros ->. congruence.
Qed.

Lemma distinct_over t r k v0 v :
  length (slots t) = cap t -> distinct t -> r < cap t -> get t r = Some (k, v0) ->
  distinct (put t r (Some (k, v))).
Proof.
  intros Hl Hd Hr G0 i j k1 v1 v1' Hi Hj Gi Gj. simpl in Hi, Hj.
  destruct (Nat.eq_dec r i), (Nat.eq_dec r j); subst; auto.
  - rewrite get_put_eq in Gi by auto. rewrite get_put_neq in Gj by auto. inversion Gi; subst. eauto.
  - rewrite get_put_eq in Gj by auto. rewrite get_put_neq in Gi by auto. inversion Gj; subst. eauto.
  - rewrite get_put_neq in Gi, Gj by auto. eauto.
Qed.

Lemma chain_over t r k v0 v :
  length (slots t) = cap t -> chain t -> r < cap t -> get t r = Some (k, v0) ->
  chain (put t r (Some (k, v))).
Proof.
  intros Hl Hch Hr G0 i Hi k1 v1 G d Hd. simpl in Hi.
  change (hm (put t r (Some (k, v))) k1) with (hm t k1) in *.
  change (cap (put t r (Some (k, v)))) with (cap t) in *.
  apply occupied_put_some; auto.
  destruct (Nat.eq_dec r i).
  - subst. rewrite get_put_eq in G by auto. inversion G; subst. eapply Hch; eauto.
  - rewrite get_put_neq in G by auto. eapply Hch; eauto.
Qed.

Lemma not_stored_of_slot t k r :
  length (slots t) = cap t -> distinct t -> chain t -> has_empty t ->
  get_slot t k = Ok r -> get t r = None -> forall v, ~ stored t k v.
Proof.
  intros Hl Hd Hch He Hp Hg v (i & Hi & G).
  rewrite (get_slot_finds t k i v Hl Hd (Hch i Hi) He Hi G) in Hp. inversion Hp; subst. congruence.
Qed.

(* ---- set without the resize test ---- *)
Notation tset_core := (tset_core K V keqb hash).

Lemma tset_core_ok t k v :
  SInv t -> count t = count_some (slots t) -> count t + 1 < cap t ->
  exists t', tset_core t k v = Ok t' /\ SInv t' /\ cap t' = cap t /\
    count t' = count_some (slots t') /\ count t <= count t' /\ count t' <= S (count t) /\
    ((forall v0, ~ stored t k v0) -> count t' = S (count t)) /\
    (forall k' v', stored t' k' v' <-> (k' = k /\ v' = v) \/ (k' <> k /\ stored t k' v')).
Proof.
  intros (Hl & Hd & Hch) Hcnt Hroom.
  assert (Hc : 0 < cap t) by lia.
  assert (He : has_empty t) by (apply has_empty_count; auto; lia).
  destruct (get_slot_ok t k Hl He) as (d & Hdlt & Hp & Hhit & Hmin).
  set (r := (hm t k + d) mod cap t) in *.
  assert (Hr : r < cap t) by (apply Nat.mod_upper_bound; lia).
  unfold Table.tset_core. rewrite Hp. cbn [obind]. rewrite (nth_error_get t r Hl Hr).
  destruct (get t r) as [[k0 v0]|] eqn:G.
  - (* overwrite *)
    unfold hit in Hhit. rewrite G in Hhit. apply keqb_spec in Hhit. subst k0.
    eexists. split; [reflexivity|].
    change (mkTable (cap t) (count t) (upd (slots t) r (Some (k, v)))) with (put t r (Some (k, v))).
    assert (S1 : SInv (put t r (Some (k, v)))).
    { split; [|split].
      - simpl. rewrite upd_length. auto.
      - eapply distinct_over; eauto.
      - eapply chain_over; eauto. }
    assert (C1 : count_some (upd (slots t) r (Some (k, v))) = count_some (slots t))
      by (apply (count_some_upd_over (slots t) r (k, v) (k, v0)); auto).
    split; [exact S1|]. split; [reflexivity|]. simpl.
    split; [lia|]. split; [lia|]. split; [lia|].
    split; [intros Habs; exfalso; apply (Habs v0); exists r; auto|].
    intros k' v'. eapply stored_put_over; eauto.
  - (* new key *)
    assert (Habs : forall v0, ~ stored t k v0) by (eapply not_stored_of_slot; eauto).
    eexists. split; [reflexivity|].
    assert (Hbefore : forall d', d' < d -> occupied t ((hm t k + d') mod cap t)).
    { intros d' Hd'. specialize (Hmin d' Hd'). unfold hit in Hmin. unfold occupied.
      destruct (get t ((hm t k + d') mod cap t)); congruence. }
    destruct (exists_other_empty (slots t) ltac:(lia) r) as (e & Hel & Her & Hen).
    assert (S1 : SInv (put t r (Some (k, v)))).
    { split; [|split].
      - simpl. rewrite upd_length. auto.
      - apply distinct_fill; auto.
      - apply (chain_of_cp _ e).
        + apply (cp_fill t e k v r d); auto. apply cp_of_chain; auto.
        + change (cap (put t r (Some (k, v)))) with (cap t).
          rewrite Nat.mod_small by lia. rewrite get_put_neq by auto. exact Hen. }
    assert (C1 : count_some (upd (slots t) r (Some (k, v))) = S (count_some (slots t)))
      by (apply count_some_upd_fill; [lia | exact G]).
    split; [exact S1|]. split; [reflexivity|]. simpl.
    split; [lia|]. split; [lia|]. split; [lia|]. split; [intros; lia|].
    intros k' v'.
    change (mkTable (cap t) (S (count t)) (upd (slots t) r (Some (k, v)))) with
      (Table.mkTable (cap (put t r (Some (k, v)))) (S (count t)) (slots (put t r (Some (k, v))))).
    assert (E : stored (put t r (Some (k, v))) k' v' <-> (k' = k /\ v' = v) \/ stored t k' v')
      by (apply stored_put_fill; auto).
    split.
    + intros H. apply E in H. destruct H as [H|H]; auto. right. split; auto.
      intros ->. apply (Habs v'). auto.
    + intros [H|(_ & H)]; apply E; auto.
Qed.

(* ---- del: the re-insertion loop ---- *)
Notation del_loop := (del_loop K V keqb hash).

(* T: the table before del (slot r occupied); t: the current table; the scan has handled the
   positions r+1 .. r+n; everything beyond is still as in T. *)
Lemma del_loop_ok T r :
  SInv T -> r < cap T ->
  forall fuel n t,
    fuel + n = cap T ->
    cap t = cap T -> length (slots t) = cap t -> distinct t -> cp t (S (r + n)) ->
    (forall d, n < d < cap T -> get t ((r + d) mod cap T) = get T ((r + d) mod cap T)) ->
    (exists de, n < de < cap T /\ get T ((r + de) mod cap T) = None) ->
    exists t', del_loop fuel t ((r + n) mod cap T) = Ok t' /\
      cap t' = cap T /\ SInv t' /\ count t' = count t /\
      count_some (slots t') = count_some (slots t) /\
      (forall k v, stored t' k v <-> stored t k v).
Proof.
  intros (HlT & HdT & HchT) Hr.
  induction fuel as [|f IH]; intros n t Hfuel Hcap Hl Hd Hcp Hahead (de & Hde & HdeN).
  - lia.
  - assert (Hc : 0 < cap t) by lia. assert (Hcn : cap t <> 0) by lia.
    cbn [Table.del_loop]. rewrite Hcap. rewrite next_idx_mod by lia.
    set (g := S (r + n) mod cap T).
    assert (Hg : g < cap T) by (apply Nat.mod_upper_bound; lia).
    assert (Hl' : length (slots t) = cap t) by lia.
    rewrite (nth_error_get t g Hl' ltac:(lia)).
    assert (HgT : get t g = get T g).
    { unfold g. replace (S (r + n)) with (r + S n) by lia. apply Hahead.
      destruct (Nat.eq_dec de (S n)); lia. }
    destruct (get t g) as [[k v]|] eqn:G.
    + (* move the entry of slot g *)
      assert (Hne : de <> S n).
      { intros ->. replace (r + S n) with (S (r + n)) in HdeN by lia. fold g in HdeN. congruence. }
      set (t1 := put t g None).
      assert (Hl1 : length (slots t1) = cap t1) by (simpl; rewrite upd_length; lia).
      assert (He1 : has_empty t1).
      { exists g. split; [simpl; lia|]. apply get_put_eq; auto; lia. }
      assert (Habs1 : forall v', ~ stored t1 k v').
      { intros v' Hs. apply (stored_put_clear t g k v k v') in Hs; auto; try lia. destruct Hs; congruence. }
      destruct (get_slot_absent t1 k Hl1 He1 Habs1) as (dq & Hdq & Hq & Gq & Hbefore).
      change (cap t1) with (cap t) in *. change (hm t1 k) with (hm t k) in *.
      rewrite Hcap in Hdq, Hq, Gq, Hbefore.
      set (q := (hm t k + dq) mod cap T) in *.
      assert (Hqc : q < cap T) by (apply Nat.mod_upper_bound; lia).
      rewrite Hq. cbn [obind].
      set (t2 := put t1 q (Some (k, v))).
      (* q is not ahead of the scan *)
      assert (Hqbehind : forall d, S n < d < cap T -> q <> (r + d) mod cap T).
      { intros d Hdr Eq.
        assert (Gq' : get t q = None).
        { rewrite <- Gq. unfold t1. symmetry. apply get_put_neq.
          unfold g. replace (S (r + n)) with (r + S n) by lia. rewrite Eq.
          intros E. apply mod_off_inj in E; lia. }
        assert (GqT : get T q = None).
        { rewrite <- Gq'. rewrite Eq. symmetry. apply Hahead. lia. }
        assert (HhT : hm T k = hm t k) by (unfold hm; rewrite Hcap; auto).
        pose proof (hm_lt T k ltac:(lia)) as Hh. rewrite HhT in Hh.
        set (Dg := dist (cap T) (hm t k) g).
        assert (HDg : (hm t k + Dg) mod cap T = g) by (apply dist_reach; auto).
        assert (HDgl : Dg < cap T) by (apply dist_lt; lia).
        assert (Hlt : dq < Dg).
        { destruct (lt_eq_lt_dec dq Dg) as [[?|E]|Hgt]; auto.
          - exfalso. subst dq. unfold q in Eq. rewrite HDg in Eq.
            unfold g in Eq. replace (S (r + n)) with (r + S n) in Eq by lia.
            apply mod_off_inj in Eq; lia.
          - exfalso. specialize (Hbefore Dg Hgt). rewrite HDg in Hbefore.
            apply Hbefore. unfold t1. apply get_put_eq; auto; lia. }
        pose proof (HchT g Hg k v) as Hchg. rewrite HhT in Hchg.
        specialize (Hchg (eq_sym HgT) dq Hlt). apply Hchg. exact GqT. }
      assert (Hl2 : length (slots t2) = cap t2) by (simpl; rewrite !upd_length; lia).
      assert (Hd2 : distinct t2).
      { apply distinct_fill; auto. apply distinct_clear; auto. simpl; lia. }
      assert (Hcp2 : cp t2 (S (r + S n))).
      { replace (S (r + S n)) with (S (S (r + n))) by lia.
        apply (cp_fill t1 _ k v q dq); auto.
        - unfold t1, g. rewrite <- Hcap. apply cp_vacate; auto.
        - simpl; lia.
        - change (cap t1) with (cap t). change (hm t1 k) with (hm t k). rewrite Hcap. reflexivity.
        - change (cap t1) with (cap t). change (hm t1 k) with (hm t k). rewrite Hcap. exact Hbefore. }
      assert (Hahead2 : forall d, S n < d < cap T -> get t2 ((r + d) mod cap T) = get T ((r + d) mod cap T)).
      { intros d Hdr. unfold t2. rewrite get_put_neq by (apply Hqbehind; auto).
        unfold t1. rewrite get_put_neq.
        - apply Hahead. lia.
        - unfold g. replace (S (r + n)) with (r + S n) by lia.
          intros E. apply mod_off_inj in E; lia. }
      destruct (IH (S n) t2) as (t' & Hrun & Hcap' & HS' & Hcnt' & Hcs' & Hst'); auto.
      * lia.
      * exists de. split; [lia|auto].
      * exists t'. replace (r + S n) with (S (r + n)) in Hrun by lia. fold g in Hrun.
        split; [exact Hrun|]. split; auto. split; auto. split; [exact Hcnt'|].
        assert (C1 : S (count_some (slots t1)) = count_some (slots t))
          by (apply (count_some_upd_clear (slots t) g (k, v)); exact G).
        assert (C2 : count_some (slots t2) = S (count_some (slots t1))).
        { apply count_some_upd_fill; [simpl; rewrite upd_length; lia | exact Gq]. }
        split; [lia|].
        intros k' v'. rewrite Hst'.
        assert (E2 : stored t2 k' v' <-> (k' = k /\ v' = v) \/ stored t1 k' v').
        { apply stored_put_fill; auto. simpl; lia. }
        assert (E1 : stored t1 k' v' <-> k' <> k /\ stored t k' v').
        { apply (stored_put_clear t g k v); auto; lia. }
        rewrite E2, E1. split.
        -- intros [(-> & ->)|(_ & H)]; auto. exists g. split; [lia|auto].
        -- intros H. destruct (key_dec k' k) as [->|Hn]; [|auto].
           left. split; auto. destruct H as (i & Hi & Gi).
           assert (i = g) by (eapply Hd; eauto; lia). subst i. congruence.
    + (* empty slot: the loop stops *)
      exists t. split; [reflexivity|]. split; [auto|]. split.
      * split; [lia|]. split; [auto|].
        apply (chain_of_cp t (S (r + n))); auto. rewrite Hcap. exact G.
      * repeat split; auto.
Qed.

(* ---- the operations under the invariant ---- *)
Notation tdel := (tdel K V keqb hash).
Notation tget := (tget K V keqb hash).
Notation thas := (thas K V keqb hash).

Lemma count_some_zero (l : list slot) : count_some l = 0 -> forall i, nth i l None = None.
Proof.
  induction l as [|[x|] l IH]; simpl; intros H i; try discriminate.
  - destruct i; auto.
  - destruct i; auto.
Qed.

Lemma inv_count_zero t : Inv t -> count t = 0 -> forall k v, ~ stored t k v.
Proof.
  intros (_ & Hcnt & _) H0 k v (i & _ & G). unfold get in G.
  rewrite (count_some_zero (slots t)) in G by lia. discriminate.
Qed.

Lemma inv_count_pos t : Inv t -> count t <> 0 -> 0 < cap t /\ has_empty t.
Proof.
  intros ((Hl & _) & Hcnt & [H0|(Hi & Hlt)] & _) Hn.
  - exfalso. destruct (slots t); simpl in *; [lia|lia].
  - split; [lia|]. apply has_empty_count; auto. lia.
Qed.

Lemma tget_ok t k :
  Inv t -> exists o, tget t k = Ok o /\ forall v, o = Some v <-> stored t k v.
Proof.
  intros HI. unfold Table.tget. destruct (Nat.eqb_spec (count t) 0) as [H0|Hn].
  - exists None. split; auto. intros v. split; [discriminate|].
    intros H. exfalso. eapply inv_count_zero; eauto.
  - destruct (inv_count_pos t HI Hn) as (Hc & He).
    destruct HI as ((Hl & Hd & Hch) & _).
    destruct (get_slot_ok t k Hl He) as (d & Hdlt & Hp & Hhit & Hmin).
    set (r := (hm t k + d) mod cap t) in *.
    assert (Hr : r < cap t) by (apply Nat.mod_upper_bound; lia).
    rewrite Hp. cbn [obind]. rewrite (nth_error_get t r Hl Hr).
    destruct (get t r) as [[k0 v0]|] eqn:G.
    + unfold hit in Hhit. rewrite G in Hhit. apply keqb_spec in Hhit. subst k0.
      exists (Some v0). split; auto. intros v. split.
      * intros E. inversion E; subst. exists r; auto.
      * intros (i & Hi & Gi). assert (i = r) by (eapply Hd; eauto). subst. congruence.
    + exists None. split; auto. intros v. split; [discriminate|].
      intros H. exfalso. eapply not_stored_of_slot; eauto.
Qed.

Lemma thas_ok t k :
  Inv t -> exists b, thas t k = Ok b /\ (b = true <-> exists v, stored t k v).
Proof.
  intros HI. unfold Table.thas. destruct (Nat.eqb_spec (count t) 0) as [H0|Hn].
  - exists false. split; auto. split; [discriminate|].
    intros (v & H). exfalso. eapply inv_count_zero; eauto.
  - destruct (inv_count_pos t HI Hn) as (Hc & He).
    destruct HI as ((Hl & Hd & Hch) & _).
    destruct (get_slot_ok t k Hl He) as (d & Hdlt & Hp & Hhit & Hmin).
    set (r := (hm t k + d) mod cap t) in *.
    assert (Hr : r < cap t) by (apply Nat.mod_upper_bound; lia).
    rewrite Hp. cbn [obind]. rewrite (nth_error_get t r Hl Hr).
    destruct (get t r) as [[k0 v0]|] eqn:G.
    + unfold hit in Hhit. rewrite G in Hhit. apply keqb_spec in Hhit. subst k0.
      exists true. split; auto. split; auto. intros _. exists v0, r; auto.
    + exists false. split; auto. split; [discriminate|].
      intros (v & H). exfalso. eapply not_stored_of_slot; eauto.
Qed.

Lemma tdel_ok t k :
  Inv t ->
  exists b t', tdel t k = Ok (b, t') /\ Inv t' /\ cap t' = cap t /\
    (b = true <-> exists v, stored t k v) /\
    (forall k' v', stored t' k' v' <-> k' <> k /\ stored t k' v').
Proof.
  intros HI. unfold Table.tdel. destruct (Nat.eqb_spec (count t) 0) as [H0|Hn].
  - exists false, t. split; auto. split; auto. split; auto. split.
    + split; [discriminate|]. intros (v & H). exfalso. eapply inv_count_zero; eauto.
    + intros k' v'. split.
      * intros H. exfalso. eapply inv_count_zero; eauto.
      * intros (_ & H); auto.
  - destruct (inv_count_pos t HI Hn) as (Hc & He).
    pose proof HI as ((Hl & Hd & Hch) & Hcnt & Hroom & Hload).
    destruct (get_slot_ok t k Hl He) as (d & Hdlt & Hp & Hhit & Hmin).
    set (r := (hm t k + d) mod cap t) in *.
    assert (Hr : r < cap t) by (apply Nat.mod_upper_bound; lia).
    rewrite Hp. cbn [obind]. rewrite (nth_error_get t r Hl Hr).
    destruct (get t r) as [[k0 v0]|] eqn:G.
    + unfold hit in Hhit. rewrite G in Hhit. apply keqb_spec in Hhit. subst k0.
      set (t0 := mkTable (cap t) (Nat.pred (count t)) (upd (slots t) r None)).
      destruct He as (e & Hec & Ge).
      assert (Her : e <> r) by (intros ->; congruence).
      destruct (reach (cap t) r e Hec) as (de & Hde & Hdee).
      assert (Hde0 : de <> 0).
      { intros ->. rewrite Nat.add_0_r, Nat.mod_small in Hdee by lia. congruence. }
      destruct (del_loop_ok t r (conj Hl (conj Hd Hch)) Hr (cap t) 0 t0) as
        (t' & Hrun & Hcap' & HS' & Hcnt' & Hcs' & Hst').
      * lia.
      * reflexivity.
      * simpl. rewrite upd_length. auto.
      * exact (distinct_clear t r Hl Hd).
      * rewrite Nat.add_0_r.
        pose proof (cp_vacate t r Hl Hc (cp_of_chain t r Hch)) as Hcp.
        rewrite (Nat.mod_small r) in Hcp by lia. exact Hcp.
      * intros d0 Hd0. change (get t0 ((r + d0) mod cap t)) with (get (put t r None) ((r + d0) mod cap t)).
        apply get_put_neq. intros E. rewrite <- (Nat.mod_small r (cap t)) in E at 1 by lia.
        rewrite <- (Nat.add_0_r r) in E at 1. apply mod_off_inj in E; lia.
      * exists de. split; [lia|]. rewrite Hdee. exact Ge.
      * rewrite Nat.add_0_r, Nat.mod_small in Hrun by lia. rewrite Hrun. cbn [obind].
        exists true, t'. split; auto.
        assert (C0 : S (count_some (slots t0)) = count_some (slots t))
          by (apply (count_some_upd_clear (slots t) r (k, v0)); exact G).
        assert (E0 : forall k' v', stored t0 k' v' <-> k' <> k /\ stored t k' v').
        { intros k' v'. exact (stored_put_clear t r k v0 k' v' Hl Hd Hr G). }
        split.
        { split; [exact HS'|]. simpl in Hcnt'. split; [lia|]. rewrite Hcap'. split.
          - destruct Hroom as [?|(? & ?)]; [lia|]. right. lia.
          - lia. }
        split; [auto|]. split.
        { split; auto. intros _. exists v0, r; auto. }
        intros k' v'. rewrite Hst'. apply E0.
    + exists false, t. split; auto. split; auto. split; auto.
      assert (Habs : forall v, ~ stored t k v) by (eapply not_stored_of_slot; eauto; exists r; auto).
      split.
      * split; [discriminate|]. intros (v & H). exfalso. eapply Habs; eauto.
      * intros k' v'. split.
        -- intros H. split; auto. intros ->. eapply Habs; eauto.
        -- intros (_ & H); auto.
Qed.

(* ---- items in slot order ---- *)
Notation somes := (somes K V).
Notation titems := (titems K V).

Lemma in_somes_nth (l : list slot) k v :
  In (k, v) (somes l) <-> exists i, i < length l /\ nth i l None = Some (k, v).
Proof.
  induction l as [|[x|] l IH]; simpl.
  - split; [tauto|]. intros (i & Hi & _). lia.
  - split.
    + intros [E|H]; [exists 0; split; [lia|congruence]|].
      apply IH in H. destruct H as (i & Hi & G). exists (S i). split; [lia|auto].
    + intros (i & Hi & G). destruct i as [|i]; [left; congruence|].
      right. apply IH. exists i. split; [lia|auto].
  - split.
    + intros H. apply IH in H. destruct H as (i & Hi & G). exists (S i). split; [lia|auto].
    + intros (i & Hi & G). destruct i as [|i]; [discriminate|].
      apply IH. exists i. split; [lia|auto].
Qed.

Lemma stored_items t k v : length (slots t) = cap t -> (stored t k v <-> In (k, v) (titems t)).
Proof.
  intros Hl. unfold Table.titems. rewrite in_somes_nth. unfold stored, get.
  split; intros (i & Hi & G); exists i; (split; [lia|exact G]).
Qed.

Lemma nodup_keys (l : list slot) :
  (forall i j k v v', i < length l -> j < length l ->
     nth i l None = Some (k, v) -> nth j l None = Some (k, v') -> i = j) ->
  NoDup (map fst (somes l)).
Proof.
  induction l as [|[[k v]|] l IH]; simpl; intros H.
  - constructor.
  - constructor.
    + intros Hin. apply in_map_iff in Hin. destruct Hin as ([k' v'] & E & Hin). simpl in E. subst k'.
      apply in_somes_nth in Hin. destruct Hin as (j & Hj & G).
      specialize (H 0 (S j) k v v' ltac:(lia) ltac:(lia) eq_refl G). discriminate.
    + apply IH. intros i j k0 v0 v0' Hi Hj Gi Gj.
      specialize (H (S i) (S j) k0 v0 v0' ltac:(lia) ltac:(lia) Gi Gj). lia.
  - apply IH. intros i j k0 v0 v0' Hi Hj Gi Gj.
    specialize (H (S i) (S j) k0 v0 v0' ltac:(lia) ltac:(lia) Gi Gj). lia.
Qed.

Lemma items_nodup t : length (slots t) = cap t -> distinct t -> NoDup (map fst (titems t)).
Proof.
  intros Hl Hd. apply nodup_keys. rewrite Hl. exact Hd.
Qed.

Lemma count_some_somes (l : list slot) : count_some l = length (somes l).
Proof. induction l as [|[x|] l IH]; simpl; auto. Qed.

(* ---- the empty table of capacity c ---- *)
Lemma get_empty c i : get (empty_table c) i = None.
Proof. unfold get, Table.empty_table; simpl. apply nth_repeat_none. Qed.

Lemma sinv_empty c : SInv (empty_table c).
Proof.
  split; [|split].
  - simpl. apply repeat_length.
  - intros i j k v v' _ _ G. rewrite get_empty in G. discriminate.
  - intros i _ k v G. rewrite get_empty in G. discriminate.
Qed.

Lemma stored_empty c k v : ~ stored (empty_table c) k v.
Proof. intros (i & _ & G). rewrite get_empty in G. discriminate. Qed.

(* ---- re-insertion of a list of slots (resize, copy_from): no nested resize ---- *)
Notation tset_f := (tset_f K V keqb hash initial growth thr).
Notation reinsert := (reinsert K V).

Lemma tset_f_noresize d t k v :
  count t * 10 < cap t * thr -> tset_f (S d) t k v = tset_core t k v.
Proof.
  intros H. cbn [Table.tset_f]. destruct (Nat.leb_spec (cap t * thr) (count t * 10)); [lia|].
  reflexivity.
Qed.

Lemma reinsert_fold d (l : list slot) :
  forall t,
    SInv t -> count t = count_some (slots t) ->
    NoDup (map fst (somes l)) ->
    (forall k v, In (k, v) (somes l) -> forall v', ~ stored t k v') ->
    (count t + count_some l) * 10 < cap t * thr + 10 ->
    count t + count_some l < cap t ->
    exists t', fold_left (reinsert (tset_f (S d))) l (Ok t) = Ok t' /\
      SInv t' /\ cap t' = cap t /\ count t' = count_some (slots t') /\
      count t' = count t + count_some l /\
      (forall k v, stored t' k v <-> stored t k v \/ In (k, v) (somes l)).
Proof.
  induction l as [|[[k v]|] l IH]; intros t HS Hcnt Hnd Hfresh Hload Hroom.
  - exists t. simpl. split; [reflexivity|]. split; [auto|]. split; [auto|]. split; [auto|].
    split; [lia|]. intros k v. tauto.
  - simpl in Hnd, Hload, Hroom. inversion Hnd as [|? ? Hnotin Hnd']; subst.
    cbn [fold_left Table.reinsert obind]. rewrite tset_f_noresize by lia.
    destruct (tset_core_ok t k v HS Hcnt ltac:(lia)) as
      (t1 & Hrun & HS1 & Hcap1 & Hcnt1 & _ & _ & Hnew & Hst1).
    rewrite Hrun.
    assert (Hc1 : count t1 = S (count t)).
    { apply Hnew. intros v0. apply (Hfresh k v). simpl; auto. }
    destruct (IH t1 HS1 Hcnt1 Hnd') as (t' & Hrun' & HS' & Hcap' & Hcnt' & Hc' & Hst'); try (rewrite Hcap1; lia).
    + intros k2 v2 Hin v' Hs. apply Hst1 in Hs. destruct Hs as [(-> & _)|(_ & Hs)].
      * apply Hnotin. apply in_map_iff. exists (k, v2). auto.
      * eapply (Hfresh k2 v2); simpl; eauto.
    + exists t'. split; [exact Hrun'|]. split; auto. split; [lia|]. split; auto. split; [simpl; lia|].
      intros k' v'. rewrite Hst', Hst1. simpl. split.
      * intros [[(-> & ->)|(_ & H)]|H]; auto.
      * intros [H|[E|H]]; auto.
        -- destruct (key_dec k' k) as [->|Hn]; auto.
           exfalso. eapply (Hfresh k v); simpl; eauto.
        -- inversion E; subst. auto.
  - simpl in *. cbn [fold_left Table.reinsert]. apply IH; auto.
Qed.

(* ---- side condition on the three tuning parameters ---- *)
Definition params_ok : Prop :=
  1 <= thr /\ thr <= 5 /\ 2 <= growth /\ 2 <= initial /\
  (10 <= growth * thr \/ 10 <= initial * thr).

Notation tset := (tset K V keqb hash initial growth thr).
Notation tcopy := (tcopy K V keqb hash initial growth thr).
Notation tresize := (tresize K V keqb hash initial growth thr).
Notation grow_cap := (grow_cap initial growth).

Lemma tset_f_S d t k v :
  tset_f (S d) t k v =
  obind (if Nat.leb (cap t * thr) (count t * 10)
         then fold_left (reinsert (tset_f d)) (slots t) (Ok (empty_table (grow_cap (cap t))))
         else Ok t)
        (fun t1 => tset_core t1 k v).
Proof. reflexivity. Qed.

Lemma inv_cap0 t : Inv t -> cap t = 0 -> count t = 0.
Proof.
  intros ((Hl & _) & Hcnt & _) H0. rewrite H0 in Hl. destruct (slots t); simpl in *; [lia|lia].
Qed.

Lemma resize_into t c' d :
  Inv t -> cap t <= c' -> count t < c' ->
  exists t1, fold_left (reinsert (tset_f (S d))) (slots t) (Ok (empty_table c')) = Ok t1 /\
    SInv t1 /\ cap t1 = c' /\ count t1 = count_some (slots t1) /\ count t1 = count t /\
    (forall k v, stored t1 k v <-> stored t k v).
Proof.
  intros ((Hl & Hd & Hch) & Hcnt & Hroom & Hload) Hle Hlt.
  assert (Hmul : cap t * thr <= c' * thr) by (apply Nat.mul_le_mono_r; auto).
  destruct (reinsert_fold d (slots t) (empty_table c')) as (t1 & Hrun & HS1 & Hcap1 & Hcnt1 & Hc1 & Hst1).
  - apply sinv_empty.
  - simpl. rewrite count_some_repeat. reflexivity.
  - apply items_nodup; auto.
  - intros k v _ v'. apply stored_empty.
  - simpl. lia.
  - simpl. lia.
  - exists t1. split; [exact Hrun|]. split; auto. split; auto. split; auto. split; [simpl in Hc1; lia|].
    intros k v. rewrite Hst1. rewrite (stored_items t k v Hl). split.
    + intros [H|H]; auto. exfalso. eapply stored_empty; eauto.
    + auto.
Qed.

Lemma tset_ok d t k v :
  params_ok -> Inv t ->
  exists t', tset_f (S (S d)) t k v = Ok t' /\ Inv t' /\
    (forall k' v', stored t' k' v' <-> (k' = k /\ v' = v) \/ (k' <> k /\ stored t k' v')).
Proof.
  intros (Hthr1 & Hthr5 & Hgr & Hini & Hprod) HI.
  pose proof HI as (HS & Hcnt & Hroom & Hload).
  rewrite tset_f_S. destruct (Nat.leb_spec (cap t * thr) (count t * 10)) as [Htrig|Hno].
  - (* resize first *)
    set (c' := grow_cap (cap t)).
    assert (Hc' : cap t <= c' /\ initial <= c' /\ count t + 1 < c' /\ count t * 10 < c' * thr).
    { unfold c', Table.grow_cap. destruct Hroom as [H0|(Hi & Hlt)].
      - pose proof (inv_cap0 t HI H0) as Hz. rewrite H0.
        destruct (Nat.leb_spec initial 0); [lia|]. rewrite Hz. repeat split; try lia; try nia.
      - destruct (Nat.leb_spec initial (cap t)); [|lia].
        assert (2 * cap t <= cap t * growth) by nia.
        repeat split; try lia.
        destruct Hprod as [Hp|Hp].
        + assert (10 * cap t <= cap t * growth * thr) by nia. lia.
        + assert (10 <= cap t * thr) by nia.
          assert (2 * (cap t * thr) <= cap t * growth * thr) by nia. lia. }
    destruct Hc' as (Hle & Hile & Hlt & Hld).
    destruct (resize_into t c' d HI Hle ltac:(lia)) as (t1 & Hrun & HS1 & Hcap1 & Hcnt1 & Hc1 & Hst1).
    rewrite Hrun. cbn [obind].
    destruct (tset_core_ok t1 k v HS1 Hcnt1 ltac:(lia)) as
      (t2 & Hrun2 & HS2 & Hcap2 & Hcnt2 & _ & Hle2 & _ & Hst2).
    exists t2. split; [exact Hrun2|]. split.
    + split; [exact HS2|]. split; [exact Hcnt2|]. rewrite Hcap2, Hcap1. split; [right; lia|lia].
    + intros k' v'. rewrite Hst2. rewrite Hst1. tauto.
  - cbn [obind].
    assert (Hc : count t + 1 < cap t).
    { destruct Hroom as [H0|(Hi & Hlt)]; [rewrite H0 in Hno; lia|].
      assert (cap t * thr <= cap t * 5) by (apply Nat.mul_le_mono_l; auto). lia. }
    destruct (tset_core_ok t k v HS Hcnt Hc) as
      (t2 & Hrun2 & HS2 & Hcap2 & Hcnt2 & _ & Hle2 & _ & Hst2).
    exists t2. split; [exact Hrun2|]. split; [|exact Hst2].
    split; [exact HS2|]. split; [exact Hcnt2|]. rewrite Hcap2. split; [right; lia|lia].
Qed.

Lemma tcopy_ok t :
  Inv t -> exists t', tcopy t = Ok t' /\ Inv t' /\ cap t' = cap t /\
    (forall k v, stored t' k v <-> stored t k v).
Proof.
  intros HI. pose proof HI as (HS & Hcnt & Hroom & Hload).
  unfold Table.tcopy, Table.tset, Table.resize_depth.
  destruct Hroom as [H0|(Hi & Hlt)].
  - pose proof (inv_cap0 t HI H0) as Hz. destruct HS as (Hl & _).
    rewrite H0 in *. destruct (slots t) eqn:E; simpl in Hl; [|lia].
    simpl. exists (empty_table 0). split; auto. split.
    + split; [apply sinv_empty|]. simpl. repeat split; auto; lia.
    + split; auto. intros k v. split.
      * intros H. exfalso. eapply stored_empty; eauto.
      * intros (i & Hi & _). simpl in Hi. lia.
  - destruct (resize_into t (cap t) 63 HI (le_n _) Hlt) as (t1 & Hrun & HS1 & Hcap1 & Hcnt1 & Hc1 & Hst1).
    exists t1. split; [exact Hrun|]. split; [|split; auto].
    split; [exact HS1|]. split; [exact Hcnt1|]. rewrite Hcap1, Hc1. split; [right; lia|lia].
Qed.

(* the public resize(c) towards a capacity that is not smaller *)
Lemma tresize_ok t c :
  params_ok -> Inv t -> cap t <= c -> initial <= c ->
  exists t', tresize t c = Ok t' /\ Inv t' /\ cap t' = c /\
    (forall k v, stored t' k v <-> stored t k v).
Proof.
  intros (Hthr1 & Hthr5 & Hgr & Hini & Hprod) HI Hle Hile.
  pose proof HI as (HS & Hcnt & Hroom & Hload).
  unfold Table.tresize, Table.tset, Table.resize_depth.
  assert (Hlt : count t < c).
  { destruct Hroom as [H0|(Hi & Hlt)]; [rewrite (inv_cap0 t HI H0); lia|lia]. }
  destruct (resize_into t c 63 HI Hle Hlt) as (t1 & Hrun & HS1 & Hcap1 & Hcnt1 & Hc1 & Hst1).
  exists t1. split; [exact Hrun|]. split; [|split; auto].
  split; [exact HS1|]. split; [exact Hcnt1|]. rewrite Hcap1, Hc1. split; [right; lia|].
  assert (cap t * thr <= c * thr) by (apply Nat.mul_le_mono_r; auto). lia.
Qed.

(* ---- the abstract map ---- *)
Notation alookup := (alookup K V keqb).
Notation aremove := (aremove K V keqb).
Notation ahas := (ahas K V keqb).
Notation amap := (amap K V).

Lemma in_aremove (m : amap) k k' v' : In (k', v') (aremove m k) <-> k' <> k /\ In (k', v') m.
Proof.
  induction m as [|[k0 v0] m IH]; simpl; [tauto|].
  destruct (keqb k0 k) eqn:E.
  - apply keqb_spec in E. subst k0. rewrite IH. split.
    + intros (H1 & H2); auto.
    + intros (H1 & [H2|H2]); auto. inversion H2; subst. contradiction.
  - simpl. rewrite IH. split.
    + intros [H|(H1 & H2)]; auto. inversion H; subst. split; auto.
      intros ->. rewrite keqb_refl in E. discriminate.
    + intros (H1 & [H2|H2]); auto.
Qed.

Lemma aremove_nodup (m : amap) k : NoDup (map fst m) -> NoDup (map fst (aremove m k)).
Proof.
  induction m as [|[k0 v0] m IH]; simpl; intros H; [constructor|].
  inversion H as [|? ? Hn Hnd]; subst.
  destruct (keqb k0 k); auto. simpl. constructor; auto.
  intros Hin. apply in_map_iff in Hin. destruct Hin as ([k1 v1] & E & Hin). simpl in E; subst k1.
  apply in_aremove in Hin. destruct Hin as (_ & Hin). apply Hn. apply in_map_iff.
  exists (k0, v1); auto.
Qed.

Lemma alookup_in (m : amap) k v : NoDup (map fst m) -> (alookup m k = Some v <-> In (k, v) m).
Proof.
  induction m as [|[k0 v0] m IH]; simpl; intros H.
  - split; [discriminate|tauto].
  - inversion H as [|? ? Hn Hnd]; subst. destruct (keqb k0 k) eqn:E.
    + apply keqb_spec in E. subst k0. split.
      * intros E'; inversion E'; auto.
      * intros [E'|Hin]; [inversion E'; auto|].
        exfalso. apply Hn. apply in_map_iff. exists (k, v); auto.
    + rewrite (IH Hnd). split; auto. intros [E'|Hin]; auto.
      inversion E'; subst. rewrite keqb_refl in E. discriminate.
Qed.

(* abstraction relation *)
Definition R (t : table) (m : amap) : Prop :=
  Inv t /\ NoDup (map fst m) /\ forall k v, stored t k v <-> In (k, v) m.

Definition obs_equiv (a b : obs K V) : Prop :=
  match a, b with
  | ObsItems l1, ObsItems l2 => Permutation l1 l2
  | _, _ => a = b
  end.

Definition no_resize (o : op K V) : Prop :=
  match o with OpResize _ => False | _ => True end.

Notation step := (step K V keqb hash initial growth thr).
Notation spec_step := (spec_step K V keqb).
Notation run_from := (run_from K V keqb hash initial growth thr).
Notation spec_from := (spec_from K V keqb).
Notation run_table := (run_table K V keqb hash initial growth thr).
Notation run_spec := (run_spec K V keqb).
Notation table0 := (table0 K V).

Lemma inv_table0 : Inv table0.
Proof.
  split; [apply sinv_empty|]. simpl. repeat split; auto; lia.
Qed.

Lemma R_table0 : R table0 [].
Proof.
  split; [apply inv_table0|]. split; [constructor|].
  intros k v. split; [intros H; exfalso; eapply stored_empty; eauto|intros []].
Qed.

Lemma option_ext (o1 o2 : option V) : (forall v, o1 = Some v <-> o2 = Some v) -> o1 = o2.
Proof.
  intros H. destruct o1 as [a|], o2 as [b|]; auto.
  - destruct (H a) as (H1 & _). rewrite H1; auto.
  - destruct (H a) as (H1 & _). specialize (H1 eq_refl). discriminate.
  - destruct (H b) as (_ & H2). specialize (H2 eq_refl). discriminate.
Qed.

Lemma ahas_spec (m : amap) k : NoDup (map fst m) -> (ahas m k = true <-> exists v, In (k, v) m).
Proof.
  intros Hnd. unfold Table.ahas. destruct (alookup m k) as [v|] eqn:E.
  - split; auto. intros _. exists v. apply alookup_in; auto.
  - split; [discriminate|]. intros (v & Hin). apply alookup_in in Hin; auto. congruence.
Qed.

Lemma bool_ext (a b : bool) : (a = true <-> b = true) -> a = b.
Proof.
  destruct a, b; intros (H1 & H2); auto;
    try (symmetry; apply H1; reflexivity); try (apply H2; reflexivity).
Qed.

Lemma step_sim t m o :
  params_ok -> R t m -> no_resize o ->
  exists r t', step t o = Ok (r, t') /\ obs_equiv r (fst (spec_step m o)) /\ R t' (snd (spec_step m o)).
Proof.
  intros Hpar (HI & Hnd & Hst) Hnr. destruct o as [k v|k|k|k| | | |c]; simpl in Hnr; try contradiction.
  - (* set *)
    unfold Table.step, Table.tset, Table.resize_depth.
    destruct (tset_ok 62 t k v Hpar HI) as (t' & Hrun & HI' & Hst').
    rewrite Hrun. cbn [obind]. exists ObsUnit, t'. split; auto. split; [reflexivity|].
    simpl. split; auto. split.
    + constructor; [|apply aremove_nodup; auto].
      intros Hin. apply in_map_iff in Hin. destruct Hin as ([k1 v1] & E & Hin). simpl in E; subst k1.
      apply in_aremove in Hin. destruct Hin as (Hn & _). contradiction.
    + intros k' v'. rewrite Hst'. simpl. rewrite in_aremove. rewrite Hst. split.
      * intros [(-> & ->)|H]; auto.
      * intros [E|H]; auto. inversion E; auto.
  - (* get *)
    unfold Table.step. destruct (tget_ok t k HI) as (o & Hrun & Ho). rewrite Hrun. cbn [obind].
    exists (ObsVal o), t. split; auto. split.
    + simpl. f_equal. apply option_ext. intros v. rewrite Ho, Hst. symmetry. apply alookup_in; auto.
    + simpl. split; auto.
  - (* has *)
    unfold Table.step. destruct (thas_ok t k HI) as (b & Hrun & Hb). rewrite Hrun. cbn [obind].
    exists (ObsBool b), t. split; auto. split.
    + simpl. f_equal. apply bool_ext. rewrite Hb, (ahas_spec m k Hnd).
      split; intros (v & H); exists v; apply Hst; auto.
    + simpl. split; auto.
  - (* del *)
    unfold Table.step. destruct (tdel_ok t k HI) as (b & t' & Hrun & HI' & _ & Hb & Hst').
    rewrite Hrun. cbn [obind fst snd]. exists (ObsBool b), t'. split; auto. split.
    + simpl. f_equal. apply bool_ext. rewrite Hb, (ahas_spec m k Hnd).
      split; intros (v & H); exists v; apply Hst; auto.
    + simpl. split; auto. split; [apply aremove_nodup; auto|].
      intros k' v'. rewrite Hst', in_aremove, Hst. tauto.
  - (* clear *)
    exists ObsUnit, table0. split; auto. split; [reflexivity|]. apply R_table0.
  - (* copy *)
    unfold Table.step. destruct (tcopy_ok t HI) as (t' & Hrun & HI' & _ & Hst').
    rewrite Hrun. cbn [obind]. exists ObsUnit, t'. split; auto. split; [reflexivity|].
    simpl. split; auto. split; auto. intros k v. rewrite Hst'. apply Hst.
  - (* iterate *)
    exists (ObsItems (titems t)), t. split; auto. split.
    + simpl. destruct HI as ((Hl & Hd & _) & _).
      apply NoDup_Permutation.
      * apply (NoDup_map_inv fst). apply items_nodup; auto.
      * apply (NoDup_map_inv fst). auto.
      * intros [k v]. rewrite <- (stored_items t k v Hl). apply Hst.
    + simpl. split; auto.
Qed.

Lemma run_sim ops :
  params_ok -> Forall no_resize ops ->
  forall t m, R t m -> Forall2 obs_equiv (fst (run_from t ops)) (spec_from m ops).
Proof.
  intros Hpar. induction ops as [|o ops IH]; intros Hnr t m HR.
  - simpl. constructor.
  - inversion Hnr as [|? ? Ho Hrest]; subst.
    destruct (step_sim t m o Hpar HR Ho) as (r & t' & Hstep & Heq & HR').
    cbn [Table.run_from Table.spec_from]. rewrite Hstep.
    specialize (IH Hrest t' _ HR').
    destruct (run_from t' ops) as [rs tf]. simpl in *. constructor; auto.
Qed.

(* ================== main results (generic table) ================== *)

(* every observable output of every history without the public resize() equals that of the
   abstract map (iteration: up to the order of the items), for every hash function *)
Theorem table_refines_map_lemma :
  params_ok -> forall ops, Forall no_resize ops ->
  Forall2 obs_equiv (run_table ops) (run_spec ops).
Proof.
  intros Hpar ops Hnr. unfold Table.run_table, Table.run_spec.
  apply run_sim; auto. apply R_table0.
Qed.

Lemma spec_step_not_fail (m : amap) o :
  fst (spec_step m o) <> ObsCrash /\ fst (spec_step m o) <> ObsHang.
Proof. destruct o; simpl; split; discriminate. Qed.

(* no Crash (division by zero, out-of-bounds) and no Hang (probe / del loop / nested resize running
   out of fuel) is reachable *)
Theorem table_no_failure_lemma :
  params_ok -> forall ops, Forall no_resize ops ->
  Forall (fun r => r <> ObsCrash /\ r <> ObsHang) (run_table ops).
Proof.
  intros Hpar ops Hnr. pose proof (table_refines_map_lemma Hpar ops Hnr) as H.
  unfold Table.run_spec in H. revert H. generalize (run_table ops). generalize (@nil (K * V)).
  induction ops as [|o ops IH]; intros m l H; simpl in H; inversion H; subst; constructor.
  - pose proof (spec_step_not_fail m o) as (H1 & H2).
    destruct x; simpl in *; try (split; discriminate);
      destruct (fst (spec_step m o)); try discriminate; try contradiction; split; auto; discriminate.
  - inversion Hnr; subst. eapply IH; eauto.
Qed.

(* literal equality of the outputs when the history does not iterate *)
Definition no_iter (o : op K V) : Prop := match o with OpIter => False | _ => True end.

Theorem table_refines_map_eq_lemma :
  params_ok -> forall ops, Forall no_resize ops -> Forall no_iter ops ->
  run_table ops = run_spec ops.
Proof.
  intros Hpar ops Hnr Hni. pose proof (table_refines_map_lemma Hpar ops Hnr) as H.
  unfold Table.run_spec in *. revert H. generalize (run_table ops). generalize (@nil (K * V)).
  induction ops as [|o ops IH]; intros m l H; simpl in H; inversion H; subst; auto.
  inversion Hnr; subst. inversion Hni; subst. simpl. f_equal.
  - destruct o; simpl in *; try contradiction; destruct x; simpl in *; auto; try discriminate.
  - eapply IH; eauto.
Qed.

(* the public resize(c) towards a capacity c >= max(capacity, INITIAL) keeps the contents and the
   invariant (histories containing it are otherwise outside the theorems above: a smaller c makes
   set -> resize nest, which the model follows with bounded depth but the proofs do not) *)
Theorem tresize_grow_lemma t m c :
  params_ok -> R t m -> cap t <= c -> initial <= c ->
  exists t', tresize t c = Ok t' /\ cap t' = c /\ R t' m.
Proof.
  intros Hpar (HI & Hnd & Hst) Hle Hile.
  destruct (tresize_ok t c Hpar HI Hle Hile) as (t' & Hrun & HI' & Hcap & Hst').
  exists t'. split; auto. split; auto. split; auto. split; auto.
  intros k v. rewrite Hst'. apply Hst.
Qed.

(* every reachable table satisfies the invariant and is related to the abstract map: for use by
   the instances *)
Lemma run_from_R ops :
  params_ok -> Forall no_resize ops ->
  forall t m, R t m -> exists m', R (snd (run_from t ops)) m'.
Proof.
  intros Hpar. induction ops as [|o ops IH]; intros Hnr t m HR.
  - simpl. eauto.
  - inversion Hnr as [|? ? Ho Hrest]; subst.
    destruct (step_sim t m o Hpar HR Ho) as (r & t' & Hstep & Heq & HR').
    cbn [Table.run_from]. rewrite Hstep.
    destruct (IH Hrest t' _ HR') as (m' & Hm').
    destruct (run_from t' ops) as [rs tf]. simpl in *. eauto.
Qed.

End Proofs.

(* ================== instances ================== *)
Lemma params_okb_ok i g t : params_okb i g t = true -> params_ok i g t.
Proof.
  unfold params_okb, params_ok. intros H.
  repeat (apply andb_prop in H; destruct H as (H & ?)).
  apply orb_prop in H0.
  repeat match goal with H : Nat.leb _ _ = true |- _ => apply Nat.leb_le in H end.
  destruct H0 as [H0|H0]; apply Nat.leb_le in H0; lia.
Qed.

(* the constants of the current source tree (Generated.v) meet the side condition *)
Theorem current_constants_ok : params_ok P_INITIAL P_GROWTH P_THRESHOLD.
Proof. apply params_okb_ok. vm_compute. reflexivity. Qed.

Lemma bytes_eqb_spec a b : bytes_eqb a b = true <-> a = b.
Proof.
  revert b; induction a as [|x a IH]; destruct b as [|y b]; simpl.
  - split; auto.
  - split; discriminate.
  - split; discriminate.
  - rewrite andb_true_iff, N.eqb_eq, IH. split.
    + intros (-> & ->); auto.
    + intros E; inversion E; auto.
Qed.

Lemma Neqb_spec (a b : N) : N.eqb a b = true <-> a = b.
Proof. apply N.eqb_eq. Qed.

(* Map<T> with string keys *)
Theorem smap_refines_map_lemma (ops : list smap_op) :
  Forall (no_resize _ _) ops ->
  Forall2 (obs_equiv _ _) (fst (smap_run ops)) (run_spec (list N) N bytes_eqb ops).
Proof.
  exact (table_refines_map_lemma _ _ bytes_eqb bytes_eqb_spec hash_str _ _ _ current_constants_ok ops).
Qed.

(* Set<uint64_t> *)
Theorem uset_refines_set_lemma (ops : list uset_op) :
  Forall (no_resize _ _) ops ->
  Forall2 (obs_equiv _ _) (fst (uset_run ops)) (run_spec N unit N.eqb ops).
Proof.
  exact (table_refines_map_lemma _ _ N.eqb Neqb_spec hash_u64 _ _ _ current_constants_ok ops).
Qed.

(* StyleMap *)
Theorem stylemap_refines_map_lemma (ops : list stylemap_op) :
  Forall (no_resize _ _) ops ->
  Forall2 (obs_equiv _ _) (fst (stylemap_run ops)) (run_spec N (list N) N.eqb ops).
Proof.
  exact (table_refines_map_lemma _ _ N.eqb Neqb_spec hash_u64 _ _ _ current_constants_ok ops).
Qed.

(* TagMap: set(k, k) deletes, get defaults to the key *)
Definition RT := R N N hash_u64 P_INITIAL P_THRESHOLD.

Lemma obs_equiv_not_items (a b : obs N N) :
  (forall l, b <> ObsItems l) -> obs_equiv N N a b -> a = b.
Proof.
  intros Hb H. destruct a, b; simpl in H; auto. exfalso. eapply Hb; eauto.
Qed.

Lemma tm_step_sim (t : tagmap) (m : amap N N) (o : tagmap_op) :
  RT t m -> no_resize _ _ o ->
  exists r t', tagmap_step t o = Ok (r, t') /\ obs_equiv _ _ r (fst (tm_spec_step m o)) /\
               RT t' (snd (tm_spec_step m o)).
Proof.
  intros HR Hnr.
  pose proof (fun o => step_sim N N N.eqb Neqb_spec hash_u64 P_INITIAL P_GROWTH P_THRESHOLD t m o
                          current_constants_ok HR) as Hsim.
  destruct o as [k v|k|k|k| | | |c]; try (exact (Hsim _ Hnr)).
  - (* set *)
    unfold tagmap_step, tm_set, tm_spec_step. destruct (N.eqb_spec k v) as [->|Hne].
    + destruct (Hsim (OpDel v) I) as (r & t' & Hstep & _ & HR').
      unfold step in Hstep. destruct (tdel N N N.eqb hash_u64 t v) as [[b t'']| | | | |]; try discriminate.
      cbn [obind fst snd] in *. inversion Hstep; subst.
      exists ObsUnit, t'. split; auto. split; [reflexivity|exact HR'].
    + exact (Hsim (OpSet k v) I).
  - (* get *)
    destruct (Hsim (OpGet k) I) as (r & t' & Hstep & Heq & HR').
    unfold step in Hstep. unfold tagmap_step, tm_get.
    destruct (tget N N N.eqb hash_u64 t k) as [o| | | | |]; try discriminate.
    cbn [obind] in *. inversion Hstep; subst.
    apply obs_equiv_not_items in Heq; [|simpl; intros; discriminate].
    simpl in Heq. inversion Heq; subst.
    exists (ObsVal (Some (match alookup N N N.eqb m k with Some v => v | None => k end))), t'.
    split; auto. split; [reflexivity|exact HR'].
Qed.

Theorem tagmap_refines_lemma (ops : list tagmap_op) :
  Forall (no_resize _ _) ops ->
  Forall2 (obs_equiv _ _) (fst (tagmap_run ops)) (tagmap_run_spec ops).
Proof.
  unfold tagmap_run, tagmap_run_spec.
  assert (H0 : RT (table0 N N) []) by (apply R_table0).
  revert H0. generalize (table0 N N). generalize (@nil (N * N)).
  induction ops as [|o ops IH]; intros m t HR Hnr.
  - simpl. constructor.
  - inversion Hnr as [|? ? Ho Hrest]; subst.
    destruct (tm_step_sim t m o HR Ho) as (r & t' & Hstep & Heq & HR').
    cbn [tagmap_run_from tm_spec_from]. rewrite Hstep.
    specialize (IH _ _ HR' Hrest).
    destruct (tagmap_run_from t' ops) as [rs tf]. simpl in *. constructor; auto.
Qed.

(* the side condition is not vacuous, and not superfluous: with a threshold of 9 tenths the table
   fills completely and the next failed look-up never ends *)
Example invariant_satisfiable : R N N hash_u64 P_INITIAL P_THRESHOLD (table0 N N) [].
Proof. apply R_table0. Qed.

Example threshold_9_hangs :
  exists ops, In ObsHang (run_table N N N.eqb (fun k => k) 8 2 9 ops).
Proof.
  exists [OpSet 0 0; OpSet 1 0; OpSet 2 0; OpSet 3 0; OpSet 4 0; OpSet 5 0; OpSet 6 0; OpSet 7 0;
          OpGet 100]%N.
  vm_compute. tauto.
Qed.

Example smap_example :
  fst (smap_run [OpSet [97] 1; OpSet [98] 2; OpSet [97] 3; OpGet [97]; OpDel [98]; OpHas [98]; OpGet [99]]%N)
  = [ObsUnit; ObsUnit; ObsUnit; ObsVal (Some 3); ObsBool true; ObsBool false; ObsVal None]%N.
Proof. vm_compute. reflexivity. Qed.

Print Assumptions table_refines_map_lemma.
Print Assumptions table_no_failure_lemma.
Print Assumptions table_refines_map_eq_lemma.
Print Assumptions tresize_grow_lemma.
Print Assumptions smap_refines_map_lemma.
Print Assumptions uset_refines_set_lemma.
Print Assumptions stylemap_refines_map_lemma.
Print Assumptions tagmap_refines_lemma.
Print Assumptions current_constants_ok.
