(* C15 — model of the exact (rational) side of src/curve.cpp, src/utils.cpp (the eval_bezier family),
   src/polygon.cpp (rectangle, cross).  Definitions only; proofs are in BezierProofs.v.

   * de Casteljau evaluation (utils.cpp eval_bezier: `p[i] = r*p[i] + t*p[i+1]`, r = 1 - t) and the
     Bernstein form it must agree with;
   * the section bookkeeping of `Curve`: state = (last vertex, last_ctrl); every construction call
     maps (relative?, control points) to the new state and the exact curves ("sections") it denotes,
     with the same index arithmetic as the C++ (`points[count - 2]`, triples / pairs, one reference
     point per call);
   * the step rule `angle = 2*(c < -1 ? pi : acos c)`, c = 1 - curvature*tolerance, of
     append_cubic/quad/bezier: the condition of the clamp branch as a rational inequality;
   * an exact integer point-segment distance test used as the oracle of the run-time validation;
   * rectangle / cross vertex formulas.

   Every finite double is a rational, so the harness hands the implementation's inputs and outputs
   to these functions without rounding. *)
From Coq Require Import QArith Qround ZArith List Lia Bool.
Import ListNotations.
Local Open Scope Q_scope.

(* ------------------------------------------------------------------ points *)
Definition pt : Type := (Q * Q)%type.
Definition padd (a b : pt) : pt := (fst a + fst b, snd a + snd b).
Definition psub (a b : pt) : pt := (fst a - fst b, snd a - snd b).
Definition pscale (k : Q) (a : pt) : pt := (k * fst a, k * snd a).
Definition pteq (a b : pt) : Prop := fst a == fst b /\ snd a == snd b.
Definition pteqb (a b : pt) : bool := Qeq_bool (fst a) (fst b) && Qeq_bool (snd a) (snd b).
Definition pzero : pt := (0, 0).
Definition cross (a b : pt) : Q := fst a * snd b - snd a * fst b.   (* Vec2::cross *)
Definition inner (a b : pt) : Q := fst a * fst b + snd a * snd b.   (* Vec2::inner *)
Definition norm2 (a : pt) : Q := inner a a.                          (* Vec2::length_sq *)

Fixpoint qpow (x : Q) (n : nat) : Q := match n with O => 1 | S m => x * qpow x m end.

(* ------------------------------------------------------------------ de Casteljau *)
(* one coordinate; Qred keeps the numbers small when executed and is the identity up to == *)
Definition lerpQ (t a b : Q) : Q := Qred ((1 - t) * a + t * b).

(* inner loop `for (i = 0; i < j; i++) p[i] = r*p[i] + t*p[i+1]` : the list loses one element *)
Fixpoint dc_step (t : Q) (l : list Q) : list Q :=
  match l with
  | a :: (b :: _) as tl => lerpQ t a b :: dc_step t tl
  | _ => []
  end.

(* outer loop `for (j = count - 1; j > 0; j--)`, result p[0] *)
Fixpoint dc_iter (fuel : nat) (t : Q) (l : list Q) : Q :=
  match fuel with
  | O => hd 0 l
  | S f => match l with
           | [] => 0
           | [a] => a
           | _ => dc_iter f t (dc_step t l)
           end
  end.
Definition decasteljau1 (t : Q) (l : list Q) : Q := dc_iter (length l) t l.
Definition decasteljau (t : Q) (l : list pt) : pt :=
  (decasteljau1 t (map fst l), decasteljau1 t (map snd l)).

(* ------------------------------------------------------------------ Bernstein form *)
Fixpoint binom (n k : nat) : nat :=
  match n, k with
  | _, O => 1%nat
  | O, S _ => 0%nat
  | S n', S k' => (binom n' k' + binom n' k)%nat
  end.
Definition bern (n i : nat) (t : Q) : Q :=
  inject_Z (Z.of_nat (binom n i)) * qpow t i * qpow (1 - t) (n - i).
(* sum_{k} B(n, i + k, t) * l_k *)
Fixpoint bsum (n i : nat) (t : Q) (l : list Q) : Q :=
  match l with
  | [] => 0
  | a :: tl => bern n i t * a + bsum n (S i) t tl
  end.
Definition bernstein1 (t : Q) (l : list Q) : Q := bsum (length l - 1) 0 t l.
Definition bernstein (t : Q) (l : list pt) : pt :=
  (bernstein1 t (map fst l), bernstein1 t (map snd l)).

(* ------------------------------------------------------------------ sections and calls *)
(* what a construction call denotes: exact curves, in order *)
Inductive section : Type :=
| SLine (a b : pt)          (* straight segment from a to b: one vertex b is appended *)
| SBez (ctrl : list pt)     (* Bezier curve with this control polygon, sampled by append_cubic, append_quad, append_bezier *)
| SArc (a b : pt).          (* circular / elliptical arc from a to b (end points only) *)

Definition sec_ctrl (s : section) : list pt :=
  match s with SLine a b => [a; b] | SBez l => l | SArc a b => [a; b] end.
Definition sec_start (s : section) : pt := hd pzero (sec_ctrl s).
Definition sec_end (s : section) : pt := last (sec_ctrl s) pzero.
(* the control point before the last one: what a following smooth section reflects *)
Definition penult (l : list pt) : pt := nth (length l - 2) l pzero.
(* the curve of a polynomial section *)
Definition sec_eval (s : section) (t : Q) : pt := decasteljau t (sec_ctrl s).

Record cstate : Type := mkst { cur : pt; lctl : pt }.   (* point_array[count-1], last_ctrl *)

Inductive call : Type :=
| CSegment (rel : bool) (p : pt)                 (* segment(Vec2, relative) *)
| CSegments (rel : bool) (ps : list pt)          (* segment(Array<Vec2>, relative) *)
| CHorizontal (rel : bool) (x : Q)
| CHorizontals (rel : bool) (xs : list Q)
| CVertical (rel : bool) (y : Q)
| CVerticals (rel : bool) (ys : list Q)
| CCubic (rel : bool) (ps : list pt)             (* 3 points per section *)
| CCubicSmooth (rel : bool) (ps : list pt)       (* 2 points per section *)
| CQuadratic (rel : bool) (ps : list pt)         (* 2 points per section *)
| CQuadSmooth1 (rel : bool) (p : pt)             (* quadratic_smooth(Vec2, relative) *)
| CQuadSmooth (rel : bool) (ps : list pt)        (* 1 point per section *)
| CBezier (rel : bool) (ps : list pt)            (* one section of any degree *)
| CInterp (rel cycle : bool) (ps : list pt) (hob : list (pt * pt))
     (* interpolation: hobby_interpolation fills two control points per piece (`hob`, an
        arbitrary input here); the call then is cubic(tmp, false) *)
| CArc (e v : pt).
     (* arc / turn: e = displacement of the end point, v = the vector the C++ adds to the end
        point to form last_ctrl (0.5*(rx+ry) along the last chord, backwards) *)

(* `relative ? ref + p : p` *)
Definition off (rel : bool) (ref p : pt) : pt := if rel then padd ref p else p.

(* --- segment(Array): vertices ref+p_i (or p_i); last_ctrl = point_array[count-2] *)
Fixpoint seg_secs (rel : bool) (ref first : pt) (ps : list pt) : list section * cstate :=
  match ps with
  | [] => ([], mkst first first)   (* unused: callers pass non-empty lists *)
  | [p] => let e := off rel ref p in ([SLine first e], mkst e first)
  | p :: tl => let e := off rel ref p in
               let (r, st) := seg_secs rel ref e tl in (SLine first e :: r, st)
  end.

(* --- cubic: `for (i = 0; i < count - 2; i += 3)` *)
Fixpoint cubic_secs (rel : bool) (ref first : pt) (ps : list pt) : list section * pt :=
  match ps with
  | a :: b :: c :: tl =>
      let e := off rel ref c in
      let (r, l) := cubic_secs rel ref e tl in
      (SBez [first; off rel ref a; off rel ref b; e] :: r, l)
  | _ => ([], first)
  end.

(* --- cubic_smooth: `for (i = 0; i < count - 1; i += 2)`; smooth_ctrl = 2*last_point - last_ctrl *)
Definition reflect (p c : pt) : pt := psub (pscale 2 p) c.
Fixpoint cubic_smooth_secs (rel : bool) (ref : pt) (st : cstate) (ps : list pt)
  : list section * cstate :=
  match ps with
  | a :: b :: tl =>
      let first := cur st in
      let smooth := reflect first (lctl st) in
      let c := off rel ref a in
      let e := off rel ref b in
      let (r, st') := cubic_smooth_secs rel ref (mkst e c) tl in
      (SBez [first; smooth; c; e] :: r, st')
  | _ => ([], st)
  end.

(* --- quadratic: `for (i = 0; i < count - 1; i += 2)` *)
Fixpoint quad_secs (rel : bool) (ref first : pt) (ps : list pt) : list section * pt :=
  match ps with
  | a :: b :: tl =>
      let e := off rel ref b in
      let (r, l) := quad_secs rel ref e tl in
      (SBez [first; off rel ref a; e] :: r, l)
  | _ => ([], first)
  end.

(* --- quadratic_smooth(Array): last_ctrl = 2*last_point - last_ctrl for every point *)
Fixpoint quad_smooth_secs (rel : bool) (ref : pt) (st : cstate) (ps : list pt)
  : list section * cstate :=
  match ps with
  | p :: tl =>
      let first := cur st in
      let c := reflect first (lctl st) in
      let e := off rel ref p in
      let (r, st') := quad_smooth_secs rel ref (mkst e c) tl in
      (SBez [first; c; e] :: r, st')
  | [] => ([], st)
  end.

(* --- interpolation: tmp = [ca0; cb0; P1; ca1; cb1; P2; ...] (+ [can; cbn; ref] if cycle) *)
Fixpoint interp_tmp (pts : list pt) (hob : list (pt * pt)) : list pt :=
  match pts, hob with
  | p :: tl, (ca, cb) :: htl => ca :: cb :: p :: interp_tmp tl htl
  | _, _ => []
  end.

(* None: the C++ reads `points[count - 2]` (or loops to `count - 2` / `count - 1`) with an
   unsigned count that wraps, or reads a vertex older than the state records: outside the
   documented domain of the call. *)
Definition run_call (st : cstate) (c : call) : option (cstate * list section) :=
  let ref := cur st in
  match c with
  | CSegment rel p =>
      let e := off rel ref p in Some (mkst e ref, [SLine ref e])
  | CSegments rel ps =>
      match ps with
      | [] => None
      | _ => let (r, st') := seg_secs rel ref ref ps in Some (st', r)
      end
  | CHorizontal rel x =>
      let e := if rel then (fst ref + x, snd ref) else (x, snd ref) in
      Some (mkst e ref, [SLine ref e])
  | CHorizontals rel xs =>
      match xs with
      | [] => None
      | _ => let ps := map (fun x => if rel then (fst ref + x, snd ref) else (x, snd ref)) xs in
             let (r, st') := seg_secs false ref ref ps in Some (st', r)
      end
  | CVertical rel y =>
      let e := if rel then (fst ref, snd ref + y) else (fst ref, y) in
      Some (mkst e ref, [SLine ref e])
  | CVerticals rel ys =>
      match ys with
      | [] => None
      | _ => let ps := map (fun y => if rel then (fst ref, snd ref + y) else (fst ref, y)) ys in
             let (r, st') := seg_secs false ref ref ps in Some (st', r)
      end
  | CCubic rel ps =>
      if (length ps <? 2)%nat then None
      else let (r, l) := cubic_secs rel ref ref ps in
           Some (mkst l (off rel ref (nth (length ps - 2) ps pzero)), r)
  | CCubicSmooth rel ps =>
      match ps with
      | [] => None
      | _ => let (r, st') := cubic_smooth_secs rel ref st ps in Some (st', r)
      end
  | CQuadratic rel ps =>
      if (length ps <? 2)%nat then None
      else let (r, l) := quad_secs rel ref ref ps in
           Some (mkst l (off rel ref (nth (length ps - 2) ps pzero)), r)
  | CQuadSmooth1 rel p =>
      let c := reflect ref (lctl st) in
      let e := if rel then padd ref p else p in
      Some (mkst e c, [SBez [ref; c; e]])
  | CQuadSmooth rel ps =>
      let (r, st') := quad_smooth_secs rel ref st ps in Some (st', r)
  | CBezier rel ps =>
      if (length ps <? 2)%nat then None
      else let ctrl := ref :: map (off rel ref) ps in
           (* `last_ctrl = ctrl[ctrl.count - 2];` (absolute, after fix 7a14b8c) *)
           Some (mkst (last ctrl pzero) (nth (length ctrl - 2) ctrl pzero), [SBez ctrl])
  | CInterp rel cycle ps hob =>
      let pts := map (off rel ref) ps ++ (if cycle then [ref] else []) in
      if negb (length hob =? length pts)%nat || (length pts =? 0)%nat then None
      else let tmp := interp_tmp pts hob in
           let (r, l) := cubic_secs false ref ref tmp in
           Some (mkst l (nth (length tmp - 2) tmp pzero), r)
  | CArc e v =>
      let b := padd ref e in Some (mkst b (padd b v), [SArc ref b])
  end.

Fixpoint run (st : cstate) (cs : list call) : option (cstate * list section) :=
  match cs with
  | [] => Some (st, [])
  | c :: tl =>
      match run_call st c with
      | None => None
      | Some (st1, s1) =>
          match run st1 tl with
          | None => None
          | Some (st2, s2) => Some (st2, s1 ++ s2)
          end
      end
  end.

(* --- Curve::commands: one instruction = one call *)
Inductive instr : Type :=
| I_l (p : pt) | I_L (p : pt) | I_h (x : Q) | I_H (x : Q) | I_v (y : Q) | I_V (y : Q)
| I_c (a b c : pt) | I_C (a b c : pt) | I_s (a b : pt) | I_S (a b : pt)
| I_q (a b : pt) | I_Q (a b : pt) | I_t (p : pt) | I_T (p : pt)
| I_arc (e v : pt).   (* 'a', 'A', 'E' *)
Definition instr_call (i : instr) : call :=
  match i with
  | I_l p => CSegment true p | I_L p => CSegment false p
  | I_h x => CHorizontal true x | I_H x => CHorizontal false x
  | I_v y => CVertical true y | I_V y => CVertical false y
  | I_c a b c => CCubic true [a; b; c] | I_C a b c => CCubic false [a; b; c]
  | I_s a b => CCubicSmooth true [a; b] | I_S a b => CCubicSmooth false [a; b]
  | I_q a b => CQuadratic true [a; b] | I_Q a b => CQuadratic false [a; b]
  | I_t p => CQuadSmooth true [p] | I_T p => CQuadSmooth false [p]
  | I_arc e v => CArc e v
  end.
Definition commands (st : cstate) (is : list instr) : option (cstate * list section) :=
  run st (map instr_call is).

(* ---- the documented reading of a call (specification side, independent of the loops above) *)
(* well-formed argument counts (what the header comments require) *)
Definition wf_call (c : call) : Prop :=
  match c with
  | CSegments _ ps => ps <> []
  | CHorizontals _ xs => xs <> []
  | CVerticals _ ys => ys <> []
  | CCubic _ ps => ps <> [] /\ (length ps mod 3 = 0)%nat
  | CCubicSmooth _ ps => ps <> [] /\ (length ps mod 2 = 0)%nat
  | CQuadratic _ ps => ps <> [] /\ (length ps mod 2 = 0)%nat
  | CBezier _ ps => (2 <= length ps)%nat
  | CInterp _ cycle ps hob =>
      (length hob = length ps + (if cycle then 1 else 0))%nat /\ hob <> []
  | _ => True
  end.
(* every k-th element starting at index k-1 *)
Fixpoint every (k : nat) (skip : nat) (l : list pt) : list pt :=
  match l with
  | [] => []
  | a :: tl => match skip with
               | O => a :: every k (k - 1) tl
               | S s => every k s tl
               end
  end.
(* the end points the caller asked for, one per section *)
Definition requested_ends (st : cstate) (c : call) : list pt :=
  let ref := cur st in
  match c with
  | CSegment rel p => [off rel ref p]
  | CSegments rel ps => map (off rel ref) ps
  | CHorizontal rel x => [if rel then (fst ref + x, snd ref) else (x, snd ref)]
  | CHorizontals rel xs => map (fun x => if rel then (fst ref + x, snd ref) else (x, snd ref)) xs
  | CVertical rel y => [if rel then (fst ref, snd ref + y) else (fst ref, y)]
  | CVerticals rel ys => map (fun y => if rel then (fst ref, snd ref + y) else (fst ref, y)) ys
  | CCubic rel ps => map (off rel ref) (every 3 2 ps)
  | CCubicSmooth rel ps => map (off rel ref) (every 2 1 ps)
  | CQuadratic rel ps => map (off rel ref) (every 2 1 ps)
  | CQuadSmooth1 rel p => [off rel ref p]
  | CQuadSmooth rel ps => map (off rel ref) ps
  | CBezier rel ps => [off rel ref (last ps pzero)]
  | CInterp rel cycle ps _ => map (off rel ref) ps ++ (if cycle then [ref] else [])
  | CArc e _ => [padd ref e]
  end.
(* calls whose first inner control point is the reflection of the previous last_ctrl *)
Definition is_smooth (c : call) : bool :=
  match c with CCubicSmooth _ _ | CQuadSmooth1 _ _ | CQuadSmooth _ _ => true | _ => false end.
(* arcs are not Bezier sections: their last_ctrl is the end point plus the given vector *)
Definition is_arc (c : call) : bool := match c with CArc _ _ => true | _ => false end.

(* sections form a chain from p to q *)
Fixpoint chain (p : pt) (secs : list section) (q : pt) : Prop :=
  match secs with
  | [] => p = q
  | s :: tl => sec_start s = p /\ chain (sec_end s) tl q
  end.
(* inside one call every section after the first of a smooth call continues its predecessor:
   ctrl[1] = 2*ctrl[0] - (previous section's penultimate control point) *)
Fixpoint smooth_chain (prev_ctl : pt) (secs : list section) : Prop :=
  match secs with
  | [] => True
  | s :: tl => nth 1 (sec_ctrl s) pzero = reflect (sec_start s) prev_ctl
               /\ smooth_chain (penult (sec_ctrl s)) tl
  end.

(* ------------------------------------------------------------------ step rule *)
(* append_bezier (append_cubic / append_quad are its instances count = 4 / 3):
     dp[i]  = (count-1) * (ctrl[i+1] - ctrl[i])      d2p[i] = (count-2) * (dp[i+1] - dp[i])
     dc = eval_bezier(t, dp), d2c = eval_bezier(t, d2p) *)
Fixpoint diffs (k : Q) (l : list pt) : list pt :=
  match l with
  | a :: (b :: _) as tl => pscale k (psub b a) :: diffs k tl
  | _ => []
  end.
Definition deriv1 (ctrl : list pt) : list pt :=
  diffs (inject_Z (Z.of_nat (length ctrl - 1))) ctrl.
Definition deriv2 (ctrl : list pt) : list pt :=
  diffs (inject_Z (Z.of_nat (length ctrl - 2))) (deriv1 ctrl).

Definition parallel_eps : Q := 1 # 100000000.   (* GDSTK_PARALLEL_EPS 1e-8 *)

(* curvature = |dc x d2c| / |dc|^3.  The C++ reaches the step rule when len_dc > 0 and
   curvature >= GDSTK_PARALLEL_EPS:
       const double cos_half = 1 - curvature * tolerance;
       double angle = 2 * (cos_half < -1 ? M_PI : acos(cos_half));
   The clamp branch is taken iff curvature*tolerance > 2, i.e. iff
   (dc x d2c)^2 * tol^2 > 4 * |dc|^6  (equivalence with the square-root form: ArcBound.v,
   step_rule_rational_lemma; the angle is always defined: step_rule_defined_lemma).  Before fix
   66f871b the code evaluated acos(cos_half) there and appended a NaN vertex (F11). *)
Definition step_rule_clamp_condition (dc d2c : pt) (tol : Q) : Prop :=
  0 < norm2 dc
  /\ parallel_eps * parallel_eps * qpow (norm2 dc) 3 <= cross dc d2c * cross dc d2c
  /\ 4 * qpow (norm2 dc) 3 < cross dc d2c * cross dc d2c * (tol * tol).
Definition step_rule_clamp_b (dc d2c : pt) (tol : Q) : bool :=
  let n := norm2 dc in let c := cross dc d2c in
  negb (Qle_bool n 0)
  && Qle_bool (parallel_eps * parallel_eps * qpow n 3) (c * c)
  && negb (Qle_bool (c * c * (tol * tol)) (4 * qpow n 3)).
(* at parameter t of a section *)
Definition step_clamp_at (ctrl : list pt) (tol t : Q) : bool :=
  step_rule_clamp_b (decasteljau t (deriv1 ctrl)) (decasteljau t (deriv2 ctrl)) tol.

(* "control directions span less than a quarter turn": all non-zero edges of the control polygon
   have pairwise positive inner products *)
Definition edges (ctrl : list pt) : list pt := diffs 1 ctrl.
Definition nonzero (e : pt) : bool := negb (Qeq_bool (fst e) 0 && Qeq_bool (snd e) 0).
Fixpoint all_pairs_pos (l : list pt) : bool :=
  match l with
  | [] => true
  | a :: tl => forallb (fun b => negb (Qle_bool (inner a b) 0)) tl && all_pairs_pos tl
  end.
Definition ctrl_span_lt_quarter (ctrl : list pt) : bool :=
  let es := filter nonzero (edges ctrl) in
  match es with [] => false | _ => all_pairs_pos es end.

(* ------------------------------------------------------------------ exact distance test in Z *)
Local Open Scope Z_scope.
Definition zpt : Type := (Z * Z)%type.
Definition zdot (a b : zpt) : Z := fst a * fst b + snd a * snd b.
Definition zcross (a b : zpt) : Z := fst a * snd b - snd a * fst b.
Definition zsub (a b : zpt) : zpt := (fst a - fst b, snd a - snd b).

(* is the distance from p to the closed segment [a,b] smaller than r (r >= 0)?  Projection case
   split: before a, beyond b, or onto the interior (then |w x d|^2 < r^2 |d|^2). *)
Definition seg_closer_than (p a b : zpt) (r : Z) : bool :=
  let d := zsub b a in
  let w := zsub p a in
  let L := zdot d d in
  let s := zdot w d in
  if s <=? 0 then zdot w w <? r * r
  else if L <=? s then zdot (zsub p b) (zsub p b) <? r * r
  else zcross w d * zcross w d <? r * r * L.

(* a rational point against a segment given on the grid 1/g: everything is brought to the common
   denominator g * den(px) * den(py) *)
Definition q_seg_closer (g : positive) (p : pt) (a b : zpt) (r : Z) : bool :=
  let dx := Zpos (Qden (fst p)) in
  let dy := Zpos (Qden (snd p)) in
  let k := dx * dy in
  seg_closer_than (Qnum (fst p) * dy * Zpos g, Qnum (snd p) * dx * Zpos g)
                  (fst a * k, snd a * k) (fst b * k, snd b * k) (r * k).

(* nearest grid integer of q * g *)
Definition grid_round (g : positive) (q : Q) : Z :=
  Qfloor (q * inject_Z (Zpos g) + (1 # 2))%Q.
Definition on_grid (g : positive) (z : Z) : Q := inject_Z z / inject_Z (Zpos g).


(* ------------------------------------------------------------------ integer evaluation *)
(* The run-time oracle works on integers of bounded size (the extracted arithmetic is bit by bit).
   de Casteljau at the parameter tn/den on integer control points, without any division: the
   result is the curve point times den^(count-1)  (decasteljauZ_lemma in BezierProofs.v). *)
Definition lerpZ (den tn a b : Z) : Z := (den - tn) * a + tn * b.
Fixpoint dcz_step (den tn : Z) (l : list Z) : list Z :=
  match l with
  | a :: (b :: _) as tl => lerpZ den tn a b :: dcz_step den tn tl
  | _ => []
  end.
Fixpoint dcz_iter (fuel : nat) (den tn : Z) (l : list Z) : Z :=
  match fuel with
  | O => hd 0 l
  | S f => match l with
           | [] => 0
           | [a] => a
           | _ => dcz_iter f den tn (dcz_step den tn l)
           end
  end.
Definition decasteljauZ1 (den tn : Z) (l : list Z) : Z := dcz_iter (length l) den tn l.
Definition decasteljauZ (den tn : Z) (l : list zpt) : zpt :=
  (decasteljauZ1 den tn (map fst l), decasteljauZ1 den tn (map snd l)).

(* nearest integer of z / 2^k *)
Definition round_shift (k : Z) (z : Z) : Z := Z.shiftr (z + Z.shiftl 1 (k - 1)) k.

(* a rational point of the unit circle in homogeneous integers (x, y, d), x^2 + y^2 = d^2:
   half-angle tangent a/b, then `quad` quarter turns *)
Definition circle_h (quad a b : Z) : Z * Z * Z :=
  let x := b * b - a * a in
  let y := 2 * a * b in
  let d := b * b + a * a in
  match quad mod 4 with
  | 0 => (x, y, d)
  | 1 => (- y, x, d)
  | 2 => (- x, - y, d)
  | _ => (y, - x, d)
  end.
(* centre + M (x/d, y/d), times d, for an integer matrix and centre *)
Definition ell_map_h (cx cy m11 m12 m21 m22 : Z) (p : Z * Z * Z) : Z * Z * Z :=
  let '(x, y, d) := p in
  (cx * d + m11 * x + m12 * y, cy * d + m21 * x + m22 * y, d).
(* the distance test for a point given as (xn/d, yn/d), d > 0 *)
Definition h_seg_closer (p : Z * Z * Z) (a b : zpt) (r : Z) : bool :=
  let '(xn, yn, d) := p in
  seg_closer_than (xn, yn) (d * fst a, d * snd a) (d * fst b, d * snd b) (d * r).

Local Open Scope Q_scope.

(* ------------------------------------------------------------------ circle / ellipse points *)
(* second intersection with the unit circle of the line from a (on the circle) through c *)
Definition stereo (a c : pt) : pt :=
  let d := psub c a in
  let s := - (2 * inner a d) / norm2 d in
  padd a (pscale s d).
(* ellipse as the affine image of the unit circle: centre + [m11 m12; m21 m22] u, with
   m = R(cr, sr) * diag(rx, ry) *)
Record affine : Type := mkaff { acx : Q; acy : Q; m11 : Q; m12 : Q; m21 : Q; m22 : Q }.
Definition ell_affine (cx cy rx ry cr sr : Q) : affine :=
  mkaff cx cy (cr * rx) (- sr * ry) (sr * rx) (cr * ry).
Definition aff_apply (f : affine) (u : pt) : pt :=
  (acx f + m11 f * fst u + m12 f * snd u, acy f + m21 f * fst u + m22 f * snd u).
Definition aff_det (f : affine) : Q := m11 f * m22 f - m12 f * m21 f.
Definition aff_unapply (f : affine) (p : pt) : pt :=
  let x := fst p - acx f in let y := snd p - acy f in
  ((m22 f * x - m12 f * y) / aff_det f, (m11 f * y - m21 f * x) / aff_det f).

(* ------------------------------------------------------------------ rectangle, cross *)
Definition rectangle_pts (c1 c2 : pt) : list pt :=
  [c1; (fst c2, snd c1); c2; (fst c1, snd c2)].
Definition cross_pts (center : pt) (full_size arm_width : Q) : list pt :=
  let len := full_size / 2 in
  let hw := arm_width / 2 in
  map (padd center)
    [(len, hw); (hw, hw); (hw, len); (- hw, len); (- hw, hw); (- len, hw);
     (- len, - hw); (- hw, - hw); (- hw, - len); (hw, - len); (hw, - hw); (len, - hw)].
