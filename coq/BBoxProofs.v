(* C09 — proofs about the model in BBox.v.
   Vocabulary
     lin u v p            the linear functional u*x + v*y
     is_min u v S m       m is the least value of lin u v on the finite set S, and it is attained
     is_bbox S b          b is the smallest axis-aligned box containing S  (Inverted iff S = [])
     ldom u v S1 S2       every point of S1 is dominated in direction (u,v) by a point of S2
     adom S1 S2           ldom for every axis-type direction (u*v == 0): "box of S2 reaches as far as S1"
     covers H S           every half-plane containing H contains S     (S inside the convex hull of H)
     hull_ok H S          H ⊆ S and every point of S is a convex combination (explicit coefficient list) of H
     hull_sem H S         H ⊆ S and covers H S     (hull_ok implies hull_sem) *)
From Coq Require Import QArith Qfield List Bool ZArith NArith Lia Lqa Psatz.
Import ListNotations.
Require Import BBox.
Local Open Scope Q_scope.

(* ------------------------------------------------------------------ arithmetic wrappers *)
Lemma qadd_eq : forall x y, qadd x y = x + y.
Proof.
  intros x y. unfold qadd, Qplus. f_equal.
  rewrite (Z.mul_comm (QDen y)), (Z.mul_comm (QDen x)). reflexivity.
Qed.
Lemma qsub_eq : forall x y, qsub x y = x - y.
Proof. intros. unfold qsub. rewrite qadd_eq. reflexivity. Qed.
Lemma qmul_eq : forall x y, qmul x y = x * y.
Proof. reflexivity. Qed.
Lemma qcmp_eq : forall x y, qcmp x y = (x ?= y).
Proof.
  intros x y. unfold qcmp, Qcompare.
  rewrite (Z.mul_comm (QDen y)), (Z.mul_comm (QDen x)). reflexivity.
Qed.
Lemma qlt_true : forall x y, qlt x y = true <-> x < y.
Proof.
  intros x y. unfold qlt. rewrite qcmp_eq, Qlt_alt.
  destruct (x ?= y); split; intro H; try reflexivity; discriminate.
Qed.
Lemma qlt_false : forall x y, qlt x y = false <-> y <= x.
Proof.
  intros x y. split; intro H.
  - apply Qnot_lt_le. intro L. apply qlt_true in L. congruence.
  - destruct (qlt x y) eqn:E; [|reflexivity]. apply qlt_true in E. exfalso. apply (Qlt_not_le _ _ E H).
Qed.
Lemma qeqb_true : forall x y, qeqb x y = true <-> x == y.
Proof.
  intros x y. unfold qeqb. rewrite qcmp_eq, Qeq_alt.
  destruct (x ?= y); split; intro H; try reflexivity; discriminate.
Qed.

Lemma pos_strip2_ok : forall n d n' d', pos_strip2 n d = (n', d') -> (n * d' = n' * d)%positive.
Proof.
  induction n as [n IH|n IH|]; intros d n' d' H; simpl in H.
  - inversion H; reflexivity.
  - destruct d as [d|d|]; try (inversion H; reflexivity).
    apply IH in H. lia.
  - inversion H; reflexivity.
Qed.
Lemma qn_eq : forall q, qn q == q.
Proof.
  intros [n d]. unfold qn. simpl. destruct n as [|n|n].
  - reflexivity.
  - destruct (pos_strip2 n d) as [n' d'] eqn:E. apply pos_strip2_ok in E.
    unfold Qeq. simpl. lia.
  - destruct (pos_strip2 n d) as [n' d'] eqn:E. apply pos_strip2_ok in E.
    unfold Qeq. simpl. lia.
Qed.

Ltac qs := unfold qmul in *; rewrite ?qsub_eq, ?qadd_eq in *.

(* ------------------------------------------------------------------ functionals, minima *)
Definition lin (u v : Q) (p : pt) : Q := u * fst p + v * snd p.

Definition is_min (u v : Q) (S : list pt) (m : Q) : Prop :=
  (forall p, In p S -> m <= lin u v p) /\ exists p, In p S /\ lin u v p == m.

Definition box_eq (a b : box) : Prop :=
  match a, b with
  | Inverted, Inverted => True
  | Box a0 a1 a2 a3, Box b0 b1 b2 b3 => a0 == b0 /\ a1 == b1 /\ a2 == b2 /\ a3 == b3
  | _, _ => False
  end.

Definition is_bbox (S : list pt) (b : box) : Prop :=
  match b with
  | Inverted => S = []
  | Box x0 y0 x1 y1 =>
      is_min 1 0 S x0 /\ is_min 0 1 S y0 /\ is_min (-(1)) 0 S (- x1) /\ is_min 0 (-(1)) S (- y1)
  end.

(* the readable form: bounds and attainment *)
Lemma is_bbox_spec : forall S x0 y0 x1 y1, is_bbox S (Box x0 y0 x1 y1) <->
  (forall p, In p S -> x0 <= fst p /\ fst p <= x1 /\ y0 <= snd p /\ snd p <= y1) /\
  (exists p, In p S /\ fst p == x0) /\ (exists p, In p S /\ snd p == y0) /\
  (exists p, In p S /\ fst p == x1) /\ (exists p, In p S /\ snd p == y1).
Proof.
  intros. unfold is_bbox, is_min, lin. split.
  - intros [[A1 [a1 [Ia1 Ea1]]] [[A2 [a2 [Ia2 Ea2]]] [[A3 [a3 [Ia3 Ea3]]] [A4 [a4 [Ia4 Ea4]]]]]].
    split; [|repeat split].
    + intros p Hp. specialize (A1 p Hp). specialize (A2 p Hp). specialize (A3 p Hp). specialize (A4 p Hp).
      repeat split; lra.
    + exists a1. split; [assumption|lra].
    + exists a2. split; [assumption|lra].
    + exists a3. split; [assumption|lra].
    + exists a4. split; [assumption|lra].
  - intros [B [[a1 [Ia1 Ea1]] [[a2 [Ia2 Ea2]] [[a3 [Ia3 Ea3]] [a4 [Ia4 Ea4]]]]]].
    repeat split; try (intros p Hp; destruct (B p Hp) as [? [? [? ?]]]; lra).
    + exists a1. split; [assumption|lra].
    + exists a2. split; [assumption|lra].
    + exists a3. split; [assumption|lra].
    + exists a4. split; [assumption|lra].
Qed.

Lemma is_min_eq : forall u v S m m', is_min u v S m -> m == m' -> is_min u v S m'.
Proof.
  intros u v S m m' [A [p [Ip Ep]]] E. split.
  - intros q Hq. specialize (A q Hq). lra.
  - exists p. split; [assumption|lra].
Qed.
Lemma is_min_unique : forall u v S m m', is_min u v S m -> is_min u v S m' -> m == m'.
Proof.
  intros u v S m m' [A [p [Ip Ep]]] [A' [p' [Ip' Ep']]].
  specialize (A p' Ip'). specialize (A' p Ip). lra.
Qed.
Lemma is_min_nonempty : forall u v S m, is_min u v S m -> S <> [].
Proof. intros u v S m [_ [p [Ip _]]] E. subst. inversion Ip. Qed.

Lemma is_bbox_unique : forall S b b', is_bbox S b -> is_bbox S b' -> box_eq b b'.
Proof.
  intros S [|x0 y0 x1 y1] [|x0' y0' x1' y1']; simpl; intros H H'; try exact I.
  - destruct H' as [H' _]. apply is_min_nonempty in H'. contradiction.
  - destruct H as [H _]. apply is_min_nonempty in H. contradiction.
  - destruct H as [A [B [C D]]], H' as [A' [B' [C' D']]].
    pose proof (is_min_unique _ _ _ _ _ A A'). pose proof (is_min_unique _ _ _ _ _ B B').
    pose proof (is_min_unique _ _ _ _ _ C C'). pose proof (is_min_unique _ _ _ _ _ D D').
    repeat split; lra.
Qed.
Lemma is_bbox_box_eq : forall S b b', is_bbox S b -> box_eq b b' -> is_bbox S b'.
Proof.
  intros S [|x0 y0 x1 y1] [|x0' y0' x1' y1']; simpl; intros H E; try contradiction; try assumption.
  destruct E as [E0 [E1 [E2 E3]]], H as [A [B [C D]]].
  repeat split; eapply is_min_eq; eauto; lra.
Qed.
Lemma box_eq_refl : forall b, box_eq b b.
Proof. intros [|? ? ? ?]; simpl; auto. repeat split; reflexivity. Qed.
Lemma box_eq_sym : forall a b, box_eq a b -> box_eq b a.
Proof.
  intros [|? ? ? ?] [|? ? ? ?]; simpl; auto. intros [? [? [? ?]]]. repeat split; symmetry; assumption.
Qed.
Lemma box_eq_trans : forall a b c, box_eq a b -> box_eq b c -> box_eq a c.
Proof.
  intros [|? ? ? ?] [|? ? ? ?] [|? ? ? ?]; simpl; auto; try contradiction.
  intros [? [? [? ?]]] [? [? [? ?]]]. repeat split; etransitivity; eauto.
Qed.

(* ------------------------------------------------------------------ bbox computes the smallest box *)
Lemma is_min_single : forall u v p, is_min u v [p] (lin u v p).
Proof.
  intros. split.
  - intros q [<-|[]]. apply Qle_refl.
  - exists p. split; [left; reflexivity|reflexivity].
Qed.

(* minimum of a union, in the shape the code computes it:  if (m2 < m1) m1 = m2 *)
Lemma is_min_app : forall u v S1 S2 m1 m2, is_min u v S1 m1 -> is_min u v S2 m2 ->
  is_min u v (S1 ++ S2) (if qlt m2 m1 then m2 else m1).
Proof.
  intros u v S1 S2 m1 m2 [A1 [p1 [I1 E1]]] [A2 [p2 [I2 E2]]].
  destruct (qlt m2 m1) eqn:E; [apply qlt_true in E | apply qlt_false in E]; split.
  - intros p Hp. apply in_app_or in Hp. destruct Hp as [Hp|Hp]; [specialize (A1 p Hp)|specialize (A2 p Hp)]; lra.
  - exists p2. split; [apply in_or_app; right; assumption|assumption].
  - intros p Hp. apply in_app_or in Hp. destruct Hp as [Hp|Hp]; [specialize (A1 p Hp)|specialize (A2 p Hp)]; lra.
  - exists p1. split; [apply in_or_app; left; assumption|assumption].
Qed.
(* the same for a maximum kept as M (minimum of the negated functional is -M):  if (M2 > M1) M1 = M2 *)
Lemma is_min_app_neg : forall u v S1 S2 M1 M2, is_min u v S1 (- M1) -> is_min u v S2 (- M2) ->
  is_min u v (S1 ++ S2) (- (if qlt M1 M2 then M2 else M1)).
Proof.
  intros u v S1 S2 M1 M2 H1 H2.
  pose proof (is_min_app _ _ _ _ _ _ H1 H2) as H.
  destruct (qlt M1 M2) eqn:E; [apply qlt_true in E | apply qlt_false in E];
    destruct (qlt (- M2) (- M1)) eqn:E'; [apply qlt_true in E' | apply qlt_false in E'
                                          | apply qlt_true in E' | apply qlt_false in E'];
    try assumption; exfalso; lra.
Qed.

Lemma box_add_is_bbox : forall S b p, is_bbox S b -> is_bbox (S ++ [p]) (box_add b p).
Proof.
  intros S [|x0 y0 x1 y1] p H; simpl in *.
  - subst. simpl. repeat split; try (intros q [<-|[]]; unfold lin; lra);
      exists p; (split; [left; reflexivity|unfold lin; lra]).
  - destruct H as [A [B [C D]]].
    assert (P1 := is_min_single 1 0 p). assert (P2 := is_min_single 0 1 p).
    assert (P3 := is_min_single (-(1)) 0 p). assert (P4 := is_min_single 0 (-(1)) p).
    split; [|split; [|split]].
    + eapply is_min_eq; [exact (is_min_app _ _ _ _ _ _ A P1)|].
      unfold lin. destruct (qlt (fst p) x0) eqn:E1, (qlt (1 * fst p + 0 * snd p) x0) eqn:E2;
        try apply qlt_true in E1; try apply qlt_false in E1; try apply qlt_true in E2; try apply qlt_false in E2; lra.
    + eapply is_min_eq; [exact (is_min_app _ _ _ _ _ _ B P2)|].
      unfold lin. destruct (qlt (snd p) y0) eqn:E1, (qlt (0 * fst p + 1 * snd p) y0) eqn:E2;
        try apply qlt_true in E1; try apply qlt_false in E1; try apply qlt_true in E2; try apply qlt_false in E2; lra.
    + assert (P3' : is_min (-(1)) 0 [p] (- fst p)) by (eapply is_min_eq; [exact P3|unfold lin; lra]).
      exact (is_min_app_neg _ _ _ _ _ _ C P3').
    + assert (P4' : is_min 0 (-(1)) [p] (- snd p)) by (eapply is_min_eq; [exact P4|unfold lin; lra]).
      exact (is_min_app_neg _ _ _ _ _ _ D P4').
Qed.

Lemma fold_box_add_is_bbox : forall S S0 b, is_bbox S0 b -> is_bbox (S0 ++ S) (fold_left box_add S b).
Proof.
  induction S as [|p S IH]; intros S0 b H; simpl.
  - rewrite app_nil_r. assumption.
  - replace (S0 ++ p :: S) with ((S0 ++ [p]) ++ S) by (rewrite <- app_assoc; reflexivity).
    apply IH. apply box_add_is_bbox. assumption.
Qed.

Lemma bbox_is_bbox : forall S, is_bbox S (bbox S).
Proof. intros S. apply (fold_box_add_is_bbox S [] Inverted). reflexivity. Qed.

Lemma bbox_inverted_iff : forall S, bbox S = Inverted <-> S = [].
Proof.
  intros S. split; intro H.
  - pose proof (bbox_is_bbox S) as B. rewrite H in B. exact B.
  - subst. reflexivity.
Qed.

Lemma is_bbox_join : forall S1 S2 b1 b2, is_bbox S1 b1 -> is_bbox S2 b2 -> is_bbox (S1 ++ S2) (box_join b1 b2).
Proof.
  intros S1 S2 [|a0 a1 a2 a3] [|c0 c1 c2 c3] H1 H2; simpl in *.
  - subst. reflexivity.
  - subst. simpl. assumption.
  - subst. rewrite app_nil_r. assumption.
  - destruct H1 as [A1 [B1 [C1 D1]]], H2 as [A2 [B2 [C2 D2]]]. split; [|split; [|split]].
    + exact (is_min_app _ _ _ _ _ _ A1 A2).
    + exact (is_min_app _ _ _ _ _ _ B1 B2).
    + exact (is_min_app_neg _ _ _ _ _ _ C1 C2).
    + exact (is_min_app_neg _ _ _ _ _ _ D1 D2).
Qed.

(* ------------------------------------------------------------------ domination *)
Definition ldom (u v : Q) (S1 S2 : list pt) : Prop :=
  forall p, In p S1 -> exists q, In q S2 /\ lin u v q <= lin u v p.
Definition adom (S1 S2 : list pt) : Prop := forall u v, u * v == 0 -> ldom u v S1 S2.
Definition fdom (S1 S2 : list pt) : Prop := forall u v, ldom u v S1 S2.

Lemma ldom_incl : forall u v S1 S2, incl S1 S2 -> ldom u v S1 S2.
Proof. intros u v S1 S2 H p Hp. exists p. split; [apply H; assumption|apply Qle_refl]. Qed.
Lemma ldom_trans : forall u v S1 S2 S3, ldom u v S1 S2 -> ldom u v S2 S3 -> ldom u v S1 S3.
Proof.
  intros u v S1 S2 S3 H12 H23 p Hp. destruct (H12 p Hp) as [q [Hq Lq]].
  destruct (H23 q Hq) as [r [Hr Lr]]. exists r. split; [assumption|lra].
Qed.
Lemma fdom_adom : forall S1 S2, fdom S1 S2 -> adom S1 S2.
Proof. intros S1 S2 H u v _. apply H. Qed.

Lemma is_min_transfer : forall u v S1 S2 m, ldom u v S1 S2 -> ldom u v S2 S1 -> is_min u v S1 m -> is_min u v S2 m.
Proof.
  intros u v S1 S2 m H12 H21 [A [p [Ip Ep]]].
  assert (A2 : forall q, In q S2 -> m <= lin u v q).
  { intros q Hq. destruct (H21 q Hq) as [r [Hr Lr]]. specialize (A r Hr). lra. }
  split; [assumption|].
  destruct (H12 p Ip) as [q [Hq Lq]]. exists q. split; [assumption|]. specialize (A2 q Hq). lra.
Qed.

Lemma axis_dirs : 1 * 0 == 0 /\ 0 * 1 == 0 /\ -(1) * 0 == 0 /\ 0 * -(1) == 0.
Proof. repeat split; reflexivity. Qed.

Lemma is_bbox_transfer : forall S1 S2 b, adom S1 S2 -> adom S2 S1 -> is_bbox S1 b -> is_bbox S2 b.
Proof.
  intros S1 S2 [|x0 y0 x1 y1] H12 H21 H; simpl in *.
  - subst. destruct S2 as [|p S2]; [reflexivity|].
    destruct (H21 1 0 (proj1 axis_dirs) p (or_introl eq_refl)) as [q [[] _]].
  - destruct axis_dirs as [D1 [D2 [D3 D4]]]. destruct H as [A [B [C D]]].
    split; [|split; [|split]]; eapply is_min_transfer; eauto.
Qed.

(* two sets with the same smallest box dominate each other in every axis-type direction *)
Lemma lin_axis_cases : forall u v, u * v == 0 -> u == 0 \/ v == 0.
Proof. intros u v H. apply Qmult_integral in H. assumption. Qed.

Lemma adom_same_box : forall S1 S2 b, is_bbox S1 b -> is_bbox S2 b -> adom S1 S2.
Proof.
  intros S1 S2 [|x0 y0 x1 y1] H1 H2 u v Huv p Hp; simpl in *.
  - subst. inversion Hp.
  - apply is_bbox_spec in H1. apply is_bbox_spec in H2.
    destruct H1 as [B1 _]. destruct (B1 p Hp) as [Bx0 [Bx1 [By0 By1]]].
    destruct H2 as [_ [[a0 [Ia0 Ea0]] [[b0 [Ib0 Eb0]] [[a1 [Ia1 Ea1]] [b1 [Ib1 Eb1]]]]]].
    unfold lin. destruct (lin_axis_cases _ _ Huv) as [Z|Z].
    + destruct (Qlt_le_dec v 0) as [N|N].
      * exists b1. split; [assumption|]. rewrite Z. nra.
      * exists b0. split; [assumption|]. rewrite Z. nra.
    + destruct (Qlt_le_dec u 0) as [N|N].
      * exists a1. split; [assumption|]. rewrite Z. nra.
      * exists a0. split; [assumption|]. rewrite Z. nra.
Qed.

Lemma corners_is_bbox : forall S x0 y0 x1 y1, is_bbox S (Box x0 y0 x1 y1) ->
  is_bbox (corners (Box x0 y0 x1 y1)) (Box x0 y0 x1 y1).
Proof.
  intros S x0 y0 x1 y1 H. apply is_bbox_spec in H. apply is_bbox_spec.
  destruct H as [B [[a0 [Ia0 Ea0]] [[b0 [Ib0 Eb0]] [[a1 [Ia1 Ea1]] [b1 [Ib1 Eb1]]]]]].
  assert (x0 <= x1) by (destruct (B a0 Ia0) as [? [? [? ?]]]; lra).
  assert (y0 <= y1) by (destruct (B b0 Ib0) as [? [? [? ?]]]; lra).
  simpl. split; [|repeat split].
  - intros p [<-|[<-|[<-|[<-|[]]]]]; simpl; repeat split; lra.
  - exists (x0, y0). split; [left; reflexivity|reflexivity].
  - exists (x0, y0). split; [left; reflexivity|reflexivity].
  - exists (x1, y1). split; [right; left; reflexivity|reflexivity].
  - exists (x1, y1). split; [right; left; reflexivity|reflexivity].
Qed.

Lemma corners_adom : forall S b, is_bbox S b -> adom (corners b) S /\ adom S (corners b).
Proof.
  intros S [|x0 y0 x1 y1] H.
  - simpl in H. subst. split; intros u v _ p Hp; inversion Hp.
  - pose proof (corners_is_bbox _ _ _ _ _ H) as HC.
    split; eapply adom_same_box; eauto.
Qed.

(* ------------------------------------------------------------------ half-plane cover, convex combinations *)
Definition covers (H S : list pt) : Prop :=
  forall u v k, (forall h, In h H -> lin u v h <= k) -> forall p, In p S -> lin u v p <= k.

Definition comb (l : list (Q * pt)) : pt :=
  fold_right (fun wh acc => (fst wh * fst (snd wh) + fst acc, fst wh * snd (snd wh) + snd acc)) (0, 0) l.
Definition wsum (l : list (Q * pt)) : Q := fold_right (fun wh acc => fst wh + acc) 0 l.
Definition convex_comb (H : list pt) (p : pt) : Prop :=
  exists l : list (Q * pt),
    (forall wh, In wh l -> 0 <= fst wh /\ In (snd wh) H) /\ wsum l == 1 /\
    fst p == fst (comb l) /\ snd p == snd (comb l).
(* the contract of the hull routine (qhull): corners are input points, inputs are convex combinations of corners *)
Definition hull_ok (H S : list pt) : Prop := incl H S /\ forall p, In p S -> convex_comb H p.
Definition hull_sem (H S : list pt) : Prop := incl H S /\ covers H S.

Lemma comb_bound : forall u v k l,
  (forall wh, In wh l -> 0 <= fst wh /\ lin u v (snd wh) <= k) -> lin u v (comb l) <= wsum l * k.
Proof.
  intros u v k. induction l as [|[w h] l IH]; intros Hl; simpl.
  - unfold lin. simpl. lra.
  - assert (Hl' : forall wh, In wh l -> 0 <= fst wh /\ lin u v (snd wh) <= k) by (intros; apply Hl; right; assumption).
    specialize (IH Hl'). destruct (Hl (w, h) (or_introl eq_refl)) as [W Hk]. simpl in W, Hk.
    unfold lin in *. simpl in *. nra.
Qed.

Lemma convex_comb_covers : forall H p, convex_comb H p -> forall u v k, (forall h, In h H -> lin u v h <= k) -> lin u v p <= k.
Proof.
  intros H p [l [Hl [Hs [Ex Ey]]]] u v k Hk.
  assert (B : lin u v (comb l) <= wsum l * k).
  { apply comb_bound. intros wh Hwh. destruct (Hl wh Hwh) as [W I]. split; [assumption|apply Hk; assumption]. }
  unfold lin in *. rewrite Ex, Ey. rewrite Hs in B. lra.
Qed.

Lemma hull_ok_sem : forall H S, hull_ok H S -> hull_sem H S.
Proof.
  intros H S [I C]. split; [assumption|].
  intros u v k Hk p Hp. eapply convex_comb_covers; eauto.
Qed.

Lemma covers_refl : forall S, covers S S.
Proof. intros S u v k Hk p Hp. apply Hk. assumption. Qed.
Lemma covers_trans : forall A B C, covers A B -> covers B C -> covers A C.
Proof. intros A B C HAB HBC u v k Hk p Hp. apply (HBC u v k); [|assumption]. intros h Hh. apply (HAB u v k); assumption. Qed.
Lemma covers_incl_r : forall A B C, covers A B -> incl C B -> covers A C.
Proof. intros A B C HAB I u v k Hk p Hp. apply (HAB u v k Hk). apply I. assumption. Qed.
Lemma covers_incl_l : forall A A' B, covers A B -> incl A A' -> covers A' B.
Proof. intros A A' B HAB I u v k Hk p Hp. apply (HAB u v k); [|assumption]. intros h Hh. apply Hk. apply I. assumption. Qed.
Lemma covers_app : forall A1 A2 B1 B2, covers A1 B1 -> covers A2 B2 -> covers (A1 ++ A2) (B1 ++ B2).
Proof.
  intros A1 A2 B1 B2 H1 H2 u v k Hk p Hp. apply in_app_or in Hp. destruct Hp as [Hp|Hp].
  - apply (H1 u v k); [|assumption]. intros h Hh. apply Hk. apply in_or_app. left; assumption.
  - apply (H2 u v k); [|assumption]. intros h Hh. apply Hk. apply in_or_app. right; assumption.
Qed.
Lemma hull_sem_refl : forall S, hull_sem S S.
Proof. intros S. split; [apply incl_refl|apply covers_refl]. Qed.

Lemma exists_lin_min : forall u v (H : list pt), H <> [] -> exists h, In h H /\ forall h', In h' H -> lin u v h <= lin u v h'.
Proof.
  intros u v. induction H as [|a H IH]; intros NE; [contradiction|].
  destruct H as [|b H].
  - exists a. split; [left; reflexivity|]. intros h' [<-|[]]. apply Qle_refl.
  - destruct IH as [h [Ih Mh]]; [discriminate|].
    destruct (Qlt_le_dec (lin u v a) (lin u v h)) as [L|L].
    + exists a. split; [left; reflexivity|]. intros h' [<-|Hh']; [apply Qle_refl|]. specialize (Mh h' Hh'). lra.
    + exists h. split; [right; assumption|]. intros h' [<-|Hh']; [assumption|]. apply Mh; assumption.
Qed.

Lemma covers_nonempty : forall H S p, covers H S -> In p S -> H <> [].
Proof.
  intros H S p C Hp E. subst.
  assert (X : lin 0 0 p <= -(1)) by (apply (C 0 0 (-(1))); [intros h []|assumption]).
  unfold lin in X. lra.
Qed.

Lemma covers_fdom : forall H S, covers H S -> fdom S H.
Proof.
  intros H S C u v p Hp.
  destruct (exists_lin_min u v H (covers_nonempty _ _ _ C Hp)) as [h [Ih Mh]].
  exists h. split; [assumption|].
  assert (X : lin (-u) (-v) p <= - lin u v h).
  { apply (C (-u) (-v)); [|assumption]. intros h' Hh'. specialize (Mh h' Hh'). unfold lin in *. lra. }
  unfold lin in *. lra.
Qed.

Lemma hull_sem_fdom : forall H S, hull_sem H S -> fdom S H /\ fdom H S.
Proof.
  intros H S [I C]. split; [apply covers_fdom; assumption|].
  intros u v. apply ldom_incl. assumption.
Qed.

(* ------------------------------------------------------------------ translations, affine maps *)
Lemma lin_padd : forall u v o p, lin u v (padd o p) == lin u v p + lin u v o.
Proof. intros. unfold lin, padd. simpl. qs. ring. Qed.

Definition sgn (b : bool) : Q := if b then -(1) else 1.
(* direction (u,v) pulled back through the linear part of a placement *)
Definition pu (pl : placement) (u v : Q) : Q := pl_mag pl * (u * pl_ca pl + v * pl_sa pl).
Definition pv (pl : placement) (u v : Q) : Q := sgn (pl_xrefl pl) * pl_mag pl * (v * pl_ca pl - u * pl_sa pl).

Lemma xform_fst : forall pl off p, fst (xform pl off p) ==
  pl_mag pl * pl_ca pl * fst p - sgn (pl_xrefl pl) * pl_mag pl * pl_sa pl * snd p + fst (pl_org pl) + fst off.
Proof.
  intros. unfold xform. simpl. rewrite qn_eq. qs. unfold sgn. destruct (pl_xrefl pl); ring.
Qed.
Lemma xform_snd : forall pl off p, snd (xform pl off p) ==
  pl_mag pl * pl_sa pl * fst p + sgn (pl_xrefl pl) * pl_mag pl * pl_ca pl * snd p + snd (pl_org pl) + snd off.
Proof.
  intros. unfold xform. simpl. rewrite qn_eq. qs. unfold sgn. destruct (pl_xrefl pl); ring.
Qed.
Lemma lin_xform : forall pl u v off p,
  lin u v (xform pl off p) == lin (pu pl u v) (pv pl u v) p + lin u v (pl_org pl) + lin u v off.
Proof.
  intros. unfold lin at 1. rewrite xform_fst, xform_snd. unfold lin, pu, pv. ring.
Qed.
Lemma pull_axis : forall pl u v, pl_ca pl * pl_sa pl == 0 -> u * v == 0 -> pu pl u v * pv pl u v == 0.
Proof.
  intros pl u v Hq Huv. unfold pu, pv.
  transitivity (sgn (pl_xrefl pl) * pl_mag pl * pl_mag pl *
                ((v * v - u * u) * (pl_ca pl * pl_sa pl) + (u * v) * (pl_ca pl * pl_ca pl - pl_sa pl * pl_sa pl))); [ring|].
  rewrite Hq, Huv. ring.
Qed.

(* general affine maps (for the statements of the two reference lemmas) *)
Definition affine (T : pt -> pt) : Prop :=
  exists a b c d e f, forall p, fst (T p) == a * fst p + b * snd p + e /\ snd (T p) == c * fst p + d * snd p + f.
Lemma xform_affine : forall pl off, affine (xform pl off).
Proof.
  intros. exists (pl_mag pl * pl_ca pl), (- (sgn (pl_xrefl pl) * pl_mag pl * pl_sa pl)), (pl_mag pl * pl_sa pl),
    (sgn (pl_xrefl pl) * pl_mag pl * pl_ca pl), (fst (pl_org pl) + fst off), (snd (pl_org pl) + snd off).
  intros p. rewrite xform_fst, xform_snd. split; ring.
Qed.

Lemma ldom_map : forall (T : pt -> pt) u v u' v' c S1 S2,
  (forall p, lin u v (T p) == lin u' v' p + c) -> ldom u' v' S1 S2 -> ldom u v (map T S1) (map T S2).
Proof.
  intros T u v u' v' c S1 S2 HT H q Hq. apply in_map_iff in Hq. destruct Hq as [p [<- Hp]].
  destruct (H p Hp) as [r [Hr Lr]]. exists (T r). split; [apply in_map; assumption|].
  rewrite !HT. lra.
Qed.

(* ------------------------------------------------------------------ products offsets x points *)
Lemma in_rat : forall allo pl P q, In q (rat allo pl P) <-> exists e h, In e (rat_offsets allo pl) /\ In h P /\ q = xform pl e h.
Proof.
  intros allo pl P q. unfold rat. destruct P as [|a P].
  - split; [intros []|intros [e [h [_ [[] _]]]]].
  - set (PP := a :: P). rewrite in_concat. split.
    + intros [l [Hl Hq]]. apply in_rev in Hl. apply in_map_iff in Hl. destruct Hl as [e [<- He]].
      apply in_map_iff in Hq. destruct Hq as [h [<- Hh]]. exists e, h. auto.
    + intros [e [h [He [Hh ->]]]]. exists (map (xform pl e) PP). split.
      * apply -> in_rev. apply in_map_iff. exists e. auto.
      * apply in_map. assumption.
Qed.
Lemma in_ref_points : forall pl ch q, In q (ref_points pl ch) <->
  exists o p, In o (all_offsets pl) /\ In p (flatten ch) /\ q = xform pl o p.
Proof.
  intros. unfold ref_points. rewrite in_flat_map. split.
  - intros [o [Ho Hq]]. apply in_map_iff in Hq. destruct Hq as [p [<- Hp]]. exists o, p. auto.
  - intros [o [p [Ho [Hp ->]]]]. exists o. split; [assumption|apply in_map; assumption].
Qed.
Lemma in_rep_points_some : forall pts r q, In q (rep_points pts (Some r)) <->
  exists o p, In o (offs r) /\ In p pts /\ q = padd o p.
Proof.
  intros. simpl. rewrite in_flat_map. split.
  - intros [o [Ho Hq]]. apply in_map_iff in Hq. destruct Hq as [p [<- Hp]]. exists o, p. auto.
  - intros [o [p [Ho [Hp ->]]]]. exists o. split; [assumption|apply in_map; assumption].
Qed.

(* domination of products under a placement *)
Lemma ldom_prod : forall pl u v (L1 L2 O1 O2 S1 S2 : list pt),
  (forall q, In q L1 -> exists o p, In o O1 /\ In p S1 /\ q = xform pl o p) ->
  (forall o p, In o O2 -> In p S2 -> In (xform pl o p) L2) ->
  ldom (pu pl u v) (pv pl u v) S1 S2 -> ldom u v O1 O2 -> ldom u v L1 L2.
Proof.
  intros pl u v L1 L2 O1 O2 S1 S2 H1 H2 HS HO q Hq.
  destruct (H1 q Hq) as [o [p [Ho [Hp ->]]]].
  destruct (HS p Hp) as [p' [Hp' Lp]]. destruct (HO o Ho) as [o' [Ho' Lo]].
  exists (xform pl o' p'). split; [apply H2; assumption|]. rewrite !lin_xform. lra.
Qed.

(* ------------------------------------------------------------------ repetitions on elements (C11 facts as premises) *)
Definition rep_ok (r : rep) : Prop :=
  incl (exts r) (offs r) /\ box_eq (bbox (exts r)) (bbox (offs r)) /\
  exists o, In o (offs r) /\ fst o == 0 /\ snd o == 0.
Definition orep_ok (r : option rep) : Prop := match r with None => True | Some r => rep_ok r end.

Lemma rep_ok_adom : forall r, rep_ok r -> adom (offs r) (exts r) /\ adom (exts r) (offs r).
Proof.
  intros r [I [E _]].
  assert (B : is_bbox (exts r) (bbox (offs r))) by (eapply is_bbox_box_eq; [apply bbox_is_bbox|assumption]).
  split; eapply adom_same_box; eauto using bbox_is_bbox.
Qed.

Lemma is_min_shift : forall u v pts m e, is_min u v pts m -> is_min u v (map (padd e) pts) (m + lin u v e).
Proof.
  intros u v pts m e [A [p [Ip Ep]]]. split.
  - intros q Hq. apply in_map_iff in Hq. destruct Hq as [p' [<- Hp']]. rewrite lin_padd. specialize (A p' Hp'). lra.
  - exists (padd e p). split; [apply in_map; assumption|]. rewrite lin_padd. lra.
Qed.

Lemma box_shift_is_bbox : forall pts b0 A acc e, is_bbox pts b0 -> is_bbox A acc -> (b0 <> Inverted -> acc <> Inverted) ->
  is_bbox (A ++ map (padd e) pts) (box_shift b0 acc e) /\ (b0 <> Inverted -> box_shift b0 acc e <> Inverted).
Proof.
  intros pts [|m0x m0y M0x M0y] A [|mx my Mx My] e H0 HA NI; simpl in *.
  - subst. simpl. split; [reflexivity|assumption].
  - subst. simpl. rewrite app_nil_r. split; [assumption|discriminate].
  - exfalso. apply NI; [discriminate|reflexivity].
  - split; [|discriminate].
    destruct H0 as [A0 [B0 [C0 D0]]], HA as [A1 [B1 [C1 D1]]]. qs.
    split; [|split; [|split]].
    + apply is_min_app; [assumption|]. eapply is_min_eq; [apply is_min_shift; eassumption|unfold lin; lra].
    + apply is_min_app; [assumption|]. eapply is_min_eq; [apply is_min_shift; eassumption|unfold lin; lra].
    + apply is_min_app_neg; [assumption|]. eapply is_min_eq; [apply is_min_shift; eassumption|unfold lin; lra].
    + apply is_min_app_neg; [assumption|]. eapply is_min_eq; [apply is_min_shift; eassumption|unfold lin; lra].
Qed.

Lemma fold_box_shift_is_bbox : forall pts b0 E A acc, is_bbox pts b0 -> is_bbox A acc -> (b0 <> Inverted -> acc <> Inverted) ->
  is_bbox (A ++ flat_map (fun e => map (padd e) pts) E) (fold_left (box_shift b0) E acc).
Proof.
  intros pts b0. induction E as [|e E IH]; intros A acc H0 HA NI; simpl.
  - rewrite app_nil_r. assumption.
  - rewrite app_assoc. destruct (box_shift_is_bbox pts b0 A acc e H0 HA NI) as [S1 S2].
    apply IH; assumption.
Qed.

Lemma rep_box_exact : forall pts b0 r, orep_ok r -> is_bbox pts b0 -> is_bbox (rep_points pts r) (rep_box b0 r).
Proof.
  intros pts b0 [r|] Hr H0; [|exact H0].
  simpl in Hr. unfold rep_box.
  assert (HE : is_bbox (pts ++ flat_map (fun e => map (padd e) pts) (exts r)) (fold_left (box_shift b0) (exts r) b0))
    by (apply fold_box_shift_is_bbox; auto).
  destruct (rep_ok_adom r Hr) as [DOE DEO]. destruct Hr as [I [_ [o0 [Io0 [Zx Zy]]]]].
  eapply is_bbox_transfer; [| |exact HE].
  - (* extrema copies and the element itself are copies at offsets *)
    intros u v Huv p Hp. apply in_app_or in Hp. destruct Hp as [Hp|Hp].
    + exists (padd o0 p). split; [apply in_rep_points_some; exists o0, p; auto|].
      rewrite lin_padd. unfold lin. rewrite Zx, Zy. lra.
    + apply in_flat_map in Hp. destruct Hp as [e [He Hp]]. apply in_map_iff in Hp. destruct Hp as [p0 [<- Hp0]].
      exists (padd e p0). split; [apply in_rep_points_some; exists e, p0; auto|apply Qle_refl].
  - intros u v Huv q Hq. apply in_rep_points_some in Hq. destruct Hq as [o [p [Ho [Hp ->]]]].
    destruct (DOE u v Huv o Ho) as [e [He Le]].
    exists (padd e p). split.
    + apply in_or_app. right. apply in_flat_map. exists e. split; [assumption|apply in_map; assumption].
    + rewrite !lin_padd. lra.
Qed.

(* ------------------------------------------------------------------ C09 theorems: elements *)
Theorem polygon_bbox_exact_lemma : forall pts r, orep_ok r ->
  is_bbox (rep_points pts r) (polygon_bbox pts r) /\ box_eq (polygon_bbox pts r) (bbox (rep_points pts r)).
Proof.
  intros pts r Hr.
  assert (H : is_bbox (rep_points pts r) (polygon_bbox pts r)) by (apply rep_box_exact; [assumption|apply bbox_is_bbox]).
  split; [assumption|]. eapply is_bbox_unique; [exact H|apply bbox_is_bbox].
Qed.

Theorem label_bbox_exact_lemma : forall o r, orep_ok r ->
  is_bbox (rep_points [o] r) (label_bbox o r) /\ box_eq (label_bbox o r) (bbox (rep_points [o] r)).
Proof.
  intros o r Hr.
  assert (H : is_bbox (rep_points [o] r) (label_bbox o r)).
  { apply rep_box_exact; [assumption|]. exact (bbox_is_bbox [o]). }
  split; [assumption|]. eapply is_bbox_unique; [exact H|apply bbox_is_bbox].
Qed.

Theorem empty_inverted_lemma :
  (forall S, bbox S = Inverted <-> S = []) /\
  (forall r, polygon_bbox [] r = Inverted) /\
  (forall S b, is_bbox S b -> (b = Inverted <-> S = [])).
Proof.
  split; [exact bbox_inverted_iff|split].
  - intros [r|]; [|reflexivity]. unfold polygon_bbox, rep_box. simpl.
    induction (exts r) as [|e E IH]; [reflexivity|exact IH].
  - intros S [|x0 y0 x1 y1] H; simpl in H.
    + split; auto.
    + split; [discriminate|]. intro E. destruct H as [H _]. apply is_min_nonempty in H. contradiction.
Qed.

(* ------------------------------------------------------------------ C09 theorems: the two branches of Reference::bounding_box *)
Lemma bbox_transfer_eq : forall S1 S2, adom S1 S2 -> adom S2 S1 -> box_eq (bbox S1) (bbox S2).
Proof.
  intros S1 S2 H12 H21. eapply is_bbox_unique; [|apply bbox_is_bbox].
  eapply is_bbox_transfer; [exact H12|exact H21|apply bbox_is_bbox].
Qed.

(* quarter turn: each output coordinate depends on one input coordinate only (cos * sin == 0);
   the four corners of the exact box of S, transformed, have the same box as S transformed *)
Theorem ref_bbox_quarter_turn_lemma : forall pl off S B,
  pl_ca pl * pl_sa pl == 0 -> B = bbox S ->
  box_eq (bbox (map (xform pl off) (corners B))) (bbox (map (xform pl off) S)).
Proof.
  intros pl off S B Hq ->.
  destruct (corners_adom S (bbox S) (bbox_is_bbox S)) as [DCS DSC].
  apply bbox_transfer_eq; intros u v Huv;
    (eapply ldom_map; [intros p; rewrite lin_xform, <- Qplus_assoc; reflexivity|]);
    [apply DCS|apply DSC]; apply pull_axis; assumption.
Qed.

Definition quarter_turn (pl : placement) : Prop :=
  (pl_sa pl == 0 /\ (pl_ca pl == 1 \/ pl_ca pl == -(1))) \/ (pl_ca pl == 0 /\ (pl_sa pl == 1 \/ pl_sa pl == -(1))).
Lemma quarter_turn_prod : forall pl, quarter_turn pl -> pl_ca pl * pl_sa pl == 0.
Proof. intros pl [[Z _]|[Z _]]; rewrite Z; ring. Qed.

(* any other rotation: the hull of S, transformed by ANY affine map, has the same box as S transformed *)
Theorem ref_bbox_via_hull_lemma : forall H S, hull_ok H S -> forall T, affine T ->
  box_eq (bbox (map T H)) (bbox (map T S)).
Proof.
  intros H S HO T [a [b [c [d [e [f HT]]]]]].
  destruct (hull_sem_fdom H S (hull_ok_sem H S HO)) as [DSH DHS].
  assert (L : forall u v p, lin u v (T p) == lin (u * a + v * c) (u * b + v * d) p + (u * e + v * f)).
  { intros u v p. destruct (HT p) as [E1 E2]. unfold lin. rewrite E1, E2. ring. }
  apply bbox_transfer_eq; intros u v _; (eapply ldom_map; [intros p; apply L|]); [apply DHS|apply DSH].
Qed.

(* with the repetition of the reference: repeat_and_transform uses get_extrema *)
Lemma offsets_ldom : forall pl, orep_ok (pl_rep pl) -> forall u v, u * v == 0 ->
  ldom u v (rat_offsets false pl) (all_offsets pl) /\ ldom u v (all_offsets pl) (rat_offsets false pl).
Proof.
  intros pl Hr u v Huv. unfold rat_offsets, all_offsets. destruct (pl_rep pl) as [r|]; simpl in Hr; simpl.
  - destruct (rep_ok_adom r Hr) as [A B]. split; [apply B|apply A]; assumption.
  - split; apply ldom_incl, incl_refl.
Qed.

Lemma ref_box_exact_gen : forall pl P ch, orep_ok (pl_rep pl) ->
  (forall u v, u * v == 0 -> ldom (pu pl u v) (pv pl u v) P (flatten ch) /\ ldom (pu pl u v) (pv pl u v) (flatten ch) P) ->
  is_bbox (ref_points pl ch) (bbox (rat false pl P)).
Proof.
  intros pl P ch Hr HD.
  eapply is_bbox_transfer; [| |apply bbox_is_bbox]; intros u v Huv;
    destruct (HD u v Huv) as [D1 D2]; destruct (offsets_ldom pl Hr u v Huv) as [O1 O2].
  - eapply ldom_prod; [intros q Hq; apply in_rat in Hq; exact Hq| |exact D1|exact O1].
    intros o p Ho Hp. apply in_ref_points. exists o, p. auto.
  - eapply ldom_prod; [intros q Hq; apply in_ref_points in Hq; exact Hq| |exact D2|exact O2].
    intros o p Ho Hp. apply in_rat. exists o, p. auto.
Qed.

Lemma ref_box_exact_quarter : forall pl ch cb, orep_ok (pl_rep pl) -> pl_ca pl * pl_sa pl == 0 ->
  is_bbox (flatten ch) cb -> is_bbox (ref_points pl ch) (bbox (rat false pl (corners cb))).
Proof.
  intros pl ch cb Hr Hq Hb. apply ref_box_exact_gen; [assumption|].
  intros u v Huv. destruct (corners_adom _ _ Hb) as [A B].
  split; [apply A|apply B]; apply pull_axis; assumption.
Qed.

Lemma ref_box_exact_hull : forall pl ch H, orep_ok (pl_rep pl) -> hull_sem H (flatten ch) ->
  is_bbox (ref_points pl ch) (bbox (rat false pl H)).
Proof.
  intros pl ch H Hr HS. apply ref_box_exact_gen; [assumption|].
  intros u v _. destruct (hull_sem_fdom _ _ HS) as [A B]. split; [apply B|apply A].
Qed.

(* hull side: the copies at the extrema cover the copies at all offsets only if the extrema cover the offsets *)
(* [hall]: the hull path uses all offsets of an Explicit repetition (current tree); then nothing is asked of
   an Explicit repetition, and of the other kinds (lattices, ExplicitX/Y) that the extrema cover the offsets *)
Definition orep_cov (hall : bool) (r : option rep) : Prop :=
  match r with
  | None => True
  | Some r => if hall && r_explicit r then True else incl (exts r) (offs r) /\ covers (exts r) (offs r)
  end.

Lemma hull_sem_trans : forall A B C, hull_sem A B -> hull_sem B C -> hull_sem A C.
Proof. intros A B C [I1 C1] [I2 C2]. split; [eapply incl_tran; eauto|eapply covers_trans; eauto]. Qed.
Lemma hull_sem_app : forall A1 A2 B1 B2, hull_sem A1 B1 -> hull_sem A2 B2 -> hull_sem (A1 ++ A2) (B1 ++ B2).
Proof.
  intros A1 A2 B1 B2 [I1 C1] [I2 C2]. split; [|apply covers_app; assumption].
  intros p Hp. apply in_app_or in Hp. apply in_or_app. destruct Hp; [left; apply I1|right; apply I2]; assumption.
Qed.
Lemma hull_sem_union : forall A1 A2 B, hull_sem A1 B -> hull_sem A2 B -> hull_sem (A1 ++ A2) B.
Proof.
  intros A1 A2 B [I1 C1] [I2 C2]. split.
  - intros p Hp. apply in_app_or in Hp. destruct Hp; [apply I1|apply I2]; assumption.
  - eapply covers_incl_l; [exact C1|]. intros p Hp. apply in_or_app. left; assumption.
Qed.

Lemma ref_hull_sem : forall hall pl ch H, orep_cov hall (pl_rep pl) -> hull_sem H (flatten ch) ->
  hull_sem (rat hall pl H) (ref_points pl ch).
Proof.
  intros hall pl ch H Hc [I C].
  assert (IO : incl (rat_offsets hall pl) (all_offsets pl) /\ covers (rat_offsets hall pl) (all_offsets pl)).
  { unfold rat_offsets, all_offsets, orep_cov in *. destruct (pl_rep pl) as [r|].
    - destruct (hall && r_explicit r); [split; [apply incl_refl|apply covers_refl]|exact Hc].
    - split; [apply incl_refl|apply covers_refl]. }
  destruct IO as [IO CO]. split.
  - intros q Hq. apply in_rat in Hq. destruct Hq as [e [h [He [Hh ->]]]].
    apply in_ref_points. exists e, h. split; [apply IO; assumption|split; [apply I; assumption|reflexivity]].
  - intros u v k Hk q Hq. apply in_ref_points in Hq. destruct Hq as [o [p [Ho [Hp ->]]]].
    rewrite lin_xform.
    (* for every extremum e: the pulled-back functional is bounded on H, hence on the flattened child *)
    assert (S1 : forall e, In e (rat_offsets hall pl) ->
                 lin (pu pl u v) (pv pl u v) p <= k - lin u v (pl_org pl) - lin u v e).
    { intros e He. apply (C (pu pl u v) (pv pl u v)); [|assumption].
      intros h Hh. assert (X : lin u v (xform pl e h) <= k) by (apply Hk; apply in_rat; exists e, h; auto).
      rewrite lin_xform in X. lra. }
    assert (S2 : lin u v o <= k - lin u v (pl_org pl) - lin (pu pl u v) (pv pl u v) p).
    { apply (CO u v); [|assumption]. intros e He. specialize (S1 e He). lra. }
    lra.
Qed.

(* ------------------------------------------------------------------ cells: structure lemmas *)
Lemma cell_ind' : forall P : cell -> Prop,
  (forall n ps ls fs rs, (forall pl ch, In (pl, ch) rs -> P ch) -> P (Cell n ps ls fs rs)) -> forall c, P c.
Proof.
  intros P H. fix IH 1. intros [n ps ls fs rs]. apply H.
  assert (F : Forall (fun x : placement * cell => P (snd x)) rs).
  { induction rs as [|[pl0 ch0] t IHt]; constructor; [apply IH|exact IHt]. }
  intros pl ch HI. rewrite Forall_forall in F. apply (F (pl, ch) HI).
Qed.

Definition refs_points (rs : list (placement * cell)) : list pt := flat_map (fun x => ref_points (fst x) (snd x)) rs.
Lemma flatten_eq : forall n ps ls fs rs,
  flatten (Cell n ps ls fs rs) = poly_points ps ++ label_points ls ++ refs_points rs ++ poly_points fs.
Proof.
  intros. simpl. f_equal. f_equal. f_equal.
  induction rs as [|[pl ch] t IH]; [reflexivity|]. simpl. rewrite IH. reflexivity.
Qed.

Lemma fold_polys_is_bbox : forall ps A acc, (forall p, In p ps -> orep_ok (p_rep p)) -> is_bbox A acc ->
  is_bbox (A ++ poly_points ps) (fold_left (fun acc p => box_join acc (polygon_bbox (p_pts p) (p_rep p))) ps acc).
Proof.
  induction ps as [|p ps IH]; intros A acc Hr HA; simpl.
  - rewrite app_nil_r. assumption.
  - unfold poly_points in *. simpl. rewrite app_assoc. apply IH; [intros; apply Hr; right; assumption|].
    apply is_bbox_join; [assumption|]. apply polygon_bbox_exact_lemma. apply Hr. left; reflexivity.
Qed.
Lemma fold_labels_is_bbox : forall ls A acc, (forall l, In l ls -> orep_ok (l_rep l)) -> is_bbox A acc ->
  is_bbox (A ++ label_points ls) (fold_left (fun acc l => box_join acc (label_bbox (l_org l) (l_rep l))) ls acc).
Proof.
  induction ls as [|l ls IH]; intros A acc Hr HA; simpl.
  - rewrite app_nil_r. assumption.
  - unfold label_points in *. simpl. rewrite app_assoc. apply IH; [intros; apply Hr; right; assumption|].
    apply is_bbox_join; [assumption|]. apply label_bbox_exact_lemma. apply Hr. left; reflexivity.
Qed.

Lemma cache_get_set : forall ch n v m, cache_get (cache_set ch n v) m = if N.eqb n m then v else cache_get ch m.
Proof. reflexivity. Qed.

Section Cells.
  (* the hull routine, assumed here to meet its contract on every input (see convex_hull_w_sem_lemma and
     collinear_fallback_refuted below for where gdstk::convex_hull does and does not) *)
  Variable chull : list pt -> list pt.
  Hypothesis chull_sem : forall S, hull_sem (chull S) S.
  Variable hall : bool.

  (* the loops of cell_query are the named loops *)
  Lemma hull_loop_eq : forall rs acc ch,
    (fix go (rs : list (placement * cell)) (acc : list pt) (ch : cache) {struct rs} : list pt * cache :=
       match rs with
       | [] => (acc, ch)
       | (pl, child) :: t =>
           let info := cache_get ch (cell_name child) in
           let '(ci, ch') := if g_hv info then (info, ch) else cell_query_g chull hall true child ch in
           go t (acc ++ chull (rat hall pl (g_hull ci))) ch'
       end) rs acc ch = hull_refs chull hall rs acc ch.
  Proof.
    induction rs as [|[pl child] t IH]; intros acc ch; [reflexivity|].
    simpl. unfold ref_hull_g.
    destruct (if g_hv (cache_get ch (cell_name child)) then (cache_get ch (cell_name child), ch)
              else cell_query_g chull hall true child ch) as [ci ch']. apply IH.
  Qed.
  Lemma box_loop_eq : forall rs acc ch,
    (fix go (rs : list (placement * cell)) (acc : box) (ch : cache) {struct rs} : box * cache :=
       match rs with
       | [] => (acc, ch)
       | (pl, child) :: t =>
           let info := cache_get ch (cell_name child) in
           if pl_quarter pl then
             let '(ci, ch') := if g_bv info then (info, ch) else cell_query_g chull hall false child ch in
             go t (box_join acc (bbox (rat false pl (corners (g_box ci))))) ch'
           else
             let '(ci, ch') := if g_hv info then (info, ch) else cell_query_g chull hall true child ch in
             go t (box_join acc (bbox (rat false pl (g_hull ci)))) ch'
       end) rs acc ch = box_refs chull hall rs acc ch.
  Proof.
    induction rs as [|[pl child] t IH]; intros acc ch; [reflexivity|].
    simpl. unfold ref_bbox_g. destruct (pl_quarter pl).
    - destruct (if g_bv (cache_get ch (cell_name child)) then (cache_get ch (cell_name child), ch)
                else cell_query_g chull hall false child ch) as [ci ch']. apply IH.
    - destruct (if g_hv (cache_get ch (cell_name child)) then (cache_get ch (cell_name child), ch)
                else cell_query_g chull hall true child ch) as [ci ch']. apply IH.
  Qed.

  (* a family of cells closed under "child of", with unique names, C11 facts on every repetition,
     quarter flags that mean cos*sin = 0, and reference repetitions whose extrema cover the offsets *)
  Variable U : cell -> Prop.
  Definition ref_wf (pl : placement) : Prop :=
    orep_ok (pl_rep pl) /\ orep_cov hall (pl_rep pl) /\ (pl_quarter pl = true -> pl_ca pl * pl_sa pl == 0).
  Definition cell_wf (c : cell) : Prop :=
    (forall p, In p (cell_polys c) -> orep_ok (p_rep p)) /\ (forall l, In l (cell_labels c) -> orep_ok (l_rep l)) /\
    (forall p, In p (cell_paths c) -> orep_ok (p_rep p)) /\ (forall pl ch, In (pl, ch) (cell_refs c) -> ref_wf pl).
  Hypothesis U_closed : forall c pl ch, U c -> In (pl, ch) (cell_refs c) -> U ch.
  Hypothesis U_names : forall c d, U c -> U d -> cell_name c = cell_name d -> c = d.
  Hypothesis U_wf : forall c, U c -> cell_wf c.

  Definition entry_ok (c : cell) (i : ginfo) : Prop :=
    (g_bv i = true -> is_bbox (flatten c) (g_box i)) /\ (g_hv i = true -> hull_sem (g_hull i) (flatten c)).
  Definition cache_ok (ch : cache) : Prop :=
    (forall c, U c -> entry_ok c (cache_get ch (cell_name c))) /\
    (forall n, g_hv (cache_get ch n) = false -> g_hull (cache_get ch n) = []).

  Lemma cache_ok_nil : cache_ok [].
  Proof. split; [intros c _; split; discriminate|reflexivity]. Qed.

  Lemma cache_ok_set : forall ch c i, cache_ok ch -> U c -> entry_ok c i -> (g_hv i = false -> g_hull i = []) ->
    cache_ok (cache_set ch (cell_name c) i).
  Proof.
    intros ch c i [A B] Uc Ei Hi. split.
    - intros d Ud. rewrite cache_get_set. destruct (N.eqb (cell_name c) (cell_name d)) eqn:E.
      + apply N.eqb_eq in E. rewrite <- (U_names c d Uc Ud E). assumption.
      + apply A; assumption.
    - intros n. rewrite cache_get_set. destruct (N.eqb (cell_name c) n); [assumption|apply B].
  Qed.

  (* what one query establishes *)
  Definition post (q : bool) (c : cell) (r : ginfo * cache) : Prop :=
    cache_ok (snd r) /\
    (if q then g_hv (fst r) = true /\ hull_sem (g_hull (fst r)) (flatten c)
     else g_bv (fst r) = true /\ is_bbox (flatten c) (g_box (fst r))).
  Definition cell_good (c : cell) : Prop := forall q ch, cache_ok ch -> post q c (cell_query_g chull hall q c ch).

  Lemma ref_hull_c_ok : forall pl child ch, U child -> ref_wf pl -> cell_good child -> cache_ok ch ->
    cache_ok (snd (ref_hull_g chull hall pl child ch)) /\ hull_sem (fst (ref_hull_g chull hall pl child ch)) (ref_points pl child).
  Proof.
    intros pl child ch Uc [Ro [Rc Rq]] G Hch. unfold ref_hull_g.
    destruct (g_hv (cache_get ch (cell_name child))) eqn:E.
    - simpl. split; [assumption|]. eapply hull_sem_trans; [apply chull_sem|]. apply ref_hull_sem; [assumption|].
      destruct Hch as [A _]. apply (A child Uc). assumption.
    - specialize (G true ch Hch). destruct (cell_query_g chull hall true child ch) as [ci ch']. destruct G as [G1 [G2 G3]].
      simpl in *. split; [assumption|]. eapply hull_sem_trans; [apply chull_sem|]. apply ref_hull_sem; assumption.
  Qed.

  Lemma ref_bbox_c_ok : forall pl child ch, U child -> ref_wf pl -> cell_good child -> cache_ok ch ->
    cache_ok (snd (ref_bbox_g chull hall pl child ch)) /\ is_bbox (ref_points pl child) (fst (ref_bbox_g chull hall pl child ch)).
  Proof.
    intros pl child ch Uc [Ro [Rc Rq]] G Hch. unfold ref_bbox_g. destruct (pl_quarter pl) eqn:Q.
    - specialize (Rq eq_refl). destruct (g_bv (cache_get ch (cell_name child))) eqn:E.
      + simpl. split; [assumption|]. apply ref_box_exact_quarter; try assumption.
        destruct Hch as [A _]. apply (A child Uc). assumption.
      + specialize (G false ch Hch). destruct (cell_query_g chull hall false child ch) as [ci ch']. destruct G as [G1 [G2 G3]].
        simpl in *. split; [assumption|]. apply ref_box_exact_quarter; assumption.
    - destruct (g_hv (cache_get ch (cell_name child))) eqn:E.
      + simpl. split; [assumption|]. apply ref_box_exact_hull; [assumption|].
        destruct Hch as [A _]. apply (A child Uc). assumption.
      + specialize (G true ch Hch). destruct (cell_query_g chull hall true child ch) as [ci ch']. destruct G as [G1 [G2 G3]].
        simpl in *. split; [assumption|]. apply ref_box_exact_hull; assumption.
  Qed.

  Lemma hull_refs_ok : forall rs, (forall pl ch, In (pl, ch) rs -> U ch /\ ref_wf pl /\ cell_good ch) ->
    forall acc accF ch, cache_ok ch -> hull_sem acc accF ->
    cache_ok (snd (hull_refs chull hall rs acc ch)) /\ hull_sem (fst (hull_refs chull hall rs acc ch)) (accF ++ refs_points rs).
  Proof.
    induction rs as [|[pl child] t IH]; intros Hrs acc accF ch Hch Hacc; simpl.
    - rewrite app_nil_r. auto.
    - destruct (Hrs pl child (or_introl eq_refl)) as [Uc [Rw G]].
      destruct (ref_hull_c_ok pl child ch Uc Rw G Hch) as [K1 K2].
      destruct (ref_hull_g chull hall pl child ch) as [h ch']. simpl in K1, K2.
      unfold refs_points. simpl. rewrite app_assoc. apply IH; [intros; apply Hrs; right; assumption|assumption|].
      apply hull_sem_app; assumption.
  Qed.

  Lemma box_refs_ok : forall rs, (forall pl ch, In (pl, ch) rs -> U ch /\ ref_wf pl /\ cell_good ch) ->
    forall acc accF ch, cache_ok ch -> is_bbox accF acc ->
    cache_ok (snd (box_refs chull hall rs acc ch)) /\ is_bbox (accF ++ refs_points rs) (fst (box_refs chull hall rs acc ch)).
  Proof.
    induction rs as [|[pl child] t IH]; intros Hrs acc accF ch Hch Hacc; simpl.
    - rewrite app_nil_r. auto.
    - destruct (Hrs pl child (or_introl eq_refl)) as [Uc [Rw G]].
      destruct (ref_bbox_c_ok pl child ch Uc Rw G Hch) as [K1 K2].
      destruct (ref_bbox_g chull hall pl child ch) as [b ch']. simpl in K1, K2.
      unfold refs_points. simpl. rewrite app_assoc. apply IH; [intros; apply Hrs; right; assumption|assumption|].
      apply is_bbox_join; assumption.
  Qed.

  Lemma hull_sem_bbox : forall H S, hull_sem H S -> is_bbox S (bbox H).
  Proof.
    intros H S HS. destruct (hull_sem_fdom _ _ HS) as [A B].
    eapply is_bbox_transfer; [apply fdom_adom; exact B|apply fdom_adom; exact A|apply bbox_is_bbox].
  Qed.

  Lemma cell_query_ok : forall c, U c -> cell_good c.
  Proof.
    induction c as [n ps ls fs rs IHrs] using cell_ind'. intros Uc q ch Hch.
    set (c := Cell n ps ls fs rs) in *.
    destruct (U_wf c Uc) as [Wp [Wl [Wf Wr]]]. simpl in Wp, Wl, Wf, Wr.
    assert (Hrs : forall pl ch, In (pl, ch) rs -> U ch /\ ref_wf pl /\ cell_good ch).
    { intros pl d HI. assert (Ud : U d) by (apply (U_closed c pl d Uc); exact HI).
      split; [assumption|split; [apply (Wr pl d HI)|apply (IHrs pl d HI Ud)]]. }
    destruct q.
    - (* Cell::convex_hull(cache) *)
      unfold c at 2. cbn [cell_query_g]. rewrite hull_loop_eq.
      destruct (hull_refs_ok rs Hrs [] [] ch Hch (hull_sem_refl [])) as [K1 K2].
      destruct (hull_refs chull hall rs [] ch) as [rpts ch1]. simpl in K1, K2.
      set (pts := rpts ++ poly_points ps ++ label_points ls ++ poly_points fs).
      set (info := cache_get ch1 n).
      assert (HP : hull_sem (chull pts) (flatten c)).
      { eapply hull_sem_trans; [apply chull_sem|]. unfold pts, c. rewrite flatten_eq.
        split.
        - intros p Hp. destruct K2 as [I _]. repeat (apply in_app_or in Hp; destruct Hp as [Hp|Hp]).
          + apply in_or_app; right. apply in_or_app; right. apply in_or_app; left. apply I; assumption.
          + apply in_or_app; left; assumption.
          + apply in_or_app; right. apply in_or_app; left; assumption.
          + apply in_or_app; right. apply in_or_app; right. apply in_or_app; right; assumption.
        - destruct K2 as [_ C]. intros u v k Hk p Hp.
          repeat (apply in_app_or in Hp; destruct Hp as [Hp|Hp]).
          + apply Hk. apply in_or_app; right. apply in_or_app; left; assumption.
          + apply Hk. apply in_or_app; right. apply in_or_app; right. apply in_or_app; left; assumption.
          + apply (C u v k); [|assumption]. intros h Hh. apply Hk. apply in_or_app; left; assumption.
          + apply Hk. apply in_or_app; right. apply in_or_app; right. apply in_or_app; right; assumption. }
      assert (HH : hull_sem (g_hull info ++ chull pts) (flatten c)).
      { destruct (g_hv info) eqn:E.
        - apply hull_sem_union; [|assumption]. destruct K1 as [A _]. apply (A c Uc). exact E.
        - destruct K1 as [_ B]. unfold info. rewrite (B n E). exact HP. }
      split; simpl.
      + apply (cache_ok_set ch1 c); [assumption|assumption| |discriminate].
        split; simpl; [|intros _; exact HH]. destruct K1 as [A _]. apply (A c Uc).
      + split; [reflexivity|exact HH].
    - (* Cell::bounding_box(cache) *)
      unfold c at 2. cbn [cell_query_g].
      set (info := cache_get ch n).
      destruct (g_hv info) eqn:E.
      + assert (HS : hull_sem (g_hull info) (flatten c)) by (destruct Hch as [A _]; apply (A c Uc); exact E).
        pose proof (hull_sem_bbox _ _ HS) as HB.
        split; simpl.
        * apply (cache_ok_set ch c); [assumption|assumption| |discriminate]. split; simpl; auto.
        * split; [reflexivity|exact HB].
      + rewrite box_loop_eq.
        assert (B1 : is_bbox ([] ++ poly_points ps)
                  (fold_left (fun acc p => box_join acc (polygon_bbox (p_pts p) (p_rep p))) ps Inverted))
          by (apply fold_polys_is_bbox; [assumption|reflexivity]).
        pose proof (fold_labels_is_bbox ls _ _ Wl B1) as B2.
        destruct (box_refs_ok rs Hrs _ _ ch Hch B2) as [K1 K2].
        destruct (box_refs chull hall rs _ ch) as [b3 ch1]. simpl in K1, K2.
        pose proof (fold_polys_is_bbox fs _ _ Wf K2) as B4.
        assert (B : is_bbox (flatten c)
                 (fold_left (fun acc p => box_join acc (polygon_bbox (p_pts p) (p_rep p))) fs b3)).
        { unfold c. rewrite flatten_eq. simpl in B4. rewrite <- !app_assoc in B4. exact B4. }
        split; simpl.
        * apply (cache_ok_set ch1 c); [assumption|assumption| |].
          -- split; simpl; [intros _; exact B|intros E'; unfold info in E; congruence].
          -- intros _. destruct Hch as [_ Bn]. apply (Bn n). exact E.
        * split; [reflexivity|exact B].
  Qed.
End Cells.

(* ------------------------------------------------------------------ cells, cache: generic in the hull routine [chull]
   (any function meeting hull_sem on every input) and in [hall] (hull path with all Explicit offsets or not) *)
Definition family_ok_g (hall : bool) (U : cell -> Prop) : Prop :=
  (forall c pl ch, U c -> In (pl, ch) (cell_refs c) -> U ch) /\
  (forall c d, U c -> U d -> cell_name c = cell_name d -> c = d) /\
  (forall c, U c -> cell_wf hall c).

(* Cell::bounding_box(cache): with ANY cache whose entries are right (in particular the empty one) the box
   reported is the smallest box containing the flattened geometry, and the cache stays right *)
Lemma cell_bbox_exact_gen : forall chull hall, (forall S, hull_sem (chull S) S) ->
  forall U, family_ok_g hall U -> forall c, U c -> forall ch, cache_ok U ch ->
  is_bbox (flatten c) (g_box (fst (cell_query_g chull hall false c ch))) /\
  box_eq (g_box (fst (cell_query_g chull hall false c ch))) (bbox (flatten c)) /\
  cache_ok U (snd (cell_query_g chull hall false c ch)).
Proof.
  intros chull hall Hc U [F1 [F2 F3]] c Uc ch Hch.
  destruct (cell_query_ok chull Hc hall U F1 F2 F3 c Uc false ch Hch) as [K1 [K2 K3]].
  split; [assumption|split; [|assumption]]. eapply is_bbox_unique; [exact K3|apply bbox_is_bbox].
Qed.

(* Cell::convex_hull(cache): corners are geometry points, every half-plane containing them contains the geometry *)
Lemma cell_hull_exact_gen : forall chull hall, (forall S, hull_sem (chull S) S) ->
  forall U, family_ok_g hall U -> forall c, U c -> forall ch, cache_ok U ch ->
  hull_sem (g_hull (fst (cell_query_g chull hall true c ch))) (flatten c) /\
  cache_ok U (snd (cell_query_g chull hall true c ch)).
Proof.
  intros chull hall Hc U [F1 [F2 F3]] c Uc ch Hch.
  destruct (cell_query_ok chull Hc hall U F1 F2 F3 c Uc true ch Hch) as [K1 [K2 K3]]. auto.
Qed.

Lemma empty_cell_inverted_gen : forall chull hall, (forall S, hull_sem (chull S) S) ->
  forall U, family_ok_g hall U -> forall c, U c ->
  (g_box (fst (cell_query_g chull hall false c [])) = Inverted <-> flatten c = []).
Proof.
  intros chull hall Hc U FU c Uc.
  destruct (cell_bbox_exact_gen chull hall Hc U FU c Uc [] (cache_ok_nil U)) as [K _].
  apply (proj2 (proj2 empty_inverted_lemma) _ _ K).
Qed.

(* scripts of queries against one shared cache *)
Inductive query : Type :=
| QBox (c : cell) | QHull (c : cell) | QRefBox (pl : placement) (ch : cell) | QRefHull (pl : placement) (ch : cell).
Inductive answer : Type := ABox (b : box) | AHull (h : list pt).

Definition run1_g (chull : list pt -> list pt) (hall : bool) (q : query) (ch : cache) : answer * cache :=
  match q with
  | QBox c => let r := cell_query_g chull hall false c ch in (ABox (g_box (fst r)), snd r)
  | QHull c => let r := cell_query_g chull hall true c ch in (AHull (g_hull (fst r)), snd r)
  | QRefBox pl c => let r := ref_bbox_g chull hall pl c ch in (ABox (fst r), snd r)
  | QRefHull pl c => let r := ref_hull_g chull hall pl c ch in (AHull (fst r), snd r)
  end.
Fixpoint run_g (chull : list pt -> list pt) (hall : bool) (qs : list query) (ch : cache) : list answer :=
  match qs with
  | [] => []
  | q :: t => fst (run1_g chull hall q ch) :: run_g chull hall t (snd (run1_g chull hall q ch))
  end.
Definition geometry (q : query) : list pt :=
  match q with QBox c | QHull c => flatten c | QRefBox pl c | QRefHull pl c => ref_points pl c end.
Definition query_ok_g (hall : bool) (U : cell -> Prop) (q : query) : Prop :=
  match q with QBox c | QHull c => U c | QRefBox pl c | QRefHull pl c => U c /\ ref_wf hall pl end.
Definition answer_exact (q : query) (a : answer) : Prop :=
  match q, a with
  | QBox _, ABox b | QRefBox _ _, ABox b => is_bbox (geometry q) b
  | QHull _, AHull h | QRefHull _ _, AHull h => hull_sem h (geometry q)
  | _, _ => False
  end.
Definition answer_same (a b : answer) : Prop :=
  match a, b with
  | ABox x, ABox y => box_eq x y
  | AHull x, AHull y => covers x y /\ covers y x       (* same convex region *)
  | _, _ => False
  end.

Lemma run1_ok : forall chull hall, (forall S, hull_sem (chull S) S) -> forall U, family_ok_g hall U ->
  forall q ch, query_ok_g hall U q -> cache_ok U ch ->
  answer_exact q (fst (run1_g chull hall q ch)) /\ cache_ok U (snd (run1_g chull hall q ch)).
Proof.
  intros chull hall Hc U FU q ch Hq Hch. pose proof FU as [F1 [F2 F3]]. destruct q as [c|c|pl c|pl c]; simpl in *.
  - destruct (cell_bbox_exact_gen chull hall Hc U FU c Hq ch Hch) as [K1 [_ K2]]. auto.
  - destruct (cell_hull_exact_gen chull hall Hc U FU c Hq ch Hch) as [K1 K2]. auto.
  - destruct Hq as [Uc Rw].
    destruct (ref_bbox_c_ok chull hall U pl c ch Uc Rw (cell_query_ok chull Hc hall U F1 F2 F3 c Uc) Hch) as [K1 K2]. auto.
  - destruct Hq as [Uc Rw].
    destruct (ref_hull_c_ok chull Hc hall U pl c ch Uc Rw (cell_query_ok chull Hc hall U F1 F2 F3 c Uc) Hch) as [K1 K2]. auto.
Qed.

Lemma answer_exact_same : forall q a b, answer_exact q a -> answer_exact q b -> answer_same a b.
Proof.
  intros q a b Ha Hb. destruct q, a, b; simpl in *; try contradiction;
    try (eapply is_bbox_unique; eassumption);
    destruct Ha as [Ia Ca], Hb as [Ib Cb]; split; eapply covers_incl_r; eassumption.
Qed.

(* cells unchanged, names unique: whatever was asked before through the same cache, every answer is exact and
   agrees with the answer of the same query on a fresh cache *)
Lemma cache_transparent_gen : forall chull hall, (forall S, hull_sem (chull S) S) ->
  forall U, family_ok_g hall U -> forall qs, Forall (query_ok_g hall U) qs -> forall ch, cache_ok U ch ->
  Forall2 (fun q a => answer_exact q a /\ answer_same a (fst (run1_g chull hall q []))) qs (run_g chull hall qs ch).
Proof.
  intros chull hall Hc U FU. induction qs as [|q t IH]; intros Hqs ch Hch; simpl; [constructor|].
  inversion Hqs as [|? ? Hq Ht]; subst.
  destruct (run1_ok chull hall Hc U FU q ch Hq Hch) as [K1 K2].
  destruct (run1_ok chull hall Hc U FU q [] Hq (cache_ok_nil U)) as [K3 _].
  constructor; [|apply IH; assumption].
  split; [assumption|]. eapply answer_exact_same; eassumption.
Qed.


(* ------------------------------------------------------------------ gdstk::convex_hull meets the contract on EVERY input *)
Definition lex_le (a b : pt) : Prop := fst a < fst b \/ (fst a == fst b /\ snd a <= snd b).
Lemma pt_ltb_true : forall a b, pt_ltb a b = true <-> fst a < fst b \/ (fst a == fst b /\ snd a < snd b).
Proof.
  intros a b. unfold pt_ltb. rewrite qcmp_eq. destruct (fst a ?= fst b) eqn:E.
  - apply Qeq_alt in E. rewrite qlt_true. split; [intros H; right; auto|intros [H|[_ H]]; [lra|assumption]].
  - apply Qlt_alt in E. split; [intros _; left; assumption|reflexivity].
  - apply Qgt_alt in E. split; [discriminate|intros [H|[H _]]; lra].
Qed.
Lemma pt_ltb_false : forall a b, pt_ltb a b = false -> lex_le b a.
Proof.
  intros a b H. unfold lex_le.
  destruct (Qlt_le_dec (fst b) (fst a)) as [L|L]; [left; assumption|].
  destruct (Qlt_le_dec (fst a) (fst b)) as [L'|L'].
  - assert (pt_ltb a b = true) by (apply pt_ltb_true; left; assumption). congruence.
  - right. split; [lra|]. destruct (Qlt_le_dec (snd a) (snd b)) as [M|M]; [|assumption].
    assert (pt_ltb a b = true) by (apply pt_ltb_true; right; split; [lra|assumption]). congruence.
Qed.
Lemma lex_le_refl : forall a, lex_le a a.
Proof. intros a. right. split; [reflexivity|apply Qle_refl]. Qed.
Lemma lex_le_trans : forall a b c, lex_le a b -> lex_le b c -> lex_le a c.
Proof. intros a b c [H|[H1 H2]] [K|[K1 K2]]; unfold lex_le; [left; lra|left; lra|left; lra|right; split; lra]. Qed.
Lemma pt_ltb_lex_le : forall a b, pt_ltb a b = true -> lex_le a b.
Proof. intros a b H. apply pt_ltb_true in H. destruct H as [H|[H1 H2]]; [left; assumption|right; split; lra]. Qed.

Lemma fold_lex_min : forall t a, In (fold_left lex_min t a) (a :: t) /\
  forall p, In p (a :: t) -> lex_le (fold_left lex_min t a) p.
Proof.
  induction t as [|b t IH]; intros a; simpl.
  - split; [left; reflexivity|intros p [<-|[]]; apply lex_le_refl].
  - destruct (IH (lex_min a b)) as [I M]. split.
    + destruct I as [I|I]; [|right; right; assumption]. rewrite <- I. unfold lex_min. destruct (pt_ltb b a); auto.
    + assert (La : lex_le (lex_min a b) a) by (unfold lex_min; destruct (pt_ltb b a) eqn:E; [apply pt_ltb_lex_le; assumption|apply lex_le_refl]).
      assert (Lb : lex_le (lex_min a b) b) by (unfold lex_min; destruct (pt_ltb b a) eqn:E; [apply lex_le_refl|apply pt_ltb_false; assumption]).
      pose proof (M _ (or_introl eq_refl)) as M0.
      intros p [<-|[<-|Hp]]; [eapply lex_le_trans; eauto|eapply lex_le_trans; eauto|apply M; right; assumption].
Qed.
Lemma fold_lex_max : forall t a, In (fold_left lex_max t a) (a :: t) /\
  forall p, In p (a :: t) -> lex_le p (fold_left lex_max t a).
Proof.
  induction t as [|b t IH]; intros a; simpl.
  - split; [left; reflexivity|intros p [<-|[]]; apply lex_le_refl].
  - destruct (IH (lex_max a b)) as [I M]. split.
    + destruct I as [I|I]; [|right; right; assumption]. rewrite <- I. unfold lex_max. destruct (pt_ltb a b); auto.
    + assert (La : lex_le a (lex_max a b)) by (unfold lex_max; destruct (pt_ltb a b) eqn:E; [apply pt_ltb_lex_le; assumption|apply lex_le_refl]).
      assert (Lb : lex_le b (lex_max a b)) by (unfold lex_max; destruct (pt_ltb a b) eqn:E; [apply lex_le_refl|apply pt_ltb_false; assumption]).
      pose proof (M _ (or_introl eq_refl)) as M0.
      intros p [<-|[<-|Hp]]; [eapply lex_le_trans; eauto|eapply lex_le_trans; eauto|apply M; right; assumption].
Qed.

Lemma cross_eq : forall o a b, cross o a b == (fst a - fst o) * (snd b - snd o) - (snd a - snd o) * (fst b - fst o).
Proof. intros. unfold cross. qs. reflexivity. Qed.

Lemma line_param : forall ax ay dx dy qx qy u v, dx * (qy - ay) - dy * (qx - ax) == 0 ->
  (dx * dx + dy * dy) * (u * qx + v * qy) ==
  (dx * dx + dy * dy) * (u * ax + v * ay) + (dx * (qx - ax) + dy * (qy - ay)) * (u * dx + v * dy).
Proof.
  intros ax ay dx dy qx qy u v H.
  assert (E : (dx * dx + dy * dy) * (u * qx + v * qy) -
              ((dx * dx + dy * dy) * (u * ax + v * ay) + (dx * (qx - ax) + dy * (qy - ay)) * (u * dx + v * dy)) ==
              (dx * (qy - ay) - dy * (qx - ax)) * (v * dx - u * dy)) by ring.
  rewrite H, Qmult_0_l in E. lra.
Qed.
Lemma line_step : forall dx dy ex ey, dx * ey - dy * ex == 0 ->
  (dx * dx + dy * dy) * ex == dx * (dx * ex + dy * ey) /\ (dx * dx + dy * dy) * ey == dy * (dx * ex + dy * ey).
Proof.
  intros dx dy ex ey H. split.
  - assert (E : (dx * dx + dy * dy) * ex - dx * (dx * ex + dy * ey) == - dy * (dx * ey - dy * ex)) by ring.
    rewrite H in E. lra.
  - assert (E : (dx * dx + dy * dy) * ey - dy * (dx * ex + dy * ey) == dx * (dx * ey - dy * ex)) by ring.
    rewrite H in E. lra.
Qed.

Lemma sign_pos : forall N e d t, 0 < N -> N * e == d * t -> 0 < d -> 0 <= e -> 0 <= t.
Proof. intros N e d t HN E Hd He. destruct (Qlt_le_dec t 0) as [L|L]; [exfalso; nra|assumption]. Qed.
Lemma sign_neg : forall N e d t, 0 < N -> N * e == d * t -> d < 0 -> 0 <= e -> t <= 0.
Proof. intros N e d t HN E Hd He. destruct (Qlt_le_dec 0 t) as [L|L]; [exfalso; nra|assumption]. Qed.
Lemma param_le : forall N A c t1 t2 L1 L2, 0 < N -> N * L1 == N * A + t1 * c -> N * L2 == N * A + t2 * c ->
  (t1 <= t2 /\ 0 <= c) \/ (t2 <= t1 /\ c <= 0) -> L1 <= L2.
Proof.
  intros N A c t1 t2 L1 L2 HN E1 E2 H.
  assert (X : N * (L1 - L2) == (t1 - t2) * c) by lra.
  destruct (Qlt_le_dec L2 L1) as [L|L]; [exfalso|assumption].
  destruct H as [[H1 H2]|[H1 H2]]; nra.
Qed.

(* points on a common line through a0 with direction d <> 0, lexicographically between lo and hi *)
Lemma segment_cover : forall (a0 b1 lo hi p : pt) u v k,
  ~ (fst a0 == fst b1 /\ snd a0 == snd b1) ->
  cross a0 b1 lo == 0 -> cross a0 b1 hi == 0 -> cross a0 b1 p == 0 ->
  lex_le lo p -> lex_le p hi -> lin u v lo <= k -> lin u v hi <= k -> lin u v p <= k.
Proof.
  intros [ax ay] [bx by_] [lx ly] [hx hy] [px py] u v k ND Cl Ch Cp Llp Lph Kl Kh.
  rewrite cross_eq in Cl, Ch, Cp. unfold lex_le, lin in *. simpl in *.
  set (dx := bx - ax) in *. set (dy := by_ - ay) in *.
  assert (N : 0 < dx * dx + dy * dy).
  { destruct (Qeq_dec dx 0) as [Zx|Zx].
    - destruct (Qeq_dec dy 0) as [Zy|Zy]; [exfalso; apply ND; unfold dx, dy in *; split; lra|].
      assert (0 < dy * dy) by (destruct (Qlt_le_dec dy 0); nra). nra.
    - assert (0 < dx * dx) by (destruct (Qlt_le_dec dx 0); nra). nra. }
  pose proof (line_param ax ay dx dy lx ly u v Cl) as El.
  pose proof (line_param ax ay dx dy hx hy u v Ch) as Eh.
  pose proof (line_param ax ay dx dy px py u v Cp) as Ep.
  assert (Clp : dx * (py - ly) - dy * (px - lx) == 0) by lra.
  assert (Cph : dx * (hy - py) - dy * (hx - px) == 0) by lra.
  destruct (line_step dx dy _ _ Clp) as [Xlp Ylp]. destruct (line_step dx dy _ _ Cph) as [Xph Yph].
  clear Cl Ch Cp Clp Cph ND.
  set (N2 := dx * dx + dy * dy) in *.
  set (c := u * dx + v * dy) in *.
  set (tl := dx * (lx - ax) + dy * (ly - ay)) in *. set (th := dx * (hx - ax) + dy * (hy - ay)) in *.
  set (tp := dx * (px - ax) + dy * (py - ay)) in *.
  assert (Dlp : dx * (px - lx) + dy * (py - ly) == tp - tl) by (unfold tp, tl; ring).
  assert (Dph : dx * (hx - px) + dy * (hy - py) == th - tp) by (unfold tp, th; ring).
  rewrite Dlp in Xlp, Ylp. rewrite Dph in Xph, Yph. clear Dlp Dph.
  assert (M : (tl <= tp /\ tp <= th) \/ (th <= tp /\ tp <= tl)).
  { clear El Eh Ep Kl Kh.
    destruct (Qlt_le_dec 0 dx) as [Px|Px].
    - assert (E1 : 0 <= px - lx) by (destruct Llp as [L|[L _]]; lra).
      assert (E2 : 0 <= hx - px) by (destruct Lph as [L|[L _]]; lra).
      pose proof (sign_pos _ _ _ _ N Xlp Px E1). pose proof (sign_pos _ _ _ _ N Xph Px E2). left; split; lra.
    - destruct (Qlt_le_dec dx 0) as [Nx|Nx].
      + assert (E1 : 0 <= px - lx) by (destruct Llp as [L|[L _]]; lra).
        assert (E2 : 0 <= hx - px) by (destruct Lph as [L|[L _]]; lra).
        pose proof (sign_neg _ _ _ _ N Xlp Nx E1). pose proof (sign_neg _ _ _ _ N Xph Nx E2). right; split; lra.
      + assert (Zx : dx == 0) by lra.
        assert (Ex1 : px - lx == 0).
        { rewrite Zx, Qmult_0_l in Xlp. apply Qmult_integral in Xlp. destruct Xlp; [lra|assumption]. }
        assert (Ex2 : hx - px == 0).
        { rewrite Zx, Qmult_0_l in Xph. apply Qmult_integral in Xph. destruct Xph; [lra|assumption]. }
        assert (L1 : 0 <= py - ly) by (destruct Llp as [L|[_ L]]; lra).
        assert (L2 : 0 <= hy - py) by (destruct Lph as [L|[_ L]]; lra).
        destruct (Qlt_le_dec 0 dy) as [Py|Py].
        * pose proof (sign_pos _ _ _ _ N Ylp Py L1). pose proof (sign_pos _ _ _ _ N Yph Py L2). left; split; lra.
        * assert (Ny : dy < 0).
          { destruct (Qeq_dec dy 0) as [Zy|Zy]; [|lra]. exfalso. unfold N2 in N. rewrite Zx, Zy in N. lra. }
          pose proof (sign_neg _ _ _ _ N Ylp Ny L1). pose proof (sign_neg _ _ _ _ N Yph Ny L2). right; split; lra. }
  clear Xlp Ylp Xph Yph Llp Lph.
  destruct (Qlt_le_dec c 0) as [Cn|Cp'].
  - destruct M as [[M1 M2]|[M1 M2]].
    + assert (X : u * px + v * py <= u * lx + v * ly) by (eapply (param_le N2); [exact N|exact Ep|exact El|right; split; lra]). lra.
    + assert (X : u * px + v * py <= u * hx + v * hy) by (eapply (param_le N2); [exact N|exact Ep|exact Eh|right; split; lra]). lra.
  - destruct M as [[M1 M2]|[M1 M2]].
    + assert (X : u * px + v * py <= u * hx + v * hy) by (eapply (param_le N2); [exact N|exact Ep|exact Eh|left; split; lra]). lra.
    + assert (X : u * px + v * py <= u * lx + v * ly) by (eapply (param_le N2); [exact N|exact Ep|exact El|left; split; lra]). lra.
Qed.

Lemma pt_eqb_true : forall a b, pt_eqb a b = true <-> fst a == fst b /\ snd a == snd b.
Proof. intros a b. unfold pt_eqb. rewrite andb_true_iff, !qeqb_true. reflexivity. Qed.

Lemma cross_sign_Eq : forall o a b, cross_sign o a b = Eq -> cross o a b == 0.
Proof.
  intros o a b H. unfold cross_sign in H. rewrite qcmp_eq in H. apply Qeq_alt in H.
  unfold qmul in H. rewrite !qn_eq, !qsub_eq in H. rewrite cross_eq. lra.
Qed.

Lemma collinearb_spec : forall S, collinearb S = true ->
  (exists a, In a S /\ forall p, In p S -> fst a == fst p /\ snd a == snd p) \/ S = [] \/
  (exists a b, ~ (fst a == fst b /\ snd a == snd b) /\ forall p, In p S -> cross a b p == 0).
Proof.
  intros [|a t] H; [right; left; reflexivity|]. simpl in H.
  destruct (find (fun b => negb (pt_eqb a b)) t) as [b|] eqn:F.
  - right; right. apply find_some in F. destruct F as [Ib Nb]. exists a, b. split.
    + intros E. apply pt_eqb_true in E. rewrite E in Nb. discriminate.
    + rewrite forallb_forall in H. intros p [<-|Hp].
      * rewrite cross_eq. ring.
      * specialize (H p Hp). apply cross_sign_Eq. destruct (cross_sign a b p); [reflexivity|discriminate|discriminate].
  - left. exists a. split; [left; reflexivity|]. intros p [<-|Hp]; [split; reflexivity|].
    pose proof (find_none _ _ F p Hp) as N. simpl in N. apply negb_false_iff in N. apply pt_eqb_true. assumption.
Qed.

Lemma fallback_sem : forall S, collinearb S = true -> hull_sem (fallback S) S.
Proof.
  intros S HC. destruct S as [|a t]; [apply hull_sem_refl|].
  destruct (fold_lex_min t a) as [Ilo Mlo]. destruct (fold_lex_max t a) as [Ihi Mhi].
  unfold fallback. set (lo := fold_left lex_min t a) in *. set (hi := fold_left lex_max t a) in *.
  assert (HI : incl (if pt_eqb lo hi then [lo] else [lo; hi]) (a :: t)).
  { destruct (pt_eqb lo hi); intros p Hp; simpl in Hp; intuition (subst; assumption). }
  split; [exact HI|].
  intros u v k Hk p Hp.
  assert (Klo : lin u v lo <= k) by (apply Hk; destruct (pt_eqb lo hi); left; reflexivity).
  assert (Khi : lin u v hi <= k).
  { destruct (pt_eqb lo hi) eqn:E.
    - apply pt_eqb_true in E. destruct E as [E1 E2]. unfold lin in *. rewrite <- E1, <- E2. exact Klo.
    - apply Hk. right; left; reflexivity. }
  destruct (collinearb_spec _ HC) as [[a0 [Ia0 Eq0]]|[E|[a0 [b0 [ND Cr]]]]].
  - destruct (Eq0 p Hp) as [P1 P2]. destruct (Eq0 lo Ilo) as [L1 L2]. unfold lin in *. rewrite <- P1, <- P2, L1, L2. exact Klo.
  - discriminate E.
  - eapply (segment_cover a0 b0 lo hi p); eauto.
Qed.


(* what is asked of qhull: on inputs it actually receives (>= 4 points, not all on one vertical line, not
   collinear) its corners are input points and every input point is a convex combination of them *)
Definition qhull_ok (hull : list pt -> list pt) : Prop :=
  forall S, (4 <= length S)%nat -> same_x S = false -> collinearb S = false -> hull_ok (hull S) S.

Theorem convex_hull_w_sem_lemma : forall hull, qhull_ok hull -> forall S, hull_sem (convex_hull_w hull S) S.
Proof.
  intros hull Hh S. unfold convex_hull_w.
  destruct (Nat.ltb (length S) 4) eqn:E1; [apply hull_sem_refl|]. apply Nat.ltb_ge in E1.
  destruct (same_x S) eqn:E2; [apply hull_sem_refl|].
  destruct (collinearb S) eqn:E; [apply fallback_sem; exact E|apply hull_ok_sem, Hh; assumption].
Qed.

Lemma hull_ok_refl : forall S, hull_ok S S.
Proof.
  intros S. split; [apply incl_refl|]. intros p Hp. exists [(1, p)]. split; [|split; [|split]]; simpl.
  - intros wh [<-|[]]. simpl. split; [lra|assumption].
  - lra.
  - ring.
  - ring.
Qed.

(* the wrapper before cd7171e met the contract only outside its collinear branch *)
Lemma convex_hull_w_old_sem_lemma : forall hull, qhull_ok hull ->
  forall S, (length S < 4)%nat \/ same_x S = true \/ collinearb S = false -> hull_sem (convex_hull_w_old hull S) S.
Proof.
  intros hull Hh S HS. unfold convex_hull_w_old.
  destruct (Nat.ltb (length S) 4) eqn:E1; [apply hull_sem_refl|]. apply Nat.ltb_ge in E1.
  destruct (same_x S) eqn:E2; [apply hull_sem_refl|].
  destruct (collinearb S) eqn:E3; [|apply hull_ok_sem, Hh; assumption].
  destruct HS as [HS|[HS|HS]]; [lia|discriminate|discriminate].
Qed.

(* ------------------------------------------------------------------ C09 theorems for the code as it is now *)
(* A family of cells closed under "child of", with unique names, where
   - every repetition of a polygon, label, path or reference satisfies the C11 facts (rep_ok: extrema are offsets,
     same box, the origin is an offset),
   - a quarter flag means cos*sin == 0,
   - a reference repetition that is NOT Explicit has extrema covering its offsets (lattice corners, the two
     ends of an ExplicitX / ExplicitY list: parallelogram_cover_lemma); nothing more is asked of Explicit ones. *)
Definition family_ok : (cell -> Prop) -> Prop := family_ok_g true.
Definition query_ok : (cell -> Prop) -> query -> Prop := query_ok_g true.
Definition run1 (chull : list pt -> list pt) := run1_g chull true.
Definition run (chull : list pt -> list pt) := run_g chull true.

Lemma ref_wf_explicit_lemma : forall pl r, pl_rep pl = Some r -> r_explicit r = true ->
  (ref_wf true pl <-> rep_ok r /\ (pl_quarter pl = true -> pl_ca pl * pl_sa pl == 0)).
Proof.
  intros pl r Hr He. unfold ref_wf, orep_cov, orep_ok. rewrite Hr, He. simpl. tauto.
Qed.
Lemma ref_wf_other_lemma : forall pl r, pl_rep pl = Some r -> r_explicit r = false ->
  (ref_wf true pl <-> rep_ok r /\ (incl (exts r) (offs r) /\ covers (exts r) (offs r)) /\
                      (pl_quarter pl = true -> pl_ca pl * pl_sa pl == 0)).
Proof.
  intros pl r Hr He. unfold ref_wf, orep_cov, orep_ok. rewrite Hr, He. simpl. tauto.
Qed.

(* the cover premise for lattices and segments: E holds the four corners p0 + {0,m} v1 + {0,n} v2 and every
   offset is p0 + a v1 + b v2 with 0 <= a <= m, 0 <= b <= n *)
Lemma parallelogram_cover_lemma : forall (p0 v1 v2 : pt) (m n : Q) (E O : list pt),
  (forall a b, (a == 0 \/ a == m) -> (b == 0 \/ b == n) ->
     exists e, In e E /\ fst e == fst p0 + a * fst v1 + b * fst v2 /\ snd e == snd p0 + a * snd v1 + b * snd v2) ->
  (forall o, In o O -> exists a b, 0 <= a /\ a <= m /\ 0 <= b /\ b <= n /\
     fst o == fst p0 + a * fst v1 + b * fst v2 /\ snd o == snd p0 + a * snd v1 + b * snd v2) ->
  covers E O.
Proof.
  intros p0 v1 v2 m n E O HE HO u v k Hk o Ho.
  destruct (HO o Ho) as [a [b [A0 [A1 [B0 [B1 [Ox Oy]]]]]]].
  assert (C : forall a' b', (a' == 0 \/ a' == m) -> (b' == 0 \/ b' == n) ->
              lin u v p0 + a' * lin u v v1 + b' * lin u v v2 <= k).
  { intros a' b' Ha Hb. destruct (HE a' b' Ha Hb) as [e [Ie [Ex Ey]]]. specialize (Hk e Ie).
    unfold lin in *. rewrite Ex, Ey in Hk. lra. }
  assert (C00 := C 0 0 (or_introl (Qeq_refl 0)) (or_introl (Qeq_refl 0))).
  assert (Cm0 := C m 0 (or_intror (Qeq_refl m)) (or_introl (Qeq_refl 0))).
  assert (C0n := C 0 n (or_introl (Qeq_refl 0)) (or_intror (Qeq_refl n))).
  assert (Cmn := C m n (or_intror (Qeq_refl m)) (or_intror (Qeq_refl n))).
  assert (G : lin u v o == lin u v p0 + a * lin u v v1 + b * lin u v v2) by (unfold lin; rewrite Ox, Oy; ring).
  rewrite G. clear C Hk HE HO G Ox Oy.
  set (P := lin u v p0) in *. set (A := lin u v v1) in *. set (B := lin u v v2) in *.
  destruct (Qlt_le_dec A 0) as [SA|SA]; destruct (Qlt_le_dec B 0) as [SB|SB]; nra.
Qed.

(* Cell::bounding_box(cache): with ANY cache whose entries are right (in particular the empty one) the box
   reported is the smallest box containing the flattened geometry, and the cache stays right *)
Theorem cell_bbox_exact_lemma : forall hull, qhull_ok hull ->
  forall U, family_ok U -> forall c, U c -> forall ch, cache_ok U ch ->
  is_bbox (flatten c) (g_box (fst (cell_query (convex_hull_w hull) false c ch))) /\
  box_eq (g_box (fst (cell_query (convex_hull_w hull) false c ch))) (bbox (flatten c)) /\
  cache_ok U (snd (cell_query (convex_hull_w hull) false c ch)).
Proof. intros hull Hh. exact (cell_bbox_exact_gen _ true (convex_hull_w_sem_lemma hull Hh)). Qed.

(* Cell::convex_hull(cache): corners are geometry points, every half-plane containing them contains the geometry *)
Theorem cell_hull_exact_lemma : forall hull, qhull_ok hull ->
  forall U, family_ok U -> forall c, U c -> forall ch, cache_ok U ch ->
  hull_sem (g_hull (fst (cell_query (convex_hull_w hull) true c ch))) (flatten c) /\
  cache_ok U (snd (cell_query (convex_hull_w hull) true c ch)).
Proof. intros hull Hh. exact (cell_hull_exact_gen _ true (convex_hull_w_sem_lemma hull Hh)). Qed.

Corollary empty_cell_inverted_lemma : forall hull, qhull_ok hull ->
  forall U, family_ok U -> forall c, U c ->
  (g_box (fst (cell_query (convex_hull_w hull) false c [])) = Inverted <-> flatten c = []).
Proof. intros hull Hh. exact (empty_cell_inverted_gen _ true (convex_hull_w_sem_lemma hull Hh)). Qed.

(* cells unchanged, names unique: whatever was asked before through the same cache (cell boxes, cell hulls,
   reference boxes, reference hulls in any order), every answer is exact and agrees with the answer of the same
   query on a fresh cache *)
Theorem cache_transparent_lemma : forall hull, qhull_ok hull ->
  forall U, family_ok U -> forall qs, Forall (query_ok U) qs -> forall ch, cache_ok U ch ->
  Forall2 (fun q a => answer_exact q a /\ answer_same a (fst (run1 (convex_hull_w hull) q [])))
          qs (run (convex_hull_w hull) qs ch).
Proof. intros hull Hh. exact (cache_transparent_gen _ true (convex_hull_w_sem_lemma hull Hh)). Qed.

(* ------------------------------------------------------------------ regression examples: the two fixed findings *)
Definition qi (z : Z) : Q := inject_Z z.
Definition desc_line : list pt := [(qi 0, qi 10); (qi 1, qi 9); (qi 2, qi 8); (qi 3, qi 7); (qi 4, qi 6)].
Definition pyth : placement := mkPl (0, 0) (3 # 5) (4 # 5) false 1 false None.   (* rotation by atan2(4,3) *)

(* F10 (fixed by cd7171e).  OLD wrapper on the five collinear points (i, 10-i): {(0,6),(4,10)}, corners of the
   bounding box, not geometry points; the half-plane x - y <= -6 contains them and not (4,6); the box of a
   rotated copy is wrong.  The current wrapper returns the end points (0,10),(4,6). *)
Example collinear_fallback_old_refuted_example : exists S : list pt,
  (forall hull, convex_hull_w_old hull S = [(qi 0, qi 6); (qi 4, qi 10)]) /\
  (forall hull, ~ incl (convex_hull_w_old hull S) S) /\
  (forall hull, ~ covers (convex_hull_w_old hull S) S) /\
  (forall hull, ~ box_eq (bbox (map (xform pyth zero_pt) (convex_hull_w_old hull S))) (bbox (map (xform pyth zero_pt) S))) /\
  (forall hull, convex_hull_w hull S = [(qi 0, qi 10); (qi 4, qi 6)]).
Proof.
  exists desc_line.
  assert (E : forall hull, convex_hull_w_old hull desc_line = [(qi 0, qi 6); (qi 4, qi 10)]) by (intros; vm_compute; reflexivity).
  split; [exact E|split; [|split; [|split]]]; intros hull; try rewrite E.
  - intros I. specialize (I _ (or_introl eq_refl)). simpl in I.
    repeat (destruct I as [I|I]; [discriminate I|]). exact I.
  - intros C. assert (X : lin 1 (-(1)) (qi 4, qi 6) <= -(6)).
    { apply (C 1 (-(1)) (-(6))).
      - intros h [<-|[<-|[]]]; vm_compute; discriminate.
      - right; right; right; right; left; reflexivity. }
    vm_compute in X. apply X. reflexivity.
  - vm_compute. intros [A _]. discriminate A.
  - vm_compute. reflexivity.
Qed.

(* F9 (fixed by d7329ad).  A unit square placed by one reference with the Explicit offsets (10,0),(0,10),(9,9)
   (get_extrema: (0,0),(10,0),(0,0),(0,10)); its parent places that cell rotated.  Every C11 fact holds; with
   the OLD hull path (extrema only) the parent's box is too small and the hull of the middle cell misses the
   corner (10,10); the current functions give the exact box and a hull that covers (10,10). *)
Definition f9_rep : rep :=
  mkRep [(qi 0, qi 0); (qi 10, qi 0); (qi 0, qi 10); (qi 9, qi 9)] [(qi 0, qi 0); (qi 10, qi 0); (qi 0, qi 0); (qi 0, qi 10)] true.
Definition f9_sq : cell := Cell 0 [mkPoly [(qi 0, qi 0); (qi 1, qi 0); (qi 1, qi 1); (qi 0, qi 1)] None] [] [] [].
Definition f9_mid : cell := Cell 1 [] [] [] [(mkPl (0, 0) 1 0 true 1 false (Some f9_rep), f9_sq)].
Definition f9_top : cell := Cell 2 [] [] [] [(pyth, f9_mid)].
Definition chull_mc : list pt -> list pt := convex_hull_w hull_mc.

Example reference_hull_explicit_rep_old_refuted_example :
  rep_ok f9_rep /\ ~ covers (exts f9_rep) (offs f9_rep) /\
  ~ box_eq (g_box (fst (cell_query_old chull_mc false f9_top []))) (bbox (flatten f9_top)) /\
  ~ covers (g_hull (fst (cell_query_old chull_mc true f9_mid []))) (flatten f9_mid) /\
  In (qi 10, qi 10) (flatten f9_mid) /\
  box_eq (g_box (fst (cell_query chull_mc false f9_top []))) (bbox (flatten f9_top)) /\
  In (qi 10, qi 10) (g_hull (fst (cell_query chull_mc true f9_mid []))).
Proof.
  split; [|split; [|split; [|split; [|split; [|split]]]]].
  - split; [|split].
    + intros p Hp. simpl in *. intuition (subst; auto).
    + vm_compute. repeat split; reflexivity.
    + exists (qi 0, qi 0). split; [left; reflexivity|split; reflexivity].
  - intros C. assert (X : lin 1 1 (qi 9, qi 9) <= 10).
    { apply (C 1 1 10).
      - intros h Hh. simpl in Hh. repeat (destruct Hh as [<-|Hh]; [vm_compute; discriminate|]). destruct Hh.
      - right; right; right; left; reflexivity. }
    vm_compute in X. apply X. reflexivity.
  - vm_compute. intros [_ [_ [_ A]]]. discriminate A.
  - intros C. assert (X : lin 1 1 (qi 10, qi 10) <= 12).
    { apply (C 1 1 12).
      - intros h Hh. vm_compute in Hh. repeat (destruct Hh as [<-|Hh]; [vm_compute; discriminate|]). destruct Hh.
      - vm_compute. do 14 right. left. reflexivity. }
    vm_compute in X. apply X. reflexivity.
  - vm_compute. do 14 right. left. reflexivity.
  - vm_compute. repeat split; reflexivity.
  - vm_compute. tauto.
Qed.

(* ------------------------------------------------------------------ the hypotheses are satisfiable *)
(* a leaf with a polygon and a repeated label; a parent placing it three times: a quarter turn with a 2x1
   lattice (extrema = offsets), a rotation by atan2(4,3) with magnification 2 and reflection, and an Explicit
   repetition whose extrema do NOT cover its offsets *)
Definition ex_rep : rep := mkRep [(qi 0, qi 0); (qi 3, qi 0)] [(qi 0, qi 0); (qi 3, qi 0)] false.
Definition ex_leaf : cell :=
  Cell 0 [mkPoly [(qi 0, qi 0); (qi 2, qi 0); (qi 1, qi 3)] None] [mkLabel (qi 5, qi 5) (Some ex_rep)] [] [].
Definition ex_top : cell :=
  Cell 1 [] [] []
    [(mkPl (qi 1, qi 1) 0 1 true 1 false (Some ex_rep), ex_leaf);
     (mkPl (qi 0, qi 7) (3 # 5) (4 # 5) false 2 true None, ex_leaf);
     (mkPl (qi 2, qi 0) (3 # 5) (4 # 5) false 1 false (Some f9_rep), ex_leaf)].
Definition ex_U (c : cell) : Prop := c = ex_leaf \/ c = ex_top.

Lemma ex_rep_ok : rep_ok ex_rep.
Proof.
  split; [apply incl_refl|split; [apply box_eq_refl|]].
  exists (qi 0, qi 0). split; [left; reflexivity|split; reflexivity].
Qed.

Example family_ok_example : family_ok ex_U /\ qhull_ok (fun S => S) /\
  box_eq (g_box (fst (cell_query (convex_hull_w (fun S => S)) false ex_top []))) (bbox (flatten ex_top)).
Proof.
  assert (Q : qhull_ok (fun S => S)) by (intros S _ _ _; apply hull_ok_refl).
  assert (F : family_ok ex_U).
  { split; [|split].
    - intros c pl ch [-> | ->] HI; simpl in HI.
      + destruct HI.
      + destruct HI as [E|[E|[E|[]]]]; inversion E; left; reflexivity.
    - intros c d [-> | ->] [-> | ->] E; try reflexivity; discriminate E.
    - intros c [-> | ->]; (split; [|split; [|split]]); simpl.
      + intros p [<-|[]]. exact I.
      + intros l [<-|[]]. exact ex_rep_ok.
      + intros p [].
      + intros pl ch [].
      + intros p [].
      + intros l [].
      + intros p [].
      + intros pl ch [E|[E|[E|[]]]]; inversion E; subst; (split; [|split]); simpl.
        * exact ex_rep_ok.
        * split; [apply incl_refl|apply covers_refl].
        * intros _. reflexivity.
        * exact I.
        * exact I.
        * discriminate.
        * exact (proj1 reference_hull_explicit_rep_old_refuted_example).
        * exact I.
        * discriminate. }
  split; [exact F|split; [exact Q|]].
  destruct (cell_bbox_exact_lemma (fun S => S) Q ex_U F ex_top (or_intror eq_refl) [] (cache_ok_nil ex_U)) as [_ [K _]].
  exact K.
Qed.

(* using only the corners cmin and cmax in the quarter-turn branch gives the same box: a change of the
   implementation to two corners is NOT a behaviour change (the correspondence run rightly does not flag it) *)
Lemma two_corners_suffice_lemma : forall pl off S x0 y0 x1 y1, pl_ca pl * pl_sa pl == 0 ->
  is_bbox S (Box x0 y0 x1 y1) ->
  box_eq (bbox (map (xform pl off) [(x0, y0); (x1, y1)])) (bbox (map (xform pl off) (corners (Box x0 y0 x1 y1)))).
Proof.
  intros pl off S x0 y0 x1 y1 Hq HB.
  pose proof (corners_is_bbox _ _ _ _ _ HB) as HC.
  assert (H2 : is_bbox [(x0, y0); (x1, y1)] (Box x0 y0 x1 y1)).
  { apply is_bbox_spec in HC. destruct HC as [B _]. apply is_bbox_spec. split; [|repeat split].
    - intros p [<-|[<-|[]]]; apply B; simpl; auto.
    - exists (x0, y0). split; [left; reflexivity|reflexivity].
    - exists (x0, y0). split; [left; reflexivity|reflexivity].
    - exists (x1, y1). split; [right; left; reflexivity|reflexivity].
    - exists (x1, y1). split; [right; left; reflexivity|reflexivity]. }
  apply bbox_transfer_eq; intros u v Huv;
    (eapply ldom_map; [intros p; rewrite lin_xform, <- Qplus_assoc; reflexivity|]);
    [eapply (adom_same_box _ _ _ H2 HC)|eapply (adom_same_box _ _ _ HC H2)]; apply pull_axis; assumption.
Qed.

(* ------------------------------------------------------------------ the quarter-turn branch is safe for ANY cos / sin
   (in the implementation cos(pi/2) is 6e-17, not 0): the box of the transformed corners always CONTAINS the
   transformed geometry; it is the exact box when cos*sin == 0 (ref_bbox_quarter_turn_lemma) *)
Lemma corners_cover : forall S x0 y0 x1 y1, is_bbox S (Box x0 y0 x1 y1) -> covers (corners (Box x0 y0 x1 y1)) S.
Proof.
  intros S x0 y0 x1 y1 H u v k Hk p Hp. apply is_bbox_spec in H. destruct H as [B _].
  destruct (B p Hp) as [Bx0 [Bx1 [By0 By1]]].
  assert (K1 := Hk (x0, y0) (or_introl eq_refl)).
  assert (K2 := Hk (x1, y1) (or_intror (or_introl eq_refl))).
  assert (K3 := Hk (x0, y1) (or_intror (or_intror (or_introl eq_refl)))).
  assert (K4 := Hk (x1, y0) (or_intror (or_intror (or_intror (or_introl eq_refl))))).
  unfold lin in *. simpl in *. clear Hk B Hp.
  destruct (Qlt_le_dec u 0) as [U|U]; destruct (Qlt_le_dec v 0) as [V|V]; nra.
Qed.

Theorem ref_bbox_corners_safe_lemma : forall S B T, is_bbox S B -> affine T -> forall p, In p S ->
  exists X0 Y0 X1 Y1, bbox (map T (corners B)) = Box X0 Y0 X1 Y1 /\
    X0 <= fst (T p) /\ fst (T p) <= X1 /\ Y0 <= snd (T p) /\ snd (T p) <= Y1.
Proof.
  intros S [|x0 y0 x1 y1] T HB [a [b [c [d [e [f HT]]]]]] p Hp.
  - simpl in HB. subst. inversion Hp.
  - pose proof (covers_fdom _ _ (corners_cover _ _ _ _ _ HB)) as FD.
    assert (L : forall u v q, lin u v (T q) == lin (u * a + v * c) (u * b + v * d) q + (u * e + v * f)).
    { intros u v q. destruct (HT q) as [E1 E2]. unfold lin. rewrite E1, E2. ring. }
    assert (D : forall u v, ldom u v (map T S) (map T (corners (Box x0 y0 x1 y1)))).
    { intros u v. eapply ldom_map; [intros q; apply L|apply FD]. }
    pose proof (bbox_is_bbox (map T (corners (Box x0 y0 x1 y1)))) as BB.
    destruct (bbox (map T (corners (Box x0 y0 x1 y1)))) as [|X0 Y0 X1 Y1] eqn:E.
    + simpl in BB. discriminate BB.
    + exists X0, Y0, X1, Y1. split; [reflexivity|].
      apply is_bbox_spec in BB. destruct BB as [Bd _].
      assert (Iq : In (T p) (map T S)) by (apply in_map; assumption).
      destruct (D 1 0 _ Iq) as [q1 [I1 L1]]. destruct (D (-(1)) 0 _ Iq) as [q2 [I2 L2]].
      destruct (D 0 1 _ Iq) as [q3 [I3 L3]]. destruct (D 0 (-(1)) _ Iq) as [q4 [I4 L4]].
      destruct (Bd q1 I1) as [? [? [? ?]]]. destruct (Bd q2 I2) as [? [? [? ?]]].
      destruct (Bd q3 I3) as [? [? [? ?]]]. destruct (Bd q4 I4) as [? [? [? ?]]].
      unfold lin in *. repeat split; lra.
Qed.
