(* Model of the OASIS integer codecs of src/oasis.cpp:
     oasis_write_unsigned_integer, oasis_read_unsigned_integer,
     oasis_write_int_internal,     oasis_read_int_internal,
     oasis_{write,read}_integer / 1delta / 2delta / 3delta / gdelta.
   Definitions only (no proofs) so the model still runs when a proof breaks. *)
Require Import Base.
Local Open Scope N_scope.

Definition two64 : N := 18446744073709551616.
Definition u64 (n : N) : N := n mod two64.

(* ---- oasis_write_unsigned_integer:
     bytes[0] = value & 0x7f; value >>= 7;
     while (value > 0) { *b++ |= 0x80; *b = value & 0x7f; value >>= 7; }               *)
Fixpoint enc_uint_f (fuel : nat) (value : N) : list N :=
  let lo := N.land value 127 in
  let rest := N.shiftr value 7 in
  match fuel with
  | O => [lo]
  | S f => if 0 <? rest then N.lor lo 128 :: enc_uint_f f rest else [lo]
  end.
(* a uint64 needs at most 10 groups: the C++ buffer is bytes[10] *)
Definition enc_uint (value : N) : list N := enc_uint_f 9 value.

(* ---- oasis_read_unsigned_integer. Result: value and remaining bytes.
   `while (byte & 0x80)` loop: *)
Fixpoint dec_uint_loop (bs : list N) (result num_bits : N) : outcome (N * list N) :=
  match bs with
  | [] => ErrEof
  | b :: tl =>
      if (num_bits =? 63) && (1 <? b) then ErrOverflow
      else
        let r := u64 (N.lor result (N.shiftl (N.land b 127) num_bits)) in
        if 0 <? N.land b 128 then dec_uint_loop tl r (num_bits + 7) else Ok (r, tl)
  end.
Definition dec_uint (bs : list N) : outcome (N * list N) :=
  match bs with
  | [] => ErrEof
  | b :: tl =>
      let r := N.land b 127 in
      if 0 <? N.land b 128 then dec_uint_loop tl r 7 else Ok (r, tl)
  end.

(* ---- oasis_write_int_internal(value >= 0, num_bits flag bits, bits) *)
Definition enc_int_internal (value nb bits : N) : list N :=
  let first := N.land (N.lor bits (N.shiftl (N.land value (N.ones (7 - nb))) nb)) 255 in
  let rest := N.shiftr value (7 - nb) in
  if 0 <? rest then N.lor first 128 :: enc_uint_f 8 rest else [first].

(* ---- oasis_read_int_internal(skip_bits): value, flag bits, rest *)
Fixpoint dec_int_loop (bs : list N) (result num_bits : N) : outcome (N * list N) :=
  match bs with
  | [] => ErrEof
  | b :: tl =>
      if (56 <? num_bits) && (0 <? N.shiftr b (63 - num_bits)) then ErrOverflow
      else
        let r := u64 (N.lor result (N.shiftl (N.land b 127) num_bits)) in
        if 0 <? N.land b 128 then dec_int_loop tl r (num_bits + 7) else Ok (r, tl)
  end.
Definition dec_int_internal (skip : N) (bs : list N) : outcome (N * N * list N) :=
  match bs with
  | [] => ErrEof
  | b :: tl =>
      let r := N.shiftr (N.land b 127) skip in
      let bits := N.land b (N.ones skip) in
      if 0 <? N.land b 128 then
        obind (dec_int_loop tl r (7 - skip)) (fun '(v, rest) => Ok (v, bits, rest))
      else Ok (r, bits, tl)
  end.

(* ---- signed integer / 1-delta *)
Definition enc_int (z : Z) : list N :=
  if (z <? 0)%Z then enc_int_internal (Z.to_N (- z)) 1 1 else enc_int_internal (Z.to_N z) 1 0.
Definition dec_int (bs : list N) : outcome (Z * list N) :=
  obind (dec_int_internal 1 bs) (fun '(v, bits, rest) =>
    Ok (if 0 <? bits then (- Z.of_N v)%Z else Z.of_N v, rest)).

(* ---- directions: OasisDirection E=0 N=1 W=2 S=3 NE=4 NW=5 SW=6 SE=7 *)
Definition dir_vec (d : N) (v : Z) : Z * Z :=
  match d with
  | 0 => (v, 0%Z) | 1 => (0%Z, v) | 2 => ((- v)%Z, 0%Z) | 3 => (0%Z, (- v)%Z)
  | 4 => (v, v) | 5 => ((- v)%Z, v) | 6 => ((- v)%Z, (- v)%Z) | _ => (v, (- v)%Z)
  end.

(* oasis_write_2delta: requires x = 0 or y = 0 (otherwise writes nothing) *)
Definition enc_2delta (x y : Z) : list N :=
  if (x =? 0)%Z then
    if (y <? 0)%Z then enc_int_internal (Z.to_N (- y)) 2 3 else enc_int_internal (Z.to_N y) 2 1
  else if (y =? 0)%Z then
    if (x <? 0)%Z then enc_int_internal (Z.to_N (- x)) 2 2 else enc_int_internal (Z.to_N x) 2 0
  else [].
Definition dec_2delta (bs : list N) : outcome (Z * Z * list N) :=
  obind (dec_int_internal 2 bs) (fun '(v, bits, rest) => Ok (dir_vec bits (Z.of_N v), rest)).

Definition enc_3delta (x y : Z) : list N :=
  if (x =? 0)%Z then
    if (y <? 0)%Z then enc_int_internal (Z.to_N (- y)) 3 3 else enc_int_internal (Z.to_N y) 3 1
  else if (y =? 0)%Z then
    if (x <? 0)%Z then enc_int_internal (Z.to_N (- x)) 3 2 else enc_int_internal (Z.to_N x) 3 0
  else if (x =? y)%Z then
    if (x <? 0)%Z then enc_int_internal (Z.to_N (- x)) 3 6 else enc_int_internal (Z.to_N x) 3 4
  else if (x =? - y)%Z then
    if (x <? 0)%Z then enc_int_internal (Z.to_N (- x)) 3 5 else enc_int_internal (Z.to_N x) 3 7
  else [].
Definition dec_3delta (bs : list N) : outcome (Z * Z * list N) :=
  obind (dec_int_internal 3 bs) (fun '(v, bits, rest) => Ok (dir_vec bits (Z.of_N v), rest)).

(* oasis_write_gdelta: octangular form (4 flag bits: direction << 1, low bit 0) or general form
   (x: 2 flag bits = sign<<1 | 1 ; y: 1 flag bit = sign) *)
Definition enc_gdelta (x y : Z) : list N :=
  if (x =? 0)%Z then
    if (y <? 0)%Z then enc_int_internal (Z.to_N (- y)) 4 6 else enc_int_internal (Z.to_N y) 4 2
  else if (y =? 0)%Z then
    if (x <? 0)%Z then enc_int_internal (Z.to_N (- x)) 4 4 else enc_int_internal (Z.to_N x) 4 0
  else if (x =? y)%Z then
    if (x <? 0)%Z then enc_int_internal (Z.to_N (- x)) 4 12 else enc_int_internal (Z.to_N x) 4 8
  else if (x =? - y)%Z then
    if (x <? 0)%Z then enc_int_internal (Z.to_N (- x)) 4 10 else enc_int_internal (Z.to_N x) 4 14
  else
    (if (x <? 0)%Z then enc_int_internal (Z.to_N (- x)) 2 3 else enc_int_internal (Z.to_N x) 2 1) ++
    (if (y <? 0)%Z then enc_int_internal (Z.to_N (- y)) 1 1 else enc_int_internal (Z.to_N y) 1 0).

(* oasis_read_gdelta: peek the first byte *)
Definition dec_gdelta (bs : list N) : outcome (Z * Z * list N) :=
  match bs with
  | [] => ErrEof
  | b :: _ =>
      if N.land b 1 =? 0 then
        obind (dec_int_internal 4 bs) (fun '(v, bits, rest) =>
          Ok (dir_vec (N.shiftr bits 1) (Z.of_N v), rest))
      else
        obind (dec_int_internal 2 bs) (fun '(vx, bx, rest) =>
          let x := if 0 <? N.land bx 2 then (- Z.of_N vx)%Z else Z.of_N vx in
          obind (dec_int_internal 1 rest) (fun '(vy, by_, rest') =>
            let y := if 0 <? N.land by_ 1 then (- Z.of_N vy)%Z else Z.of_N vy in
            Ok (x, y, rest')))
  end.

(* ---- specification-level relation: every legal encoding of an unsigned integer
   (7-bit little-endian groups, continuation bit on all but the last, any number of zero groups) *)
Inductive enc_ok_uint : list N -> N -> Prop :=
| enc_ok_last (b : N) : b < 128 -> enc_ok_uint [b] b
| enc_ok_more (b : N) (bs : list N) (n : N) :
    128 <= b < 256 -> enc_ok_uint bs n -> enc_ok_uint (b :: bs) ((b - 128) + 128 * n).

(* executable form of enc_ok_uint, used as the specification-level oracle by the driver:
   the value denoted by the leading legal encoding of [bs] and what follows it *)
Fixpoint spec_uint_value (bs : list N) : option (N * list N) :=
  match bs with
  | [] => None
  | b :: tl =>
      if b <? 128 then Some (b, tl)
      else match spec_uint_value tl with
           | None => None
           | Some (n, r) => Some ((b - 128) + 128 * n, r)
           end
  end.
