(* oas_sig driver: the extracted models of coq/OasisSig.v against harness/oas_sig.cpp.
   kinds (payload -> M line, S line):
     crc  "<init> <cuts> <hex>"   zlib crc32 applied chunk by chunk from <init>; cuts = comma list of chunk lengths ("-" = one
                                  call); M = crc32_update folded over the chunks, S = crc32_bitwise over the whole string
     sum  same for gdstk's checksum32; S = checksum32_spec (start + sum of the bytes mod 2^32)
     val  "<class> x<hex>"        M = oas_validate_model, S = validate_spec: "ret=<0|1> sig=<8 hex|-> err=<name|-> null=<0|1>"
     cuts "<class> x<hex>"        the same on EVERY prefix 0 .. size, run-length encoded `status*count;...`; M is
                                  oas_validate_gen with an EMPTY list for the uninitialised buffer (building 32768 zeros per
                                  cut costs more than the call; oas_validate_total_thm: the buffer contents are irrelevant)
     end  "<scheme> <endpos> <cn> <ts> <pn> <ps> x<hex>"
                                  M = the bytes from <endpos> on of write_end (os_of_bytes (first <endpos> bytes)) offsets
     wsig "<seed> <variant> | <crc> <sum> <library text of harness/c04w.cpp>"   M = write_oas_sig_model, hex *)
open Oas_sig
open Conv

let hex8 (v : n) : string =
  let h = hex_of_n v in
  String.make (max 0 (8 - String.length h)) '0' ^ h

let rec firstn k l = if k = 0 then [] else match l with [] -> [] | a :: t -> a :: firstn (k - 1) t
let rec skipn k l = if k = 0 then l else match l with [] -> [] | _ :: t -> skipn (k - 1) t

let err_name (e : n) : string =
  match int_of_n e with
  | 14 -> "InvalidFile" | 9 -> "ChecksumError" | 11 -> "InputFileOpenError" | k -> "err" ^ string_of_int k

let vres_text (r : vres) : string =
  Printf.sprintf "ret=%d sig=%s err=%s null=%d" (if r.v_ret then 1 else 0)
    (match r.v_sig with Some s -> hex8 s | None -> "-")
    (match r.v_err with Some e -> err_name e | None -> "-")
    (if r.v_ret then 1 else 0)

let outcome_text (o : vres outcome) : string =
  match o with
  | Ok r -> vres_text r
  | Crash -> "crash" | Hang -> "hang" | ErrEof -> "eof" | ErrOverflow -> "overflow" | ErrInvalid -> "invalid"

let rle (l : string list) : string =
  let rec go acc cur cnt = function
    | [] -> List.rev ((cur, cnt) :: acc)
    | s :: t -> if s = cur then go acc cur (cnt + 1) t else go ((cur, cnt) :: acc) s 1 t in
  match l with
  | [] -> ""
  | s :: t -> String.concat ";" (List.map (fun (s, c) -> s ^ "*" ^ string_of_int c) (go [] s 1 t))

let last_bytes payload =
  let ws = words payload in
  let w = List.nth ws (List.length ws - 1) in
  let w = if String.length w > 0 && w.[0] = 'x' then String.sub w 1 (String.length w - 1) else w in
  if w = "-" then [] else bytes_of_hex w

(* split l into chunks of the given lengths, the rest is the last chunk *)
let rec chunks (cuts : int list) (l : n list) : n list list =
  match cuts with
  | [] -> [l]
  | c :: t -> firstn c l :: chunks t (skipn c l)

(* ---------------------------------------------------------------- the library text of harness/c04w.cpp *)
exception Parse of string
let toks = ref [||]
let pos = ref 0
let next () =
  if !pos >= Array.length !toks then raise (Parse "unexpected end");
  let t = (!toks).(!pos) in incr pos; t
let num () = n_of_hex (next ())
let znum () = z_of_hex (next ())
let count () = int_of_n (num ())
let bytes () = let t = next () in if t = "-" then [] else bytes_of_hex t
let rec times n f = if n <= 0 then [] else let x = f () in x :: times (n - 1) f
let value () =
  match next () with
  | "U" -> VUInt (num ())
  | "I" -> VInt (znum ())
  | "R" -> VReal (num ())
  | "S" -> VStr (bytes ())
  | t -> raise (Parse ("value kind " ^ t))
let props () =
  let n = count () in
  times n (fun () -> let name = bytes () in let nv = count () in let vs = times nv value in (name, vs))
let point () = let x = znum () in let y = znum () in (x, y)
let rep () =
  match next () with
  | "N" -> WNone
  | "R" -> let c = num () in let r = num () in let sx = znum () in let sy = znum () in WRect (c, r, sx, sy)
  | "G" -> let c = num () in let r = num () in let v1 = point () in let v2 = point () in WReg (c, r, v1, v2)
  | "E" -> let n = count () in WExpl (times n point)
  | "X" -> let n = count () in WExplX (times n znum)
  | "Y" -> let n = count () in WExplY (times n znum)
  | t -> raise (Parse ("repetition kind " ^ t))
let points () = let n = count () in times n point
let poly () =
  let layer = num () in let ty = num () in let pts = points () in let r = rep () in let ps = props () in
  { py_layer = layer; py_type = ty; py_pts = pts; py_rep = r; py_props = ps }
let pel () =
  let layer = num () in let ty = num () in let hw = num () in
  let e = (match next () with
    | "F" -> WE_flush | "H" -> WE_half
    | "E" -> let a = znum () in let b = znum () in WE_ext (a, b)
    | t -> raise (Parse ("end kind " ^ t))) in
  { pe_layer = layer; pe_type = ty; pe_hw = hw; pe_end = e }
let path () =
  let n = count () in let els = times n pel in let pts = points () in let r = rep () in let ps = props () in
  { ph_els = els; ph_pts = pts; ph_rep = r; ph_props = ps }
let reference () =
  let name = bytes () in let x = znum () in let y = znum () in let mag = num () in let rot = num () in
  let q = (let t = next () in if t = "-" then None else Some (z_of_hex t)) in
  let flip = (next () = "1") in let r = rep () in let ps = props () in
  { rf_name = name; rf_x = x; rf_y = y; rf_mag = mag; rf_rot = rot; rf_quarter = q; rf_flip = flip; rf_rep = r;
    rf_props = ps }
let label () =
  let text = bytes () in let layer = num () in let ty = num () in let x = znum () in let y = znum () in
  let r = rep () in let ps = props () in
  { lb_text = text; lb_layer = layer; lb_type = ty; lb_x = x; lb_y = y; lb_rep = r; lb_props = ps }
let cell () =
  let name = bytes () in
  let np = count () in let polys = times np poly in
  let nh = count () in let paths = times nh path in
  let nr = count () in let refs = times nr reference in
  let nl = count () in let labels = times nl label in
  let ps = props () in
  { cl_name = name; cl_polys = polys; cl_paths = paths; cl_refs = refs; cl_labels = labels; cl_props = ps }
let library () =
  let crc = (next () = "1") in
  let sum = (next () = "1") in
  let cfg = (next () = "1") in
  let u = num () in
  let ps = props () in
  let nc = count () in let cells = times nc cell in
  (crc, sum, cfg, { li_unit = u; li_props = ps; li_cells = cells })

let file_text (o : n list outcome) : string =
  match o with
  | Ok bs -> hex_of_bytes bs
  | Hang -> "hang" | Crash -> "crash" | _ -> "error"

let () =
  iter_cases Sys.argv.(1) (fun id kind payload ->
    match kind with
    | "crc" | "sum" ->
        (match words payload with
         | [init; cuts; hex] ->
             let bs = if hex = "-" then [] else bytes_of_hex hex in
             let cl = if cuts = "-" then [] else List.map int_of_string (String.split_on_char ',' cuts) in
             let upd = if kind = "crc" then crc32_update else checksum32_update in
             let c0 = n_of_hex init in
             let m = List.fold_left (fun c ch -> upd c ch) c0 (chunks cl bs) in
             out id "M" (hex8 m);
             out id "S" (hex8 (if kind = "crc" then crc32_bitwise c0 bs else checksum32_spec c0 bs))
         | _ -> out id "M" "bad-case")
    | "val" ->
        let bs = last_bytes payload in
        out id "M" (outcome_text (oas_validate_model bs));
        out id "S" (vres_text (validate_spec bs))
    | "cuts" ->
        let bs = last_bytes payload in
        let n = List.length bs in
        out id "M" (rle (List.init (n + 1) (fun k -> outcome_text (oas_validate_gen [] (firstn k bs)))));
        out id "S" (rle (List.init (n + 1) (fun k -> vres_text (validate_spec (firstn k bs)))))
    | "end" ->
        (match words payload with
         | [scheme; endpos; cn; ts; pn; ps; _] ->
             let bs = last_bytes payload in
             let e = int_of_string endpos in
             let crc = (scheme = "1") and sum = (scheme = "2") in
             (match write_end (os_of_bytes crc sum (firstn e bs)) (n_of_hex cn) (n_of_hex ts) (n_of_hex pn) (n_of_hex ps) with
              | Ok f -> out id "M" (hex_of_bytes (skipn e f))
              | o -> out id "M" (file_text o))
         | _ -> out id "M" "bad-case")
    | "wsig" ->
        (try
          let text = (match String.index_opt payload '|' with
            | Some i -> String.sub payload (i + 1) (String.length payload - i - 1)
            | None -> payload) in
          toks := Array.of_list (words text);
          pos := 0;
          let (crc, sum, cfg, l) = library () in
          if !pos <> Array.length !toks then raise (Parse "trailing words");
          out id "M" (file_text (write_oas_sig_model cfg crc sum l))
        with Parse m -> out id "M" ("bad-case " ^ m))
    | _ -> ())
