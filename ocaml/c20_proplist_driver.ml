(* C20 property lists: runs the extracted Gallina model (run_model) and the ordered-multimap
   specification (run_spec) on the harness's histories.
   C20_PROPLIST_FIXED=1 in the environment selects the model of the REPAIRED remove_property
   (remove_property_gen true) instead of the function of the tree. *)
open C20_proplist
open Conv

(* single switch between the two correspondences *)
(* default_fixed: false = the function as it is in the tree (crashes when every entry matches),
   true = the repaired function; set it to true once the fix: commit is in /repo.
   The environment variable C20_PROPLIST_FIXED=0/1 overrides it for experiments. *)
let default_fixed : bool = true
let fixed : bool =
  match Sys.getenv_opt "C20_PROPLIST_FIXED" with
  | Some "1" -> true
  | Some "0" -> false
  | _ -> default_fixed

let bool_of_tok s = (s = "1")

(* op tokens: fields separated by ',', ops by ' '
     su,<name>,<hexu64>,<cn>   si,<name>,<[-]hex>,<cn>   sr,<name>,<16 hex>,<cn>
     ss,<name>,<bytes>,<cn>    sb,<name>,<bytes>,<cn>    sg,<attr>,<bytes>
     g,<name>   gg,<attr>   r,<name>,<all>   rg,<attr>   cp   cl                       *)
let parse_op (tok : string) : op =
  match String.split_on_char ',' tok with
  | ["su"; nm; v; cn] -> OSet (bytes_of_hex nm, VUInt (n_of_hex v), bool_of_tok cn)
  | ["si"; nm; v; cn] -> OSet (bytes_of_hex nm, VInt (z_of_hex v), bool_of_tok cn)
  | ["sr"; nm; v; cn] -> OSet (bytes_of_hex nm, VReal (n_of_hex v), bool_of_tok cn)
  | ["ss"; nm; v; cn] | ["sb"; nm; v; cn] -> OSet (bytes_of_hex nm, VStr (bytes_of_hex v), bool_of_tok cn)
  | ["sg"; a; v] -> OSetGds (n_of_hex a, bytes_of_hex v)
  | ["g"; nm] -> OGet (bytes_of_hex nm)
  | ["gg"; a] -> OGetGds (n_of_hex a)
  | ["r"; nm; all] -> ORemove (bytes_of_hex nm, bool_of_tok all)
  | ["rg"; a] -> ORemoveGds (n_of_hex a)
  | ["cp"] -> OCopy
  | ["cl"] -> OClear
  | _ -> failwith ("bad op token " ^ tok)

let pad16 s = if String.length s >= 16 then s else String.make (16 - String.length s) '0' ^ s

let show_value = function
  | VUInt n -> "u:" ^ hex_of_n n
  | VInt z -> "i:" ^ hex_of_z z
  | VReal b -> "r:" ^ pad16 (hex_of_n b)
  | VStr b -> "s:" ^ hex_of_bytes b

let show_values vs = "[" ^ String.concat ";" (List.map show_value vs) ^ "]"

let show_result = function
  | RGet None -> "null"
  | RGet (Some vs) -> show_values vs
  | RCount c -> "#" ^ hex_of_n c
  | RBool b -> if b then "T" else "F"

let show_entry (nm, vs) = hex_of_bytes nm ^ "=" ^ show_values vs

let show (l, rs) =
  String.concat " " (List.map show_result rs @ [ "L" ^ string_of_int (List.length l) ] @ List.map show_entry l)

let () =
  iter_cases Sys.argv.(1) (fun id kind payload ->
    match kind with
    | "hist" ->
        let ops = List.map parse_op (words payload) in
        (match run_model fixed ops [] with
         | Ok r -> out id "M" (show r)
         | Crash -> out id "M" "CRASH"
         | Hang -> out id "M" "HANG"
         | _ -> out id "M" "ERR");
        out id "S" (show (run_spec ops []))
    | _ -> ())
