(* gdswriter unit driver: sessions of GdsWriter / Library::write_gds with raw cells through the extracted model
   (coq/GdsWriterModel.v), produced files through read_gds_model and the strict decoder, dependency closures.
   Case formats: see harness/gdswriter.cpp. *)
open Gdswriter
open Conv

let zi s = z_of_int (int_of_string s)
let hexs_to_bytes s = if s = "-" then [] else bytes_of_hex s
let bytes_to_hexs b = if b = [] then "-" else hex_of_bytes b
let zs z = string_of_int (int_of_z z)

(* ---- token stream over one section *)
type toks = { mutable l : string list }
let next t = match t.l with x :: r -> t.l <- r; x | [] -> failwith "unexpected end of plan"
let peek t = match t.l with x :: _ -> Some x | [] -> None

let parse_props t : gprops =
  (match next t with "k" -> () | x -> failwith ("expected k, got " ^ x));
  let n = int_of_string (next t) in
  let rec go i = if i = 0 then [] else
    let a = n_of_int (int_of_string (next t)) in
    let v = hexs_to_bytes (next t) in (a, v) :: go (i - 1) in
  go n

let parse_pts t n = let rec go i = if i = 0 then [] else
    let x = zi (next t) in let y = zi (next t) in (x, y) :: go (i - 1) in go n

let parse_real s : n =
  if String.length s > 0 && s.[0] = 'b' then n_of_hex (String.sub s 1 (String.length s - 1))
  else failwith "plan reals must be bit patterns"

let parse_endt = function "0" -> EFlush | "1" -> ERound | "2" -> EHalf | _ -> EExt

(* "CELL namehex elems..." (the write-plan grammar of harness/gdsdump.hpp) *)
let parse_cell (t : toks) : gcell =
  (match next t with "CELL" -> () | x -> failwith ("expected CELL, got " ^ x));
  let nm = hexs_to_bytes (next t) in
  let ps = ref [] and hs = ref [] and rs = ref [] and ls = ref [] in
  let rec loop () = match peek t with
    | None -> ()
    | Some k ->
        ignore (next t);
        (match k with
         | "P" ->
             let layer = zi (next t) in let ty = zi (next t) in let n = int_of_string (next t) in
             let pts = parse_pts t n in let pr = parse_props t in
             ps := { p_layer = layer; p_type = ty; p_pts = pts; p_props = pr } :: !ps
         | "H" ->
             let layer = zi (next t) in let ty = zi (next t) in let e = parse_endt (next t) in
             let w = zi (next t) in let sw = next t = "1" in let e0 = zi (next t) in let e1 = zi (next t) in
             let n = int_of_string (next t) in let pts = parse_pts t n in let pr = parse_props t in
             hs := { h_layer = layer; h_type = ty; h_end = e; h_width = w; h_scale_width = sw;
                     h_ext = (e0, e1); h_pts = pts; h_props = pr } :: !hs
         | "R" ->
             let name = hexs_to_bytes (next t) in let x = zi (next t) in let y = zi (next t) in
             let refl = next t = "1" in let mag = parse_real (next t) in let rot = parse_real (next t) in
             let rep = (match next t with
               | "-" -> None
               | c -> let cols = zi c in let rows = zi (next t) in let reg = next t = "1" in
                      let x2 = zi (next t) in let y2 = zi (next t) in let x3 = zi (next t) in let y3 = zi (next t) in
                      Some { g_cols = cols; g_rows = rows; g_regular = reg; g_p2 = (x2, y2); g_p3 = (x3, y3) }) in
             let pr = parse_props t in
             rs := { r_name = name; r_origin = (x, y); r_refl = refl; r_mag = mag; r_rot = rot;
                     r_rep = rep; r_props = pr } :: !rs
         | "T" ->
             let layer = zi (next t) in let ty = zi (next t) in let text = hexs_to_bytes (next t) in
             let x = zi (next t) in let y = zi (next t) in let anchor = n_of_int (int_of_string (next t)) in
             let refl = next t = "1" in let mag = parse_real (next t) in let rot = parse_real (next t) in
             let pr = parse_props t in
             ls := { l_layer = layer; l_type = ty; l_text = text; l_origin = (x, y); l_anchor = anchor;
                     l_refl = refl; l_mag = mag; l_rot = rot; l_props = pr } :: !ls
         | x -> failwith ("unknown element " ^ x));
        loop () in
  loop ();
  { c_name = nm; c_polys = List.rev !ps; c_paths = List.rev !hs; c_refs = List.rev !rs; c_labels = List.rev !ls }

(* ---- dump (loaded form), as ocaml/gds_driver.ml *)
let dump_props (ps : gprops) =
  " k " ^ string_of_int (List.length ps) ^
  String.concat "" (List.map (fun (a, v) -> " " ^ string_of_int (int_of_n a) ^ " " ^ bytes_to_hexs v) ps)
let dump_pts pts = String.concat "" (List.map (fun (x, y) -> " " ^ zs x ^ " " ^ zs y) pts)
let endn = function EFlush -> "0" | ERound -> "1" | EHalf -> "2" | EExt -> "3"
let b01 b = if b then "1" else "0"
let tagz (z : z) : string = let i = int_of_z z in string_of_int (if i < 0 then i + 4294967296 else i)

let dump_lib (l : glib) : string =
  let b = Buffer.create 1024 in
  Buffer.add_string b ("LIB " ^ bytes_to_hexs l.g_name);
  List.iter (fun c ->
    Buffer.add_string b (" CELL " ^ bytes_to_hexs c.c_name);
    List.iter (fun p -> Buffer.add_string b (" P " ^ tagz p.p_layer ^ " " ^ tagz p.p_type ^ " " ^ string_of_int (List.length p.p_pts) ^
                                            dump_pts p.p_pts ^ dump_props p.p_props)) c.c_polys;
    List.iter (fun h ->
      let (e0, e1) = (match h.h_end with EExt -> h.h_ext | _ -> (Z0, Z0)) in
      Buffer.add_string b (" H " ^ tagz h.h_layer ^ " " ^ tagz h.h_type ^ " " ^ endn h.h_end ^ " " ^ zs h.h_width ^ " " ^
                           b01 h.h_scale_width ^ " " ^ zs e0 ^ " " ^ zs e1 ^ " " ^
                           string_of_int (List.length h.h_pts) ^ dump_pts h.h_pts ^ dump_props h.h_props)) c.c_paths;
    List.iter (fun r ->
      let (x, y) = r.r_origin in
      let rep = (match r.r_rep with
        | None -> "-"
        | Some g -> let (x2, y2) = g.g_p2 and (x3, y3) = g.g_p3 in
            zs g.g_cols ^ " " ^ zs g.g_rows ^ " " ^ b01 g.g_regular ^ " " ^ zs x2 ^ " " ^ zs y2 ^ " " ^ zs x3 ^ " " ^ zs y3) in
      Buffer.add_string b (" R " ^ bytes_to_hexs r.r_name ^ " " ^ zs x ^ " " ^ zs y ^ " " ^ b01 r.r_refl ^ " " ^
                           zs (real_scaled r.r_mag) ^ " " ^ zs (real_scaled r.r_rot) ^ " " ^ rep ^ dump_props r.r_props)) c.c_refs;
    List.iter (fun t ->
      let (x, y) = t.l_origin in
      Buffer.add_string b (" T " ^ tagz t.l_layer ^ " " ^ tagz t.l_type ^ " " ^ bytes_to_hexs t.l_text ^ " " ^ zs x ^ " " ^ zs y ^ " " ^
                           string_of_int (int_of_n t.l_anchor) ^ " " ^ b01 t.l_refl ^ " " ^ zs (real_scaled t.l_mag) ^ " " ^
                           zs (real_scaled t.l_rot) ^ dump_props t.l_props)) c.c_labels) l.g_cells;
  Buffer.contents b

let status = function
  | Ok _ -> "ok" | ErrEof -> "ERR 12" | ErrInvalid -> "ERR 14" | ErrOverflow -> "ERR 8" | Crash -> "CRASH" | Hang -> "HANG"

(* ---- sections of a session payload *)
let split_sections (s : string) : string list =
  (* " ; " separates sections; no token contains ';' *)
  List.filter (fun x -> x <> "") (List.map String.trim (String.split_on_char ';' s))

let rec firstn_list n l = if n <= 0 then [] else match l with [] -> [] | x :: t -> x :: firstn_list (n - 1) t

let run_session (payload : string) : string =
  let ts = ref [] and writers = ref [] and libmode = ref false in
  let heap = ref empty_heap and bases = ref [] in
  let ops = ref [] in
  List.iter (fun sec ->
    let t = { l = words sec } in
    match next t with
    | "T" -> ts := List.map zi t.l
    | "W" | "L" as k ->
        if k = "L" then libmode := true;
        let name = hexs_to_bytes (next t) in
        let u0 = n_of_hex (next t) in let u1 = n_of_hex (next t) in let mp = n_of_hex (next t) in
        writers := !writers @ [(name, { gw_units = (u0, u1); gw_max_points = mp; gw_ts = !ts })]
    | "F" ->
        let bs = bytes_of_hex (next t) in
        let keep = int_of_n (n_of_hex (next t)) in
        (match read_rawcells_model bs with
         | Ok res ->
             let base = List.length (!heap).rh_cells in
             bases := !bases @ [base];
             heap := heap_add_file !heap (firstn_list keep bs) res
         | _ -> failwith "read_rawcells_model rejects a source file")
    | "C" ->
        let w = int_of_string (next t) in
        let c = parse_cell t in
        ops := !ops @ [(nat_of_int w, WCell c)]
    | "R" ->
        let w = int_of_string (next t) in
        let f = int_of_string (next t) in let i = int_of_string (next t) in
        ops := !ops @ [(nat_of_int w, WRaw (nat_of_int (List.nth !bases f + i)))]
    | x -> failwith ("unknown section " ^ x)) (split_sections payload);
  let errtxt es = if es = [] then "-" else String.concat "" (List.map b01 es) in
  if !libmode then begin
    let (name, w) = List.hd !writers in
    let cells = List.concat (List.map (fun (_, op) -> match op with WCell c -> [c] | _ -> []) !ops) in
    let raws = List.concat (List.map (fun (_, op) -> match op with WRaw r -> [r] | _ -> []) !ops) in
    match library_write_gds_model name w.gw_units w.gw_max_points w.gw_ts cells raws !heap with
    | ROk ((_, out), es) -> "E " ^ b01 (List.exists (fun e -> e) es) ^ " ; OUT " ^ hex_of_bytes out
    | RCrash -> "CRASH"
    | RFracture -> "FRACTURE"
  end else
    match session_run !writers !heap !ops with
    | ROk ((h', files), es) ->
        "E " ^ errtxt es ^ " OPEN " ^ string_of_int (int_of_n (open_sources h')) ^
        String.concat "" (List.map (fun f -> " ; OUT " ^ hex_of_bytes f) files)
    | RCrash -> "CRASH"
    | RFracture -> "FRACTURE"

let () =
  iter_cases Sys.argv.(1) (fun id kind payload ->
    try
    match kind with
    | "ses" | "lib" -> out id "M" (run_session payload)
    | "dec" ->
        let bs = bytes_of_hex payload in
        (match read_gds_model None bs with
         | Ok l -> out id "M" (dump_lib l)
         | o -> out id "M" (status o));
        (match spec_decode bs with
         | Some l -> out id "S" (dump_lib l)
         | None -> out id "S" "REJECTED-BY-STRICT-DECODER")
    | "clo" ->
        (match words payload with
         | [hx; root] ->
             let bs = bytes_of_hex hx in
             (match read_rawcells_model bs with
              | Ok res ->
                  let h = heap_add_file empty_heap bs res in
                  let txt = (match raw_closure h [nat_of_int (int_of_string root)] with
                    | Some l -> "CLOSURE" ^ String.concat "" (List.map (fun x -> " " ^ string_of_int x) (List.sort compare (List.map int_of_nat l)))
                    | None -> "NO-END") in
                  out id "M" txt; out id "S" txt
              | o -> out id "M" (status o))
         | _ -> out id "M" "bad-case")
    | _ -> out id "M" "-"
    with Failure m -> out id "M" ("driver-failure " ^ m))
