(* C04W model driver: parses the library text of the harness (harness/c04w.cpp, grammar in its header) into the
   writer-side library of coq/OasisWrite.v and prints the bytes of the extracted write_oas_model (M line).
   With a second argument "S" it also runs the extracted strict decoder on the model's bytes and prints whether it
   returns view_w (the statement of oas_writer_conforms_lemma, evaluated on this case).
   Kind "wrd" (payload "<seed> <variant> | dr dt <library text>"): the same with the extracted write_oas_model_d of
   coq/OasisWriteDetect.v under the flag word (dr, dt) = (DETECT_RECTANGLES, DETECT_TRAPEZOIDS); with "S" the strict decoder
   must return view_w_d (oas_writer_conforms_d_lemma evaluated on the case). *)
open C04w
open Conv

exception Parse of string

let toks = ref [||]
let pos = ref 0
let next () =
  if !pos >= Array.length !toks then raise (Parse "unexpected end");
  let t = (!toks).(!pos) in incr pos; t
let num () = n_of_hex (next ())
let znum () = z_of_hex (next ())
let count () = int_of_n (num ())
let bytes () = let t = next () in if t = "-" then [] else bytes_of_hex t
let rec times n f = if n <= 0 then [] else let x = f () in x :: times (n - 1) f

let value () =
  match next () with
  | "U" -> VUInt (num ())
  | "I" -> VInt (znum ())
  | "R" -> VReal (num ())
  | "S" -> VStr (bytes ())
  | t -> raise (Parse ("value kind " ^ t))
let props () =
  let n = count () in
  times n (fun () -> let name = bytes () in let nv = count () in let vs = times nv value in (name, vs))
let point () = let x = znum () in let y = znum () in (x, y)
let rep () =
  match next () with
  | "N" -> WNone
  | "R" -> let c = num () in let r = num () in let sx = znum () in let sy = znum () in WRect (c, r, sx, sy)
  | "G" -> let c = num () in let r = num () in let v1 = point () in let v2 = point () in WReg (c, r, v1, v2)
  | "E" -> let n = count () in WExpl (times n point)
  | "X" -> let n = count () in WExplX (times n znum)
  | "Y" -> let n = count () in WExplY (times n znum)
  | t -> raise (Parse ("repetition kind " ^ t))
let points () = let n = count () in times n point

let poly () =
  let layer = num () in let ty = num () in let pts = points () in let r = rep () in let ps = props () in
  { py_layer = layer; py_type = ty; py_pts = pts; py_rep = r; py_props = ps }
let pel () =
  let layer = num () in let ty = num () in let hw = num () in
  let e = (match next () with
    | "F" -> WE_flush | "H" -> WE_half
    | "E" -> let a = znum () in let b = znum () in WE_ext (a, b)
    | t -> raise (Parse ("end kind " ^ t))) in
  { pe_layer = layer; pe_type = ty; pe_hw = hw; pe_end = e }
let path () =
  let n = count () in let els = times n pel in let pts = points () in let r = rep () in let ps = props () in
  { ph_els = els; ph_pts = pts; ph_rep = r; ph_props = ps }
let reference () =
  let name = bytes () in let x = znum () in let y = znum () in let mag = num () in let rot = num () in
  let q = (let t = next () in if t = "-" then None else Some (z_of_hex t)) in
  let flip = (next () = "1") in let r = rep () in let ps = props () in
  { rf_name = name; rf_x = x; rf_y = y; rf_mag = mag; rf_rot = rot; rf_quarter = q; rf_flip = flip; rf_rep = r;
    rf_props = ps }
let label () =
  let text = bytes () in let layer = num () in let ty = num () in let x = znum () in let y = znum () in
  let r = rep () in let ps = props () in
  { lb_text = text; lb_layer = layer; lb_type = ty; lb_x = x; lb_y = y; lb_rep = r; lb_props = ps }
let cell () =
  let name = bytes () in
  let np = count () in let polys = times np poly in
  let nh = count () in let paths = times nh path in
  let nr = count () in let refs = times nr reference in
  let nl = count () in let labels = times nl label in
  let ps = props () in
  { cl_name = name; cl_polys = polys; cl_paths = paths; cl_refs = refs; cl_labels = labels; cl_props = ps }
let library () =
  let cfg = (next () = "1") in
  let u = num () in
  let ps = props () in
  let nc = count () in let cells = times nc cell in
  (cfg, { li_unit = u; li_props = ps; li_cells = cells })

(* the geometry record Polygon::to_oas selects under the flag word, as text (argument "K": statistics of a run) *)
let record_kind f (p : wpoly) =
  match fst (geom_d (fst f) (snd f) p) with
  | code :: _ :: _ ->
      let c = int_of_n code in
      if c = 20 then (match snd (geom_d (fst f) (snd f) p) with
                      | E_rect (_, _, w, h, _, _, _) -> if w = h then "square" else "rectangle"
                      | _ -> "?")
      else if c = 21 then "polygon"
      else if c = 26 then (match snd (geom_d (fst f) (snd f) p) with
                           | E_ctrap (_, _, ty, _, _, _, _, _) -> "ctrapezoid" ^ string_of_int (int_of_n ty)
                           | _ -> "?")
      else (match snd (geom_d (fst f) (snd f) p) with
            | E_trap (v, _, _, _, _, _, _, _, _, _) -> "trapezoid" ^ string_of_int c ^ (if v then "v" else "h")
            | _ -> "?")
  | _ -> "?"

let () =
  let check_spec = Array.length Sys.argv > 2 && Sys.argv.(2) = "S" in
  let kinds = Array.length Sys.argv > 2 && Sys.argv.(2) = "K" in
  iter_cases Sys.argv.(1) (fun id kind payload ->
    match kind with
    | "wr" | "wrd" ->
        (try
          let text = (match String.index_opt payload '|' with
            | Some i -> String.sub payload (i + 1) (String.length payload - i - 1)
            | None -> payload) in
          toks := Array.of_list (words text);
          pos := 0;
          let flags = if kind = "wrd" then (let dr = (next () = "1") in let dt = (next () = "1") in Some (dr, dt)) else None in
          let (cfg, l) = library () in
          if !pos <> Array.length !toks then raise (Parse "trailing words");
          let bs = (match flags with None -> write_oas_model cfg l | Some f -> write_oas_model_d cfg f l) in
          out id "M" (hex_of_bytes bs);
          if kinds then
            (match flags with
             | Some f -> List.iter (fun c -> List.iter (fun p -> out id "K" (record_kind f p)) c.cl_polys) l.li_cells
             | None -> ());
          if check_spec then
            out id "S" (match spec_oas_decode bs with
                        | Some lay ->
                            let want = (match flags with None -> view_w cfg l | Some f -> view_w_d cfg f l) in
                            if lay = want then "conforms" else "decodes-differently"
                        | None -> "rejected")
        with Parse m -> out id "M" ("bad-case " ^ m))
    | _ -> ())
