(* C15 / unit c15_hobby: runs the extracted binary64 instances of the Coq models of gauss_jordan_elimination and
   hobby_interpolation (coq/Hobby.v, coq/HobbyInst.v) on the harness's cases and prints the same text as
   harness/c15_hobby.cpp; for `gj` cases also the specification line from the exact-rational instance. *)
open C15_hobby
open Conv

(* 16 hex digits; every NaN prints as "nan" *)
let dbl_text (b : n) : string =
  let h = hex_of_n b in
  let h = String.make (max 0 (16 - String.length h)) '0' ^ h in
  let v = Int64.of_string ("0x" ^ h) in
  let ex = Int64.to_int (Int64.logand (Int64.shift_right_logical v 52) 0x7FFL) in
  let frac = Int64.logand v 0xFFFFFFFFFFFFFL in
  if ex = 0x7FF && frac <> 0L then "nan" else h

let int_of_hex s = int_of_string ("0x" ^ s)
let join l = String.concat "," l

let rec take k l = if k = 0 then [] else match l with [] -> [] | h :: t -> h :: take (k - 1) t
let rec drop k l = if k = 0 then l else match l with [] -> [] | _ :: t -> drop (k - 1) t
let rec chunks k l = match l with [] -> [] | _ -> take k l :: chunks k (drop k l)

let outcome_word = function
  | Crash -> "crash" | Hang -> "hang" | _ -> "error"

let () =
  iter_cases Sys.argv.(1) (fun id kind payload ->
    match kind with
    | "gj" ->
        (match words payload with
         | r :: c :: ents ->
             let rows = int_of_hex r and cols = int_of_hex c in
             let m = chunks cols (List.map n_of_hex ents) in
             (match gj64_bits (nat_of_int rows) (nat_of_int cols) m with
              | Ok (((m', piv), res), x) ->
                  out id "M" (Printf.sprintf "res=%x piv=%s x=%s m=%s" (int_of_nat res)
                                (join (List.map (fun p -> Printf.sprintf "%x" (int_of_nat p)) piv))
                                (join (List.map dbl_text x))
                                (join (List.map dbl_text (List.concat m'))))
              | o -> out id "M" (outcome_word o));
             (match gj_exact_bits (nat_of_int rows) (nat_of_int cols) m with
              | Some ((piv, res), x) ->
                  out id "S" (Printf.sprintf "S:res=%x piv=%s x=%s" (int_of_nat res)
                                (join (List.map (fun p -> Printf.sprintf "%x" (int_of_nat p)) piv))
                                (join (List.map dbl_text x)))
              | None -> ())
         | _ -> out id "M" "bad-case")
    | "hobby" ->
        (* count cycle ic fc | per point: x y ang c tu tv | A k (y x r)* | S k (x r)* | C k (x r)* *)
        (match words payload with
         | cnt :: cyc :: ic :: fc :: rest ->
             let count = int_of_hex cnt in
             let per = chunks 6 (take (6 * count) rest) in
             let rest = drop (6 * count) rest in
             let pts = List.map (fun w -> (n_of_hex (List.nth w 0), n_of_hex (List.nth w 1))) per in
             let ang = List.map (fun w -> n_of_hex (List.nth w 2)) per in
             let ang_c = List.map (fun w -> List.nth w 3 <> "0") per in
             let tens = List.map (fun w -> (n_of_hex (List.nth w 4), n_of_hex (List.nth w 5))) per in
             let table tag width rest =
               (match rest with
                | t :: k :: more when t = tag ->
                    let k = int_of_hex k in
                    (chunks width (List.map n_of_hex (take (width * k) more)), drop (width * k) more)
                | _ -> failwith "bad table") in
             let (ta, rest) = table "A" 3 rest in
             let (ts, rest) = table "S" 2 rest in
             let (tc, _) = table "C" 2 rest in
             let ta = List.map (fun w -> ((List.nth w 0, List.nth w 1), List.nth w 2)) ta in
             let ts = List.map (fun w -> (List.nth w 0, List.nth w 1)) ts in
             let tc = List.map (fun w -> (List.nth w 0, List.nth w 1)) tc in
             (match hobby64_bits ta ts tc (nat_of_int count) pts ang ang_c tens (n_of_hex ic) (n_of_hex fc) (cyc <> "0") with
              | Ok (((theta, phi), ctrl), sk) ->
                  if int_of_nat sk > 0 then out id "X" (Printf.sprintf "skipped=%d" (int_of_nat sk));
                  out id "M" (Printf.sprintf "theta=%s phi=%s ctrl=%s" (join (List.map dbl_text theta)) (join (List.map dbl_text phi))
                                (join (List.map (fun ((ax, ay), (bx, by)) ->
                                         String.concat "," [dbl_text ax; dbl_text ay; dbl_text bx; dbl_text by]) ctrl)))
              | o -> out id "M" (outcome_word o))
         | _ -> out id "M" "bad-case")
    | _ -> ())
