(* C04 driver: decodes OASIS byte streams with the extracted specification decoder and prints the
   canonical layout dump (same text as harness/oas_layout.hpp library_dump) as the S line.
   cases: kind "gdstk" (a file written by gdstk, CBLOCKs already inflated by the harness) and kind "spec"
   (a file produced by the harness's specification-level encoder); payload = hex bytes of the file. *)
open C04
open Conv

let rec int_of_z_safe z = int_of_z z

let plain_name (s : string) =
  String.length s > 0 &&
  (let ok = ref true in
   String.iter (fun c -> match c with
     | 'a'..'z' | 'A'..'Z' | '0'..'9' | '_' | '.' | '$' -> ()
     | _ -> ok := false) s; !ok)

let string_of_bytes (l : n list) : string =
  let b = Buffer.create 16 in
  List.iter (fun x -> Buffer.add_char b (Char.chr (int_of_n x land 255))) l; Buffer.contents b

let hex_of_string (s : string) : string =
  let b = Buffer.create 32 in
  String.iter (fun c -> Buffer.add_string b (Printf.sprintf "%02x" (Char.code c))) s; Buffer.contents b

let show_str (s : string) = if plain_name s then s else "0x" ^ hex_of_string s

let name_of (r : nref) : string = match r with NName s -> string_of_bytes s | NNum _ -> "<unresolved>"

let standard_names = ["S_MAX_SIGNED_INTEGER_WIDTH"; "S_MAX_UNSIGNED_INTEGER_WIDTH"; "S_MAX_STRING_LENGTH";
                      "S_POLYGON_MAX_VERTICES"; "S_PATH_MAX_VERTICES"; "S_TOP_CELL";
                      "S_BOUNDING_BOXES_AVAILABLE"; "S_BOUNDING_BOX"; "S_CELL_OFFSET"]

(* unsigned 64-bit value as the nearest double (what (double)uint64_t gives) *)
let int64_of_n (v : n) : int64 =
  let rec pos p = match p with
    | XH -> 1L
    | XO q -> Int64.shift_left (pos q) 1
    | XI q -> Int64.logor (Int64.shift_left (pos q) 1) 1L in
  match v with N0 -> 0L | Npos p -> pos p
let float_of_n (v : n) : float =
  let x = int64_of_n v in
  if Int64.compare x 0L >= 0 then Int64.to_float x
  else
    let half = Int64.logor (Int64.shift_right_logical x 1) (Int64.logand x 1L) in
    Int64.to_float half *. 2.0

let float_of_real (r : real) : float =
  let sg neg f = if neg then -. f else f in
  match r with
  | RInt (neg, v) -> sg neg (float_of_n v)
  | RRecip (neg, v) -> if neg then (-1.0) /. float_of_n v else 1.0 /. float_of_n v
  | RRatio (neg, a, b) -> if neg then (-. (float_of_n a)) /. float_of_n b else float_of_n a /. float_of_n b
  | RF32 bs ->
      let v = List.fold_right (fun b acc -> Int32.logor (Int32.shift_left acc 8) (Int32.of_int (int_of_n b))) bs 0l in
      Int32.float_of_bits v
  | RF64 bs ->
      let v = List.fold_right (fun b acc -> Int64.logor (Int64.shift_left acc 8) (Int64.of_int (int_of_n b))) bs 0L in
      Int64.float_of_bits v

let hex_dbl (f : float) = Printf.sprintf "%016Lx" (Int64.bits_of_float f)

let props_text (ps : prop list) : string =
  let items = List.filter_map (fun p ->
    let nm = name_of p.p_name in
    if List.mem nm standard_names then None
    else
      Some (show_str nm ^ "=" ^ String.concat "," (List.map (fun v -> match v with
        | PV_uint u -> "U" ^ hex_of_n u
        | PV_int i -> "I" ^ hex_of_z i
        | PV_real r -> "R" ^ hex_dbl (float_of_real r)
        | PV_str (_, s) -> "S" ^ hex_of_bytes s
        | PV_ref (_, k) -> "?" ^ hex_of_n k) p.p_vals))) ps in
  if items = [] then "-" else String.concat ";" items

let hex_i (i : int) = if i < 0 then "-" ^ Printf.sprintf "%x" (- i) else Printf.sprintf "%x" i

let pts_text (l : (int * int) list) =
  String.concat " " (Printf.sprintf "%x" (List.length l) :: List.map (fun (x, y) -> hex_i x ^ " " ^ hex_i y) l)

let ipt ((x, y) : z * z) : int * int = (int_of_z x, int_of_z y)

let rec dedup = function
  | a :: (b :: _ as t) -> if a = b then dedup t else a :: dedup t
  | l -> l

let canon_cycle (l : (int * int) list) : (int * int) list =
  let p = dedup l in
  let rec strip p = match p with
    | _ :: _ :: _ when List.hd p = List.nth p (List.length p - 1) -> strip (List.rev (List.tl (List.rev p)))
    | _ -> p in
  let p = strip p in
  let a = Array.of_list p in
  let n = Array.length a in
  if n = 0 then [] else begin
    let best = ref None in
    for dir = 0 to 1 do
      for s = 0 to n - 1 do
        let c = List.init n (fun i -> if dir = 1 then a.((s + n - i) mod n) else a.((s + i) mod n)) in
        match !best with
        | None -> best := Some c
        | Some b -> if compare c b < 0 then best := Some c
      done
    done;
    match !best with Some b -> b | None -> []
  end

let canon_line (l : (int * int) list) : (int * int) list =
  let p = ref (dedup l) in
  let changed = ref true in
  while !changed do
    changed := false;
    let a = Array.of_list !p in
    let n = Array.length a in
    (try
      for i = 1 to n - 2 do
        let (x0, y0) = a.(i - 1) and (x1, y1) = a.(i) and (x2, y2) = a.(i + 1) in
        let ax = x1 - x0 and ay = y1 - y0 and bx = x2 - x1 and by = y2 - y1 in
        (* the harness uses 128-bit products; coordinates here stay far below 2^31 per difference *)
        if ax * by - ay * bx = 0 && ax * bx + ay * by > 0 then begin
          p := List.filteri (fun k _ -> k <> i) !p;
          changed := true;
          raise Exit
        end
      done
    with Exit -> ())
  done;
  !p

let rep_text (r : srep option) : string =
  match r with
  | None -> "-"
  | Some rp ->
      let offs = List.map ipt (rep_offsets rp) in
      if List.length offs <= 1 then "-"
      else
        let s = List.sort compare offs in
        String.concat " " (Printf.sprintf "%x" (List.length s) :: List.map (fun (x, y) -> hex_i x ^ " " ^ hex_i y) s)

let microdeg (deg : float) : int =
  let v = Float.to_int (Float.round (deg *. 1e6)) in
  let m = v mod 360000000 in
  if m < 0 then m + 360000000 else m

let elem_line ((e, ps) : element * prop list) : string =
  let pr = props_text ps in
  match e with
  | E_circle (l, d, rad, x, y, r) ->
      "POLY " ^ hex_of_n l ^ " " ^ hex_of_n d ^ "|circle " ^ hex_of_z x ^ " " ^ hex_of_z y ^ " " ^ hex_of_n rad ^ "|" ^
      rep_text r ^ "|" ^ pr
  | E_rect (l, d, _, _, _, _, r) | E_poly (l, d, _, _, _, r) | E_trap (_, l, d, _, _, _, _, _, _, r)
  | E_ctrap (l, d, _, _, _, _, _, r) ->
      "POLY " ^ hex_of_n l ^ " " ^ hex_of_n d ^ "|" ^ pts_text (canon_cycle (List.map ipt (elem_points e))) ^ "|" ^
      rep_text r ^ "|" ^ pr
  | E_path (l, d, hw, es, ee, _, _, _, r) ->
      "PATH " ^ hex_of_n l ^ " " ^ hex_of_n d ^ "|" ^ hex_of_n hw ^ " " ^ hex_of_z es ^ " " ^ hex_of_z ee ^ "|" ^
      pts_text (canon_line (List.map ipt (elem_points e))) ^ "|" ^ rep_text r ^ "|" ^ pr
  | E_text (s, l, t, x, y, r) ->
      "LABEL " ^ hex_of_n l ^ " " ^ hex_of_n t ^ "|" ^ hex_of_z x ^ " " ^ hex_of_z y ^ " " ^ show_str (name_of s) ^ "|" ^
      rep_text r ^ "|" ^ pr
  | E_place (c, tr, flip, x, y, r) ->
      let (md, mag) = match tr with
        | PT_quarter aa -> (int_of_n aa * 90000000, 1.0)
        | PT_general (mag, ang) ->
            ((match ang with Some a -> microdeg (float_of_real a) | None -> 0),
             (match mag with Some m -> float_of_real m | None -> 1.0)) in
      "REF " ^ show_str (name_of c) ^ "|" ^ hex_of_z x ^ " " ^ hex_of_z y ^ " " ^ hex_i md ^ " " ^ hex_dbl mag ^ " " ^
      (if flip then "1" else "0") ^ "|" ^ rep_text r ^ "|" ^ pr

let dump (l : layout) : string =
  let cells = List.sort (fun a b -> compare (name_of a.c_name) (name_of b.c_name)) l.l_cells in
  let lines =
    ("LIB|" ^ props_text l.l_props) ::
    List.concat_map (fun c ->
      ("CELL " ^ show_str (name_of c.c_name) ^ "|" ^ props_text c.c_props) ::
      List.sort compare (List.map elem_line c.c_elems)) cells in
  String.concat " ;; " lines ^ " ;; UNIT " ^ hex_dbl (float_of_real l.l_unit)

let () =
  iter_cases Sys.argv.(1) (fun id kind payload ->
    match kind with
    | "gdstk" | "spec" ->
        (* the byte string is the last word of the payload (generator parameters come first) *)
        let ws = words payload in
        let bs = bytes_of_hex (List.nth ws (List.length ws - 1)) in
        (match spec_oas_decode bs with
         | Some l -> out id "S" (dump l)
         | None -> out id "S" "invalid")
    | "detect" ->
        (match List.map z_of_hex (words payload) with
         | _ :: coords ->
             let rec pairs = function a :: b :: t -> (a, b) :: pairs t | _ -> [] in
             let pts = pairs coords in
             let rect = match is_rectangle pts with
               | Some ((cx, cy), (sx, sy)) -> "R " ^ hex_of_z cx ^ " " ^ hex_of_z cy ^ " " ^ hex_of_z sx ^ " " ^ hex_of_z sy
               | None -> "R-" in
             let trap = match is_trapezoid pts with
               | Some ((((ty, (cx, cy)), (sx, sy)), da), db) ->
                   let t = int_of_n ty in
                   "T " ^ string_of_int t ^ " " ^ hex_of_z cx ^ " " ^ hex_of_z cy ^ " " ^ hex_of_z sx ^ " " ^ hex_of_z sy ^
                   (if t > 25 then " " ^ hex_of_z da ^ " " ^ hex_of_z db else "")
               | None -> "T-" in
             out id "M" (rect ^ " ; " ^ trap)
         | [] -> out id "M" "bad-case")
    | _ -> ())
