(* C07 driver: the extracted exact oracle (PathOracle.v) classifies the sample points of every
   `region` case and checks them against the winding number of the implementation's outline; the
   extracted bookkeeping model (PathBook.v) replays the `counts` cases. *)
open C07_flexpath
open Conv

let field payload name =
  (* payload = a;b;c with items name=value *)
  let items = String.split_on_char ';' payload in
  let pre = name ^ "=" in
  let n = String.length pre in
  let rec find = function
    | [] -> ""
    | it :: tl -> if String.length it >= n && String.sub it 0 n = pre then String.sub it n (String.length it - n) else find tl in
  find items

let zs s = List.map z_of_hex (words s)
let rec pairs = function a :: b :: tl -> (a, b) :: pairs tl | _ -> []
let rec planes = function
  | ex :: ey :: tx :: ty :: m :: tl -> (((ex, ey), (tx, ty)), m) :: planes tl
  | _ -> []

let region id payload =
  let band = field payload "band" = "1" in
  let outline = pairs (zs (field payload "O")) in
  let centre = pairs (zs (field payload "C")) in
  let cext = pairs (zs (field payload "E")) in
  let rc = zs (field payload "RC") in
  let rf = zs (field payload "RF") in
  let pls = planes (zs (field payload "PL")) in
  let cap name =
    match String.split_on_char '|' (field payload name) with
    | [pl; rest; rr] -> (match planes (zs pl) with [pl] -> [((pl, pairs (zs rest)), zs rr)] | _ -> [])
    | _ -> [] in
  let caps = cap "K0" @ cap "K1" in
  let smp = pairs (zs (field payload "S")) in
  (* one pass: class of every sample (extracted classify), winding number only where a claim is
     made, verdict by the extracted function; ncov / nfar are informational (tag N, not compared) *)
  let ncov = ref 0 and nfar = ref 0 and bad = ref None and i = ref 0 in
  List.iter (fun p ->
    let c = classify band centre cext rc rf pls caps p in
    (match c with Z0 -> () | _ ->
      if int_of_z c = 1 then incr ncov else incr nfar;
      let v = verdict c (wn outline p) in
      (match v, !bad with
       | Z0, _ -> ()
       | _, None -> bad := Some (!i, int_of_z v)
       | _ -> ()));
    incr i) smp;
  out id "N" (Printf.sprintf "samples=%d must-cover=%d must-not-cover=%d outline=%d centre=%d"
                (List.length smp) !ncov !nfar (List.length outline) (List.length centre));
  match !bad with
  | None -> out id "S" "ok"
  | Some (i, c) ->
      let what = if c = 1 then "uncovered-point-inside-half-width" else "covered-point-beyond-reach" in
      out id "S" (Printf.sprintf "bad sample %d %s" i what)

(* counts: "g=..;nel;w:k;w:k;..." *)
let wrappers = [| W_horizontal; W_horizontal_array; W_vertical; W_vertical_array; W_segment; W_segment_array;
                  W_cubic; W_cubic_smooth; W_quadratic; W_quadratic_smooth; W_quadratic_smooth_array; W_bezier;
                  W_interpolation; W_arc; W_turn; W_parametric; W_commands |]

let q_of_int i = { qnum = z_of_int i; qden = XH }

let counts id payload =
  match String.split_on_char ';' payload with
  | _ :: "after-to_polygons" :: _ -> ()
  | _ :: nel :: calls ->
      let n = int_of_string nel in
      let one = q_of_int 1 and zero = q_of_int 0 in
      let st = ref (finit (zero, zero) one (List.init n (fun _ -> one)) (List.init n (fun _ -> zero))) in
      let b = Buffer.create 64 in
      let next = ref 1 in
      let crashed = ref false in
      List.iter (fun c ->
        if not !crashed then
        match String.split_on_char ':' c with
        | [w; k] ->
            let k = int_of_string k in
            let pts = List.init k (fun j -> (q_of_int (1000 * (!next + j)), zero)) in
            next := !next + k;
            (match construct wrappers.(int_of_string w) pts None None !st with
             | Ok s ->
                 st := s;
                 Buffer.add_string b (string_of_int (List.length (f_spine s)));
                 List.iter (fun e -> Buffer.add_string b (" " ^ string_of_int (List.length e))) (f_elems s);
                 Buffer.add_string b "|"
             | _ -> crashed := true; Buffer.add_string b "crash|")
        | _ -> ()) calls;
      out id "M" (Buffer.contents b)
  | _ -> ()

let () =
  iter_cases Sys.argv.(1) (fun id kind payload ->
    match kind with
    | "region" | "region_flagged" -> if field payload "O" <> "" then region id payload
    | "counts" -> counts id payload
    | _ -> ())
