(* conversions between text and the extracted positive / n / z types.
   bin/check prefixes this file with `open <ExtractedModule>` (each extraction defines its own
   copies of the numeric types).  Numbers travel as hexadecimal: no arithmetic is needed to parse
   or print them, so nothing here can disagree with Coq's arithmetic. *)
let hexval c = match c with
  | '0'..'9' -> Char.code c - 48 | 'a'..'f' -> Char.code c - 87 | 'A'..'F' -> Char.code c - 55
  | _ -> failwith ("bad hex digit " ^ String.make 1 c)

(* most significant digit first *)
let pos_of_bits (bits : bool list) : positive option =
  (* bits MSB first; drop leading zeros *)
  let rec drop = function false :: t -> drop t | l -> l in
  match drop bits with
  | [] -> None
  | _ :: t -> Some (List.fold_left (fun acc b -> if b then XI acc else XO acc) XH t)

let bits_of_hex (s : string) : bool list =
  let l = ref [] in
  String.iter (fun c -> let v = hexval c in
    l := (v land 1 = 1) :: (v land 2 = 2) :: (v land 4 = 4) :: (v land 8 = 8) :: !l) s;
  List.rev !l

let n_of_hex (s : string) : n =
  match pos_of_bits (bits_of_hex s) with None -> N0 | Some p -> Npos p

let z_of_hex (s : string) : z =
  if String.length s > 0 && s.[0] = '-' then
    (match pos_of_bits (bits_of_hex (String.sub s 1 (String.length s - 1))) with None -> Z0 | Some p -> Zneg p)
  else (match pos_of_bits (bits_of_hex s) with None -> Z0 | Some p -> Zpos p)

let rec bits_of_pos (p : positive) (acc : bool list) : bool list = (* returns MSB first *)
  match p with XH -> true :: acc | XO q -> bits_of_pos q (false :: acc) | XI q -> bits_of_pos q (true :: acc)

let hex_of_bits (bits : bool list) : string =
  (* bits MSB first *)
  let n = List.length bits in
  let pad = (4 - n mod 4) mod 4 in
  let bits = List.init pad (fun _ -> false) @ bits in
  let b = Buffer.create 16 in
  let rec go = function
    | a :: c :: d :: e :: t ->
        let v = (if a then 8 else 0) + (if c then 4 else 0) + (if d then 2 else 0) + (if e then 1 else 0) in
        Buffer.add_char b "0123456789abcdef".[v]; go t
    | [] -> ()
    | _ -> assert false in
  go bits; Buffer.contents b

let hex_of_pos p = hex_of_bits (bits_of_pos p [])
let hex_of_n = function N0 -> "0" | Npos p -> hex_of_pos p
let hex_of_z = function Z0 -> "0" | Zpos p -> hex_of_pos p | Zneg p -> "-" ^ hex_of_pos p

let rec int_of_pos p = match p with XH -> 1 | XO q -> 2 * int_of_pos q | XI q -> 2 * int_of_pos q + 1
let int_of_n = function N0 -> 0 | Npos p -> int_of_pos p
let int_of_z = function Z0 -> 0 | Zpos p -> int_of_pos p | Zneg p -> - (int_of_pos p)
let rec pos_of_int i = if i = 1 then XH else if i land 1 = 1 then XI (pos_of_int (i lsr 1)) else XO (pos_of_int (i lsr 1))
let n_of_int i = if i = 0 then N0 else Npos (pos_of_int i)
let z_of_int i = if i = 0 then Z0 else if i > 0 then Zpos (pos_of_int i) else Zneg (pos_of_int (-i))
let rec nat_of_int i = if i <= 0 then O else S (nat_of_int (i - 1))
let rec int_of_nat = function O -> 0 | S n -> 1 + int_of_nat n

(* byte lists as hex strings, two digits per byte *)
let bytes_of_hex (s : string) : n list =
  let n = String.length s / 2 in
  List.init n (fun i -> n_of_int (hexval s.[2*i] * 16 + hexval s.[2*i+1]))
let hex_of_bytes (l : n list) : string =
  String.concat "" (List.map (fun b -> Printf.sprintf "%02x" (int_of_n b)) l)

let split_on c s = String.split_on_char c s
let words s = List.filter (fun w -> w <> "") (split_on ' ' s)

(* iterate over "id \t kind \t payload" lines *)
let iter_cases file (f : string -> string -> string -> unit) =
  let ic = open_in file in
  (try while true do
    let line = input_line ic in
    match String.split_on_char '\t' line with
    | id :: kind :: payload :: _ -> f id kind payload
    | [id; kind] -> f id kind ""
    | _ -> ()
  done with End_of_file -> ());
  close_in ic

let out id tag v = print_string id; print_char '\t'; print_string tag; print_char '\t'; print_string v; print_char '\n'
