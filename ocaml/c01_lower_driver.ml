(* C01 / unit c01_lower: runs the extracted lowering model (coq/GdsLower.v) on the harness's libraries.
   Payload grammar (tokens separated by blanks; integers in hex, doubles as 16 hex digits of the bit pattern):
     lib   := "LIB" namehex u0 u1 scaling ncells {cell}
     cell  := "CELL" namehex npoly npath nlabel nref {poly} {path} {label} {ref}
     poly  := "P" layer type npts {x y} props rep
     path  := "H" scale_width tolsq nspine {x y} nels {layer type end hw extu extv} props rep
     label := "T" layer type texthex x y anchor refl mag rot props rep
     ref   := "R" namehex x y refl mag rot props rep
     props := "k" n {attr valhex}
     rep   := "n" | "r" cols rows sx sy | "g" cols rows v1x v1y v2x v2y | "e" n {x y} | "x" n {c} | "y" n {c}
     rot   := "z" | "q" m deg | "o" cnum cden snum sden deg | "d" cosbits sinbits deg
   kind lw:  M = "<error word> <one hex token per record of write_gds_model (lower L)>"
   kind pl:  M = placements denoted by the references of lower L (reader's interpretation, sorted per cell),
             S = placements the source references stand for, each rounded to the grid. *)
open C01_lower
open Conv

exception Bad of string

let toks : string list ref = ref []
let next () = match !toks with t :: tl -> toks := tl; t | [] -> raise (Bad "payload ends early")
let expect w = let t = next () in if t <> w then raise (Bad ("expected " ^ w ^ ", found " ^ t))
let nat_tok () = int_of_n (n_of_hex (next ()))
let z_tok () = z_of_hex (next ())
let n_tok () = n_of_hex (next ())
let q_tok () = q_of_dbl (n_of_hex (next ()))
let bool_tok () = match next () with "0" -> false | "1" -> true | t -> raise (Bad ("bool " ^ t))
let str_tok () = let t = next () in if t = "-" then [] else bytes_of_hex t
let rec times k f = if k <= 0 then [] else let x = f () in x :: times (k - 1) f
let vec_tok () = let x = q_tok () in let y = q_tok () in (x, y)

let props () : gprops =
  expect "k";
  let n = nat_tok () in
  times n (fun () -> let a = n_tok () in let v = str_tok () in (a, v))

let rep () : rep =
  match next () with
  | "n" -> RNone
  | "r" -> let c = n_tok () in let r = n_tok () in let sx = q_tok () in let sy = q_tok () in RRect (c, r, sx, sy)
  | "g" -> let c = n_tok () in let r = n_tok () in let v1 = vec_tok () in let v2 = vec_tok () in RReg (c, r, v1, v2)
  | "e" -> let n = nat_tok () in RExpl (times n vec_tok)
  | "x" -> let n = nat_tok () in RExplX (times n q_tok)
  | "y" -> let n = nat_tok () in RExplY (times n q_tok)
  | t -> raise (Bad ("rep " ^ t))

let rot () : srot =
  match next () with
  | "z" -> RotZero
  | "q" -> let m = z_tok () in let d = n_tok () in RotQuarter (m, d)
  | "o" -> let cn = z_tok () in let cd = n_tok () in let sn = z_tok () in let sd = n_tok () in let d = n_tok () in
           RotExact (q_of_frac cn cd, q_of_frac sn sd, d)
  | "d" -> let c = q_tok () in let s = q_tok () in let d = n_tok () in RotExact (c, s, d)
  | t -> raise (Bad ("rot " ^ t))

let send_of = function
  | "0" -> SFlush | "1" -> SRound | "2" -> SHalf | "3" -> SExt | "4" -> SSmooth | "5" -> SFunc
  | t -> raise (Bad ("end type " ^ t))

let poly () : spoly =
  expect "P";
  let la = z_tok () in let ty = z_tok () in
  let n = nat_tok () in let pts = times n vec_tok in
  let pr = props () in let rp = rep () in
  { sp_layer = la; sp_type = ty; sp_pts = pts; sp_props = pr; sp_rep = rp }

let path () : spath =
  expect "H";
  let sw = bool_tok () in let tol = q_tok () in
  let n = nat_tok () in let spine = times n vec_tok in
  let ne = nat_tok () in
  let els = times ne (fun () ->
    let la = z_tok () in let ty = z_tok () in let en = send_of (next ()) in
    let hw = q_tok () in let ext = vec_tok () in
    { se_layer = la; se_type = ty; se_end = en; se_hw = hw; se_ext = ext }) in
  let pr = props () in let rp = rep () in
  { sh_spine = spine; sh_tolsq = tol; sh_els = els; sh_scale_width = sw; sh_props = pr; sh_rep = rp }

let label () : slabel =
  expect "T";
  let la = z_tok () in let ty = z_tok () in let tx = str_tok () in
  let o = vec_tok () in let an = n_tok () in let rf = bool_tok () in let mg = n_tok () in let rt = rot () in
  let pr = props () in let rp = rep () in
  { sl_layer = la; sl_type = ty; sl_text = tx; sl_origin = o; sl_anchor = an; sl_refl = rf; sl_mag = mg; sl_rot = rt;
    sl_props = pr; sl_rep = rp }

let reference () : sref =
  expect "R";
  let nm = str_tok () in let o = vec_tok () in let rf = bool_tok () in let mg = n_tok () in let rt = rot () in
  let pr = props () in let rp = rep () in
  { sr_name = nm; sr_origin = o; sr_refl = rf; sr_mag = mg; sr_rot = rt; sr_props = pr; sr_rep = rp }

let cell () : scell =
  expect "CELL";
  let nm = str_tok () in
  let np = nat_tok () in let nh = nat_tok () in let nl = nat_tok () in let nr = nat_tok () in
  let ps = times np poly in let hs = times nh path in let ls = times nl label in let rs = times nr reference in
  { sc_name = nm; sc_polys = ps; sc_paths = hs; sc_labels = ls; sc_refs = rs }

let library (payload : string) : slib =
  toks := words payload;
  expect "LIB";
  let nm = str_tok () in let u0 = n_tok () in let u1 = n_tok () in let s = q_tok () in
  let nc = nat_tok () in
  let cs = times nc cell in
  if !toks <> [] then raise (Bad "trailing tokens");
  { su_name = nm; su_units = (u0, u1); su_scaling = s; su_cells = cs }

let ts = List.map z_of_int [2020; 6; 17; 11; 22; 33]

let err_word = function WNone -> "ok" | WEmptyPath -> "empty-path" | WUnofficial -> "unofficial" | WInvalidRep -> "invalid-repetition"

(* split a byte stream at the record lengths it declares: one hex token per record *)
let record_tokens (bs : n list) : string =
  let a = Array.of_list (List.map int_of_n bs) in
  let n = Array.length a in
  let b = Buffer.create (3 * n) in
  let pos = ref 0 in
  while !pos < n do
    let len = if !pos + 1 < n then a.(!pos) * 256 + a.(!pos + 1) else 0 in
    let len = if len < 4 || !pos + len > n then n - !pos else len in
    Buffer.add_char b ' ';
    for i = !pos to !pos + len - 1 do Buffer.add_string b (Printf.sprintf "%02x" a.(i)) done;
    pos := !pos + len
  done;
  Buffer.contents b

let name_hex (s : n list) = if s = [] then "-" else hex_of_bytes s

let placements_text (cells : (n list * (n list * (z * z) list) list) list) : string =
  String.concat " " (List.map (fun (cn, refs) ->
    let items = List.concat_map (fun (rn, pts) ->
      List.map (fun (x, y) -> name_hex rn ^ ":" ^ hex_of_z x ^ ":" ^ hex_of_z y) pts) refs in
    "CELL " ^ name_hex cn ^ " " ^ string_of_int (List.length items) ^
    String.concat "" (List.map (fun s -> " " ^ s) (List.sort compare items))) cells)

let () =
  iter_cases Sys.argv.(1) (fun id kind payload ->
    try
      match kind with
      | "lw" | "fo" | "fs" | "fc" ->
          let l = library payload in
          out id "M" (err_word (lower_err l) ^ record_tokens (write_gds_full ts l))
      | "pl" | "plo" | "pls" ->
          let l = library payload in
          let g = lower l in
          out id "M" (placements_text (List.map (fun c -> (c.c_name, cell_placements c)) g.g_cells));
          out id "S" (placements_text (List.map (fun c -> (c.sc_name, cell_spec_rounded l.su_scaling c)) l.su_cells))
      | _ -> ()
    with Bad m -> out id "M" ("bad-case " ^ m))
