(* C12 driver: the extracted, verified winding / distance oracle (coq/Winding.v, coq/GeomOracle.v)
   decides on the ACTUAL outputs of Polygon::fracture, gdstk::slice and write_gds/read_gds whether
   the pieces cover the original exactly once at every sample outside the guard band, respect the
   vertex limit and (slice) lie in their interval.  Prints  id S ok | bad <what>. *)
open C12_fracture
open Conv

type toks = { a : string array; mutable i : int }
let next t = let v = t.a.(t.i) in t.i <- t.i + 1; v
let expect t s = let v = next t in if v <> s then failwith ("expected " ^ s ^ " got " ^ v)
let int_tok t = int_of_string ("0x" ^ next t)
let z_tok t = z_of_hex (next t)
let poly_tok t : polygon =
  let n = int_tok t in
  let rec go k acc = if k = 0 then List.rev acc else
      let x = z_tok t in let y = z_tok t in go (k - 1) ((x, y) :: acc) in
  go n []
let group_tok t : polygon list =
  let n = int_tok t in
  let rec go k acc = if k = 0 then List.rev acc else let p = poly_tok t in go (k - 1) (p :: acc) in
  go n []

let pt (x, y) = "(" ^ hex_of_z x ^ "," ^ hex_of_z y ^ ")"
let z2 = z_of_int 2
let rec pow2 k = if k = 0 then z_of_int 1 else Z.mul z2 (pow2 (k - 1))
let used = ref 0 and total = ref 0

let why = function
  | 1 -> "point of the original in no piece" | 2 -> "point of the original in more than one piece"
  | 3 -> "point outside the original in a piece" | 4 -> "piece covers a point outside its interval" | _ -> "?"

let header t =
  expect t "S"; let _ = z_tok t in
  expect t "K"; let k = int_of_string (next t) in
  let unit = pow2 k in
  (unit, Z.add unit (z_of_int 1))

let filter_samples all guard pts =
  let good = List.filter (sample_ok all guard) pts in
  total := !total + List.length pts; used := !used + List.length good; good

(* frac and gds: originals (a group; pieces must partition their union, originals do not overlap) *)
let do_partition id t ~orig_is_group =
  let (_unit, guard) = header t in
  expect t "L"; let limit = int_tok t in
  expect t "O";
  let origs = if orig_is_group then group_tok t else [poly_tok t] in
  expect t "R"; let pieces = group_tok t in
  expect t "P"; let pts = poly_tok t in
  let good = filter_samples (origs @ pieces) guard pts in
  let verdict = ref None in
  let set s = if !verdict = None then verdict := Some s in
  let needs_fracture = List.exists (fun o -> List.length o > limit) origs in
  if limit < 5 then begin
    (* a limit below five leaves the polygon alone: fracture returns nothing; the writer writes the polygon itself *)
    if (not orig_is_group) && pieces <> [] then set "limit below five but pieces were produced"
  end else if needs_fracture || not orig_is_group then begin
    let mv = int_of_z (max_vertices pieces) in
    if mv > limit then set (Printf.sprintf "piece with %d vertices, limit %d" mv limit)
  end;
  if limit >= 5 || orig_is_group then begin
    (* cover exactly once: sum over the originals' partition verdicts; with several originals a
       sample belongs to at most one of them (the generator keeps them apart) *)
    let f p =
      let inside_any = covers origs p in
      let c = cover_count pieces p in
      if inside_any then (if Z.eqb c (z_of_int 1) then z_of_int 0 else if Z.eqb c (z_of_int 0) then z_of_int 1 else z_of_int 2)
      else (if Z.eqb c (z_of_int 0) then z_of_int 0 else z_of_int 3) in
    let f = match origs with [o] -> partition_verdict o pieces | _ -> f in
    (match first_bad f good with
     | None -> ()
     | Some (p, code) -> set (Printf.sprintf "%s at %s: cover_count=%s" (why (int_of_z code)) (pt p) (hex_of_z (cover_count pieces p))))
  end;
  out id "S" (match !verdict with None -> "ok" | Some s -> "bad " ^ s)

let do_slice id t =
  let (unit, guard) = header t in
  expect t "AX"; let x_axis = next t = "x" in
  expect t "O"; let orig = poly_tok t in
  expect t "C"; let nc = int_tok t in
  let cuts = List.init nc (fun _ -> z_tok t) in
  expect t "B"; let nb = int_tok t in
  let bins = List.init nb (fun _ -> group_tok t) in
  expect t "P"; let pts = poly_tok t in
  let all = orig :: List.concat bins in
  let good = filter_samples all guard pts in
  let coord (x, y) = if x_axis then x else y in
  let allc = List.map coord (List.concat all) in
  let big = Z.mul unit (z_of_int 1000) in
  let lo0 = Z.sub (List.fold_left Z.min (List.hd allc) allc) big in
  let hi0 = Z.add (List.fold_left Z.max (List.hd allc) allc) big in
  let verdict = ref None in
  let set s = if !verdict = None then verdict := Some s in
  if nb <> nc + 1 then set "wrong number of bins";
  let rec go i lo cs bs =
    match bs with
    | [] -> ()
    | b :: bs' ->
        let hi, cs' = (match cs with c :: r -> c, r | [] -> hi0, []) in
        (* vertices of the pieces within the interval, up to the rounding of the cut (one grid unit) *)
        if not (within_strip x_axis (Z.sub lo unit) (Z.add hi unit) b) then
          set (Printf.sprintf "interval %d: a piece has a vertex outside [%s,%s]" i (hex_of_z lo) (hex_of_z hi));
        (match first_bad (slice_verdict x_axis lo hi orig b) good with
         | None -> ()
         | Some (p, code) ->
             set (Printf.sprintf "interval %d (%s,%s): %s at %s" i (hex_of_z lo) (hex_of_z hi) (why (int_of_z code)) (pt p)));
        go (i + 1) hi cs' bs' in
  go 0 lo0 cuts bins;
  out id "S" (match !verdict with None -> "ok" | Some s -> "bad " ^ s)

let () =
  iter_cases Sys.argv.(1) (fun id kind payload ->
      let t = { a = Array.of_list (words payload); i = 0 } in
      try
        match kind with
        | "frac" -> do_partition id t ~orig_is_group:false
        | "gds" -> do_partition id t ~orig_is_group:true
        | "slice" -> do_slice id t
        | _ -> ()
      with e -> out id "S" ("driver-error " ^ Printexc.to_string e));
  Printf.eprintf "c12 oracle: %d of %d samples outside the guard band\n" !used !total
