(* C09 model driver: rebuilds the hierarchy of every case in the extracted Gallina model and answers
   the query script.  Numbers: doubles arrive as 16 hex digits of their bit pattern and become the
   exact rational they denote (q_of_bits); results leave as integers on the 2^-20 grid (grid_round,
   halves away from zero = llround) in hex — the same text the harness prints for the library.
   Hulls are printed in the canonical form of BBox.canon_pts (grid points, strict hull, corners within
   8 grid units of their neighbours' chord dropped, sorted). *)
open C09
open Conv

(* The model follows the current tree (collinear fallback = the two extreme input points; Reference::convex_hull
   repeats at every offset of an Explicit repetition).  C09_OLD=1 replays the behaviour before the fixes
   cd7171e / d7329ad (BBox.convex_hull_w_old, hall = false), e.g. to confirm a regression of the known keys. *)
let old = Sys.getenv_opt "C09_OLD" = Some "1"
let chull = if old then convex_hull_w_old hull_mc else convex_hull_w hull_mc
let cell_query c q = cell_query_g c (not old) q
let ref_bbox_c c = ref_bbox_g c (not old)
let ref_hull_c c = ref_hull_g c (not old)

let show_z z = hex_of_z z
let show_box = function
  | Inverted -> "b:inv"
  | Box (x0, y0, x1, y1) ->
      "b:" ^ String.concat "," (List.map (fun q -> show_z (grid_round q)) [x0; y0; x1; y1])
let show_hull (h : (q * q) list) =
  "h:" ^
  String.concat "/" (List.map (fun (x, y) -> show_z x ^ "," ^ show_z y) (canon_pts h))

exception Bad of string

let () =
  iter_cases Sys.argv.(1) (fun id kind payload ->
    let toks = Array.of_list (words payload) in
    let pos = ref 0 in
    let next () = if !pos >= Array.length toks then raise (Bad "eof") else (let t = toks.(!pos) in incr pos; t) in
    let int () = int_of_string (next ()) in
    let num () = q_of_bits (n_of_hex (next ())) in
    let point () = let x = num () in let y = num () in (x, y) in
    let points k = List.init k (fun _ -> point ()) in
    let expect s = let t = next () in if t <> s then raise (Bad ("expected " ^ s ^ " got " ^ t)) in
    let lists () = expect ":"; let no = int () in let o = points no in let ne = int () in let e = points ne in
      Some { offs = o; exts = e; r_explicit = false } in
    let rep () =
      match next () with
      | "n" -> None
      | "R" -> ignore (int ()); ignore (int ()); ignore (next ()); ignore (next ()); lists ()
      | "G" -> ignore (int ()); ignore (int ()); for _ = 1 to 4 do ignore (next ()) done; lists ()
      | "X" | "Y" -> let k = int () in for _ = 1 to k do ignore (next ()) done; lists ()
      | "E" -> let k = int () in for _ = 1 to 2 * k do ignore (next ()) done;
               (match lists () with Some r -> Some { r with r_explicit = true } | None -> None)
      | t -> raise (Bad ("rep " ^ t)) in
    let poly () = expect "p"; let k = int () in let pts = points k in let r = rep () in { p_pts = pts; p_rep = r } in
    try
      match kind with
      | "qh" ->
          let k = int () in
          let pts = points k in
          out id "M" (show_hull (chull pts))
      | "hier" ->
          expect "C";
          let nc = int () in
          let cells = Array.make nc (Cell (N0, [], [], [], [])) in
          for i = 0 to nc - 1 do
            expect "c";
            let nameidx = int () in
            expect "P"; let np = int () in let polys = List.init np (fun _ -> poly ()) in
            expect "L"; let nl = int () in
            let labels = List.init nl (fun _ -> expect "l"; let o = point () in let r = rep () in { l_org = o; l_rep = r }) in
            expect "W"; let nw = int () in
            for _ = 1 to nw do
              expect "w"; ignore (next ()); let k = int () in for _ = 1 to 2 * k do ignore (next ()) done; ignore (rep ())
            done;
            (* RobustPaths: like the FlexPaths above only their outlines (in F, after the FlexPath outlines) matter here;
               the section is absent in payloads written before RobustPaths were generated *)
            if !pos < Array.length toks && toks.(!pos) = "V" then begin
              expect "V"; let nv = int () in
              for _ = 1 to nv do
                expect "v"; let ne = int () in for _ = 1 to 2 * ne do ignore (next ()) done;
                let k = int () in for _ = 1 to 2 * k do ignore (next ()) done; ignore (rep ())
              done
            end;
            expect "F"; let nf = int () in let paths = List.init nf (fun _ -> poly ()) in
            expect "R"; let nr = int () in
            let refs = List.init nr (fun _ ->
              expect "r";
              let ci = int () in
              let o = point () in
              ignore (next ());                       (* rotation itself: only its cos / sin / quarter flag matter *)
              let ca = num () in let sa = num () in
              let quarter = int () <> 0 in
              let mag = num () in
              let xr = int () <> 0 in
              let r = rep () in
              if ci >= i then raise (Bad "child index");
              ({ pl_org = o; pl_ca = ca; pl_sa = sa; pl_quarter = quarter; pl_mag = mag; pl_xrefl = xr; pl_rep = r },
               cells.(ci))) in
            cells.(i) <- Cell (n_of_int nameidx, polys, labels, paths, refs)
          done;
          expect "Q";
          let nq = int () in
          let cache = ref [] in
          let res = ref [] in
          let push s = res := s :: !res in
          let cellq () = cells.(int ()) in
          let refq () = let c = cellq () in let ri = int () in List.nth (cell_refs c) ri in
          for _ = 1 to nq do
            match next () with
            | "z" -> cache := []
            | "b" -> let c = cellq () in let (info, ch) = cell_query chull false c !cache in cache := ch; push (show_box info.g_box)
            | "h" -> let c = cellq () in let (info, ch) = cell_query chull true c !cache in cache := ch; push (show_hull info.g_hull)
            | "B" -> let (pl, ch) = refq () in let (b, c2) = ref_bbox_c chull pl ch !cache in cache := c2; push (show_box b)
            | "H" -> let (pl, ch) = refq () in let (h, c2) = ref_hull_c chull pl ch !cache in cache := c2; push (show_hull h)
            | "fb" -> let c = cellq () in let (info, _) = cell_query chull false c [] in push (show_box info.g_box)
            | "fh" -> let c = cellq () in let (info, _) = cell_query chull true c [] in push (show_hull info.g_hull)
            | "fB" -> let (pl, ch) = refq () in let (b, _) = ref_bbox_c chull pl ch [] in push (show_box b)
            | "fH" -> let (pl, ch) = refq () in let (h, _) = ref_hull_c chull pl ch [] in push (show_hull h)
            | "p" -> let c = cellq () in let i = int () in
                     (match c with Cell (_, polys, _, _, _) -> let p = List.nth polys i in push (show_box (polygon_bbox p.p_pts p.p_rep)))
            | "P" -> let c = cellq () in let i = int () in
                     (match c with Cell (_, _, _, paths, _) -> let p = List.nth paths i in push (show_box (polygon_bbox p.p_pts p.p_rep)))
            | "l" -> let c = cellq () in let i = int () in
                     (match c with Cell (_, _, labels, _, _) -> let l = List.nth labels i in push (show_box (label_bbox l.l_org l.l_rep)))
            | t -> raise (Bad ("query " ^ t))
          done;
          out id "M" (String.concat ";" (List.rev !res))
      | _ -> ()
    with Bad m -> out id "M" ("bad-case " ^ m))
