(* C16 model driver: replays a history of library edits on the extracted Gallina model and
   prints, after every operation, the same canonical dump as harness/c16.cpp. *)
open C16
open Conv

let sid (i : nat) = Printf.sprintf "%x" (int_of_nat i)
let sn (x : n) = hex_of_n x
let join = String.concat ","
let tgt = function ToCell c -> "c" ^ sid c | ToRaw r -> "r" ^ sid r | ByName s -> "n" ^ sn s
let stag ((a, b) : tag) = sn a ^ ":" ^ sn b
let ids l = join (List.map sid l)

let list_of s f = if s = "-" || s = "" then [] else List.map f (String.split_on_char ',' s)
let nat_of_hex s = nat_of_int (int_of_string ("0x" ^ s))
let parse_tag s = match String.split_on_char ':' s with
  | [a; b] -> (n_of_hex a, n_of_hex b) | _ -> failwith ("bad tag " ^ s)
let parse_tgt s =
  let r = String.sub s 1 (String.length s - 1) in
  match s.[0] with
  | 'c' -> ToCell (nat_of_hex r) | 'r' -> ToRaw (nat_of_hex r) | 'n' -> ByName (n_of_hex r)
  | _ -> failwith ("bad target " ^ s)
let parse_pair s = match String.split_on_char '>' s with
  | [a; b] -> (parse_tag a, parse_tag b) | _ -> failwith ("bad map item " ^ s)

let parse_op (s : string) : op =
  match words s with
  | ["nc"; nm; refs; pt; lt] ->
      OpNewCell { c_name = n_of_hex nm; c_refs = list_of refs parse_tgt;
                  c_ptags = list_of pt parse_tag; c_ltags = list_of lt parse_tag }
  | ["nr"; nm; deps] -> OpNewRaw { r_name = n_of_hex nm; r_deps = list_of deps nat_of_hex }
  | ["cp"; src; nm] -> OpCopyCell (nat_of_hex src, if nm = "-" then None else Some (n_of_hex nm))
  | ["ac"; i] -> OpAddCell (nat_of_hex i)
  | ["ar"; i] -> OpAddRaw (nat_of_hex i)
  | ["rmc"; i] -> OpRemoveCell (nat_of_hex i)
  | ["rmr"; i] -> OpRemoveRaw (nat_of_hex i)
  | ["rnp"; i; nm] -> OpRenamePtr (nat_of_hex i, n_of_hex nm)
  | ["rnn"; o; nm] -> OpRenameName (n_of_hex o, n_of_hex nm)
  | ["cc"; o; nw] -> OpReplaceCC (nat_of_hex o, nat_of_hex nw)
  | ["rc"; o; nw] -> OpReplaceRC (nat_of_hex o, nat_of_hex nw)
  | ["cr"; o; nw] -> OpReplaceCR (nat_of_hex o, nat_of_hex nw)
  | ["rr"; o; nw] -> OpReplaceRR (nat_of_hex o, nat_of_hex nw)
  | ["rm"; m] -> OpRemap (list_of m parse_pair)
  | ["cl"; d] -> OpCopyLib (d = "1")
  | _ -> failwith ("bad op: " ^ s)

let q = function Ok l -> ids l | Crash -> "X" | Hang -> "H" | _ -> "E"

(* the five sections of a dump *)
let dump (l : lib) : string list =
  let parts = ref [] in
  let b = Buffer.create 1024 in
  let cut () = parts := Buffer.contents b :: !parts; Buffer.clear b in
  let add = Buffer.add_string b in
  add "C["; add (join (List.map (fun i -> sid i ^ "=" ^ sn (cname l i)) l.l_carr)); add "]";
  add "R["; add (join (List.map (fun r -> sid r ^ "=" ^ sn (rname l r)) l.l_rarr)); add "]";
  cut ();
  add "S{";
  List.iteri (fun i c ->
    add (Printf.sprintf "%x" i); add ":"; add (sn c.c_name); add ":";
    add (join (List.map tgt c.c_refs)); add ":";
    add (join (List.map stag c.c_ptags)); add ":";
    add (join (List.map stag c.c_ltags)); add ";") l.l_cells;
  add "}"; cut (); add "W{";
  List.iteri (fun i r ->
    add (Printf.sprintf "%x" i); add ":"; add (sn r.r_name); add ":"; add (ids r.r_deps); add ";") l.l_raws;
  add "}"; cut ();
  let (tc, tr) = top_level l in
  add "T["; add (ids tc); add "]U["; add (ids tr); add "]";
  List.iter (fun i ->
    add "D"; add (sid i); add "=";
    add (q (get_dependencies l false i)); add "/";
    add (q (get_dependencies l true i)); add "/";
    add (q (get_raw_dependencies l false i)); add "/";
    add (q (get_raw_dependencies l true i)); add ";") l.l_carr;
  List.iter (fun r ->
    add "Q"; add (sid r); add "=";
    add (q (raw_get_dependencies l false r)); add "/";
    add (q (raw_get_dependencies l true r)); add ";") l.l_rarr;
  cut ();
  add "ST["; add (join (List.map stag (get_shape_tags l))); add "]";
  add "LT["; add (join (List.map stag (get_label_tags l))); add "]";
  cut ();
  List.rev !parts

(* a section identical to the same section of the previous dump is printed as "=" *)
let show prev d = match prev with
  | None -> String.concat "~" d
  | Some p -> String.concat "~" (List.map2 (fun a b -> if a = b then "=" else a) d p)

let ops_of s = List.filter (fun x -> String.trim x <> "") (String.split_on_char ';' s)

let empty = { l_cells = []; l_raws = []; l_carr = []; l_rarr = [] }

let () =
  iter_cases Sys.argv.(1) (fun id kind payload ->
    match kind with
    | "hist" ->
        let setup, rest = match String.split_on_char '|' payload with
          | [a; b] -> a, b | [a] -> a, "" | _ -> failwith "bad payload" in
        let l = List.fold_left (fun l s -> step l (parse_op s)) empty (ops_of setup) in
        let b = Buffer.create 4096 in
        let d0 = dump l in
        Buffer.add_string b (show None d0);
        let _ = List.fold_left (fun (l, d) s ->
          let l' = step l (parse_op s) in
          let d' = dump l' in
          Buffer.add_string b " | "; Buffer.add_string b (show (Some d) d'); (l', d')) (l, d0) (ops_of rest) in
        out id "M" (Buffer.contents b)
    | _ -> ())
