(* C14 model driver: runs the extracted Gallina point-in-polygon model (M lines) and the
   extracted specification  on_boundary || wn <> 0 / shoelace / closed edge list  (S lines)
   on the harness's cases.

   payload syntax (all integers in hex, '-' prefix for negatives):
     points   : "x y x y ..."
     pipg     : <points>                         query = the 81 points (qx,qy), qx,qy in -1..7, qx outer
     pip      : <points> | <query points>
     call/cany: <points> / <extrema offsets> | <query points>
     grp      : <points> / <extrema> ; <points> / <extrema> ; ... | <query points>
     area     : <points> | <copies>              copies = "-" (no repetition) or get_count()
     perim    : <points> | <copies>
     perimb   : <vertex bit patterns, 16 hex digits per coordinate> | <copies>
   No arithmetic is done here: the perimeter lines are the bit patterns returned by the extracted
   binary64 model (Perimeter.perimeter_Z / perimeter_bits, Flocq's IEEE operations) and by the
   extracted specification (Perimeter.spec_perimeter_Z_bits: correctly rounded length of every
   closed edge from the exact integer, summed in vertex order, times copies). *)
open C14
open Conv

let rec pairs = function
  | x :: y :: t -> (x, y) :: pairs t
  | [] -> []
  | _ -> failwith "odd number of coordinates"
let parse_pts (s : string) : pt list = pairs (List.map z_of_hex (words s))

let split2 c s =
  match String.index_opt s c with
  | None -> (s, "")
  | Some i -> (String.sub s 0 i, String.sub s (i + 1) (String.length s - i - 1))

let nth_or l i = match List.nth_opt l i with Some x -> x | None -> ""
(* <points> / <extrema> [/ <rep>] : the repetition description is for the harness only *)
let parse_poly (s : string) : polygon =
  let l = String.split_on_char '/' s in { pts = parse_pts (nth_or l 0); ext = parse_pts (nth_or l 1) }

let bits l = String.concat "" (List.map (fun b -> if b then "1" else "0") l)
let bit b = if b then "1" else "0"

let grid81 : pt list =
  List.concat (List.init 9 (fun i -> List.init 9 (fun j -> (z_of_int (i - 1), z_of_int (j - 1)))))

let parse_copies s = match words s with
  | ["-"] | [] -> None
  | [h] -> Some (z_of_hex h)
  | _ -> failwith "copies"

let parse_copies_n s = match words s with
  | ["-"] | [] -> None
  | [h] -> Some (n_of_hex h)
  | _ -> failwith "copies"
let hex16 (n : n) : string =
  let h = hex_of_n n in
  if String.length h >= 16 then h else String.make (16 - String.length h) '0' ^ h
let rec npairs = function
  | x :: y :: t -> (x, y) :: npairs t
  | [] -> []
  | _ -> failwith "odd number of coordinates"

let () =
  iter_cases Sys.argv.(1) (fun id kind payload ->
    match kind with
    | "pipg" ->
        let poly = parse_pts payload in
        out id "M" (bits (List.map (contain poly) grid81));
        out id "S" (bits (List.map (spec_contain poly) grid81))
    | "pip" ->
        let (a, b) = split2 '|' payload in
        let poly = parse_pts a and qs = parse_pts b in
        out id "M" (bits (List.map (contain poly) qs));
        out id "S" (bits (List.map (spec_contain poly) qs))
    | "call" | "cany" ->
        let (a, b) = split2 '|' payload in
        let poly = parse_poly a and qs = parse_pts b in
        if kind = "call" then begin
          out id "M" (bit (contain_all poly qs));
          out id "S" (bit (List.for_all (spec_contain poly.pts) qs))
        end else begin
          out id "M" (bit (contain_any poly qs));
          out id "S" (bit (List.exists (spec_contain poly.pts) qs))
        end
    | "grp" ->
        let (a, b) = split2 '|' payload in
        let polys = List.map parse_poly
            (List.filter (fun s -> String.trim s <> "") (String.split_on_char ';' a)) in
        let qs = parse_pts b in
        out id "M" (bits (inside qs polys) ^ " " ^ bit (all_inside qs polys) ^ " " ^ bit (any_inside qs polys));
        let in_group p = List.exists (fun (pl : polygon) -> spec_contain pl.pts p) polys in
        out id "S" (bits (List.map in_group qs) ^ " " ^ bit (List.for_all in_group qs) ^ " " ^
                    bit (List.exists in_group qs))
    | "area" ->
        let l = String.split_on_char '|' payload in
        let poly = parse_pts (nth_or l 0) and copies = parse_copies (nth_or l 1) in
        out id "M" (hex_of_z (signed_area2 poly) ^ " " ^ hex_of_z (area2 poly copies));
        let sh = shoelace2 poly in
        let f = match copies with None -> z_of_int 1 | Some c -> c in
        out id "S" (hex_of_z sh ^ " " ^ hex_of_z (Z.mul (Z.abs sh) f))
    | "perim" ->
        let l = String.split_on_char '|' payload in
        let poly = parse_pts (nth_or l 0) and copies = parse_copies_n (nth_or l 1) in
        out id "M" (hex16 (perimeter_Z poly copies));
        (* "all zero below three vertices", else the closed edge-length sum times copies *)
        out id "S" (hex16 (spec_perimeter_Z_bits poly copies))
    | "perimb" ->
        let l = String.split_on_char '|' payload in
        let poly = npairs (List.map n_of_hex (words (nth_or l 0))) and copies = parse_copies_n (nth_or l 1) in
        out id "M" (hex16 (perimeter_bits poly copies))
    | _ -> ())
