(* C08 driver: the extracted exact oracle (PathOracle.v) for the `region` cases and the extracted
   RobustPath query / section models (PathBook.v) for the `query` and `subeval` cases.  Doubles travel
   as the 16 hex digits of their bit pattern; they are turned into the rationals they are (exactly)
   and the model's rational results are printed as the doubles they are (exactly, or "inexact"). *)
open C08_robustpath
open Conv

let field payload name =
  let items = String.split_on_char ';' payload in
  let pre = name ^ "=" in
  let n = String.length pre in
  let rec find = function
    | [] -> ""
    | it :: tl -> if String.length it >= n && String.sub it 0 n = pre then String.sub it n (String.length it - n) else find tl in
  find items

let zs s = List.map z_of_hex (words s)
let rec pairs = function a :: b :: tl -> (a, b) :: pairs tl | _ -> []
let rec planes = function
  | ex :: ey :: tx :: ty :: m :: tl -> (((ex, ey), (tx, ty)), m) :: planes tl
  | _ -> []

let region id payload =
  let band = field payload "band" = "1" in
  let outline = pairs (zs (field payload "O")) in
  let centre = pairs (zs (field payload "C")) in
  let cext = pairs (zs (field payload "E")) in
  let rc = zs (field payload "RC") in
  let rf = zs (field payload "RF") in
  let pls = planes (zs (field payload "PL")) in
  let cap name =
    match String.split_on_char '|' (field payload name) with
    | [pl; rest; rr] -> (match planes (zs pl) with [pl] -> [((pl, pairs (zs rest)), zs rr)] | _ -> [])
    | _ -> [] in
  let caps = cap "K0" @ cap "K1" in
  let smp = pairs (zs (field payload "S")) in
  let ncov = ref 0 and nfar = ref 0 and bad = ref None and i = ref 0 in
  List.iter (fun p ->
    let c = classify band centre cext rc rf pls caps p in
    (match c with Z0 -> () | _ ->
      if int_of_z c = 1 then incr ncov else incr nfar;
      let v = verdict c (wn outline p) in
      (match v, !bad with
       | Z0, _ -> ()
       | _, None -> bad := Some (!i, int_of_z v)
       | _ -> ()));
    incr i) smp;
  out id "N" (Printf.sprintf "samples=%d must-cover=%d must-not-cover=%d outline=%d centre=%d"
                (List.length smp) !ncov !nfar (List.length outline) (List.length centre));
  match !bad with
  | None -> out id "S" "ok"
  | Some (i, c) ->
      let what = if c = 1 then "uncovered-point-inside-half-width" else "covered-point-beyond-reach" in
      out id "S" (Printf.sprintf "bad sample %d %s" i what)

(* ------------------------------------------------------------------ doubles <-> rationals *)
let rec pow2_pos k = if k = 0 then XH else XO (pow2_pos (k - 1))

let q_of_dbl_hex (s : string) : q =
  let bits = Int64.of_string ("0x" ^ s) in
  let neg = Int64.compare bits 0L < 0 in
  let e = Int64.to_int (Int64.logand (Int64.shift_right_logical bits 52) 0x7FFL) in
  let m = Int64.to_int (Int64.logand bits 0xFFFFFFFFFFFFFL) in
  if e = 0x7FF then failwith "nan/inf" else
  let m, e = if e = 0 then m, -1074 else m lor (1 lsl 52), e - 1075 in
  let zm = z_of_int (if neg then - m else m) in
  if m = 0 then { qnum = Z0; qden = XH }
  else if e >= 0 then { qnum = Z.mul zm (Zpos (pow2_pos e)); qden = XH }
  else { qnum = zm; qden = pow2_pos (- e) }

(* strip common factors of two, then the numerator must fit in 53 bits and the denominator be 2^k *)
let rec reduce (n : positive) (d : positive) = match n, d with XO n', XO d' -> reduce n' d' | _ -> (n, d)
let rec log2_pos = function XH -> Some 0 | XO p -> (match log2_pos p with Some k -> Some (k + 1) | None -> None) | XI _ -> None
let rec nbits = function XH -> 1 | XO p | XI p -> 1 + nbits p

let dbl_hex_of_q (x : q) : string =
  match x.qnum with
  | Z0 -> "0000000000000000"
  | Zpos n | Zneg n ->
      let neg = (match x.qnum with Zneg _ -> true | _ -> false) in
      let n, d = reduce n x.qden in
      (match log2_pos d with
       | None -> "inexact"
       | Some k ->
           (* trailing zeros of the numerator do not count towards the 53 bits *)
           let rec strip p z = match p with XO p' -> strip p' (z + 1) | _ -> (p, z) in
           let n', z = strip n 0 in
           if nbits n' > 53 then "inexact"
           else
             let f = ldexp (float_of_int (int_of_pos n')) (z - k) in
             Printf.sprintf "%016Lx" (Int64.bits_of_float (if neg then -. f else f)))

let qpts l = let rec go = function a :: b :: tl -> (q_of_dbl_hex a, q_of_dbl_hex b) :: go tl | _ -> [] in go l

let parse_sections s =
  List.filter_map (fun sec ->
    match words sec with
    | "S" :: r -> (match qpts r with [b; e] -> Some (SSegment (b, e)) | _ -> None)
    | "Q" :: r -> (match qpts r with [a; b; c] -> Some (SBezier2 (a, b, c)) | _ -> None)
    | "C" :: r -> (match qpts r with [a; b; c; d] -> Some (SBezier3 (a, b, c, d)) | _ -> None)
    | "B" :: r -> Some (SBezier (qpts r))
    | _ -> None) (String.split_on_char ',' s)

let parse_interps s =
  List.filter_map (fun it ->
    match words it with
    | ["c"; v] -> Some (IConstant (q_of_dbl_hex v))
    | ["l"; a; b] -> Some (ILinear (q_of_dbl_hex a, q_of_dbl_hex b))
    | ["s"; a; b] -> Some (ISmooth (q_of_dbl_hex a, q_of_dbl_hex b))
    | _ -> None) (String.split_on_char ',' s)

let parse_trafo s =
  match List.map q_of_dbl_hex (words s) with
  | [a; b; c; d; e; f] -> { t0 = a; t1 = b; t2 = c; t3 = d; t4 = e; t5 = f }
  | _ -> trafo_id

let show_pt = function
  | Ok (x, y) -> dbl_hex_of_q x ^ " " ^ dbl_hex_of_q y
  | Crash -> "crash" | Hang -> "hang" | _ -> "error"
let show_q = function
  | Ok x -> dbl_hex_of_q x
  | Crash -> "crash" | Hang -> "hang" | _ -> "error"

let query id payload =
  let tr = parse_trafo (field payload "T") in
  let subs = parse_sections (field payload "SEC") in
  let ws = q_of_dbl_hex (field payload "WS") and os = q_of_dbl_hex (field payload "OS") in
  let u = q_of_dbl_hex (field payload "U") in
  let fb = field payload "FB" = "1" in
  let n = int_of_string (field payload "N") in
  let b = Buffer.create 128 in
  Buffer.add_string b (show_pt (rp_position subs tr u fb));
  Buffer.add_string b (" " ^ show_pt (rp_gradient subs tr u fb));
  for e = 0 to n - 1 do
    let wa = parse_interps (field payload ("W" ^ string_of_int e)) in
    let oa = parse_interps (field payload ("O" ^ string_of_int e)) in
    Buffer.add_string b (" " ^ show_q (query_interp wa ws u fb));
    Buffer.add_string b (" " ^ show_q (query_interp oa os u fb))
  done;
  out id "M" (Buffer.contents b)

let subeval id payload =
  let tr = parse_trafo (field payload "T") in
  let subs = parse_sections (field payload "SEC") in
  let u = q_of_dbl_hex (field payload "U") in
  let si = int_of_string (field payload "SI") in
  match List.nth_opt subs si with
  | None -> out id "M" "bad-case"
  | Some s -> out id "M" (show_pt (sub_eval s u tr) ^ " " ^ show_pt (sub_gradient s u tr))

let () =
  iter_cases Sys.argv.(1) (fun id kind payload ->
    match kind with
    | "region" -> if field payload "O" <> "" then region id payload
    | "query" -> query id payload
    | "subeval" -> subeval id payload
    | _ -> ())
