(* C11 model driver: runs the extracted Repetition model on the harness's cases.
   Result text mirrors harness/c11.cpp (see the format comment there):
     query -> "count=<hex> off=<vlist> ext=<vlist>"          (numbers must be integers)
     xform -> "<rep on the 2^-20 grid> | off=<vlist on the grid>"
     apply -> "CRASH" | "n=<hex> orig=<t>;<pos>;= copies=<t>;<pos>;=/..." *)
open C11
open Conv

let trim s = String.trim s
let split_bar s = List.map trim (String.split_on_char '|' s)

let qz (z : z) : q = { qnum = z; qden = XH }
let q_of_hex s = qz (z_of_hex s)
let pos_of_hex s = match z_of_hex s with Zpos p -> p | _ -> failwith "positive expected"

(* exact integer, as the harness prints doubles that hold integers *)
let num_exact (x : q) : string =
  match q_int x with Some z -> hex_of_z z | None -> "NONINT"
(* nearest point of the 2^-20 grid *)
let num_grid (x : q) : string = hex_of_z (grid_round x)

let vlist f (l : vec list) : string =
  match l with
  | [] -> "-"
  | _ -> String.concat ";" (List.map (fun (x, y) -> f x ^ "," ^ f y) l)

let rec pairs = function
  | a :: b :: t -> (q_of_hex a, q_of_hex b) :: pairs t
  | [] -> []
  | _ -> failwith "odd coordinate list"

let parse_rep (text : string) : rep =
  match words text with
  | ["N"] -> RNone
  | ["R"; c; r; sx; sy] -> RRect (n_of_hex c, n_of_hex r, q_of_hex sx, q_of_hex sy)
  | ["G"; c; r; a; b; cc; d] ->
      RReg (n_of_hex c, n_of_hex r, (q_of_hex a, q_of_hex b), (q_of_hex cc, q_of_hex d))
  | "E" :: n :: tl ->
      let l = pairs tl in
      if List.length l <> int_of_n (n_of_hex n) then failwith "bad E length"; RExpl l
  | "X" :: n :: tl ->
      if List.length tl <> int_of_n (n_of_hex n) then failwith "bad X length";
      RExplX (List.map q_of_hex tl)
  | "Y" :: n :: tl ->
      if List.length tl <> int_of_n (n_of_hex n) then failwith "bad Y length";
      RExplY (List.map q_of_hex tl)
  | _ -> failwith "bad rep"

let letter = function
  | RNone -> "N" | RRect _ -> "R" | RReg _ -> "G" | RExpl _ -> "E" | RExplX _ -> "X" | RExplY _ -> "Y"

let rep_text f (r : rep) : string =
  match r with
  | RNone -> "N"
  | RRect (c, rw, sx, sy) -> String.concat " " ["R"; hex_of_n c; hex_of_n rw; f sx; f sy]
  | RReg (c, rw, (a, b), (cc, d)) -> String.concat " " ["G"; hex_of_n c; hex_of_n rw; f a; f b; f cc; f d]
  | RExpl l ->
      String.concat " " ("E" :: Printf.sprintf "%x" (List.length l) ::
                         List.concat (List.map (fun (x, y) -> [f x; f y]) l))
  | RExplX l -> String.concat " " ("X" :: Printf.sprintf "%x" (List.length l) :: List.map f l)
  | RExplY l -> String.concat " " ("Y" :: Printf.sprintf "%x" (List.length l) :: List.map f l)

let parse_vlist (s : string) : vec list =
  if s = "-" || s = "" then []
  else List.map (fun item ->
      match String.split_on_char ',' item with
      | [x; y] -> (q_of_hex x, q_of_hex y)
      | _ -> failwith "bad vec") (String.split_on_char ';' s)

(* m, x_reflection, rotation *)
let parse_xf (text : string) : q * bool * (q * q) option =
  match words text with
  | mn :: md :: xr :: rot ->
      let m = { qnum = z_of_hex mn; qden = pos_of_hex md } in
      let xr = (xr = "1") in
      let rt = (match rot with
        | ["Z"] -> None
        | ["Q"; k] ->
            let k = int_of_z (z_of_hex k) in
            let q = ((k mod 4) + 4) mod 4 in
            let c = if q = 0 then 1 else if q = 2 then -1 else 0 in
            let s = if q = 1 then 1 else if q = 3 then -1 else 0 in
            Some (qz (z_of_int c), qz (z_of_int s))
        | ["P"; cn; sn; d] ->
            Some ({ qnum = z_of_hex cn; qden = pos_of_hex d }, { qnum = z_of_hex sn; qden = pos_of_hex d })
        | _ -> failwith "bad rotation") in
      (m, xr, rt)
  | _ -> failwith "bad transform"

let () =
  iter_cases Sys.argv.(1) (fun id kind payload ->
    try
      match kind with
      | "query" ->
          let r = parse_rep payload in
          out id "M" ("count=" ^ hex_of_n (count r) ^ " off=" ^ vlist num_exact (offsets r) ^
                      " ext=" ^ vlist num_exact (extrema r))
      | "xform" ->
          (match split_bar payload with
           | [rt; xt] ->
               let r = parse_rep rt in
               let (m, xr, rot) = parse_xf xt in
               let r' = transform r m xr rot in
               out id "M" (rep_text num_grid r' ^ " | off=" ^ vlist num_grid (offsets r'))
           | _ -> out id "M" "bad-case")
      | "apply" ->
          (match split_bar payload with
           | _head :: rt :: pos :: rest ->
               let r = parse_rep rt in
               let e = { e_pos = parse_vlist pos; e_rest = String.concat "|" rest } in
               (match apply_elem e r with
                | Ok (copies, r_after) ->
                    let show (c : string elem) (cr : rep) =
                      letter cr ^ ";" ^ vlist num_exact c.e_pos ^ ";" ^
                      (if c.e_rest = e.e_rest then "=" else "DIFF:" ^ c.e_rest) in
                    out id "M" (Printf.sprintf "n=%x orig=%s copies=%s" (List.length copies)
                                  (show e r_after)
                                  (match copies with
                                   | [] -> "-"
                                   | _ -> String.concat "/" (List.map (fun (c, cr) -> show c cr) copies)))
                | Crash -> out id "M" "CRASH"
                | Hang -> out id "M" "HANG"
                | _ -> out id "M" "error")
           | _ -> out id "M" "bad-case")
      | _ -> ()
    with Failure _ -> out id "M" "bad-case")
