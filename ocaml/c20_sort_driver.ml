(* C20 (sorting) model driver: runs the extracted Gallina sort.hpp model on the harness's cases. *)
open C20_sort
open Conv

let cmp_of = function "lt" -> cmp_lt | "gt" -> cmp_gt | _ -> cmp_key

let show (o : z list outcome) : string =
  match o with
  | Ok l ->
      let b = Buffer.create (8 * List.length l + 8) in
      Buffer.add_string b "ok";
      List.iter (fun v -> Buffer.add_char b ' '; Buffer.add_string b (hex_of_z v)) l;
      Buffer.contents b
  | Crash -> "CRASH"
  | Hang -> "HANG"
  | _ -> "error"

let () =
  iter_cases Sys.argv.(1) (fun id kind payload ->
    let toks = words payload in
    let run f = function
      | c :: vs -> out id "M" (show (f (cmp_of c) (List.map z_of_hex vs)))
      | [] -> out id "M" "bad-case" in
    match kind with
    | "sort" -> run (fun c l -> sort c l) toks
    | "heap" -> run (fun c l -> heap_sort c l) toks
    | "ins" -> run (fun c l -> insertion_sort c l) toks
    | "intro" ->
        (match toks with
         | d :: rest -> run (fun c l -> intro_sort c (nat_of_int (int_of_string d)) l) rest
         | [] -> out id "M" "bad-case")
    | _ -> ())
