(* C06 model driver: runs the extracted hierarchy model (coq/Hierarchy.v) on the harness's cases.
   Payload grammar and result format: see harness/c06_hierarchy.cpp. *)
open C06_hierarchy
open Conv

let rec pow2_pos k = if k <= 0 then XH else XO (pow2_pos (k - 1))
let rec shift_pos p k = if k <= 0 then p else shift_pos (XO p) (k - 1)
let q_of_hexdbl (s : string) : q =
  let bits = Int64.of_string ("0x" ^ s) in
  let neg = Int64.compare bits 0L < 0 in
  let e = Int64.to_int (Int64.logand (Int64.shift_right_logical bits 52) 0x7ffL) in
  let m = Int64.to_int (Int64.logand bits 0xfffffffffffffL) in
  let mant, ex = if e = 0 then m, -1074 else m + (1 lsl 52), e - 1075 in
  if mant = 0 then { qnum = Z0; qden = XH } else
  let p = pos_of_int mant in
  let num_p, den = if ex >= 0 then shift_pos p ex, XH else p, pow2_pos (-ex) in
  qred { qnum = (if neg then Zneg num_p else Zpos num_p); qden = den }
let q_of_ints n d = qred { qnum = z_of_int n; qden = pos_of_int d }
let q0 = q_of_ints 0 1

let toks = ref [||]
let pos = ref 0
let init_toks s = toks := Array.of_list (words s); pos := 0
let next () = let t = if !pos < Array.length !toks then !toks.(!pos) else "" in incr pos; t
let nd () = q_of_hexdbl (next ())
let ni () = int_of_string (next ())
let nh () = n_of_hex (next ())
let nv () = let x = nd () in let y = nd () in { vx = x; vy = y }
let nang () = let cn = ni () in let sn = ni () in let d = ni () in { acos = q_of_ints cn d; asin = q_of_ints sn d }
let rec times n f = if n <= 0 then [] else let x = f () in x :: times (n - 1) f

let gq q = hex_of_z (grid q)

(* repetition: offsets after the leading (0,0), as Repetition::get_offsets enumerates them *)
let qi i = q_of_ints i 1
let qmul a b = qred (qmult a b)
let qadd a b = qred (qplus a b)
let read_rep () : vec2 list option =
  let lattice c r f =
    let l = List.concat (List.init c (fun i -> List.init r (fun j -> f i j))) in
    (match l with [] -> Some [] | _ :: tl -> Some tl) in
  match next () with
  | "T" -> let c = ni () in let r = ni () in let sp = nv () in
           lattice c r (fun i j -> { vx = qmul (qi i) sp.vx; vy = qmul (qi j) sp.vy })
  | "G" -> let c = ni () in let r = ni () in let v1 = nv () in let v2 = nv () in
           lattice c r (fun i j -> { vx = qadd (qmul (qi i) v1.vx) (qmul (qi j) v2.vx);
                                     vy = qadd (qmul (qi i) v1.vy) (qmul (qi j) v2.vy) })
  | "E" -> let n = ni () in Some (times n nv)
  | "EX" -> let n = ni () in Some (List.map (fun c -> { vx = c; vy = q0 }) (times n nd))
  | "EY" -> let n = ni () in Some (List.map (fun c -> { vx = q0; vy = c }) (times n nd))
  | _ -> None

let read_outline () = let _ = next () in let n = ni () in times n nv

(* per cell: elements of the five query families and the references *)
type cellrec = { polys : gshape element list; outl : gshape element list; flex : gshape element list;
                 rob : gshape element list; labs : gshape element list; refs : reference list }

let read_hier () : cellrec list =
  let _h = next () in
  let nc = ni () in
  times nc (fun () ->
    let _c = next () in
    let nel = ni () in
    let polys = ref [] and outl = ref [] and flex = ref [] and rob = ref [] and labs = ref [] in
    for _ = 1 to nel do
      (match next () with
       | "P" ->
           let tag = nh () in
           let rep = read_rep () in
           let n = ni () in
           let pts = times n nv in
           polys := { e_payload = SPoly pts; e_tag = tag; e_rep = rep } :: !polys
       | "F" ->
           let rep = read_rep () in
           let sw = ni () <> 0 in
           let nsp = ni () in
           let spine = times nsp nv in
           let ne = ni () in
           for _ = 1 to ne do
             let tag = nh () in
             let _et = ni () in
             let ext = nv () in
             let hwo = times nsp nv in
             let o = read_outline () in
             flex := { e_payload = SFlex { fp_spine = spine; fp_elems = [{ fe_hwo = hwo; fe_ext = ext }]; fp_scale_width = sw };
                       e_tag = tag; e_rep = rep } :: !flex;
             outl := { e_payload = SPoly o; e_tag = tag; e_rep = rep } :: !outl
           done
       | "R" ->
           let rep = read_rep () in
           let sw = ni () <> 0 in
           let t0 = nd () in let t1 = nd () in let t2 = nd () in let t3 = nd () in let t4 = nd () in let t5 = nd () in
           let ws = nd () in let os = nd () in
           let _p0 = nv () in
           let nseg = ni () in
           let _ = times nseg nv in
           let ne = ni () in
           for _ = 1 to ne do
             let tag = nh () in
             let _et = ni () in
             let ext = nv () in
             let _ = times (nseg + 1) nv in
             let o = read_outline () in
             rob := { e_payload = SRobust { rp_trafo = { aa = t0; ab = t1; atx = t2; ac = t3; ad = t4; aty = t5 };
                                            rp_width_scale = ws; rp_offset_scale = os; rp_exts = [ext]; rp_scale_width = sw };
                      e_tag = tag; e_rep = rep } :: !rob;
             outl := { e_payload = SPoly o; e_tag = tag; e_rep = rep } :: !outl
           done
       | "L" ->
           let tag = nh () in
           let rep = read_rep () in
           let o = nv () in
           let a = nang () in
           let mag = nd () in
           let xr = ni () <> 0 in
           labs := { e_payload = SLabel { p_orig = o; p_rot = a; p_mag = mag; p_xrefl = xr }; e_tag = tag; e_rep = rep } :: !labs
       | _ -> ())
    done;
    let nref = ni () in
    let refs = times nref (fun () ->
      let target = ni () in
      let rep = read_rep () in
      let o = nv () in
      let a = nang () in
      let mag = nd () in
      let xr = ni () <> 0 in
      (* a reference by name gets an id no cell has *)
      { r_target = (if target >= 0 then n_of_int target else n_of_int 1000000);
        r_place = { p_orig = o; p_rot = a; p_mag = mag; p_xrefl = xr }; r_rep = rep }) in
    { polys = List.rev !polys; outl = List.rev !outl; flex = List.rev !flex; rob = List.rev !rob; labs = List.rev !labs; refs })

let env_of (cells : cellrec list) (what : string) : gshape env =
  List.mapi (fun i c ->
    let els = match what with
      | "P" -> c.polys | "PP" -> c.polys @ c.outl | "F" -> c.flex | "R" -> c.rob | _ -> c.labs in
    (n_of_int i, { c_elems = els; c_refs = c.refs })) cells

(* ---- items *)
let nums l = String.concat "" (List.map (fun q -> " " ^ gq q) l)
let vnums l = nums (List.concat_map (fun v -> [v.vx; v.vy]) l)
let rep_suffix with_rep rep =
  if not with_rep then "", "" else
  match rep with
  | None -> " @N", " |"
  | Some l -> " @" ^ string_of_int (List.length l), " |" ^ vnums l

let item_of with_rep (p : gshape) (tag : n) (rep : vec2 list option) : string =
  let hs, ts = rep_suffix with_rep rep in
  match p with
  | SPoly pts -> "P " ^ hex_of_n tag ^ hs ^ " :" ^ vnums pts ^ ts
  | SFlex f ->
      let el = List.hd f.fp_elems in
      "F " ^ hex_of_n tag ^ " " ^ (if f.fp_scale_width then "1" else "0") ^ hs ^ " :" ^ vnums f.fp_spine ^ " |" ^ vnums [el.fe_ext] ^ " |" ^
      vnums el.fe_hwo ^ ts
  | SRobust r ->
      let t = r.rp_trafo in
      "R " ^ hex_of_n tag ^ " " ^ (if r.rp_scale_width then "1" else "0") ^ hs ^ " :" ^ nums [t.aa; t.ab; t.atx; t.ac; t.ad; t.aty] ^ " |" ^
      nums [r.rp_width_scale; r.rp_offset_scale] ^ " |" ^ vnums r.rp_exts ^ ts
  | SLabel p ->
      "L " ^ hex_of_n tag ^ " " ^ (if p.p_xrefl then "1" else "0") ^ hs ^ " :" ^ vnums [p.p_orig] ^ nums [p.p_rot.acos; p.p_rot.asin; p.p_mag] ^ ts

let join items =
  let l = List.sort compare items in
  String.concat " ; " (string_of_int (List.length l) :: l)

let tag_ok flt tag = match flt with None -> true | Some t -> hex_of_n t = hex_of_n tag

let () =
  iter_cases Sys.argv.(1) (fun id kind payload ->
    init_toks payload;
    let _fl = next () in
    let _flags = ni () in
    let cells = read_hier () in
    let nc = List.length cells in
    let _q = next () in
    let cell = ni () in
    let what = next () in
    let ar = ni () <> 0 in
    let depth = ni () in
    let flt = (match next () with "-" -> None | s -> Some (n_of_hex s)) in
    let flat = ni () in
    let fuel = nat_of_int (nc + 6) in
    let env0 = env_of cells what in
    let top ev = match lookup ev (n_of_int cell) with Some c -> c | None -> { c_elems = []; c_refs = [] } in
    match kind with
    | "get" | "shapes" ->
        (* flatten first if asked *)
        let env1 =
          if flat = 0 then Some env0
          else (match flatten_fuel gshape_apply gshape_shift fuel env0 (flat = 1) (top env0) with
                | Some c' -> Some (List.map (fun (i, c) -> if hex_of_n i = hex_of_n (n_of_int cell) then (i, c') else (i, c)) env0)
                | None -> None) in
        (match env1 with
         | None -> out id "M" "hang"
         | Some ev ->
             (match cell_get gshape_apply gshape_shift fuel ev ar (z_of_int depth) flt (top ev) with
              | None -> out id "M" "hang"
              | Some res ->
                  if kind = "get" then
                    out id "M" (join (List.map (fun e -> item_of true e.e_payload e.e_tag e.e_rep) res))
                  else begin
                    out id "M" (join (List.map (fun (p, t) -> item_of false p t None) (expand gshape_shift res)));
                    (* specification level: the denotation of the cell AS BUILT, cut at the query depth (everything when
                       flattened), restricted to the tag *)
                    let d = if flat <> 0 || depth < 0 then nc else depth in
                    let den = denote_d gshape_apply gshape_shift (nat_of_int d) env0 (top env0) in
                    out id "S" (join (List.filter_map (fun (p, t) -> if tag_ok flt t then Some (item_of false p t None) else None) den))
                  end))
    | "copy" ->
        (* the source after its copy was overwritten: unchanged *)
        let c = List.nth cells cell in
        let own = List.map (fun e -> item_of true e.e_payload e.e_tag e.e_rep) (c.polys @ c.flex @ c.rob @ c.labs) in
        let refs = List.map (fun r ->
          let hs, ts = rep_suffix true r.r_rep in
          let p = r.r_place in
          let name = if int_of_n r.r_target < nc then "c" ^ string_of_int (int_of_n r.r_target) else "-" in
          "X " ^ name ^ " " ^ (if p.p_xrefl then "1" else "0") ^ hs ^ " :" ^ vnums [p.p_orig] ^ nums [p.p_rot.acos; p.p_rot.asin; p.p_mag] ^ ts) c.refs in
        out id "M" (join (own @ refs))
    | _ -> ())
