(* C18P driver: the extracted model of oas_precision (coq/OasisPrecision.v) on EVERY prefix of the byte stream of each
   case; prints `id \t M \t <run-length encoded status list>`, the statuses of the cuts 0 .. size in order, as
   harness/c18p.cpp prints them for the real oas_precision:
     ok <16 hex digits of the double> | ok nan | invalid | eof | overflow | crash | hang, joined as `status*count;...`.
   payload: "<tag words ...> x<hex bytes>"; the byte string is the last word. *)
open C18p
open Conv

let hex16 (v : n) : string =
  let h = hex_of_n v in
  String.make (max 0 (16 - String.length h)) '0' ^ h

(* a NaN: exponent field all ones and a non-zero fraction *)
let is_nan_bits (h : string) : bool =
  let v = Int64.of_string ("0x" ^ h) in
  let e = Int64.to_int (Int64.logand (Int64.shift_right_logical v 52) 0x7ffL) in
  e = 0x7ff && Int64.logand v 0xfffffffffffffL <> 0L

let status (bs : n list) : string =
  match oas_precision_model bs with
  | Ok v -> let h = hex16 v in if is_nan_bits h then "ok nan" else "ok " ^ h
  | ErrEof -> "eof"
  | ErrOverflow -> "overflow"
  | ErrInvalid -> "invalid"
  | Crash -> "crash"
  | Hang -> "hang"

let rec firstn k l = if k = 0 then [] else match l with [] -> [] | a :: t -> a :: firstn (k - 1) t

let rle (l : string list) : string =
  let rec go acc cur cnt = function
    | [] -> List.rev ((cur, cnt) :: acc)
    | s :: t -> if s = cur then go acc cur (cnt + 1) t else go ((cur, cnt) :: acc) s 1 t in
  match l with
  | [] -> ""
  | s :: t -> String.concat ";" (List.map (fun (s, c) -> s ^ "*" ^ string_of_int c) (go [] s 1 t))

let () =
  iter_cases Sys.argv.(1) (fun id _kind payload ->
    let ws = words payload in
    if ws <> [] then begin
      let w = List.nth ws (List.length ws - 1) in
      let w = if String.length w > 0 && w.[0] = 'x' then String.sub w 1 (String.length w - 1) else w in
      let bs = bytes_of_hex w in
      let n = List.length bs in
      (* oas_precision reads nothing beyond the START record: beyond the first cut that succeeds on the bytes read so
         far the model is still evaluated cut by cut (no shortcut) *)
      out id "M" (rle (List.init (n + 1) (fun k -> status (firstn k bs))))
    end)
