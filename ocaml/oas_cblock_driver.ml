(* OAS_CBLOCK driver: runs the extracted CBLOCK-aware models of coq/OasisCblock.v with inflate / deflate instantiated by the
   finite tables of the case payload (computed by the harness with zlib itself).
   kinds rdc-*: payload "<tag words> I<inflate table> x<hex bytes>" -> `id \t M \t <dump or outcome word>` of read_oas_model_c;
     table entries "<z hex>/<avail_out hex>/=<output hex>" | ".../!", joined by ','.  A query that is not in the table raises
     Miss: the line is "tablemiss" (the harness could not foresee the query; not compared).
   kind wrc: payload "<seed> <variant> <level> D<deflate table> | <library text>" -> hex of write_oas_model_c.
   The dump code is that of ocaml/c04r_driver.ml (same text as dump_lib of harness/c04r.cpp). *)
open Oas_cblock
open Conv
let plain_name (s : string) =
  String.length s > 0 &&
  (let ok = ref true in
   String.iter (fun c -> match c with
     | 'a'..'z' | 'A'..'Z' | '0'..'9' | '_' | '.' | '$' -> ()
     | _ -> ok := false) s; !ok)

let string_of_bytes (l : n list) : string =
  let b = Buffer.create 16 in
  List.iter (fun x -> Buffer.add_char b (Char.chr (int_of_n x land 255))) l; Buffer.contents b

let hex_of_string (s : string) : string =
  let b = Buffer.create 32 in
  String.iter (fun c -> Buffer.add_string b (Printf.sprintf "%02x" (Char.code c))) s; Buffer.contents b

let show_str (s : string) = if plain_name s then s else "0x" ^ hex_of_string s

let standard_names = ["S_MAX_SIGNED_INTEGER_WIDTH"; "S_MAX_UNSIGNED_INTEGER_WIDTH"; "S_MAX_STRING_LENGTH";
                      "S_POLYGON_MAX_VERTICES"; "S_PATH_MAX_VERTICES"; "S_TOP_CELL";
                      "S_BOUNDING_BOXES_AVAILABLE"; "S_BOUNDING_BOX"; "S_CELL_OFFSET"]

(* unsigned 64-bit value as the nearest double (what (double)uint64_t gives) *)
let int64_of_n (v : n) : int64 =
  let rec pos p = match p with
    | XH -> 1L
    | XO q -> Int64.shift_left (pos q) 1
    | XI q -> Int64.logor (Int64.shift_left (pos q) 1) 1L in
  match v with N0 -> 0L | Npos p -> pos p
let float_of_n (v : n) : float =
  let x = int64_of_n v in
  if Int64.compare x 0L >= 0 then Int64.to_float x
  else
    let half = Int64.logor (Int64.shift_right_logical x 1) (Int64.logand x 1L) in
    Int64.to_float half *. 2.0

let float_of_real (r : real) : float =
  match r with
  | RInt (neg, v) -> if neg then -. (float_of_n v) else float_of_n v
  | RRecip (neg, v) -> if neg then (-1.0) /. float_of_n v else 1.0 /. float_of_n v
  | RRatio (neg, a, b) -> if neg then (-. (float_of_n a)) /. float_of_n b else float_of_n a /. float_of_n b
  | RF32 bs ->
      let v = List.fold_right (fun b acc -> Int32.logor (Int32.shift_left acc 8) (Int32.of_int (int_of_n b))) bs 0l in
      Int32.float_of_bits v
  | RF64 bs ->
      let v = List.fold_right (fun b acc -> Int64.logor (Int64.shift_left acc 8) (Int64.of_int (int_of_n b))) bs 0L in
      Int64.float_of_bits v

let hex_dbl (f : float) = Printf.sprintf "%016Lx" (Int64.bits_of_float f)

exception Big            (* a coordinate beyond 2^40 grid steps: the doubles of the implementation are not exact enough
                            (circle recognition needs about 1e-3 grid steps) *)

(* z -> int, raising Big beyond 2^40 *)
let limit = 1 lsl 40
let rec big_pos (p : positive) (k : int) : int =   (* number of bits *)
  match p with XH -> k + 1 | XO q | XI q -> big_pos q (k + 1)
let iz (v : z) : int =
  (match v with Z0 -> () | Zpos p | Zneg p -> if big_pos p 0 > 40 then raise Big);
  int_of_z v
let in_ (v : n) : int =
  (match v with N0 -> () | Npos p -> if big_pos p 0 > 40 then raise Big);
  int_of_n v

let hex_i (i : int) = if i < 0 then "-" ^ Printf.sprintf "%x" (- i) else Printf.sprintf "%x" i

let props_text (ps : n list gprop list) : string =
  let items = List.filter_map (fun p ->
    let nm = string_of_bytes p.gp_name in
    if List.mem nm standard_names then None
    else
      Some (show_str nm ^ "=" ^ String.concat "," (List.map (fun v -> match v with
        | RV_uint u -> "U" ^ hex_of_n u
        | RV_int i -> "I" ^ hex_of_z i
        | RV_real r -> "R" ^ hex_dbl (float_of_real r)
        | RV_str s -> "S" ^ hex_of_bytes s
        | RV_ref k -> "U" ^ hex_of_n k) p.gp_vals))) ps in
  if items = [] then "-" else String.concat ";" items

let pts_text (l : (int * int) list) =
  String.concat " " (Printf.sprintf "%x" (List.length l) :: List.map (fun (x, y) -> hex_i x ^ " " ^ hex_i y) l)

let ipt ((x, y) : z * z) : int * int = (iz x, iz y)

let rec dedup = function
  | a :: (b :: _ as t) -> if a = b then dedup t else a :: dedup t
  | l -> l

let canon_cycle (l : (int * int) list) : (int * int) list =
  let p = dedup l in
  let rec strip p = match p with
    | _ :: _ :: _ when List.hd p = List.nth p (List.length p - 1) -> strip (List.rev (List.tl (List.rev p)))
    | _ -> p in
  let p = strip p in
  let a = Array.of_list p in
  let n = Array.length a in
  if n = 0 then [] else begin
    let best = ref None in
    for dir = 0 to 1 do
      for s = 0 to n - 1 do
        let c = List.init n (fun i -> if dir = 1 then a.((s + n - i) mod n) else a.((s + i) mod n)) in
        match !best with
        | None -> best := Some c
        | Some b -> if compare c b < 0 then best := Some c
      done
    done;
    match !best with Some b -> b | None -> []
  end

(* the harness uses 128-bit products: use the extracted Z arithmetic *)
let zsign (v : z) : int = match v with Z0 -> 0 | Zpos _ -> 1 | Zneg _ -> -1
let zmul (a : int) (b : int) : z = Z.mul (z_of_int a) (z_of_int b)

let canon_line (l : (int * int) list) : (int * int) list =
  let p = ref (dedup l) in
  let changed = ref true in
  while !changed do
    changed := false;
    let a = Array.of_list !p in
    let n = Array.length a in
    (try
      for i = 1 to n - 2 do
        let (x0, y0) = a.(i - 1) and (x1, y1) = a.(i) and (x2, y2) = a.(i + 1) in
        let ax = x1 - x0 and ay = y1 - y0 and bx = x2 - x1 and by = y2 - y1 in
        let cross = zsign (Z.sub (zmul ax by) (zmul ay bx)) in
        let dot = zsign (Z.add (zmul ax bx) (zmul ay by)) in
        if cross = 0 && dot > 0 then begin
          p := List.filteri (fun k _ -> k <> i) !p;
          changed := true;
          raise Exit
        end
      done
    with Exit -> ())
  done;
  !p

(* offsets of a gdstk Repetition (as rep_offsets_of in the harness); beyond 4096 copies the parameters are printed *)
let rep_text (r : rrep) : string =
  let small v = match v with N0 -> Some 0 | Npos p -> if big_pos p 0 > 13 then None else Some (int_of_n v) in
  let lattice cols rows f =
    match small cols, small rows with
    | Some c, Some w when c <= 4096 && w <= 4096 && c * w <= 4096 ->
        Some (List.concat (List.init c (fun i -> List.init w (fun j -> f i j))))
    | _, _ -> None in
  let show offs =
    if List.length offs <= 1 then "-"
    else
      let s = List.sort compare offs in
      String.concat " " (Printf.sprintf "%x" (List.length s) :: List.map (fun (x, y) -> hex_i x ^ " " ^ hex_i y) s) in
  let chk v = if abs v >= limit then raise Big else v in
  match r with
  | RR_none -> "-"
  | RR_rect (cols, rows, sx, sy) ->
      (match lattice cols rows (fun i j -> (chk (i * in_ sx), chk (j * in_ sy))) with
       | Some o -> show o
       | None -> "rect " ^ hex_of_n cols ^ " " ^ hex_of_n rows ^ " " ^ hex_i (in_ sx) ^ " " ^ hex_i (in_ sy))
  | RR_regular (cols, rows, (v1x, v1y), (v2x, v2y)) ->
      (match lattice cols rows (fun i j -> (chk (i * iz v1x + j * iz v2x), chk (i * iz v1y + j * iz v2y))) with
       | Some o ->
           let t = show o in
           (* the two vectors as well: v2 of a one-row lattice does not show in the offsets *)
           if t = "-" then t
           else t ^ " R " ^ hex_i (iz v1x) ^ " " ^ hex_i (iz v1y) ^ " " ^ hex_i (iz v2x) ^ " " ^ hex_i (iz v2y)
       | None -> "regular " ^ hex_of_n cols ^ " " ^ hex_of_n rows ^ " " ^ hex_i (iz v1x) ^ " " ^ hex_i (iz v1y) ^ " " ^
                 hex_i (iz v2x) ^ " " ^ hex_i (iz v2y))
  | RR_explicit offs -> show ((0, 0) :: List.map ipt offs)
  | RR_ex xs -> show ((0, 0) :: List.map (fun x -> (in_ x, 0)) xs)
  | RR_ey ys -> show ((0, 0) :: List.map (fun y -> (0, in_ y)) ys)

(* llround(rotation * (180 / M_PI) * 1e6) % 360000000 with rotation = degrees * (M_PI / 180), as the harness does *)
let microdeg (deg : float) : string =
  let rot = deg *. (Float.pi /. 180.0) in
  let t = rot *. (180.0 /. Float.pi) *. 1e6 in
  if not (Float.abs t < 9e18) then "x"
  else
    let v = Int64.of_float (Float.round t) in
    let m = Int64.rem v 360000000L in
    let m = if Int64.compare m 0L < 0 then Int64.add m 360000000L else m in
    Printf.sprintf "%Lx" m

let elem_line ((e, ps) : n list gelem * n list gprop list) : string =
  let pr = props_text ps in
  match e with
  | GCircle (l, d, (cx, cy), rad, r) ->
      let x = iz cx and y = iz cy and rr = in_ rad in
      let body =
        if rr >= 3 then "circle " ^ hex_i x ^ " " ^ hex_i y ^ " " ^ hex_i rr
        else pts_text (canon_cycle [ (x + rr, y); (x, y + rr); (x - rr, y); (x, y - rr) ]) in
      "POLY " ^ hex_of_n l ^ " " ^ hex_of_n d ^ "|" ^ body ^ "|" ^ rep_text r ^ "|" ^ pr
  | GPolygon (l, d, pts, r) ->
      "POLY " ^ hex_of_n l ^ " " ^ hex_of_n d ^ "|" ^ pts_text (canon_cycle (List.map ipt pts)) ^ "|" ^
      rep_text r ^ "|" ^ pr
  | GPath (l, d, hw, en, spine, r) ->
      let h = in_ hw in
      let (e0, e1) = match en with
        | RE_flush -> (0, 0) | RE_half -> (h, h) | RE_ext (u, v) -> (iz u, iz v) in
      "PATH " ^ hex_of_n l ^ " " ^ hex_of_n d ^ "|" ^ hex_i h ^ " " ^ hex_i e0 ^ " " ^ hex_i e1 ^ "|" ^
      pts_text (canon_line (List.map ipt spine)) ^ "|" ^ rep_text r ^ "|" ^ pr
  | GLabel (s, l, t, (x, y), r) ->
      "LABEL " ^ hex_of_n l ^ " " ^ hex_of_n t ^ "|" ^ hex_i (iz x) ^ " " ^ hex_i (iz y) ^ " " ^
      show_str (string_of_bytes s) ^ "|" ^ rep_text r ^ "|" ^ pr
  | GRef (c, _, tr, flip, (x, y), r) ->
      let (md, mag) = match tr with
        | PT_quarter aa -> (Printf.sprintf "%x" (int_of_n aa * 90000000), 1.0)
        | PT_general (mag, ang) ->
            ((match ang with Some a -> microdeg (float_of_real a) | None -> "0"),
             (match mag with Some m -> float_of_real m | None -> 1.0)) in
      "REF " ^ show_str (string_of_bytes c) ^ "|" ^ hex_i (iz x) ^ " " ^ hex_i (iz y) ^ " " ^ md ^ " " ^ hex_dbl mag ^ " " ^
      (if flip then "1" else "0") ^ "|" ^ rep_text r ^ "|" ^ pr

let dump (u : real) (lp : n list gprop list) (cells : n list gcell list) : string =
  let precision = 1e-6 *. (1.0 /. float_of_real u) in
  if not (precision > 1e-15 && precision < 1e3) then "badunit"
  else
    try
      let blocks = List.map (fun c ->
        let name = string_of_bytes c.gc_name in
        let lines = ("CELL " ^ show_str name ^ "|" ^ props_text c.gc_props) :: List.sort compare (List.map elem_line c.gc_elems) in
        (name, String.concat " ;; " lines)) cells in
      let blocks = List.sort compare blocks in
      let body = String.concat " ;; " (("LIB|" ^ props_text lp) :: List.map snd blocks) in
      (if lib_missing cells then "MISSING ;; " else "") ^ body ^ " ;; PREC " ^ hex_dbl precision
    with Big -> "bigcoord"

let show_outcome (o : rlib outcome) : string =
  match o with
  | Ok (RLib (u, lp, cells)) -> dump u lp cells
  | Ok RUnsupported -> "unsupported"
  | Ok RCblock -> "cblock"
  | ErrEof -> "eof"
  | ErrOverflow -> "overflow"
  | ErrInvalid -> "invalid"
  | Crash -> "crash"
  | Hang -> "hang"

exception Miss

let split_on (c : char) (s : string) : string list = if s = "" then [] else String.split_on_char c s

(* "I<entries>" -> association list ((z hex, avail_out hex) -> output bytes option) *)
let parse_inflate (w : string) : ((string * string) * n list option) list =
  let body = String.sub w 1 (String.length w - 1) in
  List.map (fun e ->
    match String.split_on_char '/' e with
    | [z; n; r] ->
        let res = if r = "!" then None else Some (bytes_of_hex (String.sub r 1 (String.length r - 1))) in
        ((z, hex_of_n (n_of_hex n)), res)
    | _ -> failwith "bad inflate table entry") (split_on ',' body)

(* ---- the library text of harness/c04w.cpp (parser of ocaml/c04w_driver.ml) *)
exception Parse of string

let toks = ref [||]
let pos = ref 0
let next () =
  if !pos >= Array.length !toks then raise (Parse "unexpected end");
  let t = (!toks).(!pos) in incr pos; t
let num () = n_of_hex (next ())
let znum () = z_of_hex (next ())
let count () = int_of_n (num ())
let bytes () = let t = next () in if t = "-" then [] else bytes_of_hex t
let rec times n f = if n <= 0 then [] else let x = f () in x :: times (n - 1) f

let value () =
  match next () with
  | "U" -> VUInt (num ())
  | "I" -> VInt (znum ())
  | "R" -> VReal (num ())
  | "S" -> VStr (bytes ())
  | t -> raise (Parse ("value kind " ^ t))
let props () =
  let n = count () in
  times n (fun () -> let name = bytes () in let nv = count () in let vs = times nv value in (name, vs))
let point () = let x = znum () in let y = znum () in (x, y)
let rep () =
  match next () with
  | "N" -> WNone
  | "R" -> let c = num () in let r = num () in let sx = znum () in let sy = znum () in WRect (c, r, sx, sy)
  | "G" -> let c = num () in let r = num () in let v1 = point () in let v2 = point () in WReg (c, r, v1, v2)
  | "E" -> let n = count () in WExpl (times n point)
  | "X" -> let n = count () in WExplX (times n znum)
  | "Y" -> let n = count () in WExplY (times n znum)
  | t -> raise (Parse ("repetition kind " ^ t))
let points () = let n = count () in times n point

let poly () =
  let layer = num () in let ty = num () in let pts = points () in let r = rep () in let ps = props () in
  { py_layer = layer; py_type = ty; py_pts = pts; py_rep = r; py_props = ps }
let pel () =
  let layer = num () in let ty = num () in let hw = num () in
  let e = (match next () with
    | "F" -> WE_flush | "H" -> WE_half
    | "E" -> let a = znum () in let b = znum () in WE_ext (a, b)
    | t -> raise (Parse ("end kind " ^ t))) in
  { pe_layer = layer; pe_type = ty; pe_hw = hw; pe_end = e }
let path () =
  let n = count () in let els = times n pel in let pts = points () in let r = rep () in let ps = props () in
  { ph_els = els; ph_pts = pts; ph_rep = r; ph_props = ps }
let reference () =
  let name = bytes () in let x = znum () in let y = znum () in let mag = num () in let rot = num () in
  let q = (let t = next () in if t = "-" then None else Some (z_of_hex t)) in
  let flip = (next () = "1") in let r = rep () in let ps = props () in
  { rf_name = name; rf_x = x; rf_y = y; rf_mag = mag; rf_rot = rot; rf_quarter = q; rf_flip = flip; rf_rep = r;
    rf_props = ps }
let label () =
  let text = bytes () in let layer = num () in let ty = num () in let x = znum () in let y = znum () in
  let r = rep () in let ps = props () in
  { lb_text = text; lb_layer = layer; lb_type = ty; lb_x = x; lb_y = y; lb_rep = r; lb_props = ps }
let cell () =
  let name = bytes () in
  let np = count () in let polys = times np poly in
  let nh = count () in let paths = times nh path in
  let nr = count () in let refs = times nr reference in
  let nl = count () in let labels = times nl label in
  let ps = props () in
  { cl_name = name; cl_polys = polys; cl_paths = paths; cl_refs = refs; cl_labels = labels; cl_props = ps }
let library () =
  let cfg = (next () = "1") in
  let u = num () in
  let ps = props () in
  let nc = count () in let cells = times nc cell in
  (cfg, { li_unit = u; li_props = ps; li_cells = cells })


(* "D<entries>": (cell body hex, deflated bytes) *)
let parse_deflate (w : string) : (string * n list) list =
  let body = String.sub w 1 (String.length w - 1) in
  List.map (fun e ->
    match String.split_on_char '/' e with
    | [b; z] -> (b, bytes_of_hex z)
    | _ -> failwith "bad deflate table entry") (split_on ',' body)

let () =
  iter_cases Sys.argv.(1) (fun id kind payload ->
    let ws = words payload in
    if kind = "wrc" then begin
      (try
        let (head, text) = (match String.index_opt payload '|' with
          | Some i -> (String.sub payload 0 i, String.sub payload (i + 1) (String.length payload - i - 1))
          | None -> ("", payload)) in
        let hw = words head in
        let table = parse_deflate (List.nth hw (List.length hw - 1)) in
        let deflate (b : n list) : n list =
          match List.assoc_opt (hex_of_bytes b) table with Some z -> z | None -> raise Miss in
        toks := Array.of_list (words text);
        pos := 0;
        let (cfg, l) = library () in
        if !pos <> Array.length !toks then raise (Parse "trailing words");
        out id "M" (try hex_of_bytes (write_oas_model_c deflate cfg l) with Miss -> "tablemiss")
      with Parse m -> out id "M" ("bad-case " ^ m))
    end
    else if String.length kind >= 3 && String.sub kind 0 3 = "rdc" then begin
      let w = List.nth ws (List.length ws - 1) in
      let w = if String.length w > 0 && w.[0] = 'x' then String.sub w 1 (String.length w - 1) else w in
      let bs = bytes_of_hex w in
      let tw = List.nth ws (List.length ws - 2) in
      let table = parse_inflate tw in
      let inflate (z : n list) (avail : n) : n list option =
        match List.assoc_opt (hex_of_bytes z, hex_of_n avail) table with
        | Some r -> r
        | None -> raise Miss in
      let r = try (match read_oas_model_c inflate bs with
                   | CR o -> show_outcome o
                   | CR_zlib -> "zlib"
                   | CR_short -> "invalid|zlib") with Miss -> "tablemiss" in
      out id "M" r
    end)
