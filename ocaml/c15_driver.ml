(* C15 model driver.  Reads the cases written by harness/c15.cpp.  Every number of the data part is
   the bit pattern of a double, i.e. a dyadic rational m*2^e.

   M : the model's post-state (run_call on the exact rationals), printed as integers on the 2^-40
       grid like the harness's I line, and n0 = 0: since fix 66f871b the step rule clamps
       (step_rule_defined_lemma), so the model predicts that no first step is NaN.
   S : "S:ok" when
       (a) the vertices lie on the exact curve in order: the harness proposes a parameter for every
           vertex, the driver checks 0 < t1 < ... < tn = 1 and |C(t_k) - V_k| <= 1e-7 of the
           coordinate scale (integer de Casteljau on a grid of 2^-34 of the scale, parameters on
           2^-30; for arcs |M^-1 (V - c)|^2 = 1 within 1e-7 and the uniform parameter step);
       (b) for the classes the property lists, the exact curve stays within K*tol of the chord of its
           own piece: points of the exact curve (polynomials: parameters on a 2^-24 grid inside the
           piece; ellipses: rational points ((1-u^2)/(1+u^2), 2u/(1+u^2)) turned by quarter turns,
           restricted to the chord's span by the implementation's own end points, mapped by the
           affine map) against the chord with the integer test extracted from Coq.
           The extracted arithmetic is bit-by-bit, so (b) runs on a working grid of tol*2^-12 (the
           power of two below): control points / matrix, evaluated point and chord end points are
           rounded to it (each by at most 0.71 grid units), and the radius is K*tol + 4 units, i.e.
           K*(1 + 0.001/K) tol at most.
         K = 4   arcs, ellipses, racetracks (arc_sagitta_bound_lemma)
         K = 7   corner fillets (n points = n-1 chords: (5/2)^2 = 6.25)
         K = 4   cubic sections, interpolation, parametric cubic (cubic_two_point_bound_lemma: 3.2)
         K = 2   quadratic sections (the midpoint test is the maximum: 1)
         K = 4   general Bezier (measured; the code tests the midpoint only)
       "S:FAIL <key> ..." otherwise, "S:skip ..." when there is nothing to check. *)
open C15
open Conv

(* ------------------------------------------------------------------ numbers *)
let rec pow2_pos k = if k <= 0 then XH else XO (pow2_pos (k - 1))
let g40 = pow2_pos 40
let zi = z_of_int
let qi i = inject_Z (zi i)
let q0 = qi 0
let q1 = qi 1
let zpow2 k = Zpos (pow2_pos k)

(* double bit pattern -> (signed mantissa, exponent), value = m * 2^e, m odd or 0 *)
exception Nonfinite
let dy_of_hexdbl (s : string) : int * int =
  let hi = int_of_string ("0x" ^ String.sub s 0 8) and lo = int_of_string ("0x" ^ String.sub s 8 8) in
  let sign = hi lsr 31 and ex = (hi lsr 20) land 0x7ff in
  let mant = ((hi land 0xfffff) lsl 32) lor lo in
  if ex = 0x7ff then raise Nonfinite
  else
    let m, e = if ex = 0 then (mant, -1074) else (mant lor (1 lsl 52), ex - 1075) in
    if m = 0 then (0, 0) else
    let rec strip m e = if m land 1 = 0 then strip (m lsr 1) (e + 1) else (m, e) in
    let m, e = strip m e in
    ((if sign = 1 then - m else m), e)

let q_of_dy (m, e) : q =
  if e >= 0 then inject_Z (Z.mul (zi m) (zpow2 e)) else { qnum = zi m; qden = pow2_pos (- e) }

let bitlen m = let rec go m k = if m = 0 then k else go (m lsr 1) (k + 1) in go (abs m) 0
(* floor(log2 |v|) of a non-zero dyadic *)
let ilog2 (m, e) = e + bitlen m - 1

(* nearest integer of m*2^e / 2^g as an OCaml int (|result| < 2^61 is the caller's business) *)
let round_to_grid g (m, e) : int =
  if m = 0 then 0 else
  let k = e - g in
  if k >= 0 then (if bitlen m + k > 61 then failwith "grid overflow" else m lsl k)
  else if - k >= 62 then 0
  else let h = 1 lsl (- k - 1) in (m + h) asr (- k)
let zgrid g d = zi (round_to_grid g d)

let grid40 (x : q) : string = hex_of_z (grid_round g40 x)
let pt_grid40 (p : pt) = grid40 (fst p) ^ " " ^ grid40 (snd p)

(* ------------------------------------------------------------------ token stream *)
type toks = { mutable l : string list }
let next t = match t.l with x :: r -> t.l <- r; x | [] -> failwith "short case"
let next_int t = int_of_string (next t)
let next_dy t = dy_of_hexdbl (next t)
let next_dpt t = let x = next_dy t in let y = next_dy t in (x, y)
let hex_int s = (* signed hex integer below 2^62 *)
  if String.length s > 0 && s.[0] = '-' then - (int_of_string ("0x" ^ String.sub s 1 (String.length s - 1)))
  else int_of_string ("0x" ^ s)

let data_part payload =
  match String.index_opt payload '|' with
  | Some i -> String.sub payload (i + 1) (String.length payload - i - 1)
  | None -> ""

exception Sfail of string

(* working grid for the deviation test: 2^gd <= tol * 2^-12 < 2^(gd+1); radius K*tol + 4 units *)
let dev_grid tol = ilog2 tol - 12
let dev_radius gd k tol : z =
  let (m, e) = tol in
  (* ceil (k * m * 2^(e - gd)) + 4 ; e - gd = 13 - bitlen m <= 12 *)
  let sh = e - gd in
  if sh >= 0 && bitlen (k * m) + sh > 60 then failwith "radius overflow";
  let v = if sh >= 0 then (k * m) lsl sh else (k * m + (1 lsl (- sh)) - 1) asr (- sh) in
  zi (v + 4)

(* ------------------------------------------------------------------ polynomial calls *)
let k_for kind nctrl = match kind with "bezier" -> 4 | _ -> if nctrl = 3 then 2 else 4

let build_call kind rel cycle (pts : pt list) (hob : (pt * pt) list) : call option =
  match kind, pts with
  | "segment", p :: _ -> Some (CSegment (rel, p))
  | "segments", _ -> Some (CSegments (rel, pts))
  | "horizontal", p :: _ -> Some (CHorizontal (rel, fst p))
  | "horizontals", _ -> Some (CHorizontals (rel, List.map fst pts))
  | "vertical", p :: _ -> Some (CVertical (rel, fst p))
  | "verticals", _ -> Some (CVerticals (rel, List.map fst pts))
  | "cubic", _ -> Some (CCubic (rel, pts))
  | "cubic_smooth", _ -> Some (CCubicSmooth (rel, pts))
  | "quadratic", _ -> Some (CQuadratic (rel, pts))
  | "quad_smooth1", p :: _ -> Some (CQuadSmooth1 (rel, p))
  | "quad_smooth", _ -> Some (CQuadSmooth (rel, pts))
  | "bezier", _ -> Some (CBezier (rel, pts))
  | "interp", _ -> Some (CInterp (rel, cycle, pts, hob))
  | _ -> None

(* exact rational -> dyadic pair (the model's control points are sums of doubles: dyadic) *)
let dy_of_q (x : q) : int * int =
  let x = qred x in
  let rec log2p p k = match p with XH -> k | XO r -> log2p r (k + 1) | XI _ -> failwith "not dyadic" in
  let e = - (log2p x.qden 0) in
  let rec zbits = function XH -> 1 | XO r | XI r -> 1 + zbits r in
  let nb = match x.qnum with Z0 -> 0 | Zpos p | Zneg p -> zbits p in
  (* longer than 60 bits (sums of doubles of very different magnitude): drop the low bits; every use
     below rounds to a much coarser grid anyway *)
  let drop = max 0 (nb - 60) in
  let num = if drop = 0 then x.qnum else Z.shiftr x.qnum (zi drop) in
  let m = int_of_z num and e = e + drop in
  if m = 0 then (0, 0) else
  let rec strip m e = if m land 1 = 0 then strip (m asr 1) (e + 1) else (m, e) in
  strip m e

let zpt_on g ((x, y) : (int * int) * (int * int)) : zpt = (zgrid g x, zgrid g y)

let check_poly_section budget kind tol (s : section) (vs : ((int * int) * (int * int)) list) (ts : int list) : unit =
  let nv = List.length vs in
  if nv = 0 then () else
  let ctrl_q = sec_ctrl s in
  let ctrl = List.map (fun p -> (dy_of_q (fst p), dy_of_q (snd p))) ctrl_q in
  let all_dy = List.concat_map (fun (x, y) -> [x; y]) (ctrl @ vs) in
  let scale_log = List.fold_left (fun a d -> if fst d = 0 then a else max a (ilog2 d)) (-1000) all_dy in
  let gc = if scale_log = -1000 then -60 else scale_log - 34 in
  let eps_on = zi 1800 in   (* 1e-7 of the scale, in units of 2^-34 (.. 2^-35) of it *)
  match s with
  | SLine (_, _) ->
      (match vs, List.rev ctrl with
       | [v], b :: _ ->
           let vz = zpt_on gc v and bz = zpt_on gc b in
           if not (seg_closer_than bz vz vz eps_on) then raise (Sfail (kind ^ ":on-curve line vertex is not the end point"))
       | _ -> raise (Sfail (kind ^ ":on-curve a line section has more than one vertex")))
  | SArc _ -> ()
  | SBez _ ->
      let deg = List.length ctrl - 1 in
      (* order (parameters on the 2^-60 grid) *)
      let one60 = 1 lsl 60 in
      let rec incr prev = function [] -> true | t :: r -> prev < t && incr t r in
      if not (incr 0 ts) then raise (Sfail (kind ^ ":order vertex parameters are not increasing"));
      if List.nth ts (nv - 1) <> one60 then raise (Sfail (kind ^ ":order last parameter is not 1"));
      (* on the curve: grid 2^gc, parameters rounded to 2^-30 *)
      let cz = List.map (zpt_on gc) ctrl in
      let den36 = zpow2 30 in
      let stride = max 1 ((nv + budget - 1) / budget) in
      List.iteri (fun i (t, v) ->
        if i mod stride = 0 || i = nv - 1 then begin
          let tn = (t + (1 lsl 29)) asr 30 in
          let (px, py) = decasteljauZ den36 (zi tn) cz in
          let sh = zi (30 * deg) in
          let p = if deg = 0 then (px, py) else (round_shift sh px, round_shift sh py) in
          let vz = zpt_on gc v in
          if not (seg_closer_than p vz vz eps_on) then
            raise (Sfail (Printf.sprintf "%s:on-curve vertex %d is not on the exact curve" kind i))
        end) (List.combine ts vs);
      (* the Q evaluator agrees with the integer one (first vertex, cheap tie of the two) *)
      (match ts with
       | t :: _ when deg >= 1 ->
           let tn = (t + (1 lsl 29)) asr 30 in
           let tq = qdiv (qi tn) (inject_Z den36) in
           let pq = decasteljau tq (List.map (fun (x, y) -> (inject_Z x, inject_Z y)) cz) in
           let (px, _) = decasteljauZ den36 (zi tn) cz in
           let lhs = qmult (fst pq) (inject_Z (zpow2 (30 * deg))) in
           if not (qeq_bool lhs (inject_Z px)) then raise (Sfail (kind ^ ":internal integer and rational de Casteljau differ"))
       | _ -> ());
      (* deviation, only for control directions within a quarter turn *)
      if ctrl_span_lt_quarter ctrl_q then begin
        let gd = dev_grid tol in
        let r = dev_radius gd (k_for kind (List.length ctrl)) tol in
        let cd = List.map (zpt_on gd) ctrl in
        let vd = List.map (zpt_on gd) vs in
        let m = let b = budget / nv in if b >= 64 then 64 else if b >= 32 then 32 else if b >= 16 then 16
                else if b >= 8 then 8 else if b >= 4 then 4 else 2 in
        let pstride = max 1 ((nv + budget - 1) / budget) in
        let den24 = zpow2 24 in
        let sh = zi (24 * deg) in
        let rec go i tprev vprev tl vl =
          match tl, vl with
          | t :: tr, v :: vr ->
              if i mod pstride = 0 || tr = [] then
              for j = 1 to m - 1 do
                (* a parameter on the 2^-24 grid inside the piece *)
                let tt60 = tprev + (t - tprev) / m * j in
                let tn = (tt60 + (1 lsl 35)) asr 36 in
                let lo = (tprev + (1 lsl 36) - 1) asr 36 and hi = t asr 36 in
                if tn >= lo && tn <= hi then begin
                  let (px, py) = decasteljauZ den24 (zi tn) cd in
                  let p = (round_shift sh px, round_shift sh py) in
                  if not (seg_closer_than p vprev v r) then
                    raise (Sfail (Printf.sprintf "%s:deviation piece %d sample %d/%d farther than K*tol from its chord" kind i j m))
                end
              done;
              go (i + 1) t v tr vr
          | _ -> () in
        go 0 0 (List.hd cd) ts vd
      end

let do_poly id (t : toks) =
  let budget = next_int t in
  let tol = next_dy t in
  let pre = next_dpt t in
  let prectl = next_dpt t in
  let kind = next t in
  let rel = next t = "1" in
  let cycle = next t = "1" in
  let np = next_int t in
  let pts = List.init np (fun _ -> next_dpt t) in
  let nh = next_int t in
  let hob = List.init nh (fun _ -> let a = next_dpt t in let b = next_dpt t in (a, b)) in
  let nsec = next_int t in
  let secdata = List.init nsec (fun _ ->
    let nv = next_int t in
    let vs = List.init nv (fun _ -> next_dpt t) in
    let ts = List.init nv (fun _ -> hex_int (next t)) in
    (vs, ts)) in
  let qp (x, y) : pt = (q_of_dy x, q_of_dy y) in
  let st = { cur = qp pre; lctl = qp prectl } in
  let qpts = List.map qp pts in
  let result =
    if kind = "param" then
      (* parametric(): the section is the callback's cubic; last_ctrl is left alone *)
      let ctrl = List.map (fun p -> if rel then padd st.cur p else p) qpts in
      Some ({ cur = last ctrl pzero; lctl = st.lctl }, [SBez ctrl])
    else
      match build_call kind rel cycle qpts (List.map (fun (a, b) -> (qp a, qp b)) hob) with
      | None -> None
      | Some c -> run_call st c in
  match result with
  | None -> out id "M" "crash"; out id "S" "S:skip outside the documented domain"
  | Some (st', secs) ->
      (* whether the first step takes the clamp branch (where the old code produced NaN): statistics only *)
      let _clamp0 =
        if kind = "param" then false
        else match secs with
          | SBez ctrl :: _ -> step_clamp_at ctrl (q_of_dy tol) q0
          | _ -> false in
      let n0 = false in
      out id "M" (Printf.sprintf "n0=%s E=%s C=%s" (if n0 then "1" else "0") (pt_grid40 st'.cur) (pt_grid40 st'.lctl));
      (try
        if List.length secs <> List.length secdata then raise (Sfail (kind ^ ":sections number of sections differs from the model"));
        List.iter2 (fun s (vs, ts) -> check_poly_section budget kind tol s vs ts) secs secdata;
        if List.exists (fun (vs, _) -> vs = []) secdata then out id "S" "S:skip a section without usable vertices (see P)"
        else out id "S" "S:ok"
      with Sfail m -> out id "S" ("S:FAIL " ^ m))

(* ------------------------------------------------------------------ arcs *)
let zmul = Z.mul and zadd = Z.add and zsub' = Z.sub
let zabs = Z.abs
let zle a b = Z.leb a b

let do_arc id (t : toks) =
  let label = next t in
  let tol = next_dy t in
  let rx = next_dy t in let ry = next_dy t in
  let m11 = next_dy t in let m12 = next_dy t in let m21 = next_dy t in let m22 = next_dy t in
  let cx = next_dy t in let cy = next_dy t in
  let cstep = next_dy t in let sstep = next_dy t in
  let sgn = next_int t in
  let nq = next_int t in
  let nv = next_int t in
  let vs = List.init nv (fun _ -> next_dpt t) in
  let bb = next_int t in
  let samples = List.init (max 0 (nv - 1)) (fun _ ->
    let ns = next_int t in List.init ns (fun _ -> let q = next_int t in let a = hex_int (next t) in (q, a))) in
  out id "M" (Printf.sprintf "arc %d" nv);
  if nv < 2 then out id "S" "S:skip no chord" else
  try
    let elliptical = rx <> ry in
    let all = [m11; m12; m21; m22; cx; cy] @ List.concat_map (fun (x, y) -> [x; y]) vs in
    let scale_log = List.fold_left (fun a d -> if fst d = 0 then a else max a (ilog2 d)) (-1000) all in
    (* ---- (a), (b) on a fine grid *)
    (* fine enough for the smaller radius as well (a flat ellipse far from the origin) *)
    let rmin_log = min (ilog2 rx) (ilog2 ry) in
    let gc = max (min (scale_log - 34) (rmin_log - 28)) (scale_log - 56) in
    let f11 = zgrid gc m11 and f12 = zgrid gc m12 and f21 = zgrid gc m21 and f22 = zgrid gc m22 in
    let fcx = zgrid gc cx and fcy = zgrid gc cy in
    let det = zsub' (zmul f11 f22) (zmul f12 f21) in
    if not (Z.ltb Z0 det) then raise (Sfail (label ^ ":internal degenerate ellipse"));
    let det2 = zmul det det in
    let wof g11 g12 g21 g22 gcx gcy (vx, vy) =
      let x = zsub' vx gcx and y = zsub' vy gcy in
      (zsub' (zmul g22 x) (zmul g12 y), zsub' (zmul g11 y) (zmul g21 x)) in
    let stride = max 1 ((nv + 95) / 96) in
    let ten7 = zi 10000000 in
    let cs30 = zgrid (-30) cstep and sn30 = zgrid (-30) sstep in
    let p30 = zpow2 30 in
    let prev = ref None in
    List.iteri (fun i v ->
      if i mod stride = 0 || i = nv - 1 || (i - 1) mod stride = 0 then begin
        let w = wof f11 f12 f21 f22 fcx fcy (zpt_on gc v) in
        let n2 = zadd (zmul (fst w) (fst w)) (zmul (snd w) (snd w)) in
        if not (zle (zmul ten7 (zabs (zsub' n2 det2))) det2) then
          raise (Sfail (Printf.sprintf "%s:on-curve vertex %d is not on the ellipse" label i));
        (match !prev with
         | Some (j, w0) when j = i - 1 ->
             let dot = zadd (zmul (fst w0) (fst w)) (zmul (snd w0) (snd w)) in
             let crs = zsub' (zmul (fst w0) (snd w)) (zmul (snd w0) (fst w)) in
             let okd = zle (zmul ten7 (zabs (zsub' (zmul dot p30) (zmul cs30 det2)))) (zmul p30 det2) in
             let okc = zle (zmul ten7 (zabs (zsub' (zmul crs p30) (zmul sn30 det2)))) (zmul p30 det2) in
             if not (okd && okc) then
               raise (Sfail (Printf.sprintf "%s:order step %d is not the uniform parameter step" label (i - 1)))
         | _ -> ());
        prev := Some (i, w)
      end) vs;
    (* ---- (c) deviation on the working grid *)
    let gd = min (dev_grid tol) (scale_log - 30) in
    let kk = if label = "fillet" then 7 else 4 in
    let r = dev_radius gd kk tol in
    let d11 = zgrid gd m11 and d12 = zgrid gd m12 and d21 = zgrid gd m21 and d22 = zgrid gd m22 in
    let dcx = zgrid gd cx and dcy = zgrid gd cy in
    let ddet = zsub' (zmul d11 d22) (zmul d12 d21) in
    let vd = List.map (zpt_on gd) vs in
    let b16 = zpow2 bb in
    let z64 = zi 64 in
    let rec chords i vl sl =
      match vl, sl with
      | va :: (vb :: _ as vr), ss :: sr ->
          let wa = wof d11 d12 d21 d22 dcx dcy va and wb = wof d11 d12 d21 d22 dcx dcy vb in
          let cab = zabs (zsub' (zmul (fst wa) (snd wb)) (zmul (snd wa) (fst wb))) in
          List.iteri (fun j (q, a) ->
            let ((x, y), d) as ph = circle_h (zi q) (zi a) b16 in
            (* inside the chord's angular span (with 1/64 of the step as slack), for steps below a half turn *)
            if nq < 2 && Z.ltb Z0 ddet then begin
              let s z = if sgn > 0 then z else Z.opp z in
              let c1 = s (zsub' (zmul (fst wa) y) (zmul (snd wa) x)) in
              let c2 = s (zsub' (zmul x (snd wb)) (zmul y (fst wb))) in
              let slack = Z.opp (zmul d cab) in
              let dt = zadd (zmul (zadd (fst wa) (fst wb)) x) (zmul (zadd (snd wa) (snd wb)) y) in
              if not (zle slack (zmul z64 (zmul ddet c1)) && zle slack (zmul z64 (zmul ddet c2)) && Z.ltb Z0 dt) then
                raise (Sfail (Printf.sprintf "%s:span sample %d of chord %d is outside the span of the chord's end points" label j i))
            end;
            let xh = ell_map_h dcx dcy d11 d12 d21 d22 ph in
            if not (h_seg_closer xh va vb r) then
              raise (Sfail (Printf.sprintf "%s:deviation chord %d sample %d/%d farther than K*tol from the chord" label i (j + 1) (List.length ss + 1))))
            ss;
          chords (i + 1) vr sr
      | _ -> () in
    chords 0 vd samples;
    ignore elliptical;
    out id "S" "S:ok"
  with Sfail msg ->
    (* an elliptical arc sized from the untransformed span: finding F12 *)
    let elliptical = rx <> ry in
    let is_dev = (try let i = String.index msg ':' in String.length msg >= i + 10 && String.sub msg (i + 1) 9 = "deviation" with Not_found -> false) in
    let msg =
      if elliptical && is_dev then
        let i = String.index msg ':' in
        let rest = String.sub msg (i + 10) (String.length msg - i - 10) in
        (if label = "arc" || label = "turn" then "Curve::arc" else label) ^ ":ellipse-span" ^ rest
      else if is_dev && (label = "arc" || label = "turn") then
        let i = String.index msg ':' in "Curve::arc" ^ String.sub msg i (String.length msg - i)
      else msg in
    out id "S" ("S:FAIL " ^ msg)

(* ------------------------------------------------------------------ shapes, commands *)
let next_qpt t = let (x, y) = next_dpt t in (q_of_dy x, q_of_dy y)
let do_rect id (t : toks) =
  let a = next_qpt t in let b = next_qpt t in
  out id "M" ("v" ^ String.concat "" (List.map (fun p -> " " ^ pt_grid40 p) (rectangle_pts a b)))

let do_cross id (t : toks) =
  let c = next_qpt t in let full = q_of_dy (next_dy t) in let arm = q_of_dy (next_dy t) in
  out id "M" ("v" ^ String.concat "" (List.map (fun p -> " " ^ pt_grid40 p) (cross_pts c full arm)))

let do_cmd id (t : toks) =
  let z = pzero in
  let ins = List.filter_map (fun w ->
    match w with
    | "segment:r" -> Some (I_l z) | "segment:a" -> Some (I_L z)
    | "horizontal:r" -> Some (I_h q0) | "horizontal:a" -> Some (I_H q0)
    | "vertical:r" -> Some (I_v q0) | "vertical:a" -> Some (I_V q0)
    | "cubic:r" -> Some (I_c (z, z, z)) | "cubic:a" -> Some (I_C (z, z, z))
    | "cubic_smooth:r" -> Some (I_s (z, z)) | "cubic_smooth:a" -> Some (I_S (z, z))
    | "quadratic:r" -> Some (I_q (z, z)) | "quadratic:a" -> Some (I_Q (z, z))
    | "quad_smooth:r" -> Some (I_t z) | "quad_smooth:a" -> Some (I_T z)
    | "arc:a" | "turn:a" | "arc:r" | "turn:r" -> Some (I_arc (z, z))
    | _ -> None) t.l in
  match commands { cur = z; lctl = z } ins with
  | Some (_, secs) -> out id "M" (Printf.sprintf "cmd %d" (List.length secs))
  | None -> out id "M" "crash"

let () =
  iter_cases Sys.argv.(1) (fun id kind payload ->
    let t = { l = words (data_part payload) } in
    (try
      match t.l with
      | [] -> ()
      | "skip" :: _ -> out id "M" (match kind with
                                    | "ellipse" | "racetrack" | "fillet" | "arc" | "turn" -> "arc *"
                                    | _ -> "skip");
                       out id "S" "S:skip"
      | w :: r ->
          t.l <- r;
          (match w with
           | "poly" -> do_poly id t
           | "arc" -> do_arc id t
           | "rect" -> do_rect id t
           | "cross" -> do_cross id t
           | "regpoly" -> out id "M" ("regpoly " ^ next t)
           | "cmd" -> do_cmd id t
           | _ -> ())
    with
    | Nonfinite -> out id "M" "nonfinite-input"; out id "S" "S:skip non-finite state"
    | Failure m -> out id "M" ("bad-case " ^ m));
    flush stdout)
