(* C19 / unit c19_plist: runs the extracted point-list model on the harness's cases. *)
open C19_plist
open Conv

let status = function
  | Ok _ -> "ok" | ErrEof -> "eof" | ErrOverflow -> "overflow" | ErrInvalid -> "invalid"
  | Crash -> "crash" | Hang -> "hang"

let sentinel = n_of_int 0x55

let rec pairs = function
  | x :: y :: t -> (z_of_hex x, z_of_hex y) :: pairs t
  | _ -> []

let pts_text (l : (z * z) list) =
  String.concat " " (string_of_int (List.length l) :: List.map (fun (x, y) -> hex_of_z x ^ " " ^ hex_of_z y) l)

(* "<bytes> ok <n> <pts> <consumed>" or "<bytes> <status>" *)
let decode_line closed p0 bs =
  let all = bs @ [sentinel] in
  match dec_point_list closed p0 all with
  | Ok (pts, rest) ->
      hex_of_bytes bs ^ " ok " ^ pts_text pts ^ " " ^ string_of_int (List.length all - List.length rest)
  | o -> hex_of_bytes bs ^ " " ^ status o

let () =
  iter_cases Sys.argv.(1) (fun id kind payload ->
    match kind with
    | "plrt" | "plw" ->
        (match words payload with
         | c :: coords ->
             let closed = (c = "1") in
             let pts = pairs coords in
             (match pts with
              | [] -> out id "M" "bad-case"
              | p0 :: _ ->
                  let bs = enc_point_list closed pts in
                  if kind = "plw" then out id "M" (hex_of_bytes bs)
                  else out id "M" (decode_line closed p0 bs))
         | _ -> out id "M" "bad-case")
    | "plalt" ->
        (match words payload with
         | ty :: c :: coords ->
             let closed = (c = "1") in
             let pts = pairs coords in
             (match pts with
              | [] -> out id "M" "bad-case"
              | p0 :: tl ->
                  (match spec_enc_plist (n_of_int (int_of_string ty)) closed pts with
                   | None -> out id "M" "inexpressible"
                   | Some bs ->
                       out id "M" (decode_line closed p0 bs);
                       (* specification level: the legal encoding denotes the list itself *)
                       out id "S" (hex_of_bytes bs ^ " ok " ^ pts_text tl ^ " " ^ string_of_int (List.length bs))))
         | _ -> out id "M" "bad-case")
    | "pldec" ->
        (match words payload with
         | c :: rx :: ry :: tl ->
             let closed = (c = "1") in
             let bs = bytes_of_hex (match tl with [h] -> h | _ -> "") in
             (match dec_point_list closed (z_of_hex rx, z_of_hex ry) bs with
              | Ok (pts, rest) ->
                  out id "M" ("ok " ^ pts_text pts ^ " " ^ string_of_int (List.length bs - List.length rest))
              | o -> out id "M" (status o))
         | _ -> out id "M" "bad-case")
    | _ -> ())
