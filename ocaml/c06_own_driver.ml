(* C06 (unit c06_own): runs the extracted ownership model on the cases of harness/c06_own.cpp.
   payload := "pool" n OBJ^n "ops" n OP^n   (grammar in harness/c06_own.cpp); every number is hex and is an
   address as the harness numbered the real pointers (0 = NULL), a count, a capacity or a tag.
   The driver only parses the payload into the extracted records and prints the tokens show_step returns. *)
open C06_own
open Conv

let toks = ref [||]
let pos = ref 0
let next () = let t = !toks.(!pos) in incr pos; t
let num () = n_of_hex (next ())
let cnt () = int_of_string ("0x" ^ next ())
let rec times k f = if k <= 0 then [] else let x = f () in x :: times (k - 1) f
let listn f = let k = cnt () in times k f

let arr () = let a_cap = num () in let a_cnt = num () in let a_items = num () in { a_cap; a_cnt; a_items }
let rep () = match next () with
  | "N" -> RNone
  | "T" -> let c = num () in let r = num () in RRect (c, r)
  | "G" -> let c = num () in let r = num () in RRegular (c, r)
  | "E" -> RExplicit (arr ())
  | "EX" -> RExplicitX (arr ())
  | "EY" -> RExplicitY (arr ())
  | s -> failwith ("bad repetition " ^ s)
let pvalue () = match next () with
  | "S" -> let n = num () in let ty = num () in PVScalar (n, ty)
  | "B" -> let n = num () in let c = num () in let b = num () in PVString (n, c, b)
  | s -> failwith ("bad value " ^ s)
let prop () = let p_node = num () in let p_name = num () in let p_values = listn pvalue in { p_node; p_name; p_values }
let props () = listn prop
let polygon () =
  let pg_self = num () in let pg_tag = num () in let pg_points = arr () in let pg_rep = rep () in
  let pg_props = props () in { pg_self; pg_tag; pg_points; pg_rep; pg_props; pg_owner = N0 }
let flexpath () =
  let fp_self = num () in let fp_spine = arr () in let fp_props = props () in let fp_rep = rep () in
  let fp_raith_name = num () in let fp_elems = num () in
  let fp_els = listn (fun () -> let fe_tag = num () in let fe_hwo = arr () in let fe_ext = listn num in
                                 { fe_tag; fe_hwo; fe_ext }) in
  { fp_self; fp_spine; fp_props; fp_rep; fp_raith_name; fp_elems; fp_els; fp_owner = N0 }
let subpath () = match next () with
  | "p" -> SPPlain (num ())
  | "b" -> SPBezier (arr ())
  | "f" -> SPParam (listn num)
  | s -> failwith ("bad subpath " ^ s)
let robustpath () =
  let rp_self = num () in let rp_props = props () in let rp_rep = rep () in let rp_subs = arr () in
  let rp_subpaths = listn subpath in let rp_elems = num () in
  let rp_els = listn (fun () ->
    let re_tag = num () in let re_width = arr () in let re_wext = listn num in
    let re_offset = arr () in let re_oext = listn num in let re_ext = listn num in
    { re_tag; re_width; re_wext; re_offset; re_oext; re_ext }) in
  { rp_self; rp_props; rp_rep; rp_subs; rp_subpaths; rp_elems; rp_els; rp_owner = N0 }
let label () =
  let lb_self = num () in let lb_tag = num () in let lb_text = num () in let lb_rep = rep () in
  let lb_props = props () in { lb_self; lb_tag; lb_text; lb_rep; lb_props; lb_owner = N0 }
let reference () =
  let rf_self = num () in
  let rf_target = (match next () with
    | "c" -> RTCell (num ()) | "r" -> RTRaw (num ()) | "n" -> RTName (num ())
    | s -> failwith ("bad target " ^ s)) in
  let rf_rep = rep () in let rf_props = props () in
  { rf_self; rf_target; rf_rep; rf_props; rf_owner = N0 }
let cell () =
  let c_self = num () in let c_name = num () in let c_props = props () in
  let c_polys = arr () in let c_polygons = listn polygon in
  let c_refs = arr () in let c_references = listn reference in
  let c_flex = arr () in let c_flexpaths = listn flexpath in
  let c_robust = arr () in let c_robustpaths = listn robustpath in
  let c_labs = arr () in let c_labels = listn label in
  { c_self; c_name; c_props; c_polys; c_polygons; c_refs; c_references; c_flex; c_flexpaths;
    c_robust; c_robustpaths; c_labs; c_labels; c_owner = N0 }
let library () =
  let l_self = num () in let l_name = num () in let l_cells = arr () in let l_cellobjs = listn cell in
  let l_raw = arr () in let l_rawcells = listn num in let l_props = props () in
  { l_self; l_name; l_cells; l_cellobjs; l_raw; l_rawcells; l_props; l_owner = N0 }
let obj () = match next () with
  | "P" -> OPoly (polygon ()) | "F" -> OFlex (flexpath ()) | "R" -> ORobust (robustpath ())
  | "L" -> OLabel (label ()) | "X" -> ORef (reference ()) | "C" -> OCell (cell ()) | "B" -> OLib (library ())
  | s -> failwith ("bad object " ^ s)
let flag () = next () = "1"
let idx () = nat_of_int (cnt ())
let op () = match next () with
  | "cp" -> (OpCopy (idx ()), false)
  | "cc" -> let i = idx () in let nm = num () in let d = flag () in (OpCellCopy (i, nm, d), false)
  | "lc" -> let i = idx () in let d = flag () in (OpLibCopy (i, d), false)
  | "g" -> let what = num () in let i = idx () in let ar = flag () in let ip = flag () in
           let depth = z_of_hex (next ()) in
           let flt = (match next () with "-" -> None | s -> Some (n_of_hex s)) in
           (OpGet (what, i, ar, ip, depth, flt), ip)
  | "ar" -> (OpApplyRep (idx ()), false)
  | "fr" -> (OpFree (idx ()), false)
  | "cl" -> (OpClear (idx ()), false)
  | s -> failwith ("bad op " ^ s)

let rec int_of_nat' = function O -> 0 | S k -> 1 + int_of_nat' k
let kind_text k cap hidden =
  let sz c n = if hidden then "?" else (match c with Some c -> hex_of_n c | None -> "") ^ "/" ^ Printf.sprintf "%x" (int_of_nat' n) in
  match k with
  | KData n -> "d" ^ sz cap n
  | KPtrs n -> "p" ^ sz cap n
  | KBytes n -> "b" ^ (if hidden then "?" else Printf.sprintf "%x" (int_of_nat' n))
  | KStr -> "s" | KStrOpt -> "o" | KNode -> "n"
let tok_text = function
  | TBuf (n, k, cap, hidden, fl) ->
      hex_of_n n ^ kind_text k cap hidden ^
      (match fl with FNone -> "" | FShared -> "@" | FNew -> "!" | FDirty -> "~" | FFrom m -> "=" ^ hex_of_n m)
  | TExt n -> "x" ^ hex_of_n n
  | TSep -> ";"
  | TGone -> "-"
let text l = String.concat " " (List.map tok_text l)

let () =
  iter_cases Sys.argv.(1) (fun id kind payload ->
    toks := Array.of_list (words payload); pos := 0;
    let res =
      try
        if next () <> "pool" then failwith "pool expected";
        let p = listn obj in
        if next () <> "ops" then failwith "ops expected";
        let ops = listn op in
        let s0 = init_state p (List.map fst ops) in
        let rec go s ops acc = match ops with
          | [] -> List.rev acc
          | (o, hide) :: r ->
              (match step o s with
               | Ok s' -> let (b, a) = show_step s s' hide in
                          go s' r (("B " ^ text b ^ " | A " ^ text a) :: acc)
               | Crash -> List.rev ("crash" :: acc)
               | Hang -> List.rev ("hang" :: acc)
               | _ -> List.rev ("error" :: acc)) in
        String.concat " || " (go s0 ops [])
      with Failure m -> "PARSE-ERROR " ^ m | Invalid_argument m -> "PARSE-ERROR " ^ m in
    out id "M" res)
