(* C13 driver: the extracted, verified distance / winding oracle (coq/Winding.v, coq/GeomOracle.v)
   classifies every sample by exact squared distances to the operands and decides on the ACTUAL
   output of gdstk::offset whether required points are covered and forbidden ones are not.
   Prints  id S ok | bad <what>. *)
open C13_offset
open Conv

type toks = { a : string array; mutable i : int }
let next t = let v = t.a.(t.i) in t.i <- t.i + 1; v
let expect t s = let v = next t in if v <> s then failwith ("expected " ^ s ^ " got " ^ v)
let int_tok t = int_of_string ("0x" ^ next t)
let z_tok t = z_of_hex (next t)
let poly_tok t : polygon =
  let n = int_tok t in
  let rec go k acc = if k = 0 then List.rev acc else
      let x = z_tok t in let y = z_tok t in go (k - 1) ((x, y) :: acc) in
  go n []
let group_tok t : polygon list =
  let n = int_tok t in
  let rec go k acc = if k = 0 then List.rev acc else let p = poly_tok t in go (k - 1) (p :: acc) in
  go n []

let pt (x, y) = "(" ^ hex_of_z x ^ "," ^ hex_of_z y ^ ")"
let z2 = z_of_int 2
let rec pow2 k = if k = 0 then z_of_int 1 else Z.mul z2 (pow2 (k - 1))
let used = ref 0 and total = ref 0

let do_off id t =
  expect t "S"; let _ = z_tok t in
  expect t "K"; let k = int_of_string (next t) in
  expect t "MODE"; let mode = next t in
  expect t "RIN"; let rin = z_tok t in
  expect t "ROUT"; let rout = z_tok t in
  expect t "G"; let g = group_tok t in
  expect t "R"; let r = group_tok t in
  expect t "B"; let b = group_tok t in
  expect t "Q"; let probes = poly_tok t in
  expect t "P"; let pts = poly_tok t in
  let unit = pow2 k in
  (* samples closer than one grid unit to an edge of the operands or the result are not judged *)
  let guard = Z.add unit (z_of_int 1) in
  let good = List.filter (sample_ok (g @ r @ b) guard) pts in
  total := !total + List.length pts; used := !used + List.length good;
  let f, names =
    match mode with
    | "g" -> grow_verdict g r rin rout,
             (function 1 -> "point closer than d-guard to the group is not covered" | 2 -> "point farther than reach+guard is covered" | _ -> "overlapping outputs")
    | "e" -> shrink_each_verdict g r rin rout,
             (function 1 -> "point deeper than reach+guard inside a polygon was removed" | 2 -> "point shallower than |d|-guard was kept" | _ -> "overlapping outputs")
    | "r" ->
        (* overlapping polygons eroded one by one: only "nothing shallower than |d| is kept" *)
        let never = Z.mul rout (z_of_int 1000000) in
        (fun p -> let v = shrink_each_verdict g r rin never p in if Z.eqb v (z_of_int 1) then z_of_int 0 else v),
        (function 2 -> "point shallower than |d|-guard was kept" | _ -> "overlapping outputs")
    | _ ->
        (* probes certainly outside the covered region (and a unit away from every edge) *)
        let outside = List.filter (fun q -> sample_ok g guard q && not (covers g q)) probes in
        shrink_union_verdict g b r outside rin rout,
        (function 1 -> "point deeper than reach+guard inside the region was removed" | 2 -> "point shallower than |d|-guard was kept" | _ -> "overlapping outputs") in
  (match first_bad f good with
   | None -> out id "S" "ok"
   | Some (p, code) ->
       out id "S" (Printf.sprintf "bad %s at %s: inGroup=%b inResult=%b rin=%s rout=%s" (names (int_of_z code)) (pt p)
                     (covers g p) (covers r p) (hex_of_z rin) (hex_of_z rout)))

let do_uni id t =
  expect t "S"; let _ = z_tok t in
  expect t "K"; let _k = int_of_string (next t) in
  expect t "GUARD"; let guard = z_tok t in
  expect t "G"; let g = group_tok t in
  expect t "G2"; let g2 = group_tok t in
  expect t "R1"; let r1 = group_tok t in
  expect t "R2"; let r2 = group_tok t in
  expect t "P"; let pts = poly_tok t in
  let good = List.filter (sample_ok (r1 @ r2) guard) pts in
  total := !total + List.length pts; used := !used + List.length good;
  (* the re-split operands must describe the same region (checked with the same guard) *)
  let good_g = List.filter (sample_ok (g @ g2) guard) pts in
  match first_bad (same_region_verdict g g2) good_g with
  | Some (p, _) -> out id "S" ("bad harness: re-split operands differ from the operands at " ^ pt p)
  | None ->
      (match first_bad (same_region_verdict r1 r2) good with
       | None -> out id "S" "ok"
       | Some (p, _) -> out id "S" (Printf.sprintf "bad union result depends on the split at %s: first=%b second=%b" (pt p) (covers r1 p) (covers r2 p)))

let () =
  iter_cases Sys.argv.(1) (fun id kind payload ->
      let t = { a = Array.of_list (words payload); i = 0 } in
      try
        match kind with
        | "off" -> do_off id t
        | "uni" -> do_uni id t
        | _ -> ()
      with e -> out id "S" ("driver-error " ^ Printexc.to_string e));
  Printf.eprintf "c13 oracle: %d of %d samples outside the guard band\n" !used !total
