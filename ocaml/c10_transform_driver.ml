(* C10 model driver: runs the extracted transform model (coq/Affine.v) on the harness's cases.
   Payload grammar: see harness/c10_transform.cpp.  Numbers are printed as integers on the
   2^-24 grid (Affine.grid), in hex. *)
open C10_transform
open Conv

(* ---- exact rational of a double given by its 16 hex digits *)
let rec pow2_pos k = if k <= 0 then XH else XO (pow2_pos (k - 1))
let rec shift_pos p k = if k <= 0 then p else shift_pos (XO p) (k - 1)
let q_of_hexdbl (s : string) : q =
  let bits = Int64.of_string ("0x" ^ s) in
  let neg = Int64.compare bits 0L < 0 in
  let e = Int64.to_int (Int64.logand (Int64.shift_right_logical bits 52) 0x7ffL) in
  let m = Int64.to_int (Int64.logand bits 0xfffffffffffffL) in
  let mant, ex = if e = 0 then m, -1074 else m + (1 lsl 52), e - 1075 in
  if mant = 0 then { qnum = Z0; qden = XH } else
  let p = pos_of_int mant in
  let num_p, den = if ex >= 0 then shift_pos p ex, XH else p, pow2_pos (-ex) in
  qred { qnum = (if neg then Zneg num_p else Zpos num_p); qden = den }

let q_of_ints n d = qred { qnum = z_of_int n; qden = pos_of_int d }
let q1 = q_of_ints 1 1
let q0 = q_of_ints 0 1

(* ---- token stream *)
let toks = ref [||]
let pos = ref 0
let init_toks s = toks := Array.of_list (words s); pos := 0
let next () = let t = if !pos < Array.length !toks then !toks.(!pos) else "" in incr pos; t
let nd () = q_of_hexdbl (next ())
let ni () = int_of_string (next ())
let nv () = let x = nd () in let y = nd () in { vx = x; vy = y }
let nang () = let cn = ni () in let sn = ni () in let d = ni () in { acos = q_of_ints cn d; asin = q_of_ints sn d }
let rec times n f = if n <= 0 then [] else let x = f () in x :: times (n - 1) f

(* ---- printing *)
let gq q = hex_of_z (grid q)
let gvs v = gq v.vx ^ " " ^ gq v.vy
let cat = String.concat " "

type elem =
  | EP of vec2 list
  | EF of flexpath
  | ER of robustpath
  | EL of placement
  | EX of placement

type anyop = O of op | Sxy of vec2 * vec2

let read_elem () : elem option =
  match next () with
  | "P" -> let n = ni () in Some (EP (times n nv))
  | "F" ->
      let sw = ni () <> 0 in
      let nsp = ni () in
      let spine = times nsp nv in
      let ne = ni () in
      let els = times ne (fun () ->
        let _et = ni () in
        let ext = nv () in
        let hwo = times nsp nv in
        { fe_hwo = hwo; fe_ext = ext }) in
      Some (EF { fp_spine = spine; fp_elems = els; fp_scale_width = sw })
  | "R" ->
      let sw = ni () <> 0 in
      let _p0 = nv () in
      let nseg = ni () in
      let _pts = times nseg nv in
      let ne = ni () in
      let exts = times ne (fun () ->
        let _et = ni () in
        let ext = nv () in
        let _wo = times (nseg + 1) nv in
        ext) in
      Some (ER { rp_trafo = aff_id; rp_width_scale = q1; rp_offset_scale = q1; rp_exts = exts; rp_scale_width = sw })
  | ("L" | "X") as w ->
      let o = nv () in
      let a = nang () in
      let mag = nd () in
      let xr = ni () <> 0 in
      let p = { p_orig = o; p_rot = a; p_mag = mag; p_xrefl = xr } in
      if w = "L" then Some (EL p)
      else (let n = ni () in let _ = times n nv in Some (EX p))
  | _ -> None

let read_rep () : repetition =
  match next () with
  | "T" -> let c = ni () in let r = ni () in let sp = nv () in RRect (nat_of_int c, nat_of_int r, sp)
  | "G" -> let c = ni () in let r = ni () in let v1 = nv () in let v2 = nv () in RRegular (nat_of_int c, nat_of_int r, v1, v2)
  | "E" -> let n = ni () in RExplicit (times n nv)
  | "EX" -> let n = ni () in RExplicitX (times n nd)
  | "EY" -> let n = ni () in RExplicitY (times n nd)
  | _ -> RNone

let read_ops () : anyop list =
  let k = ni () in
  times k (fun () ->
    match next () with
    | "t" -> O (OTranslate (nv ()))
    | "s" -> let f = nd () in let c = nv () in O (OScale (f, c))
    | "sxy" -> let sf = nv () in let c = nv () in Sxy (sf, c)
    | "m" -> let p0 = nv () in let p1 = nv () in O (OMirror (p0, p1))
    | "r" -> let a = nang () in let c = nv () in O (ORotate (a, c))
    | _ ->
        let mag = nd () in
        let xr = ni () <> 0 in
        let a = nang () in
        let o = nv () in
        O (OTransform { p_orig = o; p_rot = a; p_mag = mag; p_xrefl = xr }))

let dump_rep r =
  match r with
  | RNone -> "@ N"
  | _ -> let offs = rep_offsets r in
         cat (("@ " ^ string_of_int (List.length offs)) :: List.map gvs offs)

let dump_placement tag p =
  cat [tag; gvs p.p_orig; gq p.p_rot.acos; gq p.p_rot.asin; gq p.p_mag; (if p.p_xrefl then "1" else "0")]

let dump_elem e =
  match e with
  | EP pts -> cat (("P " ^ string_of_int (List.length pts)) :: List.map gvs pts)
  | EF f ->
      cat (["F SP:"] @ List.map gvs f.fp_spine @
           List.concat_map (fun el -> ["EL:"; gvs el.fe_ext; "WO:"] @ List.map gvs el.fe_hwo) f.fp_elems)
  | ER r ->
      let t = r.rp_trafo in
      cat (["R TR:"; gq t.aa; gq t.ab; gq t.atx; gq t.ac; gq t.ad; gq t.aty; "WS:"; gq r.rp_width_scale; "OS:"; gq r.rp_offset_scale]
           @ List.concat_map (fun e -> ["EL:"; gvs e]) r.rp_exts)
  | EL p -> dump_placement "L" p
  | EX p -> dump_placement "X" p

let apply_op e o =
  match e, o with
  | EP pts, O o -> EP (polyred (polygon_apply_ops [o] pts))
  | EP pts, Sxy (sf, c) -> EP (polyred (polygon_scale sf c pts))
  | EF f, O o -> EF (fpred (flexpath_apply_ops [o] f))
  | ER r, O o -> ER (rpred (rp_apply_ops [o] r))
  | EL p, O (OTransform t) -> EL (plred (placement_apply_ops [t] p))
  | EX p, O (OTransform t) -> EX (plred (placement_apply_ops [t] p))
  | _, _ -> e

let map_of_op o = match o with
  | O o -> ops_map [o]
  | Sxy (sf, c) -> scale_map sf c
let compose_ops ops = List.fold_left (fun acc o -> affred (aff_compose (map_of_op o) acc)) aff_id ops

let dump_aff (t : aff) = cat ["M"; gq t.aa; gq t.ab; gq t.ac; gq t.ad; gq t.atx; gq t.aty]

let () =
  iter_cases Sys.argv.(1) (fun id kind payload ->
    init_toks payload;
    match kind with
    | "seq" ->
        (match read_elem () with
         | None -> out id "M" "bad-case"
         | Some e ->
             let rep = read_rep () in
             let ops = read_ops () in
             let e' = List.fold_left apply_op e ops in
             (* the element transforms do not touch the repetition *)
             out id "M" (dump_elem e' ^ " " ^ dump_rep rep);
             (* specification level, polygons: every vertex moved by the product of the affine maps *)
             (match e with
              | EP pts ->
                  let a = compose_ops ops in
                  out id "S" (dump_elem (EP (List.map (aff_apply a) pts)) ^ " " ^ dump_rep rep)
              | _ -> ()))
    | "rep" ->
        let rep = read_rep () in
        let mag = nd () in
        let xr = ni () <> 0 in
        let a = nang () in
        out id "M" (dump_rep (repred (rep_transform mag xr a rep)));
        (* specification level: the offsets moved by the linear part *)
        let lin = placement_map { p_orig = vzero; p_rot = a; p_mag = mag; p_xrefl = xr } in
        (match rep with
         | RNone -> out id "S" "@ N"
         | _ -> let offs = List.map (aff_linear lin) (rep_offsets rep) in
                out id "S" (cat (("@ " ^ string_of_int (List.length offs)) :: List.map gvs offs)))
    | "placemap" ->
        (match read_elem () with
         | Some (EL p) | Some (EX p) ->
             let ops = read_ops () in
             let ts = List.filter_map (function O (OTransform t) -> Some t | _ -> None) ops in
             let p' = List.fold_left (fun acc t -> plred (placement_apply_ops [t] acc)) p ts in
             out id "M" (dump_aff (placement_map p'));
             out id "S" (dump_aff (aff_compose (compose_ops ops) (placement_map p)))
         | _ -> out id "M" "bad-case")
    | _ -> ())
