(* C19 model driver: runs the extracted Gallina codecs on the harness's cases. *)
open C19
open Conv

let status = function
  | Ok _ -> "ok" | ErrEof -> "eof" | ErrOverflow -> "overflow" | ErrInvalid -> "invalid"
  | Crash -> "crash" | Hang -> "hang"

let sentinel = n_of_int 0x55

let consumed total rest = string_of_int (total - List.length rest)

let u64mask (v : n) : n = N.modulo v two64
(* the C++ returns int64 values; negative numbers never occur for magnitudes *)

let () =
  iter_cases Sys.argv.(1) (fun id kind payload ->
    match kind with
    | "uint" ->
        let v = n_of_hex payload in
        let bs = enc_uint v in
        let all = bs @ [sentinel] in
        (match dec_uint all with
         | Ok (r, rest) -> out id "M" (hex_of_bytes bs ^ " ok " ^ hex_of_n r ^ " " ^ consumed (List.length all) rest)
         | o -> out id "M" (hex_of_bytes bs ^ " " ^ status o))
    | "udec" ->
        let bs = bytes_of_hex payload in
        (match dec_uint bs with
         | Ok (r, rest) -> out id "M" ("ok " ^ hex_of_n r ^ " " ^ consumed (List.length bs) rest)
         | o -> out id "M" (status o));
        (* specification-level expectation *)
        (match spec_uint_value bs with
         | None -> out id "S" "anyerr" (* no complete encoding: any error status is right *)
         | Some (n, rest) ->
             let used = List.length bs - List.length rest in
             if N.leb two64 n then out id "S" "overflow"
             else if used <= 10 then out id "S" ("ok " ^ hex_of_n n ^ " " ^ string_of_int used)
             else () (* > 10 bytes of padding: outside the stated bound (DESIGN F19) *))
    | "int" ->
        (match words payload with
         | [nb; bits; hv] ->
             let nb = n_of_int (int_of_string nb) and bits = n_of_int (int_of_string bits) in
             let v = n_of_hex hv in
             let bs = enc_int_internal v nb bits in
             let all = bs @ [sentinel] in
             (match dec_int_internal nb all with
              | Ok ((r, fb), rest) ->
                  out id "M" (hex_of_bytes bs ^ " ok " ^ hex_of_n r ^ " " ^ string_of_int (int_of_n fb) ^ " " ^
                              consumed (List.length all) rest)
              | o -> out id "M" (hex_of_bytes bs ^ " " ^ status o))
         | _ -> out id "M" "bad-case")
    | "idec" ->
        (match words payload with
         | skip :: tl ->
             let bs = bytes_of_hex (match tl with [h] -> h | _ -> "") in
             (match dec_int_internal (n_of_int (int_of_string skip)) bs with
              | Ok ((r, fb), rest) ->
                  out id "M" ("ok " ^ hex_of_n r ^ " " ^ string_of_int (int_of_n fb) ^ " " ^ consumed (List.length bs) rest)
              | o -> out id "M" (status o));
             (* specification-level expectation, independent of the model of the reader: the byte string is an unsigned
                integer U of the format; its low `skip` bits are the flag bits, the rest is the magnitude, which has to fit
                63 bits (a signed 64-bit result) or be flagged - never wrapped into the sign bit *)
             (match spec_uint_value bs with
              | None -> out id "S" "anyerr"
              | Some (u, rest) ->
                  let used = List.length bs - List.length rest in
                  let sk = int_of_string skip in
                  let p2 = N.shiftl (n_of_int 1) (n_of_int sk) in
                  let mag = N.shiftr u (n_of_int sk) and fb = N.modulo u p2 in
                  let two63 = N.shiftl (n_of_int 1) (n_of_int 63) in
                  if N.leb two63 mag then out id "S" "overflow"
                  else if used <= 10 then out id "S" ("ok " ^ hex_of_n mag ^ " " ^ string_of_int (int_of_n fb) ^ " " ^ string_of_int used)
                  else ())
         | _ -> out id "M" "bad-case")
    | "sint" ->
        let v = z_of_hex payload in
        let bs = enc_int v in
        let all = bs @ [sentinel] in
        (match dec_int all with
         | Ok (r, rest) -> out id "M" (hex_of_bytes bs ^ " ok " ^ hex_of_z r ^ " " ^ consumed (List.length all) rest)
         | o -> out id "M" (hex_of_bytes bs ^ " " ^ status o))
    | "d2" | "d3" | "dg" ->
        (match words payload with
         | [hx; hy] ->
             let x = z_of_hex hx and y = z_of_hex hy in
             let enc, dec = (match kind with
               | "d2" -> enc_2delta, dec_2delta | "d3" -> enc_3delta, dec_3delta | _ -> enc_gdelta, dec_gdelta) in
             let bs = enc x y in
             let all = bs @ [sentinel] in
             (match dec all with
              | Ok ((rx, ry), rest) ->
                  out id "M" (hex_of_bytes bs ^ " ok " ^ hex_of_z rx ^ " " ^ hex_of_z ry ^ " " ^ consumed (List.length all) rest)
              | o -> out id "M" (hex_of_bytes bs ^ " " ^ status o))
         | _ -> out id "M" "bad-case")
    | "ddec" ->
        (match words payload with
         | which :: tl ->
             let bs = bytes_of_hex (match tl with [h] -> h | _ -> "") in
             let dec = (match which with "2" -> dec_2delta | "3" -> dec_3delta | _ -> dec_gdelta) in
             (match dec bs with
              | Ok ((rx, ry), rest) ->
                  out id "M" ("ok " ^ hex_of_z rx ^ " " ^ hex_of_z ry ^ " " ^ consumed (List.length bs) rest)
              | o -> out id "M" (status o))
         | _ -> out id "M" "bad-case")
    | _ -> ())
