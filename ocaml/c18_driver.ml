(* C18 model driver: status of every reader on every prefix, run-length encoded like the harness *)
open C18
open Conv

let rec firstn n l = if n <= 0 then [] else match l with [] -> [] | x :: t -> x :: firstn (n - 1) t

let rle (v : string array) : string =
  let b = Buffer.create 256 in
  let n = Array.length v in
  let i = ref 0 in
  while !i < n do
    let j = ref !i in
    while !j + 1 < n && v.(!j + 1) = v.(!i) do incr j done;
    if Buffer.length b > 0 then Buffer.add_string b " | ";
    Buffer.add_string b (Printf.sprintf "%d-%d:%s" !i !j v.(!i));
    i := !j + 1
  done;
  Buffer.contents b

let () =
  iter_cases Sys.argv.(1) (fun id kind payload ->
    if String.length kind > 4 && String.sub kind 0 4 = "gds:" then begin
      let which = String.sub kind 4 (String.length kind - 4) in
      let bs = bytes_of_hex payload in
      let size = List.length bs in
      let st = Array.make (size + 1) "" in
      (* prefixes built incrementally: arr of bytes *)
      let arr = Array.of_list bs in
      for n = 0 to size do
        let pre = Array.to_list (Array.sub arr 0 n) in
        let s = match which with
          | "read_gds" | "read_rawcells" | "gds_info" ->
              (match status_until rT_ENDLIB pre with Ok _ -> "ok" | Crash -> "CRASH" | Hang -> "HANG" | _ -> "err")
          | "gds_units" ->
              (match gds_units_model pre with Ok _ -> "ok" | Crash -> "CRASH" | Hang -> "HANG" | _ -> "err")
          | "gds_timestamp" ->
              (match gds_timestamp_model pre with
               | Ok (Some ws, _) -> "ok" ^ String.concat "" (List.map (fun w -> " " ^ string_of_int (int_of_n w)) ws)
               | Ok (None, _) -> "err"
               | Crash -> "CRASH" | Hang -> "HANG" | _ -> "err")
          | _ -> "?" in
        st.(n) <- s
      done;
      out id "M" (rle st)
    end else out id "M" "-")
