(* OAS_STD model driver: parses the library text of harness/oas_std.cpp (grammar in its header) into the writer-side library
   of coq/OasisWrite.v plus the extra inputs of coq/OasisStd.v (flags, denominator, reference kinds, outside cells) and prints
     M  hex of write_oas_model_std, then " same" when the model of the SECOND call (write_oas_model_std on lib_after_write)
        yields the same bytes, else " second:" + its hex;  "UNCOVERED" in front when box_covered is false under the
        BOUNDING_BOX flag (the harness never produces such a case). *)
open Oas_std
open Conv

exception Parse of string

let toks = ref [||]
let pos = ref 0
let next () =
  if !pos >= Array.length !toks then raise (Parse "unexpected end");
  let t = (!toks).(!pos) in incr pos; t
let num () = n_of_hex (next ())
let znum () = z_of_hex (next ())
let count () = int_of_n (num ())
let bytes () = let t = next () in if t = "-" then [] else bytes_of_hex t
let rec times n f = if n <= 0 then [] else let x = f () in x :: times (n - 1) f

let value () =
  match next () with
  | "U" -> VUInt (num ())
  | "I" -> VInt (znum ())
  | "R" -> VReal (num ())
  | "S" -> VStr (bytes ())
  | t -> raise (Parse ("value kind " ^ t))
let props () =
  let n = count () in
  times n (fun () -> let name = bytes () in let nv = count () in let vs = times nv value in (name, vs))
let point () = let x = znum () in let y = znum () in (x, y)
let rep () =
  match next () with
  | "N" -> WNone
  | "R" -> let c = num () in let r = num () in let sx = znum () in let sy = znum () in WRect (c, r, sx, sy)
  | "G" -> let c = num () in let r = num () in let v1 = point () in let v2 = point () in WReg (c, r, v1, v2)
  | "E" -> let n = count () in WExpl (times n point)
  | "X" -> let n = count () in WExplX (times n znum)
  | "Y" -> let n = count () in WExplY (times n znum)
  | t -> raise (Parse ("repetition kind " ^ t))
let points () = let n = count () in times n point

let poly () =
  let layer = num () in let ty = num () in let pts = points () in let r = rep () in let ps = props () in
  { py_layer = layer; py_type = ty; py_pts = pts; py_rep = r; py_props = ps }
let pel () =
  let layer = num () in let ty = num () in let hw = num () in
  let e = (match next () with
    | "F" -> WE_flush | "H" -> WE_half
    | "E" -> let a = znum () in let b = znum () in WE_ext (a, b)
    | t -> raise (Parse ("end kind " ^ t))) in
  { pe_layer = layer; pe_type = ty; pe_hw = hw; pe_end = e }
let path () =
  let n = count () in let els = times n pel in let pts = points () in let r = rep () in let ps = props () in
  { ph_els = els; ph_pts = pts; ph_rep = r; ph_props = ps }
let reference () =
  let name = bytes () in
  let kind = (match next () with
    | "N" -> RT_name
    | "I" -> RT_in (nat_of_int (count ()))
    | "O" -> RT_out (nat_of_int (count ()))
    | t -> raise (Parse ("reference kind " ^ t))) in
  let x = znum () in let y = znum () in let mag = num () in let rot = num () in
  let q = (let t = next () in if t = "-" then None else Some (z_of_hex t)) in
  let flip = (next () = "1") in let r = rep () in let ps = props () in
  ({ rf_name = name; rf_x = x; rf_y = y; rf_mag = mag; rf_rot = rot; rf_quarter = q; rf_flip = flip; rf_rep = r;
     rf_props = ps }, kind)
let label () =
  let text = bytes () in let layer = num () in let ty = num () in let x = znum () in let y = znum () in
  let r = rep () in let ps = props () in
  { lb_text = text; lb_layer = layer; lb_type = ty; lb_x = x; lb_y = y; lb_rep = r; lb_props = ps }
let cell () =
  let name = bytes () in
  let np = count () in let polys = times np poly in
  let nh = count () in let paths = times nh path in
  let nr = count () in let refs = times nr reference in
  let nl = count () in let labels = times nl label in
  let ps = props () in
  ({ cl_name = name; cl_polys = polys; cl_paths = paths; cl_refs = List.map fst refs; cl_labels = labels; cl_props = ps },
   List.map snd refs)

let pos_of_n = function N0 -> XH | Npos p -> p

let library () =
  let cfg = (next () = "1") in
  let fl = count () in
  let d = pos_of_n (num ()) in
  let u = num () in
  let ps = props () in
  let nc = count () in let cells = times nc cell in
  let no = count () in let outs = times no cell in
  (cfg, { sf_max_counts = fl land 1 <> 0; sf_top_level = fl land 2 <> 0; sf_bbox = fl land 4 <> 0 },
   { ss_den = d; ss_kinds = List.map snd cells; ss_outside = List.map fst outs },
   { li_unit = u; li_props = ps; li_cells = List.map fst cells })

let () =
  iter_cases Sys.argv.(1) (fun id kind payload ->
    match kind with
    | "std" ->
        (try
          let text = (match String.index_opt payload '|' with
            | Some i -> String.sub payload (i + 1) (String.length payload - i - 1)
            | None -> payload) in
          toks := Array.of_list (words text);
          pos := 0;
          let (cfg, f, src, l) = library () in
          if !pos <> Array.length !toks then raise (Parse "trailing words");
          let bs = write_oas_model_std cfg f src l in
          let bs2 = write_oas_model_std cfg f src (lib_after_write cfg f src l) in
          let unc = f.sf_bbox && not (box_covered src l.li_cells) in
          out id "M" ((if unc then "UNCOVERED " else "") ^ hex_of_bytes bs ^
                      (if bs2 = bs then " same" else " second:" ^ hex_of_bytes bs2))
        with Parse m -> out id "M" ("bad-case " ^ m))
    | _ -> ())
