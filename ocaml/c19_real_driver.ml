(* C19 / unit c19_real: runs the extracted GDSII-real / OASIS-real / byte-swap models on the harness's cases. *)
open C19_real
open Conv

let status = function
  | Ok _ -> "ok" | ErrEof -> "eof" | ErrOverflow -> "overflow" | ErrInvalid -> "invalid"
  | Crash -> "crash" | Hang -> "hang"

let sentinel = n_of_int 0x55

(* "[-]M E": M odd, value = M * 2^E; "0" / "-0" *)
let dyadic_text (neg : bool) (m : n) (k : z) : string =
  match m with
  | N0 -> if neg then "-0" else "0"
  | Npos p ->
      let rec strip p t = match p with XO q -> strip q (t + 1) | _ -> (p, t) in
      let (odd, t) = strip p 0 in
      (if neg then "-" else "") ^ hex_of_pos odd ^ " " ^ hex_of_z (Z.add k (z_of_int t))

let sig_bits (m : n) : int =
  match m with
  | N0 -> 0
  | Npos p ->
      let rec strip p = match p with XO q -> strip q | _ -> p in
      int_of_n (N.size (Npos (strip p)))

(* 16 hex digits; every NaN prints as "nan" *)
let dbl_text (bits : n) : string =
  let h = hex_of_n bits in
  let h = String.make (max 0 (16 - String.length h)) '0' ^ h in
  let v = Int64.of_string ("0x" ^ h) in
  let ex = Int64.to_int (Int64.logand (Int64.shift_right_logical v 52) 0x7FFL) in
  let frac = Int64.logand v 0xFFFFFFFFFFFFFL in
  if ex = 0x7FF && frac <> 0L then "nan" else h

let () =
  iter_cases Sys.argv.(1) (fun id kind payload ->
    match kind with
    | "genc" ->
        (match words payload with
         | hb :: _ ->
             let bits = n_of_hex hb in
             (match dbl_decompose bits with
              | None -> out id "M" (hex_of_n gds_encode_zero)   (* the harness sends zero only *)
              | Some ((neg, m), e) ->
                  (* correspondence: the model is a function of the value alone *)
                  let bits' = hex_of_n (gds_encode neg m e) in
                  out id "M" bits';
                  (* specification level: within the format's range (16^-65 <= |x| < 16^63), where the
                     round-trip theorem applies, the pattern is the one that decodes to exactly x *)
                  if gds_in_range m e then out id "S" bits'
                  else out id "S" "out-of-range")
         | _ -> out id "M" "bad-case")
    | "gdec" ->
        let bits = n_of_hex payload in
        let ((neg, m), k) = gds_to_double_dy bits in
        out id "M" (dyadic_text neg m k);
        (* specification level: the exact value of the pattern, whenever a double can hold it *)
        let ((neg', m'), k') = gds_decode_dy bits in
        if sig_bits m' <= 53 then out id "S" (dyadic_text neg' m' k')
    | "swap" ->
        (match words payload with
         | [wd; hv] ->
             let v = n_of_hex hv in
             let (f, nb) = (match wd with "16" -> (swap16, 2) | "32" -> (swap32, 4) | _ -> (swap64, 8)) in
             out id "M" (hex_of_n (f v));
             out id "S" (hex_of_n (of_bytes_le (List.rev (bytes_le (nat_of_int nb) v))))
         | _ -> out id "M" "bad-case")
    | "orw" ->
        let bits = n_of_hex payload in
        let bs = enc_real bits in
        let all = bs @ [sentinel] in
        (match dec_real all with
         | Ok (r, rest) ->
             out id "M" (hex_of_bytes bs ^ " ok " ^ dbl_text r ^ " " ^ string_of_int (List.length all - List.length rest))
         | o -> out id "M" (hex_of_bytes bs ^ " " ^ status o))
    | "ord" ->
        (match words payload with
         | ty :: tl ->
             let bs = bytes_of_hex (match tl with [h] -> h | _ -> "") in
             (match dec_real_by_type (n_of_int (int_of_string ty)) bs with
              | Ok (r, rest) ->
                  out id "M" ("ok " ^ dbl_text r ^ " " ^ string_of_int (List.length bs - List.length rest))
              | o -> out id "M" (status o))
         | _ -> out id "M" "bad-case")
    | _ -> ())
