(* C05 driver: evaluates the extracted, verified winding / distance oracle (coq/Winding.v,
   coq/GeomOracle.v) on the operands and the ACTUAL results of gdstk::boolean, and runs the Gallina
   model of link_holes (coq/ClipGlue.v).  Prints per case:
     bool :  id S ok | bad <what>          (the harness prints  I ok)
     lh   :  id M ok|err <vertex list>     (the harness prints the real link_holes output) *)
open C05_boolean
open Conv

(* ---------------------------------------------------------------- token stream *)
type toks = { a : string array; mutable i : int }
let next t = let v = t.a.(t.i) in t.i <- t.i + 1; v
let expect t s = let v = next t in if v <> s then failwith ("expected " ^ s ^ " got " ^ v)
let int_tok t = int_of_string ("0x" ^ next t)
let z_tok t = z_of_hex (next t)
let poly_tok t : polygon =
  let n = int_tok t in
  let rec go k acc = if k = 0 then List.rev acc else
      let x = z_tok t in let y = z_tok t in go (k - 1) ((x, y) :: acc) in
  go n []
let group_tok t : polygon list =
  let n = int_tok t in
  let rec go k acc = if k = 0 then List.rev acc else let p = poly_tok t in go (k - 1) (p :: acc) in
  go n []
let points_tok t : point list = poly_tok t

let pt (x, y) = "(" ^ hex_of_z x ^ "," ^ hex_of_z y ^ ")"
let ser_poly (p : polygon) =
  String.concat " " (Printf.sprintf "%x" (List.length p) :: List.concat_map (fun (x, y) -> [hex_of_z x; hex_of_z y]) p)

let zmul = Z.mul and zadd = Z.add and zsub = Z.sub
let z2 = z_of_int 2
let rec pow2 k = if k = 0 then z_of_int 1 else zmul z2 (pow2 (k - 1))

let total_samples = ref 0 and used_samples = ref 0 and cases = ref 0

let do_bool id t =
  expect t "S"; let _s = z_tok t in
  expect t "K"; let k = int_of_string (next t) in
  expect t "A"; let ga = group_tok t in
  expect t "B"; let gb = group_tok t in
  expect t "OR"; let r_or = group_tok t in
  expect t "AND"; let r_and = group_tok t in
  expect t "NOT"; let r_not = group_tok t in
  expect t "XOR"; let r_xor = group_tok t in
  expect t "MA"; let ma = group_tok t in
  expect t "MB"; let mb = group_tok t in
  expect t "P"; let pts = points_tok t in
  let unit = pow2 k in
  (* guard band: one grid unit (dist < unit + 1 frame integer, i.e. dist <= unit) *)
  let guard = zadd unit (z_of_int 1) in
  let all = List.concat [ga; gb; r_or; r_and; r_not; r_xor; ma; mb] in
  let good = List.filter (sample_ok all guard) pts in
  total_samples := !total_samples + List.length pts;
  used_samples := !used_samples + List.length good;
  incr cases;
  let ops = [ ("OR", OpOr, r_or); ("AND", OpAnd, r_and); ("NOT", OpNot, r_not); ("XOR", OpXor, r_xor) ] in
  let why = function 1 -> "membership" | 2 -> "overlapping-outputs" | _ -> "?" in
  let verdict = ref None in
  let set s = if !verdict = None then verdict := Some s in
  List.iter (fun (name, op, r) ->
      match first_bad (bool_verdict op ga gb r) good with
      | None -> ()
      | Some (p, code) ->
          (* a returned polygon with negative orientation is a hole contour that Clipper handed back as a contour of its own *)
          let neg = List.exists (fun q -> match shoelace2 q with Zneg _ -> true | _ -> false) r in
          set (Printf.sprintf "%s %s at %s: inA=%b inB=%b inResult=%b sum_wn=%s%s" name (why (int_of_z code)) (pt p)
                 (covers ga p) (covers gb p) (covers r p) (hex_of_z (wn_sum r p))
                 (if neg && covers r p then " [negatively-oriented-output]" else ""))) ops;
  (* merges used for area(A), area(B): their regions must be those of A and B *)
  List.iter (fun (name, gsrc, r) ->
      match first_bad (bool_verdict OpOr gsrc [] r) good with
      | None -> ()
      | Some (p, code) -> set (Printf.sprintf "%s %s at %s" name (why (int_of_z code)) (pt p)))
    [ ("MERGE-A", ga, ma); ("MERGE-B", gb, mb) ];
  (* area identities, twice the areas, allowance = 2 * unit * (L1 perimeter of everything involved) *)
  let a_or = area2 r_or and a_and = area2 r_and and a_not = area2 r_not and a_xor = area2 r_xor in
  let a_a = area2 ma and a_b = area2 mb in
  let allowance = zmul (zmul z2 unit) (perim_sum all) in
  let ident name lhs rhs =
    if not (area_close lhs rhs allowance) then
      set (Printf.sprintf "area %s: lhs=%s rhs=%s allowance=%s" name (hex_of_z lhs) (hex_of_z rhs) (hex_of_z allowance)) in
  ident "OR+AND=A+B" (zadd a_or a_and) (zadd a_a a_b);
  ident "NOT+AND=A" (zadd a_not a_and) a_a;
  ident "XOR+AND=OR" (zadd a_xor a_and) a_or;
  ident "XOR+2AND=A+B" (zadd a_xor (zmul z2 a_and)) (zadd a_a a_b);
  (* a single positively described operand: its own shoelace area must be the merged one *)
  (match ga with
   | [p] -> ident "area(A)=|shoelace(A)|" (Z.abs (shoelace2 p)) a_a
   | _ -> ());
  out id "S" (match !verdict with None -> "ok" | Some s -> "bad " ^ s)

let do_lh id t =
  expect t "C"; let c = poly_tok t in
  expect t "H"; let hs = group_tok t in
  let (r, err) = link_holes c hs in
  out id "M" ((if err then "err " else "ok ") ^ ser_poly r)

let () =
  iter_cases Sys.argv.(1) (fun id kind payload ->
      let t = { a = Array.of_list (words payload); i = 0 } in
      try
        match kind with
        | "bool" -> do_bool id t
        | "lh" -> do_lh id t
        | _ -> ()
      with e -> out id "S" ("driver-error " ^ Printexc.to_string e));
  Printf.eprintf "c05 oracle: %d bool cases, %d of %d samples outside the guard band\n" !cases !used_samples !total_samples
