(* C17 / unit gds_units: runs the extracted Flocq model of the unit arithmetic of read_gds / gds_units
   (coq/GdsUnits.v) on the harness's cases and prints the same text as harness/gds_units.cpp. *)
open Gds_units
open Conv

(* 16 hex digits; every NaN prints as "nan" *)
let dbl_text (f : binary64) : string =
  let h = hex_of_n (bits64 f) in
  let h = String.make (max 0 (16 - String.length h)) '0' ^ h in
  let v = Int64.of_string ("0x" ^ h) in
  let ex = Int64.to_int (Int64.logand (Int64.shift_right_logical v 52) 0x7FFL) in
  let frac = Int64.logand v 0xFFFFFFFFFFFFFL in
  if ex = 0x7FF && frac <> 0L then "nan" else h

let dbl_of_hex (s : string) : binary64 = b64_of_bits (Z.of_N (n_of_hex s))

let () =
  iter_cases Sys.argv.(1) (fun id kind payload ->
    match kind with
    | "units" ->
        (match words payload with
         | [u; t; r0; r1; w; e0; e1; x0; y0; x1; y1; x2; y2; x3; y3; s0; s1; s2; s3] ->
             let unit_ = dbl_of_hex u and tol = dbl_of_hex t in
             let r0 = n_of_hex r0 and r1 = n_of_hex r1 in
             let st = read_gds_units unit_ tol r0 r1 in
             let sn = read_gds_units b64_zero tol r0 r1 in
             let f = st.us_factor in
             let xy = List.map z_of_hex [x0; y0; x1; y1; x2; y2; x3; y3] in
             let sp = List.map z_of_hex [s0; s1; s2; s3] in
             let pts = List.map (fun z -> dbl_text (gds_coord f z)) xy in
             (* the closing vertex (a copy of the first) is dropped unless it compares unequal to the first: NaN *)
             let npts = (match pts with a :: b :: _ when a = "nan" || b = "nan" -> 5 | _ -> 4) in
             let wz = z_of_hex w in
             let sw = (match wz with Zneg _ -> "0" | _ -> "1") in
             let (gu, gp) = gds_units_model r0 r1 in
             let scale = rescale_factor sn.us_unit st.us_unit in
             let resc = List.map (fun z -> dbl_text (rescale scale (gds_coord sn.us_factor z))) xy in
             out id "M"
               (String.concat " "
                  ([dbl_text st.us_unit; dbl_text st.us_precision; dbl_text st.us_tolerance; "n=" ^ string_of_int npts]
                   @ pts
                   @ ["hw=" ^ dbl_text (gds_half_width f wz); "sw=" ^ sw; dbl_text (gds_coord f (z_of_hex e0));
                      dbl_text (gds_coord f (z_of_hex e1))]
                   @ List.map (fun z -> dbl_text (gds_coord f z)) sp
                   @ ["|"; dbl_text gu; dbl_text gp; "|"; dbl_text sn.us_unit; dbl_text scale]
                   @ resc))
         | _ -> out id "M" "bad-case")
    | _ -> ())
