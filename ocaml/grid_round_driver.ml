(* C01 / C02, unit grid_round: runs the extracted Flocq model coq/GridRound.v on the harness's cases and prints the same
   text as harness/grid_round.cpp. *)
open Grid_round
open Conv

let pad16 h = String.make (max 0 (16 - String.length h)) '0' ^ h
let dbl_text (f : binary64) : string = pad16 (hex_of_n (bits64 f))
let dbl_of_hex (s : string) : binary64 = b64_of_bits (Z.of_N (n_of_hex s))
let oz = function Some z -> hex_of_z z | None -> "ub"
let is_zero_bits (f : binary64) = let h = dbl_text f in h = "0000000000000000" || h = "8000000000000000"
let zlt0 = function Zneg _ -> true | _ -> false
let rec take n l = if n = 0 then [] else match l with [] -> [] | a :: t -> a :: take (n - 1) t
let rec drop n l = if n = 0 then l else match l with [] -> [] | _ :: t -> drop (n - 1) t
let nth l i = List.nth l i

(* indices of the 19 values *)
let ihw = 12 and ie0 = 13 and ie1 = 14 and is_ = 15

let gw_line payload =
  match words payload with
  | u :: p :: vs when List.length vs = 19 ->
      let unit_ = dbl_of_hex u and prec = dbl_of_hex p in
      let v = List.map dbl_of_hex vs in
      let s = gw_scaling unit_ prec in
      let (r0, r1) = gw_units unit_ prec in
      let ints = List.mapi (fun i x ->
        if i = ihw then oz (gw_width true s x)
        else if i = ie0 || i = ie1 then oz (gw_ext s x)
        else oz (gw_coord s b64_zero x)) v in
      "u " ^ hex_of_n r0 ^ " " ^ hex_of_n r1 ^ " k " ^ String.concat " " ints
  | _ -> "bad-case"

let gr_line payload =
  match words payload with
  | r0 :: r1 :: ks when List.length ks = 19 ->
      let r0 = n_of_hex r0 and r1 = n_of_hex r1 in
      let k = List.map z_of_hex ks in
      let st = read_gds_units b64_zero b64_zero r0 r1 in
      let f = st.us_factor in
      let x = List.mapi (fun i z ->
        if i = ihw then gds_half_width f z else gds_coord f z) k in
      let (u0, u1) = gw_units st.us_unit st.us_precision in
      let k2 = List.mapi (fun i z ->
        if i = ihw then oz (gds_cycle_width st z)
        else if i = ie0 || i = ie1 then oz (gds_cycle_ext st z)
        else oz (gds_cycle_coord st z)) k in
      let merged = overlap_test st.us_tolerance (nth x is_) (nth x (is_ + 1)) (nth x (is_ + 2)) (nth x (is_ + 3)) in
      "L " ^ dbl_text st.us_unit ^ " " ^ dbl_text st.us_precision ^ " " ^ dbl_text st.us_tolerance
      ^ " x " ^ String.concat " " (List.map dbl_text x)
      ^ " u2 " ^ hex_of_n u0 ^ " " ^ hex_of_n u1
      ^ " k2 " ^ String.concat " " (take ihw k2)
      ^ (if merged then " nopath" else " " ^ String.concat " " (drop ihw k2))
  | _ -> "bad-case"

let ow_line payload =
  match words payload with
  | u :: p :: vs when List.length vs = 19 ->
      let unit_ = dbl_of_hex u and prec = dbl_of_hex p in
      let v = List.map dbl_of_hex vs in
      let s = gw_scaling unit_ prec in
      let real = or_unit_real (ow_unit_bytes prec) in
      let c i = oz (ow_coord s (nth v i)) in
      let hw = ow_halfwidth s (nth v ihw) in
      (* extension scheme of FlexPath::to_oas, resolved: 0 -> flush (0), > 0 and == half width -> half width, else explicit *)
      "real " ^ dbl_text real ^ " k n 4 " ^ String.concat " " (List.init 12 c)
      ^ " " ^ oz hw ^ " " ^ c ie0 ^ " " ^ c ie1 ^ " n 2 " ^ String.concat " " (List.init 4 (fun i -> c (is_ + i)))
  | _ -> "bad-case"

(* point list of the file -> per-axis steps *)
let steps_of ty (ds : z list) closed : pstep list * pstep list =
  if ty <= 1 then begin
    let horizontal = ref (ty = 0) in
    let xs = ref [] and ys = ref [] in
    List.iter (fun d ->
      if !horizontal then (xs := PStep d :: !xs; ys := PKeep :: !ys)
      else (xs := PKeep :: !xs; ys := PStep d :: !ys);
      horizontal := not !horizontal) ds;
    if closed then begin
      if !horizontal then (xs := PInit :: !xs; ys := PKeep :: !ys)
      else (xs := PKeep :: !xs; ys := PInit :: !ys)
    end;
    (List.rev !xs, List.rev !ys)
  end else begin
    let rec go = function
      | dx :: dy :: t -> let (a, b) = go t in (PStep dx :: a, PStep dy :: b)
      | _ -> ([], []) in
    go ds
  end

let interleave a b = List.concat (List.map2 (fun x y -> [x; y]) a b)

(* parses "<k0x> <k0y> <type> <n> d..." from a word list; returns (k0x, k0y, type, deltas, rest) *)
let parse_plist ws =
  match ws with
  | kx :: ky :: ty :: n :: t ->
      let n = int_of_n (n_of_hex n) in
      (z_of_hex kx, z_of_hex ky, int_of_n (n_of_hex ty), List.map z_of_hex (take n t), drop n t)
  | _ -> failwith "plist"

let or_line payload =
  let fields =
    match String.index_opt payload '|' with
    | Some i -> String.sub payload (i + 1) (String.length payload - i - 1)
    | None -> "" in
  match words fields with
  | real :: "P" :: t ->
      let real = dbl_of_hex real in
      let (pkx, pky, pty, pds, t) = parse_plist t in
      (match t with
       | "L" :: lx :: ly :: "R" :: rx :: ry :: "H" :: hw :: e0 :: e1 :: t ->
           let (skx, sky, sty, sds, _) = parse_plist t in
           let st = read_oas_units b64_zero b64_zero real in
           let f = st.os_factor in
           let (pxs, pys) = steps_of pty pds true in
           let (sxs, sys) = steps_of sty sds false in
           let px = oas_points f pkx pxs and py = oas_points f pky pys in
           let spx = oas_points f skx sxs and spy = oas_points f sky sys in
           let lab = [oas_coord f (z_of_hex lx); oas_coord f (z_of_hex ly)] in
           let rf = [oas_coord f (z_of_hex rx); oas_coord f (z_of_hex ry)] in
           let hwn = n_of_hex hw in
           let hwd = oas_ucoord f hwn in
           let ext e = if e = "fl" then b64_zero else if e = "hw" then hwd else oas_coord f (z_of_hex e) in
           let eu = ext e0 and ev = ext e1 in
           (* end type as read_oas decides it: both == 0 -> Flush (0), both == half width -> HalfWidth (2), else Extended (3) *)
           let same a b = (is_zero_bits a && is_zero_bits b) || dbl_text a = dbl_text b in
           let et = if is_zero_bits eu && is_zero_bits ev then 0 else if same eu hwd && same ev hwd then 2 else 3 in
           let (su, sv) = if et = 3 then (eu, ev) else (b64_zero, b64_zero) in
           let s = oas_scaling_of st in
           let real2 = or_unit_real (ow_unit_bytes st.os_precision) in
           let kk l = List.map (fun d -> oz (ow_coord s d)) l in
           let hw2 = ow_halfwidth s hwd in
           let e2 d = if et = 0 then "0" else if et = 2 then oz hw2 else oz (ow_coord s d) in
           let merged =
             (match (spx, spy) with
              | ([x0; x1], [y0; y1]) -> overlap_test st.os_tolerance x0 y0 x1 y1
              | _ -> false) in
           let np = List.length px and ns = List.length spx in
           "L " ^ dbl_text st.os_unit ^ " " ^ dbl_text st.os_precision ^ " " ^ dbl_text st.os_tolerance
           ^ " x n " ^ string_of_int np ^ " " ^ String.concat " " (List.map dbl_text (interleave px py))
           ^ " " ^ String.concat " " (List.map dbl_text (lab @ rf))
           ^ " " ^ dbl_text hwd ^ " et " ^ string_of_int et ^ " " ^ dbl_text su ^ " " ^ dbl_text sv
           ^ " n " ^ string_of_int ns ^ " " ^ String.concat " " (List.map dbl_text (interleave spx spy))
           ^ " real2 " ^ dbl_text real2
           ^ " k2 n " ^ string_of_int np ^ " " ^ String.concat " " (kk (interleave px py))
           ^ " " ^ String.concat " " (kk (lab @ rf))
           ^ (if merged then " nopath"
              else " " ^ oz hw2 ^ " " ^ e2 eu ^ " " ^ e2 ev ^ " n " ^ string_of_int ns ^ " "
                   ^ String.concat " " (kk (interleave spx spy)))
       | _ -> "bad-case")
  | _ -> "bad-case"

let () =
  iter_cases Sys.argv.(1) (fun id kind payload ->
    match kind with
    | "gw" -> out id "M" (gw_line payload)
    | "gr" -> out id "M" (gr_line payload)
    | "ow" -> out id "M" (ow_line payload)
    | "or" -> out id "M" (try or_line payload with _ -> "bad-case")
    | _ -> ())
