(* C12 / unit c12_cuts: runs the extracted model of the cut choice of Polygon::fracture (coq/FractureCuts.v) on the harness's
   cases.  cuts / cutsn: "L <limit> S <precision> N <n> x y x y ..." (doubles as 16 hex digits of their bit pattern) ->
   M  `x c1 c2 ...` / `y c1 ...` / `nocall` / `crash` / `hang` / `invalid`.
   fracidx: "<count> <num_cuts> <j>" -> M `<frac bits> <index>` (cut_frac, cut_index). *)
open C12_cuts
open Conv

let hex16 (b : n) : string =
  let h = hex_of_n b in
  String.make (max 0 (16 - String.length h)) '0' ^ h

let status = function
  | Ok _ -> "ok" | ErrEof -> "eof" | ErrOverflow -> "overflow" | ErrInvalid -> "invalid"
  | Crash -> "crash" | Hang -> "hang"

let () =
  iter_cases Sys.argv.(1) (fun id kind payload ->
    match kind with
    | "cuts" | "cutsn" | "cutsall" ->
        (match words payload with
         | "L" :: l :: "S" :: _ :: "N" :: nn :: rest ->
             let limit = n_of_hex l in
             let n = int_of_n (n_of_hex nn) in
             let rec pts k l acc =
               if k = 0 then List.rev acc
               else match l with
                 | x :: y :: t -> pts (k - 1) t ((dbl_of_bits (n_of_hex x), dbl_of_bits (n_of_hex y)) :: acc)
                 | _ -> failwith "short point list" in
             let p = pts n rest [] in
             (match fracture_cuts limit p with
              | Ok NoCut -> out id "M" "nocall"
              | Ok (Cuts (ax, cs)) ->
                  out id "M" (String.concat " " ((if ax then "x" else "y") :: List.map (fun c -> hex16 (bits_of_dbl c)) cs))
              | r -> out id "M" (status r))
         | _ -> out id "M" "bad-case")
    | "fracidx" ->
        (match words payload with
         | [c; k; j] ->
             let frac = cut_frac (n_of_hex c) (n_of_hex k) in
             let idx = match cut_index frac (n_of_hex j) with Ok i -> hex_of_n i | r -> status r in
             out id "M" (hex16 (bits_of_dbl frac) ^ " " ^ idx)
         | _ -> out id "M" "bad-case")
    | _ -> ())
