(* GDS model driver: parses write plans, runs the extracted writer / reader / info models, prints
   the canonical dumps of harness/gdsdump.hpp *)
open Gds
open Conv

let zi s = z_of_int (int_of_string s)
let hexs_to_bytes s = if s = "-" then [] else bytes_of_hex s
let bytes_to_hexs b = if b = [] then "-" else hex_of_bytes b
let zs z = string_of_int (int_of_z z)

(* ---- token stream *)
type toks = { mutable l : string list }
let next t = match t.l with x :: r -> t.l <- r; x | [] -> failwith "unexpected end of plan"
let peek t = match t.l with x :: _ -> Some x | [] -> None

let parse_props t : gprops =
  (match next t with "k" -> () | x -> failwith ("expected k, got " ^ x));
  let n = int_of_string (next t) in
  let rec go i = if i = 0 then [] else
    let a = n_of_int (int_of_string (next t)) in
    let v = hexs_to_bytes (next t) in (a, v) :: go (i - 1) in
  go n

let parse_pts t n = let rec go i = if i = 0 then [] else
    let x = zi (next t) in let y = zi (next t) in (x, y) :: go (i - 1) in go n

let parse_real s : n =
  if String.length s > 0 && s.[0] = 'b' then n_of_hex (String.sub s 1 (String.length s - 1))
  else failwith "plan reals must be bit patterns"

let parse_endt = function "0" -> EFlush | "1" -> ERound | "2" -> EHalf | _ -> EExt

let parse_lib (s : string) : glib =
  let t = { l = words s } in
  (match next t with "LIB" -> () | x -> failwith ("expected LIB, got " ^ x));
  let name = hexs_to_bytes (next t) in
  let u0 = n_of_hex (next t) in
  let u1 = n_of_hex (next t) in
  let cells = ref [] in
  let cur = ref None in
  let flush () = match !cur with
    | Some (nm, ps, hs, rs, ls) ->
        cells := { c_name = nm; c_polys = List.rev ps; c_paths = List.rev hs; c_refs = List.rev rs; c_labels = List.rev ls } :: !cells
    | None -> () in
  let rec loop () = match peek t with
    | None -> ()
    | Some "CELL" -> ignore (next t); flush (); cur := Some (hexs_to_bytes (next t), [], [], [], []); loop ()
    | Some k ->
        ignore (next t);
        let (nm, ps, hs, rs, ls) = (match !cur with Some c -> c | None -> failwith "element outside cell") in
        (match k with
         | "P" ->
             let layer = zi (next t) in let ty = zi (next t) in let n = int_of_string (next t) in
             let pts = parse_pts t n in let pr = parse_props t in
             cur := Some (nm, { p_layer = layer; p_type = ty; p_pts = pts; p_props = pr } :: ps, hs, rs, ls)
         | "H" ->
             let layer = zi (next t) in let ty = zi (next t) in let e = parse_endt (next t) in
             let w = zi (next t) in let sw = next t = "1" in let e0 = zi (next t) in let e1 = zi (next t) in
             let n = int_of_string (next t) in let pts = parse_pts t n in let pr = parse_props t in
             cur := Some (nm, ps, { h_layer = layer; h_type = ty; h_end = e; h_width = w; h_scale_width = sw;
                                    h_ext = (e0, e1); h_pts = pts; h_props = pr } :: hs, rs, ls)
         | "R" ->
             let name = hexs_to_bytes (next t) in let x = zi (next t) in let y = zi (next t) in
             let refl = next t = "1" in let mag = parse_real (next t) in let rot = parse_real (next t) in
             let rep = (match next t with
               | "-" -> None
               | c -> let cols = zi c in let rows = zi (next t) in let reg = next t = "1" in
                      let x2 = zi (next t) in let y2 = zi (next t) in let x3 = zi (next t) in let y3 = zi (next t) in
                      Some { g_cols = cols; g_rows = rows; g_regular = reg; g_p2 = (x2, y2); g_p3 = (x3, y3) }) in
             let pr = parse_props t in
             cur := Some (nm, ps, hs, { r_name = name; r_origin = (x, y); r_refl = refl; r_mag = mag; r_rot = rot;
                                        r_rep = rep; r_props = pr } :: rs, ls)
         | "T" ->
             let layer = zi (next t) in let ty = zi (next t) in let text = hexs_to_bytes (next t) in
             let x = zi (next t) in let y = zi (next t) in let anchor = n_of_int (int_of_string (next t)) in
             let refl = next t = "1" in let mag = parse_real (next t) in let rot = parse_real (next t) in
             let pr = parse_props t in
             cur := Some (nm, ps, hs, rs, { l_layer = layer; l_type = ty; l_text = text; l_origin = (x, y); l_anchor = anchor;
                                            l_refl = refl; l_mag = mag; l_rot = rot; l_props = pr } :: ls)
         | x -> failwith ("unknown element " ^ x));
        loop () in
  loop (); flush ();
  { g_name = name; g_units = (u0, u1); g_cells = List.rev !cells }

(* ---- dump (loaded form) *)
let dump_props (ps : gprops) =
  " k " ^ string_of_int (List.length ps) ^
  String.concat "" (List.map (fun (a, v) -> " " ^ string_of_int (int_of_n a) ^ " " ^ bytes_to_hexs v) ps)
let dump_pts pts = String.concat "" (List.map (fun (x, y) -> " " ^ zs x ^ " " ^ zs y) pts)
let endn = function EFlush -> "0" | ERound -> "1" | EHalf -> "2" | EExt -> "3"
let b01 b = if b then "1" else "0"

(* layer / type: gdstk keeps the sign-extended 16-bit field in an unsigned 32-bit half of the tag *)
let tagz (z : z) : string = let i = int_of_z z in string_of_int (if i < 0 then i + 4294967296 else i)

let dump_lib (l : glib) : string =
  let b = Buffer.create 1024 in
  Buffer.add_string b ("LIB " ^ bytes_to_hexs l.g_name);
  List.iter (fun c ->
    Buffer.add_string b (" CELL " ^ bytes_to_hexs c.c_name);
    List.iter (fun p -> Buffer.add_string b (" P " ^ tagz p.p_layer ^ " " ^ tagz p.p_type ^ " " ^ string_of_int (List.length p.p_pts) ^
                                            dump_pts p.p_pts ^ dump_props p.p_props)) c.c_polys;
    List.iter (fun h ->
      let (e0, e1) = (match h.h_end with EExt -> h.h_ext | _ -> (Z0, Z0)) in
      Buffer.add_string b (" H " ^ tagz h.h_layer ^ " " ^ tagz h.h_type ^ " " ^ endn h.h_end ^ " " ^ zs h.h_width ^ " " ^
                           b01 h.h_scale_width ^ " " ^ zs e0 ^ " " ^ zs e1 ^ " " ^
                           string_of_int (List.length h.h_pts) ^ dump_pts h.h_pts ^ dump_props h.h_props)) c.c_paths;
    List.iter (fun r ->
      let (x, y) = r.r_origin in
      let rep = (match r.r_rep with
        | None -> "-"
        | Some g -> let (x2, y2) = g.g_p2 and (x3, y3) = g.g_p3 in
            zs g.g_cols ^ " " ^ zs g.g_rows ^ " " ^ b01 g.g_regular ^ " " ^ zs x2 ^ " " ^ zs y2 ^ " " ^ zs x3 ^ " " ^ zs y3) in
      Buffer.add_string b (" R " ^ bytes_to_hexs r.r_name ^ " " ^ zs x ^ " " ^ zs y ^ " " ^ b01 r.r_refl ^ " " ^
                           zs (real_scaled r.r_mag) ^ " " ^ zs (real_scaled r.r_rot) ^ " " ^ rep ^ dump_props r.r_props)) c.c_refs;
    List.iter (fun t ->
      let (x, y) = t.l_origin in
      Buffer.add_string b (" T " ^ tagz t.l_layer ^ " " ^ tagz t.l_type ^ " " ^ bytes_to_hexs t.l_text ^ " " ^ zs x ^ " " ^ zs y ^ " " ^
                           string_of_int (int_of_n t.l_anchor) ^ " " ^ b01 t.l_refl ^ " " ^ zs (real_scaled t.l_mag) ^ " " ^
                           zs (real_scaled t.l_rot) ^ dump_props t.l_props)) c.c_labels) l.g_cells;
  Buffer.contents b

let status = function
  | Ok _ -> "ok" | ErrEof -> "ERR 12" | ErrInvalid -> "ERR 14" | ErrOverflow -> "ERR 8" | Crash -> "CRASH" | Hang -> "HANG"

let parse_tags s : (z * z) list =
  if s = "-" then [] else
  List.map (fun p -> match String.split_on_char ':' p with
    | [a; b] -> (zi a, zi b) | _ -> failwith "bad tag") (String.split_on_char ',' s)

(* as stored by gdstk: the sign-extended 16-bit field in an unsigned 32-bit half of the tag (sorted as such) *)
let sort_tags l = let u i = if i < 0 then i + 4294967296 else i in List.sort compare (List.map (fun (a, b) -> (u (int_of_z a), u (int_of_z b))) l)

let () =
  iter_cases Sys.argv.(1) (fun id kind payload ->
    try
    match kind with
    | "wr" ->
        (* "<ts six ints> ; <plan>" *)
        let i = String.index payload ';' in
        let ts = List.map zi (words (String.sub payload 0 i)) in
        let plan = String.sub payload (i + 1) (String.length payload - i - 1) in
        let l = parse_lib plan in
        out id "M" (hex_of_bytes (write_gds_model ts l))
    | "rd" | "spec" | "gw" ->
        let bs = bytes_of_hex payload in
        (match read_gds_model None bs with
         | Ok l -> out id "M" (dump_lib l)
         | o -> out id "M" (status o));
        (* the strict grammar-directed decoder: an independent reading of the same bytes *)
        (match spec_decode bs with
         | Some l -> out id "S" (dump_lib l)
         | None -> out id "S" "REJECTED-BY-STRICT-DECODER")
    | "mal" ->
        (* damaged streams: the reader model must predict the real reader; the grammar speaks only when it accepts *)
        let bs = bytes_of_hex payload in
        (match read_gds_model None bs with
         | Ok l -> out id "M" (dump_lib l)
         | o -> out id "M" (status o));
        (match spec_decode bs with
         | Some l -> out id "S" (dump_lib l)
         | None -> ())
    | "filter" ->
        (match words payload with
         | [tags; hx] ->
             (match read_gds_model (Some (parse_tags tags)) (bytes_of_hex hx) with
              | Ok l -> out id "M" (dump_lib l)
              | o -> out id "M" (status o))
         | _ -> out id "M" "bad-case")
    | "info" | "specinfo" ->
        (match gds_info_model (bytes_of_hex payload) with
         | Ok i ->
             let tags l = String.concat "" (List.map (fun (a, b) -> " " ^ string_of_int a ^ ":" ^ string_of_int b) (sort_tags l)) in
             out id "M" ((if i.i_inconsistent then "ERR " else "OK ") ^ string_of_int (List.length i.i_names) ^
                         String.concat "" (List.map (fun nm -> " " ^ bytes_to_hexs nm) i.i_names) ^ " " ^
                         string_of_int (int_of_n i.i_polys) ^ " " ^ string_of_int (int_of_n i.i_paths) ^ " " ^
                         string_of_int (int_of_n i.i_refs) ^ " " ^ string_of_int (int_of_n i.i_labels) ^
                         " S" ^ tags i.i_shape_tags ^ " L" ^ tags i.i_label_tags)
         | o -> out id "M" (status o))
    | "raw" ->
        (match words payload with
         | [_mask; hx] ->
             (match read_rawcells_model (bytes_of_hex hx) with
              | Ok ((entries, cells), missing) ->
                  let arr = Array.of_list cells in
                  let line e =
                    (* in the order read_rawcells leaves them (in-place resolution with swap-with-last removal): not sorted *)
                    let deps = List.map (fun id -> bytes_to_hexs arr.(int_of_nat id).rc_name) e.e_deps in
                    " K " ^ bytes_to_hexs e.e_key ^ " " ^ bytes_to_hexs e.e_cell.rc_name ^ " " ^ string_of_int (int_of_n e.e_cell.rc_off) ^
                    " " ^ string_of_int (int_of_n e.e_cell.rc_size) ^ " D" ^ String.concat "" (List.map (fun d -> " " ^ d) deps) in
                  out id "M" ("RAW " ^ string_of_int (List.length entries) ^ String.concat "" (List.sort compare (List.map line entries)) ^
                              " missing=" ^ (if missing then "1" else "0"))
              | o -> out id "M" (status o))
         | _ -> out id "M" "bad-case")
    | "ts" ->
        let bs = bytes_of_hex payload in
        let new24 = List.concat (List.map enc16 (List.map z_of_int [1999; 1; 2; 3; 4; 5; 1999; 1; 2; 3; 4; 5])) in
        out id "M" (hex_of_bytes (rewrite_ts (nat_of_int (List.length bs)) new24 bs))
    | _ -> out id "M" "-"
    with Failure m -> out id "M" ("driver-failure " ^ m))
