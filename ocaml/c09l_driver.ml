(* C09L driver: cross-check of the repetition data the C09 correspondence run feeds to its model.
   The C09 harness prints, for every repetition of every hierarchy, the parameters of the repetition AND the
   lists Repetition::get_offsets / get_extrema returned for it (`<kind> <parameters> : <n> <offsets> <m> <extrema>`);
   the C09 model run (c09_driver.ml) skips the parameters and takes the lists as data.  This driver rebuilds the
   C11 repetition from the parameters and asks the extracted BBoxRepLink.linked_b whether the fed record is,
   term for term, [orep_of r] (C11's offsets / extrema in lowest terms, Explicit flag) and r is live.  Result:
     linked <number of repetitions checked>      every repetition of the case passed (also for no repetition at all)
     unlinked <index> <kind> <reason>            first repetition that did not
   Doubles arrive as 16 hex digits of their bit pattern and become the exact rational they denote (q_of_bits). *)
open C09l
open Conv

exception Bad of string

let () =
  iter_cases Sys.argv.(1) (fun id kind payload ->
    let toks = Array.of_list (words payload) in
    let pos = ref 0 in
    let next () = if !pos >= Array.length toks then raise (Bad "eof") else (let t = toks.(!pos) in incr pos; t) in
    let int () = int_of_string (next ()) in
    let num () = q_of_bits (n_of_hex (next ())) in
    let point () = let x = num () in let y = num () in (x, y) in
    let points k = List.init k (fun _ -> point ()) in
    let expect s = let t = next () in if t <> s then raise (Bad ("expected " ^ s ^ " got " ^ t)) in
    let lists ex = expect ":"; let no = int () in let o = points no in let ne = int () in let e = points ne in
      Some { offs = o; exts = e; r_explicit = ex } in
    let checked = ref 0 in
    let failed = ref None in
    let check letter (r : rep0) (fed : rep option) =
      let idx = !checked in
      incr checked;
      if !failed = None && not (linked_b r fed) then
        failed := Some (Printf.sprintf "unlinked %d %s %s" idx letter
                          (if not (rep_live_b r) then "not-live"
                           else match orep_of r, fed with
                             | Some a, Some b ->
                                 if not (orep_same (Some { a with exts = b.exts; r_explicit = b.r_explicit }) fed) then "offsets-differ"
                                 else if not (orep_same (Some { a with r_explicit = b.r_explicit }) fed) then "extrema-differ"
                                 else "explicit-flag-differs"
                             | _ -> "none-vs-some")) in
    let rep () =
      match next () with
      | "n" -> check "n" RNone None
      | "R" -> let c = n_of_int (int ()) in let rw = n_of_int (int ()) in let sx = num () in let sy = num () in
               check "R" (RRect (c, rw, sx, sy)) (lists false)
      | "G" -> let c = n_of_int (int ()) in let rw = n_of_int (int ()) in let v1 = point () in let v2 = point () in
               check "G" (RReg (c, rw, v1, v2)) (lists false)
      | "X" -> let k = int () in let l = List.init k (fun _ -> num ()) in check "X" (RExplX l) (lists false)
      | "Y" -> let k = int () in let l = List.init k (fun _ -> num ()) in check "Y" (RExplY l) (lists false)
      | "E" -> let k = int () in let l = points k in check "E" (RExpl l) (lists true)
      | t -> raise (Bad ("rep " ^ t)) in
    let poly () = expect "p"; let k = int () in ignore (points k); rep () in
    try
      match kind with
      | "qh" -> out id "M" "linked 0"
      | "hier" ->
          expect "C";
          let nc = int () in
          for _ = 0 to nc - 1 do
            expect "c";
            ignore (int ());
            expect "P"; let np = int () in for _ = 1 to np do poly () done;
            expect "L"; let nl = int () in for _ = 1 to nl do expect "l"; ignore (point ()); rep () done;
            expect "W"; let nw = int () in
            for _ = 1 to nw do
              expect "w"; ignore (next ()); let k = int () in for _ = 1 to 2 * k do ignore (next ()) done; rep ()
            done;
            (* RobustPaths (section absent in older payloads): same repetition format as the FlexPaths *)
            if !pos < Array.length toks && toks.(!pos) = "V" then begin
              expect "V"; let nv = int () in
              for _ = 1 to nv do
                expect "v"; let ne = int () in for _ = 1 to 2 * ne do ignore (next ()) done;
                let k = int () in for _ = 1 to 2 * k do ignore (next ()) done; rep ()
              done
            end;
            expect "F"; let nf = int () in for _ = 1 to nf do poly () done;
            expect "R"; let nr = int () in
            for _ = 1 to nr do
              expect "r";
              ignore (int ()); ignore (point ()); ignore (next ()); ignore (num ()); ignore (num ());
              ignore (int ()); ignore (num ()); ignore (int ());
              rep ()
            done
          done;
          expect "Q";
          (match !failed with
           | Some s -> out id "M" s
           | None -> out id "M" (Printf.sprintf "linked %d" !checked))
      | _ -> ()
    with Bad m -> out id "M" ("bad-case " ^ m))
