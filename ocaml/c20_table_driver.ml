(* C20 table model driver: runs the extracted Gallina hash-table model (coq/Table.v) on the
   operation histories written by harness/c20_table.cpp.
   One history per case; the model's *_run function is called once and returns the outputs of
   every operation plus the final table, printed in the same text as the harness. *)
open C20_table
open Conv

(* extracted nat <-> int, tail recursive (capacities reach 2^14) *)
let int_of_nat (n : nat) : int =
  let rec go acc = function O -> acc | S m -> go (acc + 1) m in go 0 n
let nat_of_int (i : int) : nat =
  let rec go acc i = if i <= 0 then acc else go (S acc) (i - 1) in go O i

let hex_int (i : int) : string = Printf.sprintf "%x" i

(* payload tokens -> operations.  Tokens that do not apply to the kind, or are malformed, are
   ignored (the harness does the same). *)
let ops_of (kind : string) (key_of : string -> 'k) (val_of : string -> 'v) (payload : string)
  : ('k, 'v) op list =
  List.filter_map (fun w ->
    match String.split_on_char ':' w with
    | ["s"; k; v] when kind <> "set" -> Some (OpSet (key_of k, val_of v))
    | ["s"; k] when kind = "set" -> Some (OpSet (key_of k, val_of ""))
    | ["g"; k] when kind <> "set" -> Some (OpGet (key_of k))
    | ["h"; k] when kind <> "stylemap" -> Some (OpHas (key_of k))
    | ["d"; k] -> Some (OpDel (key_of k))
    | ["c"] -> Some OpClear
    | ["y"] -> Some OpCopy
    | ["i"] -> Some OpIter
    | ["r"; c] when String.length c >= 1 && String.length c <= 6 ->
        Some (OpResize (nat_of_int (int_of_string ("0x" ^ c))))
    | _ -> None) (words payload)

let rec last = function [] -> None | [x] -> Some x | _ :: tl -> last tl

(* result text: outputs joined by spaces, then the layout section; a failed run is the single
   word crash / hang *)
let render (get_str : 'v option -> string) (item_str : 'k * 'v -> string) (key_str : 'k -> string)
    ((obs, t) : ('k, 'v) obs list * ('k, 'v) table) : string =
  match last obs with
  | Some ObsCrash -> "crash"
  | Some ObsHang -> "hang"
  | _ ->
    let one = function
      | ObsUnit -> "."
      | ObsBool b -> if b then "1" else "0"
      | ObsVal o -> get_str o
      | ObsItems l -> "{" ^ String.concat "," (List.sort compare (List.map item_str l)) ^ "}"
      | ObsCrash -> "crash"
      | ObsHang -> "hang" in
    let lay =
      "L:" ^ hex_int (int_of_nat t.cap) ^ "/" ^ hex_int (int_of_nat t.count) ^ ":" ^
      String.concat "," (List.map (fun (i, k) -> hex_int (int_of_nat i) ^ "=" ^ key_str k) (layout t)) in
    String.concat " " (List.map one obs @ [lay])

(* specification-level result (S line): the outputs of the abstract map of Table.v ([run_spec],
   the right-hand side of TableProofs.table_refines_map_lemma and of
   TableResizeProofs.table_refines_map_resize_lemma), same text without the L: section.  It is printed
   only for histories inside the theorem: any operation, the public resize(c) with any c but 1. *)
let in_theorem (ops : ('k, 'v) op list) : bool =
  List.for_all (fun o -> match o with OpResize (S O) -> false | _ -> true) ops

let render_spec (get_str : 'v option -> string) (item_str : 'k * 'v -> string) (obs : ('k, 'v) obs list) : string =
  let one = function
    | ObsUnit -> "."
    | ObsBool b -> if b then "1" else "0"
    | ObsVal o -> get_str o
    | ObsItems l -> "{" ^ String.concat "," (List.sort compare (List.map item_str l)) ^ "}"
    | ObsCrash -> "crash"
    | ObsHang -> "hang" in
  String.concat " " (List.map one obs)

let () =
  iter_cases Sys.argv.(1) (fun id kind payload ->
    match kind with
    | "map" ->
        let ops = ops_of kind bytes_of_hex n_of_hex payload in
        let g = (fun o -> hex_of_n (smap_get_default o)) and it = (fun (k, v) -> hex_of_bytes k ^ "=" ^ hex_of_n v) in
        out id "M" (render g it hex_of_bytes (smap_run ops));
        if in_theorem ops then out id "S" (render_spec g it (smap_run_spec ops))
    | "set" ->
        let ops = ops_of kind n_of_hex (fun _ -> ()) payload in
        let g = (fun _ -> "") and it = (fun (k, ()) -> hex_of_n k) in
        out id "M" (render g it hex_of_n (uset_run ops));
        if in_theorem ops then out id "S" (render_spec g it (uset_run_spec ops))
    | "tagmap" ->
        let ops = ops_of kind n_of_hex n_of_hex payload in
        let g = (fun o -> match o with Some v -> hex_of_n v | None -> "~") and it = (fun (k, v) -> hex_of_n k ^ "=" ^ hex_of_n v) in
        out id "M" (render g it hex_of_n (tagmap_run ops));
        if in_theorem ops then out id "S" (render_spec g it (tagmap_run_spec ops))
    | "stylemap" ->
        let ops = ops_of kind n_of_hex bytes_of_hex payload in
        let g = (fun o -> match o with Some v -> hex_of_bytes v | None -> "~") and it = (fun (k, v) -> hex_of_n k ^ "=" ^ hex_of_bytes v) in
        out id "M" (render g it hex_of_n (stylemap_run ops));
        if in_theorem ops then out id "S" (render_spec g it (stylemap_run_spec ops))
    | _ -> out id "M" "unknown-kind")
