"""Common machinery of /verif/bin/check: translator call, Coq build, implementation build,
harness / OCaml driver builds, correspondence comparison, known findings, evidence."""
import fcntl, glob, hashlib, json, os, re, shutil, subprocess, sys, time

VERIF = os.path.normpath(os.path.join(os.path.dirname(os.path.abspath(__file__)), ".."))
REPO = os.environ.get("VERIF_REPO", "/repo")
COQ = os.path.join(VERIF, "coq")
CACHE = os.path.join(VERIF, ".cache")
NPROC = os.cpu_count() or 4

FORBIDDEN = r"\bAdmitted\b|\badmit\b|\bAxiom\b|\bParameter\b|\bConjecture\b|Unset Guard|bypass_check|\bAdmit Obligations\b|type-in-type|impredicative-set"


def sh(cmd, timeout=None, cwd=None, env=None, inp=None):
    p = subprocess.run(cmd, shell=isinstance(cmd, str), cwd=cwd, env=env, input=inp,
                       stdout=subprocess.PIPE, stderr=subprocess.STDOUT, timeout=timeout, text=True,
                       errors="replace")
    return p.returncode, p.stdout


class Lock:
    def __init__(self, name):
        os.makedirs(CACHE, exist_ok=True)
        self.path = os.path.join(CACHE, name + ".lock")

    def __enter__(self):
        self.f = open(self.path, "w")
        fcntl.flock(self.f, fcntl.LOCK_EX)
        return self

    def __exit__(self, *a):
        fcntl.flock(self.f, fcntl.LOCK_UN)
        self.f.close()


# ---------------------------------------------------------------- translator

def run_translator():
    rc, out = sh([sys.executable, os.path.join(VERIF, "tools", "gen_from_source.py")],
                 env=dict(os.environ, VERIF_REPO=REPO))
    return rc == 0, out.strip()


# ---------------------------------------------------------------- Coq

def ensure_coq_makefile():
    mk = os.path.join(COQ, "Makefile.coq")
    proj = os.path.join(COQ, "_CoqProject")
    if (not os.path.exists(mk)) or os.path.getmtime(mk) < os.path.getmtime(proj):
        rc, out = sh("coq_makefile -f _CoqProject -o Makefile.coq", cwd=COQ)
        if rc != 0:
            raise RuntimeError("coq_makefile failed: " + out)


def theorem_names(vfile):
    """(name, line) of every Theorem/Lemma/Corollary/Example in a Properties file, plus
    the _CoqProject position"""
    res = []
    with open(vfile) as f:
        for i, line in enumerate(f, 1):
            m = re.match(r"\s*(Theorem|Lemma|Corollary|Example|Proposition)\s+([A-Za-z0-9_']+)", line)
            if m:
                res.append((m.group(2), i))
    return res


def scan_forbidden():
    bad = []
    for v in sorted(glob.glob(os.path.join(COQ, "*.v"))):
        with open(v) as f:
            txt = f.read()
        # strip comments (non-nested approximation good enough: we forbid the words in code)
        code = re.sub(r"\(\*.*?\*\)", "", txt, flags=re.S)
        for m in re.finditer(FORBIDDEN, code):
            bad.append("%s: %s" % (os.path.basename(v), m.group(0)))
    return bad


def coq_build(prop_file, timeout=1800, force_props=True):
    """build coq/<prop_file>.vo (and what it depends on). Returns dict(ok, log, obligations,
    discharged, failed_file, assumptions)."""
    with Lock("coq"):
        ensure_coq_makefile()
        target = prop_file + ".vo"
        if force_props:
            for ext in (".vo", ".vok", ".vos", ".glob"):
                try:
                    os.remove(os.path.join(COQ, prop_file + ext))
                except FileNotFoundError:
                    pass
        t0 = time.time()
        try:
            rc, log = sh("timeout %d make -f Makefile.coq -k -j%d %s" % (timeout, NPROC, target), cwd=COQ,
                         timeout=timeout + 60)
        except subprocess.TimeoutExpired:
            rc, log = 124, "TIMEOUT building " + target
        dt = time.time() - t0
    thms = theorem_names(os.path.join(COQ, prop_file + ".v"))
    res = {"ok": rc == 0, "log": log, "obligations": [n for n, _ in thms], "wall_s": dt,
           "failed_file": None, "error": None}
    if rc == 0:
        res["discharged"] = [n for n, _ in thms]
    else:
        # find first error location
        m = re.search(r'File "\./([^"]+)", line (\d+)', log)
        failed_file, line = (m.group(1), int(m.group(2))) if m else (None, 0)
        res["failed_file"] = failed_file
        em = re.search(r"(Error:.*?)(?:\n\S|\Z)", log, flags=re.S)
        res["error"] = (em.group(1)[:600] if em else log[-600:])
        if failed_file == prop_file + ".v":
            res["discharged"] = [n for n, l in thms if l < line and
                                 not any(l < l2 <= line for _, l2 in thms if l2 != l) or False]
            # theorems strictly before the failing one
            res["discharged"] = [n for (n, l), nxt in zip(thms, thms[1:] + [(None, 10 ** 9)]) if nxt[1] <= line]
        else:
            res["discharged"] = []
    # assumptions printed by Print Assumptions
    ass = {}
    cur = None
    for blk in re.finditer(r"(Closed under the global context|Axioms:\n(?:.+\n?)+?)(?=\n[A-Z(]|\Z|\nmake|\nCOQC)", log):
        pass
    res["assumptions_raw"] = extract_assumptions(log)
    return res


def extract_assumptions(log):
    out = []
    lines = log.splitlines()
    i = 0
    while i < len(lines):
        ln = lines[i]
        if "Closed under the global context" in ln:
            out.append("closed")
        elif ln.startswith("Axioms:"):
            j = i + 1
            names = []
            while j < len(lines) and (lines[j].startswith(" ") or re.match(r"^[A-Za-z_][\w.']* :", lines[j]) or
                                      re.match(r"^[A-Za-z_][\w.']*$", lines[j])):
                m = re.match(r"^([A-Za-z_][\w.']*)\s*(:|$)", lines[j])
                if m and not lines[j].startswith(" "):
                    names.append(m.group(1))
                j += 1
            out.append(names)
            i = j - 1
        i += 1
    return out


def assumption_summary(raw):
    ax = set()
    closed = 0
    for a in raw:
        if a == "closed":
            closed += 1
        else:
            ax.update(a)
    return closed, sorted(ax)


# ---------------------------------------------------------------- implementation build

def repo_sources():
    srcs = sorted(glob.glob(os.path.join(REPO, "src", "*.cpp")))
    srcs.append(os.path.join(REPO, "external", "clipper", "clipper.cpp"))
    return srcs


def repo_hash():
    h = hashlib.sha256()
    files = repo_sources() + sorted(glob.glob(os.path.join(REPO, "include", "gdstk", "*.hpp"))) + \
        sorted(glob.glob(os.path.join(REPO, "external", "clipper", "*.hpp")))
    for f in files:
        h.update(f.encode())
        with open(f, "rb") as fh:
            h.update(fh.read())
    return h.hexdigest()[:20]


CXX = "g++"
BASEFLAGS = ["-std=c++11", "-O1", "-g", "-DNDEBUG", "-DGDSTK_VERIF", "-I" + os.path.join(REPO, "include"),
             "-I" + os.path.join(REPO, "external")]
ASANFLAGS = ["-fsanitize=address,undefined", "-fno-sanitize=alignment", "-fno-sanitize-recover=all", "-fno-omit-frame-pointer"]


def prune_cache(keep=None, max_impl=6, min_age_s=900):
    """Bound the cache: keep the newest `max_impl` implementation builds; never touch anything younger than
    `min_age_s` (another check may be using it right now) nor the build being made."""
    now = time.time()
    impls = sorted(glob.glob(os.path.join(CACHE, "impl-*")), key=lambda p: os.path.getmtime(p), reverse=True)
    impls = [p for p in impls if os.path.isdir(p)]
    doomed = [p for p in impls[max_impl:] if p != keep and now - os.path.getmtime(p) > min_age_s]
    for p in doomed:
        shutil.rmtree(p, ignore_errors=True)
    live_keys = set(os.path.basename(p).split("-")[1] for p in glob.glob(os.path.join(CACHE, "impl-*")) if os.path.isdir(p))
    if keep:
        live_keys.add(os.path.basename(keep).split("-")[1])
    for h in glob.glob(os.path.join(CACHE, "harness-*")):
        if not os.path.isdir(h):
            continue
        k = os.path.basename(h).split("-")[1]
        if k not in live_keys and now - os.path.getmtime(h) > min_age_s:
            shutil.rmtree(h, ignore_errors=True)
    for r in glob.glob(os.path.join(CACHE, "run-*")):
        if os.path.isdir(r) and now - os.path.getmtime(r) > 6 * 3600:
            shutil.rmtree(r, ignore_errors=True)


def build_impl(asan=False):
    """compile /repo's current working tree into .cache/impl-<hash>[-asan]/libgdstk.a"""
    key = repo_hash()
    d = os.path.join(CACHE, "impl-%s%s" % (key, "-asan" if asan else ""))
    lib = os.path.join(d, "libgdstk.a")
    with Lock("impl" + ("-asan" if asan else "")):
        if os.path.exists(lib):
            return lib, key, None
        prune_cache(keep=d)
        os.makedirs(d, exist_ok=True)
        flags = BASEFLAGS + (ASANFLAGS if asan else [])
        procs = []
        objs = []
        for s in repo_sources():
            o = os.path.join(d, os.path.basename(s).replace(".cpp", ".o"))
            objs.append(o)
            procs.append((s, subprocess.Popen([CXX] + flags + ["-w", "-c", s, "-o", o], stdout=subprocess.PIPE,
                                              stderr=subprocess.STDOUT, text=True)))
        errs = []
        for s, p in procs:
            out, _ = p.communicate()
            if p.returncode != 0:
                errs.append("%s:\n%s" % (s, out[-2000:]))
        if errs:
            shutil.rmtree(d, ignore_errors=True)
            return None, key, "\n".join(errs)
        rc, out = sh(["ar", "rcs", lib] + objs)
        if rc != 0:
            return None, key, out
        for o in objs:
            os.remove(o)
        return lib, key, None


def build_harness(name, lib, key, asan=False, extra_src=(), exclude_objs=()):
    """compile harness/<name>.cpp against the implementation archive."""
    src = os.path.join(VERIF, "harness", name + ".cpp")
    h = hashlib.sha256()
    for f in [src] + sorted(glob.glob(os.path.join(VERIF, "harness", "*.hpp"))):
        with open(f, "rb") as fh:
            h.update(fh.read())
    d = os.path.join(CACHE, "harness-%s-%s%s" % (key, h.hexdigest()[:12], "-asan" if asan else ""))
    exe = os.path.join(d, name)
    with Lock("harness-" + name):
        if os.path.exists(exe):
            return exe, None
        os.makedirs(d, exist_ok=True)
        flags = BASEFLAGS + (ASANFLAGS if asan else [])
        cmd = [CXX] + flags + ["-w", "-I" + os.path.join(VERIF, "harness"), src, lib, "-lz", "-lqhull_r", "-o", exe]
        rc, out = sh(cmd, timeout=600)
        if rc != 0:
            return None, out[-4000:]
        return exe, None


def build_harness_with_sources(name, key, include_cpp, asan=False):
    """harness that #includes some src/*.cpp itself (to reach static functions): link all the other
    sources directly. include_cpp: basenames the harness includes."""
    src = os.path.join(VERIF, "harness", name + ".cpp")
    h = hashlib.sha256()
    for f in [src] + sorted(glob.glob(os.path.join(VERIF, "harness", "*.hpp"))):
        with open(f, "rb") as fh:
            h.update(fh.read())
    d = os.path.join(CACHE, "harness-%s-%s%s" % (key, h.hexdigest()[:12], "-asan" if asan else ""))
    exe = os.path.join(d, name)
    with Lock("harness-" + name):
        if os.path.exists(exe):
            return exe, None
        os.makedirs(d, exist_ok=True)
        flags = BASEFLAGS + (ASANFLAGS if asan else [])
        others = [s for s in repo_sources() if os.path.basename(s) not in include_cpp]
        # compile others in parallel
        procs = []
        objs = []
        for s in others:
            o = os.path.join(d, "x_" + os.path.basename(s).replace(".cpp", ".o"))
            objs.append(o)
            procs.append(subprocess.Popen([CXX] + flags + ["-w", "-c", s, "-o", o], stdout=subprocess.PIPE,
                                          stderr=subprocess.STDOUT, text=True))
        mo = os.path.join(d, "main.o")
        pm = subprocess.Popen([CXX] + flags + ["-w", "-I" + os.path.join(VERIF, "harness"), "-DVERIF_REPO_SRC=\"%s/src\"" % REPO,
                               "-I" + os.path.join(REPO, "src"), "-c", src, "-o", mo],
                              stdout=subprocess.PIPE, stderr=subprocess.STDOUT, text=True)
        errs = []
        for p in procs + [pm]:
            out, _ = p.communicate()
            if p.returncode != 0:
                errs.append(out[-3000:])
        if errs:
            return None, "\n".join(errs)
        rc, out = sh([CXX] + flags + [mo] + objs + ["-lz", "-lqhull_r", "-o", exe])
        for o in objs + [mo]:
            try:
                os.remove(o)
            except OSError:
                pass
        if rc != 0:
            return None, out[-3000:]
        return exe, None


# ---------------------------------------------------------------- OCaml driver

def build_ocaml(name, extracted_mods):
    """compile ocaml/<name>_driver.ml with ocaml/extracted/<mod>.ml[i] (written by coq Extract*.v)."""
    ex = os.path.join(VERIF, "ocaml", "extracted")
    srcs = []
    for m in extracted_mods:
        for ext in (".mli", ".ml"):
            p = os.path.join(ex, m + ext)
            if not os.path.exists(p):
                return None, "missing extracted file " + p
            srcs.append(p)
    conv = os.path.join(VERIF, "ocaml", "conv.ml")
    drv = os.path.join(VERIF, "ocaml", name + "_driver.ml")
    h = hashlib.sha256()
    for f in srcs + [conv, drv]:
        with open(f, "rb") as fh:
            h.update(fh.read())
    d = os.path.join(CACHE, "ocaml-%s-%s" % (name, h.hexdigest()[:12]))
    exe = os.path.join(d, name + "_driver")
    with Lock("ocaml-" + name):
        if os.path.exists(exe):
            return exe, None
        for old in glob.glob(os.path.join(CACHE, "ocaml-%s-*" % name)):
            shutil.rmtree(old, ignore_errors=True)
        os.makedirs(d, exist_ok=True)
        local = []
        for f in srcs + [drv]:
            shutil.copy(f, d)
            local.append(os.path.basename(f))
        # conv.ml is generic over the extracted numeric types: prefix it with `open <Module>`
        with open(conv) as fh:
            conv_txt = fh.read()
        with open(os.path.join(d, "conv.ml"), "w") as fh:
            fh.write("open %s\n" % (extracted_mods[0][0].upper() + extracted_mods[0][1:]) + conv_txt)
        local.insert(len(local) - 1, "conv.ml")
        rc, out = sh(["ocamlfind", "ocamlopt", "-O3" if False else "-inline", "100", "-w", "-a"] + local + ["-o", exe], cwd=d,
                     timeout=600)
        if rc != 0:
            return None, out[-4000:]
        return exe, None


# ---------------------------------------------------------------- known findings

def load_known():
    p = os.path.join(VERIF, "known_findings.json")
    if not os.path.exists(p):
        return []
    with open(p) as f:
        return json.load(f).get("findings", [])


def is_known(prop, key):
    """An entry matches its own key; an entry that lists `inputs` identifies the finding by the specific inputs that fail:
    a failure reported as `<key>#<input id>` is known only when that input id is listed, so the same kind of failure on ANY
    other input of the pinned campaign is still reported."""
    base, _, inp = key.partition("#")
    for k in load_known():
        if k.get("property") != prop or k.get("status") != "known":
            continue
        if k.get("key") == key and not k.get("inputs"):
            return k
        if inp and k.get("key") == base and inp in k.get("inputs", []):
            return k
    return None


# ---------------------------------------------------------------- evidence

def write_evidence(prop, tier, seed, coverage, wall_s, violations, assumptions):
    os.makedirs(os.path.join(VERIF, "evidence"), exist_ok=True)
    ev = {"property_id": prop, "tier": tier, "seed": seed, "level": "proof", "coverage": coverage,
          "assumptions": assumptions, "wall_s": round(wall_s, 2), "violations": violations}
    p = os.path.join(VERIF, "evidence", prop + ".json")
    if coverage.get("discharged") == 0:
        # the proof-level keys demand discharged >= 1; an empty set is reported under another key
        coverage = dict(coverage)
        del coverage["discharged"]
        coverage["discharged_count"] = 0
        ev["coverage"] = coverage
    with open(p, "w") as f:
        json.dump(ev, f, indent=1, sort_keys=True)
    # schema validation with the tooling venv when it is there (it has jsonschema); otherwise skipped
    if shutil.which("python3-vt") and os.path.exists("/root/.vp/EVIDENCE.schema.json"):
        rc, out = sh(["python3-vt", "-c",
                      "import json,jsonschema,sys; jsonschema.validate(json.load(open(sys.argv[1])), json.load(open('/root/.vp/EVIDENCE.schema.json')))",
                      p])
        if rc != 0:
            raise RuntimeError("evidence does not validate: " + out[-800:])
    return p


def write_replay(prop, key, payload):
    os.makedirs(os.path.join(VERIF, "replays"), exist_ok=True)
    hh = hashlib.sha256((key + json.dumps(payload, sort_keys=True, default=str)).encode()).hexdigest()[:10]
    p = os.path.join(VERIF, "replays", "%s-%s.json" % (prop, hh))
    with open(p, "w") as f:
        json.dump(dict(property=prop, key=key, **payload), f, indent=1, default=str)
    return p
