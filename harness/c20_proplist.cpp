// C20 (part) harness: property lists (src/property.cpp) driven through the public API only.
// A case is a history of operations on one initially empty Property* list; every case runs in a
// forked child so that a NULL dereference is an outcome ("CRASH").
//
// payload (kind "hist"): ops separated by ' ', fields by ',', integers / bytes in hex:
//   su,<name>,<hexu64>,<cn>   set_property(name, uint64_t, create_new)
//   si,<name>,<[-]hex>,<cn>   set_property(name, int64_t, create_new)
//   sr,<name>,<16 hex>,<cn>   set_property(name, double with these bits, create_new)
//   ss,<name>,<bytes>,<cn>    set_property(name, const char*, create_new)       (NUL-free bytes)
//   sb,<name>,<bytes>,<cn>    set_property(name, const uint8_t*, count, create_new)
//   sg,<attr>,<bytes>         set_gds_property(attr, const char*)
//   g,<name>                  get_property           -> value list or null
//   gg,<attr>                 get_gds_property       -> value list from the returned node or null
//   r,<name>,<all>            remove_property        -> #count
//   rg,<attr>                 remove_gds_property    -> T / F
//   cp                        p2 = properties_copy(p); properties_clear(p); p = p2
//   cl                        properties_clear(p)
// result: the value of every g/gg/r/rg in order, then "L<n>" and the n entries of the final list
//   "<name hex>=[v;v;...]" with v = u:<hex> | i:<[-]hex> | r:<16 hex> | s:<bytes hex>.
#include <algorithm>
#include <sys/mman.h>
#include <gdstk/gdstk.hpp>
#include "common.hpp"

using namespace gdstk;

static const char GDS_NAME[] = "S_GDS_PROPERTY";

struct Op {
    std::string k;             // su si sr ss sb sg g gg r rg cp cl
    std::string name;          // raw bytes of the name
    uint64_t u = 0;            // su value / sr bits / attribute
    int64_t i = 0;
    std::vector<uint8_t> b;    // ss / sb / sg bytes
    bool flag = false;         // create_new / all_occurences
};

static std::vector<std::string> split(const std::string& s, char c) {
    std::vector<std::string> v;
    size_t p = 0;
    while (true) {
        size_t e = s.find(c, p);
        if (e == std::string::npos) {
            v.push_back(s.substr(p));
            return v;
        }
        v.push_back(s.substr(p, e - p));
        p = e + 1;
    }
}

static int64_t parse_i64(const std::string& s) {
    bool neg = !s.empty() && s[0] == '-';
    uint64_t m = strtoull(s.c_str() + (neg ? 1 : 0), NULL, 16);
    return neg ? (int64_t)((uint64_t)0 - m) : (int64_t)m;
}

static bool parse_ops(const std::string& payload, std::vector<Op>& ops) {
    for (auto& tok : split(payload, ' ')) {
        if (tok.empty()) continue;
        std::vector<std::string> f = split(tok, ',');
        Op o;
        o.k = f[0];
        auto name_of = [](const std::string& h) {
            std::vector<uint8_t> b = unhex(h);
            return std::string(b.begin(), b.end());
        };
        if ((o.k == "su" || o.k == "si" || o.k == "sr" || o.k == "ss" || o.k == "sb") && f.size() == 4) {
            o.name = name_of(f[1]);
            if (o.k == "su" || o.k == "sr") o.u = strtoull(f[2].c_str(), NULL, 16);
            else if (o.k == "si") o.i = parse_i64(f[2]);
            else o.b = unhex(f[2]);
            o.flag = f[3] == "1";
        } else if (o.k == "sg" && f.size() == 3) {
            o.u = strtoull(f[1].c_str(), NULL, 16);
            o.b = unhex(f[2]);
        } else if (o.k == "g" && f.size() == 2) {
            o.name = name_of(f[1]);
        } else if ((o.k == "gg" || o.k == "rg") && f.size() == 2) {
            o.u = strtoull(f[1].c_str(), NULL, 16);
        } else if (o.k == "r" && f.size() == 3) {
            o.name = name_of(f[1]);
            o.flag = f[2] == "1";
        } else if ((o.k == "cp" || o.k == "cl") && f.size() == 1) {
        } else {
            return false;
        }
        ops.push_back(o);
    }
    return true;
}

// ------------------------------------------------------------------ implementation side
static std::string dump_values(const PropertyValue* v) {
    std::string s = "[";
    bool first = true;
    for (; v; v = v->next) {
        if (!first) s += ";";
        first = false;
        switch (v->type) {
            case PropertyType::UnsignedInteger: s += "u:" + hex_u64(v->unsigned_integer); break;
            case PropertyType::Integer: s += "i:" + hex_i64(v->integer); break;
            case PropertyType::Real: s += "r:" + hex_dbl(v->real); break;
            case PropertyType::String: s += "s:" + hex_bytes(v->bytes, v->count); break;
        }
    }
    return s + "]";
}

static std::string dump_list(const Property* p) {
    size_t n = 0;
    std::string s;
    for (; p; p = p->next) {
        n++;
        s += " " + hex_bytes((const uint8_t*)p->name, strlen(p->name)) + "=" + dump_values(p->value);
    }
    return "L" + std::to_string(n) + s;
}

static volatile int* progress = NULL;  // shared with the children: index of the op being executed

static std::string run_impl(const std::vector<Op>& ops) {
    return in_child([&](FILE* o) {
        Property* p = NULL;
        std::string res;
        int idx = 0;
        for (const Op& op : ops) {
            *progress = idx++;
            const char* name = op.name.c_str();
            if (op.k == "su") set_property(p, name, (uint64_t)op.u, op.flag);
            else if (op.k == "si") set_property(p, name, (int64_t)op.i, op.flag);
            else if (op.k == "sr") set_property(p, name, (double)bits_dbl(op.u), op.flag);
            else if (op.k == "ss") {
                std::string str(op.b.begin(), op.b.end());
                set_property(p, name, (const char*)str.c_str(), op.flag);
            } else if (op.k == "sb") {
                static const uint8_t none[1] = {0};
                set_property(p, name, op.b.empty() ? (const uint8_t*)none : (const uint8_t*)op.b.data(),
                             (uint64_t)op.b.size(), op.flag);
            } else if (op.k == "sg") {
                std::string str(op.b.begin(), op.b.end());
                set_gds_property(p, (uint16_t)op.u, str.c_str());
            } else if (op.k == "g") {
                PropertyValue* v = get_property(p, name);
                res += (v ? dump_values(v) : std::string("null")) + " ";
            } else if (op.k == "gg") {
                PropertyValue* v = get_gds_property(p, (uint16_t)op.u);
                res += (v ? dump_values(v) : std::string("null")) + " ";
            } else if (op.k == "r") {
                uint64_t c = remove_property(p, name, op.flag);
                res += "#" + hex_u64(c) + " ";
            } else if (op.k == "rg") {
                bool b = remove_gds_property(p, (uint16_t)op.u);
                res += b ? "T " : "F ";
            } else if (op.k == "cp") {
                Property* c = properties_copy(p);
                properties_clear(p);
                p = c;
            } else if (op.k == "cl") {
                properties_clear(p);
            }
        }
        *progress = idx;
        res += dump_list(p);
        fputs(res.c_str(), o);
    });
}

// ------------------------------------------------------------------ independent oracle
// an ordered multimap on std::vector, newest entry first; never calls gdstk
struct OVal {
    char kind;  // 'u' 'i' 'r' 's'
    uint64_t u;
    int64_t i;
    std::vector<uint8_t> s;
};
struct OEnt {
    std::string name;
    std::vector<OVal> vals;
};

static std::string o_values(const std::vector<OVal>& v, size_t from) {
    std::string s = "[";
    for (size_t k = from; k < v.size(); k++) {
        if (k > from) s += ";";
        char b[32];
        switch (v[k].kind) {
            case 'u': s += "u:" + hex_u64(v[k].u); break;
            case 'i': s += "i:" + hex_i64(v[k].i); break;
            case 'r':
                snprintf(b, sizeof b, "%016llx", (unsigned long long)v[k].u);
                s += std::string("r:") + b;
                break;
            default: s += "s:" + hex_bytes(v[k].s.data(), v[k].s.size());
        }
    }
    return s + "]";
}

static bool o_is_gds(const OEnt& e, uint64_t attr) {
    return e.name == GDS_NAME && e.vals.size() >= 2 && e.vals[0].kind == 'u' && e.vals[1].kind == 's' &&
           e.vals[0].u == attr;
}

// returns the expected result; crash_at = index of the first remove(name, true) that is executed on
// a non-empty list all of whose entries are named name (-1: none); crash_text describes it
static std::string run_oracle(const std::vector<Op>& ops, int& crash_at, std::string& crash_text) {
    std::vector<OEnt> m;
    std::string res;
    crash_at = -1;
    int idx = 0;
    for (const Op& op : ops) {
        if (op.k == "su" || op.k == "si" || op.k == "sr" || op.k == "ss" || op.k == "sb") {
            OVal v;
            v.kind = op.k == "su" ? 'u' : op.k == "si" ? 'i' : op.k == "sr" ? 'r' : 's';
            v.u = op.u;
            v.i = op.i;
            v.s = op.b;
            auto it = m.end();
            if (!op.flag) it = std::find_if(m.begin(), m.end(), [&](const OEnt& e) { return e.name == op.name; });
            if (it != m.end()) {
                it->vals.insert(it->vals.begin(), v);
            } else {
                OEnt e;
                e.name = op.name;
                e.vals.push_back(v);
                m.insert(m.begin(), e);
            }
        } else if (op.k == "sg") {
            std::vector<uint8_t> s = op.b;
            s.push_back(0);
            auto it = std::find_if(m.begin(), m.end(), [&](const OEnt& e) { return o_is_gds(e, op.u); });
            if (it != m.end()) {
                it->vals[1].s = s;
            } else {
                OEnt e;
                e.name = GDS_NAME;
                OVal a;
                a.kind = 'u';
                a.u = op.u;
                a.i = 0;
                OVal v;
                v.kind = 's';
                v.u = 0;
                v.i = 0;
                v.s = s;
                e.vals.push_back(a);
                e.vals.push_back(v);
                m.insert(m.begin(), e);
            }
        } else if (op.k == "g") {
            auto it = std::find_if(m.begin(), m.end(), [&](const OEnt& e) { return e.name == op.name; });
            res += (it == m.end() ? std::string("null") : o_values(it->vals, 0)) + " ";
        } else if (op.k == "gg") {
            auto it = std::find_if(m.begin(), m.end(), [&](const OEnt& e) { return o_is_gds(e, op.u); });
            res += (it == m.end() ? std::string("null") : o_values(it->vals, 1)) + " ";
        } else if (op.k == "r") {
            size_t before = m.size();
            if (op.flag) {
                size_t matching = (size_t)std::count_if(m.begin(), m.end(), [&](const OEnt& e) { return e.name == op.name; });
                if (crash_at < 0 && before > 0 && matching == before) {
                    crash_at = idx;
                    crash_text = "remove_property(\"" + hex_bytes((const uint8_t*)op.name.data(), op.name.size()) +
                                 "\", true) as op " + std::to_string(idx) + " on a list of " + std::to_string(before) +
                                 " entries all with that name";
                }
                m.erase(std::remove_if(m.begin(), m.end(), [&](const OEnt& e) { return e.name == op.name; }), m.end());
            } else {
                auto it = std::find_if(m.begin(), m.end(), [&](const OEnt& e) { return e.name == op.name; });
                if (it != m.end()) m.erase(it);
            }
            res += "#" + hex_u64(before - m.size()) + " ";
        } else if (op.k == "rg") {
            auto it = std::find_if(m.begin(), m.end(), [&](const OEnt& e) { return o_is_gds(e, op.u); });
            if (it != m.end()) {
                m.erase(it);
                res += "T ";
            } else {
                res += "F ";
            }
        } else if (op.k == "cp") {
            std::vector<OEnt> c(m);
            m.swap(c);
        } else if (op.k == "cl") {
            m.clear();
        }
        idx++;
    }
    res += "L" + std::to_string(m.size());
    for (auto& e : m) res += " " + hex_bytes((const uint8_t*)e.name.data(), e.name.size()) + "=" + o_values(e.vals, 0);
    return res;
}

static std::string shorten(const std::string& s, size_t n = 100) { return s.size() <= n ? s : s.substr(0, n) + "..."; }

static void run_case(Out& out, const std::string& kind, const std::string& payload) {
    std::string id = out.add(kind, payload);
    std::vector<Op> ops;
    if (kind != "hist" || !parse_ops(payload, ops)) {
        out.I(id, "bad-case");
        return;
    }
    for (auto& op : ops) out.count("op:" + op.k);
    out.count("len:" + std::string(ops.size() <= 3 ? "01-03" : ops.size() <= 8 ? "04-08" : ops.size() <= 15 ? "09-15" : "16+"));
    int crash_at = -1;
    std::string crash_text;
    std::string expect = run_oracle(ops, crash_at, crash_text);
    *progress = -1;
    std::string got = run_impl(ops);
    int reached = *progress;
    bool crashed = got.compare(0, 6, "CRASH(") == 0;
    if (crashed) {
        out.count("impl:" + got);
        got = "CRASH";
    }
    out.I(id, got);
    if (crash_at >= 0) out.count("history:reaches-all-match-remove");
    if (got == expect) {
        out.P(id, "ok");
        out.count("oracle:ok");
    } else if (crashed && crash_at >= 0 && reached == crash_at) {
        out.P(id, "FAIL remove_property:all-match " + crash_text + " dereferences NULL");
        out.count("oracle:FAIL-all-match");
    } else {
        out.P(id, "FAIL proplist-vs-multimap " +
                      (crashed ? "crash at op " + std::to_string(reached) : "got " + shorten(got)) + " expected " +
                      shorten(expect));
        out.count("oracle:FAIL-other");
    }
}

// ------------------------------------------------------------------ generators
static std::string hx(const std::string& s) { return hex_bytes((const uint8_t*)s.data(), s.size()); }
static const char* NAMES[4] = {"a", "ab", GDS_NAME, "b"};
static const uint64_t ATTRS[3] = {1, 2, 0xFFFF};

static std::string rand_bytes(Rng& g, bool nul_free, unsigned maxlen) {
    unsigned n = (unsigned)g.below(maxlen + 1);
    std::vector<uint8_t> b;
    for (unsigned i = 0; i < n; i++) {
        uint8_t c;
        switch (g.below(4)) {
            case 0: c = (uint8_t)(0x61 + g.below(26)); break;
            case 1: c = (uint8_t)g.below(4); break;        // includes NUL
            case 2: c = (uint8_t)(0xF0 + g.below(16)); break;
            default: c = (uint8_t)g.below(256);
        }
        if (nul_free && c == 0) c = 0x20;
        b.push_back(c);
    }
    return hex_bytes(b.data(), b.size());
}

static std::string rand_set(Rng& g, const std::string& name) {
    std::string cn = g.chance(45) ? "1" : "0";
    switch (g.below(5)) {
        case 0: {
            static const uint64_t pool[] = {0, 1, 2, 3, 0xFFFF, 0x10001, 0x1FFFF, ~0ULL, 1ULL << 63};
            uint64_t v = g.chance(70) ? pool[g.below(9)] : g.next();
            return "su," + hx(name) + "," + hex_u64(v) + "," + cn;
        }
        case 1: {
            static const int64_t pool[] = {0, -1, 1, INT64_MIN, INT64_MAX, -0x10000, 255};
            int64_t v = g.chance(60) ? pool[g.below(7)] : (int64_t)g.next();
            return "si," + hx(name) + "," + hex_i64(v) + "," + cn;
        }
        case 2: {
            static const uint64_t pool[] = {0, 0x8000000000000000ULL, 0x3FF0000000000000ULL, 0x7FF0000000000000ULL,
                                            0xFFF0000000000000ULL, 0x7FF8000000000000ULL, 1, 0x000FFFFFFFFFFFFFULL};
            uint64_t v = g.chance(50) ? pool[g.below(8)] : g.next();
            if ((v & 0x7FF0000000000000ULL) == 0x7FF0000000000000ULL && (v & 0x000FFFFFFFFFFFFFULL) != 0)
                v |= 0x0008000000000000ULL;  // quiet NaNs only: a signalling NaN may be quieted when passed by value
            char b[32];
            snprintf(b, sizeof b, "%016llx", (unsigned long long)v);
            return "sr," + hx(name) + "," + b + "," + cn;
        }
        case 3: return "ss," + hx(name) + "," + rand_bytes(g, true, 6) + "," + cn;
        default: return "sb," + hx(name) + "," + rand_bytes(g, false, 6) + "," + cn;
    }
}

static std::string rand_history(Rng& g, Out& out) {
    // number of names in play: fewer names make all-match states frequent
    unsigned nn = 1 + (unsigned)g.below(4);
    if (g.chance(25)) nn = 4;
    unsigned first = (unsigned)g.below(4);
    out.count("names:" + std::to_string(nn));
    bool gds_heavy = g.chance(30);
    unsigned len = 1 + (unsigned)g.below(25);
    std::string s;
    for (unsigned i = 0; i < len; i++) {
        std::string name = NAMES[(first + g.below(nn)) % 4];
        uint64_t attr = ATTRS[g.below(3)];
        unsigned r = (unsigned)g.below(100);
        std::string t;
        if (gds_heavy) {
            if (r < 25) t = "sg," + hex_u64(attr) + "," + rand_bytes(g, true, 5);
            else if (r < 45) t = rand_set(g, g.chance(60) ? std::string(GDS_NAME) : name);
            else if (r < 60) t = "gg," + hex_u64(attr);
            else if (r < 75) t = "rg," + hex_u64(attr);
            else if (r < 83) t = "g," + hx(name);
            else if (r < 93) t = "r," + hx(name) + "," + (g.chance(35) ? "1" : "0");
            else if (r < 97) t = "cp";
            else t = "cl";
        } else {
            if (r < 40) t = rand_set(g, name);
            else if (r < 48) t = "sg," + hex_u64(attr) + "," + rand_bytes(g, true, 5);
            else if (r < 62) t = "g," + hx(name);
            else if (r < 67) t = "gg," + hex_u64(attr);
            else if (r < 85) t = "r," + hx(name) + "," + (g.chance(40) ? "1" : "0");
            else if (r < 90) t = "rg," + hex_u64(attr);
            else if (r < 96) t = "cp";
            else t = "cl";
        }
        if (!s.empty()) s += " ";
        s += t;
    }
    return s;
}

// deterministic small cases: removal of the first / last / only / middle entry, all-match lists
static void small_cases(Out& out) {
    auto set = [](const std::string& n, unsigned v) { return "su," + hx(n) + "," + hex_u64(v) + ",1"; };
    auto rm = [](const std::string& n, bool all) { return "r," + hx(n) + "," + (all ? "1" : "0"); };
    auto gets = [](void) { return " g," + hx("a") + " g," + hx("ab") + " g," + hx("b"); };
    const std::string A = "a", B = "ab", C = "b";
    for (int all = 0; all <= 1; all++) {
        // empty list, absent name
        run_case(out, "hist", rm(A, all));
        run_case(out, "hist", set(B, 1) + " " + rm(A, all) + gets());
        // only entry (all = 1: the known NULL dereference)
        run_case(out, "hist", set(A, 1) + " " + rm(A, all) + gets());
        // list [a, ab, b] (head first): remove first, middle, last
        std::string l3 = set(C, 3) + " " + set(B, 2) + " " + set(A, 1);
        run_case(out, "hist", l3 + " " + rm(A, all) + gets());
        run_case(out, "hist", l3 + " " + rm(B, all) + gets());
        run_case(out, "hist", l3 + " " + rm(C, all) + gets());
        // all-match lists of length 2 and 3
        run_case(out, "hist", set(A, 1) + " " + set(A, 2) + " " + rm(A, all) + gets());
        run_case(out, "hist", set(A, 1) + " " + set(A, 2) + " " + set(A, 3) + " " + rm(A, all) + gets());
        // leading matches followed by a non-match; match in the middle; trailing matches
        run_case(out, "hist", set(C, 3) + " " + set(A, 2) + " " + set(A, 1) + " " + rm(A, all) + gets());
        run_case(out, "hist", set(A, 3) + " " + set(C, 2) + " " + set(A, 1) + " " + rm(A, all) + gets());
        run_case(out, "hist", set(A, 3) + " " + set(A, 2) + " " + set(C, 1) + " " + rm(A, all) + gets());
        run_case(out, "hist", set(A, 4) + " " + set(C, 3) + " " + set(A, 2) + " " + set(C, 1) + " " + rm(A, all) + gets());
        // repeated removal down to the empty list
        run_case(out, "hist", set(A, 1) + " " + set(C, 2) + " " + rm(A, all) + " " + rm(C, all) + " " + rm(C, all) + gets());
    }
    // prefix names are different names
    run_case(out, "hist", set(B, 1) + " " + set(A, 2) + " g," + hx(B) + " " + rm(B, true) + gets());
    // value lists: prepend to the first match, create_new
    run_case(out, "hist", "su,61,1,1 si,61,-2,0 sr,61,3ff0000000000000,0 ss,61,7879,0 sb,61,0001,0 ss,61,,0 g,61 su,61,9,1 si,61,7,0 g,61");
    // gds attributes: create, overwrite (the stored bytes include the NUL), first / middle / last / only
    run_case(out, "hist", "sg,1,78 gg,1 sg,1,797a gg,1 rg,1 gg,1 rg,1");
    for (int k = 0; k < 3; k++) {
        std::string a = hex_u64(ATTRS[k]);
        run_case(out, "hist", "sg,1,61 sg,2,62 sg,ffff,63 rg," + a + " gg,1 gg,2 gg,ffff rg," + a);
    }
    run_case(out, "hist", "sg,1, gg,1 sg,1,61 gg,1");
    // a generic S_GDS_PROPERTY entry whose values are not [UInt; String] is not a gds property
    std::string G = hx(GDS_NAME);
    run_case(out, "hist", "su," + G + ",1,1 gg,1 rg,1 sg,1,7a gg,1 g," + G);
    run_case(out, "hist", "ss," + G + ",61,1 su," + G + ",1,0 gg,1 sg,1,7a gg,1 rg,1 rg,1");   // generic entry that IS [UInt; String]
    run_case(out, "hist", "sg,1,61 su," + G + ",5,0 gg,1 gg,5 ss," + G + ",62,0 su," + G + ",2,0 gg,2 gg,1 rg,2");
    run_case(out, "hist", "sg,1,61 su," + G + ",10001,1 ss," + G + ",62,1 gg,1 r," + G + ",0 gg,1 r," + G + ",1");
    run_case(out, "hist", "sg,1,61 sg,2,62 r," + G + ",1");   // all entries named S_GDS_PROPERTY, all = true
    // copy / clear
    run_case(out, "hist", "su,61,1,1 sg,1,61 cp g,61 gg,1 cl g,61 cp cl su,61,2,0");
}

int main(int argc, char** argv) {
    if (argc < 4) {
        fprintf(stderr, "usage: c20_proplist seed tier outdir [corpus] [replay]\n");
        return 2;
    }
    uint64_t seed = strtoull(argv[1], NULL, 10);
    bool thorough = strcmp(argv[2], "thorough") == 0;
    set_error_logger(NULL);
    progress = (volatile int*)mmap(NULL, sizeof(int), PROT_READ | PROT_WRITE, MAP_SHARED | MAP_ANONYMOUS, -1, 0);
    if (progress == MAP_FAILED) {
        perror("mmap");
        return 3;
    }
    Out out;
    out.open(argv[3]);
    if (argc > 5) {
        std::string k, p;
        // a replay of another unit's case (the replay file is handed to every unit) is not ours
        if (load_replay(argv[5], k, p) && k == "hist") run_case(out, k, p);
        out.close();
        return 0;
    }
    // the corpus directory is shared by all units of the property: take only this unit's kind
    for (auto& c : load_corpus(argc > 4 ? argv[4] : NULL))
        if (c.first == "hist") run_case(out, c.first, c.second);
    Rng g(seed);
    small_cases(out);
    long N = thorough ? 200000 : 4000;
    for (long i = 0; i < N; i++) run_case(out, "hist", rand_history(g, out));
    out.close();
    return 0;
}
