// C17 / unit gds_units: the floating-point unit arithmetic of read_gds / gds_units against the bit-exact
// Flocq model coq/GdsUnits.v.
//   kind "units", payload: <target unit> <tolerance> <real0> <real1> <width> <bgnextn> <endextn> <x0> <y0> ... <x3> <y3> <sx0> <sy0> <sx1> <sy1>
//     target unit / tolerance: doubles (16 hex digits); real0 / real1: the two 8-byte reals of the UNITS record (hex);
//     all other fields: int32 as signed hex.
//   A tiny GDSII file is written by hand (HEADER BGNLIB LIBNAME UNITS BGNSTR STRNAME  BOUNDARY LAYER DATATYPE XY ENDEL
//   PATH LAYER DATATYPE PATHTYPE WIDTH BGNEXTN ENDEXTN XY ENDEL  ENDSTR ENDLIB), then:
//     read_gds(file, unit, tolerance) -> library.unit, library.precision, path tolerance, polygon vertices, half width,
//                                        scale_width, end extensions, first two spine points;
//     gds_units(file)                 -> unit, precision;
//     read_gds(file, 0, tolerance)    -> the native coordinates, rescaled here by (native library.unit / library.unit)
//   I line: all of it as bit patterns.  The model (M line) computes the same text from the payload alone.
//   P line (property-level, implementation alone): gds_units == native load bit for bit; rescaled vs direct coordinates
//   within 7 * 2^-53 relative (theorem rescale_close) and identical when db_in_user is a power of two; the coordinate map
//   is strictly monotone.
#include <math.h>
#include <algorithm>
#include <gdstk/gdstk.hpp>
#include "common.hpp"

using namespace gdstk;

static std::string dbl_text(double d) {  // NaNs: one canonical word (sign / payload of a NaN are not modelled)
    if (d != d) return "nan";
    return hex_dbl(d);
}

static void be16(std::vector<uint8_t>& b, uint16_t v) {
    b.push_back((uint8_t)(v >> 8));
    b.push_back((uint8_t)v);
}
static void rec_head(std::vector<uint8_t>& b, size_t datalen, uint8_t rec, uint8_t dtype) {
    be16(b, (uint16_t)(datalen + 4));
    b.push_back(rec);
    b.push_back(dtype);
}
static void rec_none(std::vector<uint8_t>& b, uint8_t rec) { rec_head(b, 0, rec, 0); }
static void rec_i16(std::vector<uint8_t>& b, uint8_t rec, const std::vector<int16_t>& v) {
    rec_head(b, 2 * v.size(), rec, 2);
    for (int16_t x : v) be16(b, (uint16_t)x);
}
static void rec_i32(std::vector<uint8_t>& b, uint8_t rec, const std::vector<int32_t>& v) {
    rec_head(b, 4 * v.size(), rec, 3);
    for (int32_t x : v) {
        uint32_t u = (uint32_t)x;
        b.push_back((uint8_t)(u >> 24));
        b.push_back((uint8_t)(u >> 16));
        b.push_back((uint8_t)(u >> 8));
        b.push_back((uint8_t)u);
    }
}
static void rec_r64(std::vector<uint8_t>& b, uint8_t rec, const std::vector<uint64_t>& v) {
    rec_head(b, 8 * v.size(), rec, 5);
    for (uint64_t u : v)
        for (int i = 7; i >= 0; i--) b.push_back((uint8_t)(u >> (8 * i)));
}
static void rec_str(std::vector<uint8_t>& b, uint8_t rec, const char* s) {
    size_t n = strlen(s);
    size_t padded = n + (n & 1);
    rec_head(b, padded, rec, 6);
    for (size_t i = 0; i < n; i++) b.push_back((uint8_t)s[i]);
    if (padded > n) b.push_back(0);
}

struct Case {
    double unit, tol;
    uint64_t r0, r1;
    int32_t width, ext0, ext1;
    int32_t xy[8];
    int32_t sp[4];
};

static std::string payload_of(const Case& c) {
    std::string s = hex_dbl(c.unit) + " " + hex_dbl(c.tol) + " " + hex_u64(c.r0) + " " + hex_u64(c.r1) + " " + hex_i64(c.width) + " " +
                    hex_i64(c.ext0) + " " + hex_i64(c.ext1);
    for (int i = 0; i < 8; i++) s += " " + hex_i64(c.xy[i]);
    for (int i = 0; i < 4; i++) s += " " + hex_i64(c.sp[i]);
    return s;
}

static bool parse_case(const std::string& p, Case& c) {
    std::vector<std::string> w;
    size_t i = 0;
    while (i < p.size()) {
        while (i < p.size() && p[i] == ' ') i++;
        size_t j = i;
        while (j < p.size() && p[j] != ' ') j++;
        if (j > i) w.push_back(p.substr(i, j - i));
        i = j;
    }
    if (w.size() != 19) return false;
    auto sx = [](const std::string& t) -> int64_t {
        if (!t.empty() && t[0] == '-') return -(int64_t)strtoull(t.c_str() + 1, NULL, 16);
        return (int64_t)strtoull(t.c_str(), NULL, 16);
    };
    c.unit = bits_dbl(strtoull(w[0].c_str(), NULL, 16));
    c.tol = bits_dbl(strtoull(w[1].c_str(), NULL, 16));
    c.r0 = strtoull(w[2].c_str(), NULL, 16);
    c.r1 = strtoull(w[3].c_str(), NULL, 16);
    c.width = (int32_t)sx(w[4]);
    c.ext0 = (int32_t)sx(w[5]);
    c.ext1 = (int32_t)sx(w[6]);
    for (int k = 0; k < 8; k++) c.xy[k] = (int32_t)sx(w[7 + k]);
    for (int k = 0; k < 4; k++) c.sp[k] = (int32_t)sx(w[15 + k]);
    return true;
}

static std::vector<uint8_t> file_of(const Case& c) {
    std::vector<uint8_t> b;
    rec_i16(b, 0x00, {600});
    rec_i16(b, 0x01, std::vector<int16_t>(12, 1));
    rec_str(b, 0x02, "LIB");
    rec_r64(b, 0x03, {c.r0, c.r1});
    rec_i16(b, 0x05, std::vector<int16_t>(12, 1));
    rec_str(b, 0x06, "C");
    rec_none(b, 0x08);  // BOUNDARY
    rec_i16(b, 0x0D, {1});
    rec_i16(b, 0x0E, {0});
    rec_i32(b, 0x10, {c.xy[0], c.xy[1], c.xy[2], c.xy[3], c.xy[4], c.xy[5], c.xy[6], c.xy[7], c.xy[0], c.xy[1]});
    rec_none(b, 0x11);
    rec_none(b, 0x09);  // PATH
    rec_i16(b, 0x0D, {2});
    rec_i16(b, 0x0E, {0});
    rec_i16(b, 0x21, {4});  // PATHTYPE 4: extensions
    rec_i32(b, 0x0F, {c.width});
    rec_i32(b, 0x30, {c.ext0});
    rec_i32(b, 0x31, {c.ext1});
    rec_i32(b, 0x10, {c.sp[0], c.sp[1], c.sp[2], c.sp[3]});
    rec_none(b, 0x11);
    rec_none(b, 0x07);
    rec_none(b, 0x04);
    return b;
}

struct Loaded {
    bool ok;
    double unit, precision, tol;
    uint64_t npoly;
    double p[8];
    double hw, ext0, ext1;
    bool scale_width;
    double s[4];
};

static Loaded load(const char* fname, double unit, double tol) {
    Loaded r;
    memset(&r, 0, sizeof r);
    ErrorCode err = ErrorCode::NoError;
    Library lib = read_gds(fname, unit, tol, NULL, &err);
    r.ok = err == ErrorCode::NoError && lib.cell_array.count == 1 && lib.cell_array[0]->polygon_array.count == 1 &&
           lib.cell_array[0]->flexpath_array.count == 1;
    if (r.ok) {
        Cell* cell = lib.cell_array[0];
        Polygon* poly = cell->polygon_array[0];
        FlexPath* path = cell->flexpath_array[0];
        r.unit = lib.unit;
        r.precision = lib.precision;
        r.npoly = poly->point_array.count;
        r.ok = r.npoly >= 4 && path->spine.point_array.count >= 1 && path->elements[0].half_width_and_offset.count >= 1;
        if (r.ok) {
            for (int i = 0; i < 4; i++) {
                r.p[2 * i] = poly->point_array[i].x;
                r.p[2 * i + 1] = poly->point_array[i].y;
            }
            r.tol = path->spine.tolerance;
            r.hw = path->elements[0].half_width_and_offset[0].u;
            r.ext0 = path->elements[0].end_extensions.u;
            r.ext1 = path->elements[0].end_extensions.v;
            r.scale_width = path->scale_width;
            r.s[0] = path->spine.point_array[0].x;
            r.s[1] = path->spine.point_array[0].y;
            bool two = path->spine.point_array.count >= 2;
            r.s[2] = two ? path->spine.point_array[1].x : 0;
            r.s[3] = two ? path->spine.point_array[1].y : 0;
            if (!two) r.ok = false;
        }
    }
    lib.free_all();
    return r;
}

static bool positive_pattern(uint64_t r) { return (r >> 63) == 0 && (r & 0x00FFFFFFFFFFFFFFULL) != 0; }
static bool pow2_pattern(uint64_t r) {
    uint64_t m = r & 0x00FFFFFFFFFFFFFFULL;
    return (r >> 63) == 0 && m != 0 && (m & (m - 1)) == 0;
}

static void run_case(Out& out, const std::string& kind, const std::string& payload) {
    if (kind != "units") return;
    Case c;
    if (!parse_case(payload, c)) return;
    std::string id = out.add(kind, payload);
    std::string fname = out.dir + "/units_case.gds";
    std::vector<uint8_t> bytes = file_of(c);
    FILE* f = fopen(fname.c_str(), "wb");
    if (!f) { out.I(id, "cannot-write"); return; }
    fwrite(bytes.data(), 1, bytes.size(), f);
    fclose(f);
    guard_begin(out, kind, payload, "read_gds:units-crash", 60);
    Loaded t = load(fname.c_str(), c.unit, c.tol);
    Loaded n = load(fname.c_str(), 0, c.tol);
    double gu = 0, gp = 0;
    ErrorCode ge = gds_units(fname.c_str(), gu, gp);
    guard_end();
    if (!t.ok || !n.ok || ge != ErrorCode::NoError) {
        out.I(id, "load-failed");
        out.P(id, "FAIL read_gds:units-load the hand-built file did not load");
        return;
    }
    // rescaling of the native coordinates, done here in double arithmetic exactly as the model does it
    double scale = n.unit / t.unit;
    double resc[8];
    for (int i = 0; i < 8; i++) resc[i] = n.p[i] * scale;
    std::string res = dbl_text(t.unit) + " " + dbl_text(t.precision) + " " + dbl_text(t.tol) + " n=" + std::to_string((unsigned long long)t.npoly);
    for (int i = 0; i < 8; i++) res += " " + dbl_text(t.p[i]);
    res += " hw=" + dbl_text(t.hw) + " sw=" + (t.scale_width ? "1" : "0") + " " + dbl_text(t.ext0) + " " + dbl_text(t.ext1);
    for (int i = 0; i < 4; i++) res += " " + dbl_text(t.s[i]);
    res += " | " + dbl_text(gu) + " " + dbl_text(gp) + " | " + dbl_text(n.unit) + " " + dbl_text(scale);
    for (int i = 0; i < 8; i++) res += " " + dbl_text(resc[i]);
    out.I(id, res);

    // ---- property-level oracles (implementation alone)
    std::string fail;
    // (b) the queries agree with the native load, bit for bit (NaN == NaN as a class)
    if (dbl_text(gu) != dbl_text(n.unit) || dbl_text(gp) != dbl_text(n.precision))
        fail = "gds_units:differs-from-load unit / precision of gds_units differ from the loaded library's";
    if (fail.empty() && dbl_text(t.precision) != dbl_text(n.precision))
        fail = "read_gds:precision-depends-on-unit the precision differs between a native load and a load with a target unit";
    bool pre = positive_pattern(c.r0) && positive_pattern(c.r1) && std::isfinite(c.unit) && c.unit >= ldexp(1.0, -200) && c.unit <= ldexp(1.0, 200);
    if (fail.empty() && pre) {
        out.count("oracle:rescale-judged");
        if (dbl_bits(t.unit) != dbl_bits(c.unit)) fail = "read_gds:target-unit-not-stored library.unit is not the requested unit";
        int worst = 0;
        for (int i = 0; i < 8 && fail.empty(); i++) {
            double d = t.p[i], r = resc[i];
            double mx = std::max(fabs(d), fabs(r));
            if (fabs(r - d) > 7.5 * ldexp(1.0, -53) * mx)
                fail = "read_gds:target-unit-rescale coordinate " + std::to_string(i) + " loaded with the target unit (" + hex_dbl(d) +
                       ") is not the natively loaded one rescaled (" + hex_dbl(r) + ")";
            if (signbit(d) != signbit(r)) fail = "read_gds:target-unit-rescale sign of coordinate " + std::to_string(i);
            int64_t ud = (int64_t)(dbl_bits(d) & 0x7FFFFFFFFFFFFFFFULL) - (int64_t)(dbl_bits(r) & 0x7FFFFFFFFFFFFFFFULL);
            if (ud < 0) ud = -ud;
            if (ud > worst) worst = (int)std::min<int64_t>(ud, 99);
            if (pow2_pattern(c.r0) && dbl_bits(d) != dbl_bits(r))
                fail = "read_gds:target-unit-rescale-pow2 db_in_user is a power of two but coordinate " + std::to_string(i) + " differs: " + hex_dbl(d) + " / " + hex_dbl(r);
        }
        out.count("oracle:rescale-ulp-distance-" + std::to_string(worst));
        if (pow2_pattern(c.r0)) out.count("oracle:rescale-pow2-user-unit");
    }
    // (c) strictly monotone coordinate map (factor = first non-zero coordinate's ratio is not needed: compare pairs)
    bool norm_t = pre;  // under the same preconditions the factor dm / unit is a normal positive double
    if (fail.empty() && norm_t) {
        int32_t zs[12];
        double ds[12];
        for (int i = 0; i < 8; i++) { zs[i] = c.xy[i]; ds[i] = t.p[i]; }
        for (int i = 0; i < 4; i++) { zs[8 + i] = c.sp[i]; ds[8 + i] = t.s[i]; }
        for (int i = 0; i < 12 && fail.empty(); i++)
            for (int j = 0; j < 12; j++) {
                if (zs[i] < zs[j] && !(ds[i] < ds[j])) fail = "read_gds:coordinates-not-monotone " + hex_i64(zs[i]) + " < " + hex_i64(zs[j]) + " but the doubles are not";
                if (zs[i] == zs[j] && dbl_bits(ds[i]) != dbl_bits(ds[j])) fail = "read_gds:coordinates-not-a-function equal integers, different doubles";
            }
        out.count("oracle:monotone-judged");
    }
    out.P(id, fail.empty() ? "ok" : "FAIL " + fail);
}

// ---------------------------------------------------------------- generators
static uint64_t gds_real_of(double x) { return gdsii_real_from_double(x); }

static uint64_t real_pattern(Rng& g, Out& out, bool meters) {
    switch (g.below(12)) {
        case 0:
        case 1: out.count("gen:real:usual"); return gds_real_of(meters ? 1e-9 : 1e-3);
        case 2: {
            out.count("gen:real:decimal");
            static const double us[] = {1e-3, 1e-6, 1e-2, 1e-4, 5e-4, 2.5e-3, 1.0, 1e-1};
            static const double ms[] = {1e-9, 1e-10, 1e-8, 1e-12, 5e-10, 2.5e-9, 1e-6, 1e-7};
            return gds_real_of(meters ? ms[g.below(8)] : us[g.below(8)]);
        }
        case 3: {  // powers of two: one mantissa bit
            out.count("gen:real:power-of-two");
            uint64_t e7 = meters ? (uint64_t)g.range(50, 62) : (uint64_t)g.range(58, 66);
            if (g.chance(10)) e7 = g.below(128);
            return (e7 << 56) | ((uint64_t)1 << g.below(56));
        }
        case 4: {  // mantissas of 54..56 significant bits: (double)mantissa rounds, ties included
            out.count("gen:real:needs-rounding");
            uint64_t m = ((uint64_t)1 << 55) | (g.next() & (((uint64_t)1 << 55) - 1));
            switch (g.below(4)) {
                case 0: m = (m & ~(uint64_t)7) | 4; break;   // tie
                case 1: m = (m & ~(uint64_t)15) | 12; break;  // tie to even, odd quotient
                case 2: m |= 7; break;
                default: break;
            }
            if (g.coin()) m >>= g.below(3);
            uint64_t e7 = (uint64_t)g.range(52, 68);
            return (e7 << 56) | m;
        }
        case 5: {  // un-normalised: leading hexadecimal digits zero
            out.count("gen:real:unnormalised");
            uint64_t m = (g.next() & 0x00FFFFFFFFFFFFFFULL) >> (4 * (1 + g.below(10)));
            if (m == 0) m = 1;
            return ((uint64_t)g.range(56, 72) << 56) | m;
        }
        case 6: {  // the whole exponent range
            out.count("gen:real:any-exponent");
            uint64_t m = g.next() & 0x00FFFFFFFFFFFFFFULL;
            if (m == 0) m = 1;
            return (g.below(128) << 56) | m;
        }
        case 7:
            if (g.chance(30)) {
                out.count("gen:real:zero-or-negative");
                return g.coin() ? (g.below(128) << 56) : (((uint64_t)1 << 63) | gds_real_of(meters ? 1e-9 : 1e-3));
            }
            // fall through
        default: {  // awkward mantissas of everyday magnitude
            out.count("gen:real:awkward");
            uint64_t m = ((uint64_t)(1 + g.below(15)) << 52) | (g.next() & (((uint64_t)1 << 52) - 1));
            uint64_t e7 = meters ? (uint64_t)g.range(54, 60) : (uint64_t)g.range(60, 65);
            return (e7 << 56) | m;
        }
    }
}

static double target_unit(Rng& g, Out& out) {
    switch (g.below(12)) {
        case 0:
        case 1: out.count("gen:unit:native"); return 0;
        case 2: {
            out.count("gen:unit:decimal");
            static const double us[] = {1e-6, 1e-9, 1e-3, 1e-2, 1.0, 2.54e-5, 1e-10, 5e-7};
            return us[g.below(8)];
        }
        case 3: out.count("gen:unit:power-of-two"); return ldexp(1.0, (int)g.range(-40, 4));
        case 4: out.count("gen:unit:extreme"); return ldexp(1.0 + (double)g.below(1 << 20) / (1 << 20), (int)(g.coin() ? g.range(-200, -150) : g.range(150, 199)));
        case 5:
            switch (g.below(6)) {
                case 0: out.count("gen:unit:negative"); return -1e-6;
                case 1: out.count("gen:unit:infinite"); return INFINITY;
                case 2: out.count("gen:unit:nan"); return NAN;
                case 3: out.count("gen:unit:denormal"); return ldexp(1.0, -1060);
                case 4: out.count("gen:unit:huge"); return ldexp(1.0, 900);
                default: out.count("gen:unit:minus-zero"); return -0.0;
            }
        default: {
            out.count("gen:unit:random");
            uint64_t m = ((uint64_t)1 << 52) | (g.next() & (((uint64_t)1 << 52) - 1));
            return ldexp((double)m, (int)g.range(-60, 10) - 52);
        }
    }
}

static double tolerance_arg(Rng& g, Out& out) {
    switch (g.below(8)) {
        case 0:
        case 1:
        case 2: out.count("gen:tol:default"); return 0;
        case 3: out.count("gen:tol:negative"); return -1.0;
        case 4: out.count("gen:tol:nan-or-inf"); return g.coin() ? NAN : INFINITY;
        default: {
            out.count("gen:tol:given");
            uint64_t m = ((uint64_t)1 << 52) | (g.next() & (((uint64_t)1 << 52) - 1));
            return ldexp((double)m, (int)g.range(-30, 2) - 52);
        }
    }
}

static int32_t coord(Rng& g) {
    switch (g.below(10)) {
        case 0: return (int32_t)g.range(-3, 3);
        case 1: return g.coin() ? INT32_MAX - (int32_t)g.below(3) : INT32_MIN + (int32_t)g.below(3);
        case 2: return (int32_t)g.range(-100000, 100000);
        case 3: return (int32_t)(((int64_t)1 << g.below(31)) * (g.coin() ? 1 : -1));
        default: return (int32_t)(uint32_t)g.next();
    }
}

static Case random_case(Rng& g, Out& out) {
    Case c;
    c.unit = target_unit(g, out);
    c.tol = tolerance_arg(g, out);
    c.r0 = real_pattern(g, out, false);
    c.r1 = real_pattern(g, out, true);
    if (g.chance(10)) { c.r1 = c.r0; out.count("gen:real:equal-pair"); }
    c.width = coord(g);
    if (c.width == INT32_MIN) c.width = INT32_MIN + 1;  // `-data32[0]` overflows (undefined) for INT32_MIN
    if (g.chance(40)) c.width = (int32_t)g.range(-5000, 5000);
    c.ext0 = coord(g);
    c.ext1 = coord(g);
    for (int i = 0; i < 8; i++) c.xy[i] = coord(g);
    // the closing point must differ from the second-to-last test `pa[0] == pa[count - 1]` only through the copy we add:
    // make sure the fourth vertex is not the first one (otherwise two vertices are dropped... only one is: fine either way)
    for (int i = 0; i < 4; i++) c.sp[i] = coord(g);
    if (c.sp[0] == c.sp[2] && c.sp[1] == c.sp[3]) c.sp[2] ^= 1;
    return c;
}

int main(int argc, char** argv) {
    if (argc < 4) {
        fprintf(stderr, "usage: gds_units seed tier outdir [corpus] [replay]\n");
        return 2;
    }
    uint64_t seed = strtoull(argv[1], NULL, 10);
    bool thorough = strcmp(argv[2], "thorough") == 0;
    set_error_logger(NULL);
    Out out;
    out.open(argv[3]);
    if (argc > 5) {
        std::string k, p;
        if (load_replay(argv[5], k, p)) run_case(out, k, p);
        out.close();
        return 0;
    }
    for (auto& c : load_corpus(argc > 4 ? argv[4] : NULL)) run_case(out, c.first, c.second);
    Rng g(seed * 0x100000001B3ULL + 12345);
    // fixed cases: the usual record under the usual target units, extremes of int32
    {
        const double units[] = {0, 1e-6, 1e-9, 1e-3, 1.0, ldexp(1.0, -20)};
        for (double u : units) {
            Case c;
            c.unit = u;
            c.tol = 0;
            c.r0 = gds_real_of(1e-3);
            c.r1 = gds_real_of(1e-9);
            c.width = -150;
            c.ext0 = 75;
            c.ext1 = -20;
            const int32_t xy[8] = {0, 0, INT32_MAX, 1, INT32_MIN, -1, 123456810, 999983};
            memcpy(c.xy, xy, sizeof xy);
            const int32_t sp[4] = {-7, 11, 2000000000, -2000000000};
            memcpy(c.sp, sp, sizeof sp);
            run_case(out, "units", payload_of(c));
            c.r0 = 0x3E40000000000000ULL;  // db_in_user = 2^-10
            c.width = 151;
            run_case(out, "units", payload_of(c));
        }
    }
    long N = thorough ? 60000 : 1500;
    for (long i = 0; i < N; i++) {
        Case c = random_case(g, out);
        run_case(out, "units", payload_of(c));
    }
    remove((out.dir + "/units_case.gds").c_str());
    out.close();
    return 0;
}
