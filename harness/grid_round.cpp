// C01 / C02, unit grid_round: the floating-point step between user doubles and the integer database grid, against the
// bit-exact Flocq model coq/GridRound.v.
//
// Four kinds.  All doubles travel as 16 hex digits, integers as signed hex.
//   gw  payload: <unit> <precision> <19 doubles>       (polygon 4 vertices, label origin, reference origin, path half width,
//        two end extensions, two spine points).  A library is built from them, Library::write_gds, the file is walked record
//        by record.  I: the two UNITS reals and every integer written (XY of BOUNDARY / TEXT / SREF / PATH, WIDTH, BGNEXTN, ENDEXTN).
//   gr  payload: <real0> <real1> <19 int32>             the content of a GDSII file (the one just written, or hand-built with
//        arbitrary reals / extreme integers).  read_gds(file, 0, 0): I: library.unit, precision, path tolerance, every loaded double;
//        then write_gds of the loaded library: the UNITS reals and every integer of the second file ("nopath" when the path is gone).
//   ow / or: the same for Library::write_oas / read_oas (START real, POLYGON / TEXT / PLACEMENT / PATH records decoded with the
//        primitives of oas_scan.hpp; the `or` payload carries the file itself in hex followed by its decoded fields, the model
//        uses the fields only and the harness checks on replay that they are what the file holds).
// P lines (implementation alone): second-cycle stability - the integers and unit reals of the second file equal those of the
// first, the path survives, a third cycle reproduces the second file byte for byte; the loaded coordinates are strictly
// monotone in the integers.
#include <math.h>
#include <time.h>
#include <algorithm>
#include <gdstk/gdstk.hpp>
#include "common.hpp"
#include "oas_scan.hpp"

using namespace gdstk;

enum { IP = 0, IL = 8, IR = 10, IHW = 12, IE0 = 13, IE1 = 14, IS = 15, NV = 19 };

static std::vector<std::string> split_words(const std::string& p) {
    std::vector<std::string> w;
    size_t i = 0;
    while (i < p.size()) {
        while (i < p.size() && p[i] == ' ') i++;
        size_t j = i;
        while (j < p.size() && p[j] != ' ') j++;
        if (j > i) w.push_back(p.substr(i, j - i));
        i = j;
    }
    return w;
}
static int64_t sx(const std::string& t) {
    if (!t.empty() && t[0] == '-') return (int64_t)((uint64_t)0 - strtoull(t.c_str() + 1, NULL, 16));
    return (int64_t)strtoull(t.c_str(), NULL, 16);
}
static double hx(const std::string& t) { return bits_dbl(strtoull(t.c_str(), NULL, 16)); }

// ---------------------------------------------------------------- library construction
static void build_library(Library& lib, double unit, double precision, const double* v, double path_tol) {
    lib = Library{};
    lib.init("L", unit, precision);
    Cell* a = (Cell*)allocate_clear(sizeof(Cell));
    a->name = copy_string("A", NULL);
    Cell* c = (Cell*)allocate_clear(sizeof(Cell));
    c->name = copy_string("C", NULL);
    lib.cell_array.append(a);
    lib.cell_array.append(c);
    Polygon* p = (Polygon*)allocate_clear(sizeof(Polygon));
    p->tag = make_tag(1, 0);
    for (int i = 0; i < 4; i++) p->point_array.append(Vec2{v[IP + 2 * i], v[IP + 2 * i + 1]});
    c->polygon_array.append(p);
    Label* l = (Label*)allocate_clear(sizeof(Label));
    l->init("t");
    l->tag = make_tag(2, 0);
    l->origin = Vec2{v[IL], v[IL + 1]};
    c->label_array.append(l);
    Reference* r = (Reference*)allocate_clear(sizeof(Reference));
    r->init(a);
    r->origin = Vec2{v[IR], v[IR + 1]};
    c->reference_array.append(r);
    FlexPath* fp = (FlexPath*)allocate_clear(sizeof(FlexPath));
    fp->num_elements = 1;
    fp->elements = (FlexPathElement*)allocate_clear(sizeof(FlexPathElement));
    fp->init(Vec2{v[IS], v[IS + 1]}, 2 * v[IHW], 0, path_tol, make_tag(3, 0));
    fp->elements[0].half_width_and_offset[0].u = v[IHW];
    fp->simple_path = true;
    fp->scale_width = true;
    fp->segment(Vec2{v[IS + 2], v[IS + 3]}, NULL, NULL, false);
    fp->elements[0].end_type = EndType::Extended;
    fp->elements[0].end_extensions = Vec2{v[IE0], v[IE1]};
    c->flexpath_array.append(fp);
}

static std::vector<uint8_t> read_file(const std::string& name) {
    std::vector<uint8_t> b;
    FILE* f = fopen(name.c_str(), "rb");
    if (!f) return b;
    uint8_t buf[65536];
    size_t r;
    while ((r = fread(buf, 1, sizeof buf, f)) > 0) b.insert(b.end(), buf, buf + r);
    fclose(f);
    return b;
}
static bool write_file(const std::string& name, const std::vector<uint8_t>& b) {
    FILE* f = fopen(name.c_str(), "wb");
    if (!f) return false;
    fwrite(b.data(), 1, b.size(), f);
    fclose(f);
    return true;
}

// ================================================================ GDSII
struct GFile {
    bool ok = false;
    uint64_t r0 = 0, r1 = 0;
    int npoly = 0, nlab = 0, nref = 0, npath = 0;
    std::vector<int32_t> poly, sp;
    int32_t lab[2] = {0, 0}, ref[2] = {0, 0}, w = 0, e0 = 0, e1 = 0;
    int pathtype = -1;
};

static GFile parse_gds(const std::vector<uint8_t>& b) {
    GFile g;
    size_t i = 0;
    int cur = 0;  // record type of the open element
    bool units = false, endlib = false;
    while (i + 4 <= b.size()) {
        size_t len = ((size_t)b[i] << 8) | b[i + 1];
        uint8_t rec = b[i + 2];
        if (len < 4 || i + len > b.size()) return g;
        const uint8_t* d = b.data() + i + 4;
        size_t n = len - 4;
        auto i32 = [&](size_t k) -> int32_t {
            return (int32_t)(((uint32_t)d[4 * k] << 24) | ((uint32_t)d[4 * k + 1] << 16) | ((uint32_t)d[4 * k + 2] << 8) | (uint32_t)d[4 * k + 3]);
        };
        switch (rec) {
            case 0x03:
                if (n != 16) return g;
                for (int k = 0; k < 8; k++) g.r0 = (g.r0 << 8) | d[k];
                for (int k = 8; k < 16; k++) g.r1 = (g.r1 << 8) | d[k];
                units = true;
                break;
            case 0x08: cur = 0x08; g.npoly++; break;
            case 0x09: cur = 0x09; g.npath++; break;
            case 0x0A: cur = 0x0A; g.nref++; break;
            case 0x0C: cur = 0x0C; g.nlab++; break;
            case 0x0F: if (cur == 0x09 && n == 4) g.w = i32(0); break;
            case 0x21: if (cur == 0x09 && n == 2) g.pathtype = (d[0] << 8) | d[1]; break;
            case 0x30: if (cur == 0x09 && n == 4) g.e0 = i32(0); break;
            case 0x31: if (cur == 0x09 && n == 4) g.e1 = i32(0); break;
            case 0x10:
                if (cur == 0x08) for (size_t k = 0; k < n / 4; k++) g.poly.push_back(i32(k));
                else if (cur == 0x09) for (size_t k = 0; k < n / 4; k++) g.sp.push_back(i32(k));
                else if (cur == 0x0A && n == 8) { g.ref[0] = i32(0); g.ref[1] = i32(1); }
                else if (cur == 0x0C && n == 8) { g.lab[0] = i32(0); g.lab[1] = i32(1); }
                break;
            case 0x11: cur = 0; break;
            case 0x04: endlib = true; break;
            default: break;
        }
        i += len;
        if (endlib) break;
    }
    g.ok = units && endlib;
    return g;
}

// integers of a parsed file in payload order (19 values); "" when the shape is not the expected one
static bool gfile_ints(const GFile& g, int32_t* k, bool need_path) {
    if (!g.ok || g.npoly != 1 || g.nlab != 1 || g.nref != 1 || g.poly.size() != 10) return false;
    for (int i = 0; i < 8; i++) k[IP + i] = g.poly[i];
    if (g.poly[8] != g.poly[0] || g.poly[9] != g.poly[1]) return false;
    k[IL] = g.lab[0]; k[IL + 1] = g.lab[1];
    k[IR] = g.ref[0]; k[IR + 1] = g.ref[1];
    if (g.npath == 1 && g.sp.size() == 4 && g.pathtype == 4) {
        k[IHW] = g.w; k[IE0] = g.e0; k[IE1] = g.e1;
        for (int i = 0; i < 4; i++) k[IS + i] = g.sp[i];
        return true;
    }
    if (need_path) return false;
    return g.npath == 0;
}

static void be16(std::vector<uint8_t>& b, uint16_t v) { b.push_back((uint8_t)(v >> 8)); b.push_back((uint8_t)v); }
static void rec_head(std::vector<uint8_t>& b, size_t datalen, uint8_t rec, uint8_t dtype) { be16(b, (uint16_t)(datalen + 4)); b.push_back(rec); b.push_back(dtype); }
static void rec_none(std::vector<uint8_t>& b, uint8_t rec) { rec_head(b, 0, rec, 0); }
static void rec_i16(std::vector<uint8_t>& b, uint8_t rec, const std::vector<int16_t>& v) {
    rec_head(b, 2 * v.size(), rec, 2);
    for (int16_t x : v) be16(b, (uint16_t)x);
}
static void rec_i32(std::vector<uint8_t>& b, uint8_t rec, const std::vector<int32_t>& v) {
    rec_head(b, 4 * v.size(), rec, 3);
    for (int32_t x : v) { uint32_t u = (uint32_t)x; b.push_back((uint8_t)(u >> 24)); b.push_back((uint8_t)(u >> 16)); b.push_back((uint8_t)(u >> 8)); b.push_back((uint8_t)u); }
}
static void rec_r64(std::vector<uint8_t>& b, uint8_t rec, const std::vector<uint64_t>& v) {
    rec_head(b, 8 * v.size(), rec, 5);
    for (uint64_t u : v) for (int i = 7; i >= 0; i--) b.push_back((uint8_t)(u >> (8 * i)));
}
static void rec_str(std::vector<uint8_t>& b, uint8_t rec, const char* s) {
    size_t n = strlen(s), padded = n + (n & 1);
    rec_head(b, padded, rec, 6);
    for (size_t i = 0; i < n; i++) b.push_back((uint8_t)s[i]);
    if (padded > n) b.push_back(0);
}
static std::vector<uint8_t> hand_gds(uint64_t r0, uint64_t r1, const int32_t* k) {
    std::vector<uint8_t> b;
    rec_i16(b, 0x00, {600});
    rec_i16(b, 0x01, std::vector<int16_t>(12, 1));
    rec_str(b, 0x02, "L");
    rec_r64(b, 0x03, {r0, r1});
    rec_i16(b, 0x05, std::vector<int16_t>(12, 1));
    rec_str(b, 0x06, "A");
    rec_none(b, 0x07);
    rec_i16(b, 0x05, std::vector<int16_t>(12, 1));
    rec_str(b, 0x06, "C");
    rec_none(b, 0x08);
    rec_i16(b, 0x0D, {1});
    rec_i16(b, 0x0E, {0});
    rec_i32(b, 0x10, {k[0], k[1], k[2], k[3], k[4], k[5], k[6], k[7], k[0], k[1]});
    rec_none(b, 0x11);
    rec_none(b, 0x09);
    rec_i16(b, 0x0D, {3});
    rec_i16(b, 0x0E, {0});
    rec_i16(b, 0x21, {4});
    rec_i32(b, 0x0F, {k[IHW]});
    rec_i32(b, 0x30, {k[IE0]});
    rec_i32(b, 0x31, {k[IE1]});
    rec_i32(b, 0x10, {k[IS], k[IS + 1], k[IS + 2], k[IS + 3]});
    rec_none(b, 0x11);
    rec_none(b, 0x0C);
    rec_i16(b, 0x0D, {2});
    rec_i16(b, 0x16, {0});
    rec_i32(b, 0x10, {k[IL], k[IL + 1]});
    rec_str(b, 0x19, "t");
    rec_none(b, 0x11);
    rec_none(b, 0x0A);
    rec_str(b, 0x12, "A");
    rec_i32(b, 0x10, {k[IR], k[IR + 1]});
    rec_none(b, 0x11);
    rec_none(b, 0x07);
    rec_none(b, 0x04);
    return b;
}

static tm fixed_time() {
    tm t;
    memset(&t, 0, sizeof t);
    t.tm_year = 100; t.tm_mon = 0; t.tm_mday = 1;
    return t;
}

static std::string ints_text(const int32_t* k, int from, int to) {
    std::string s;
    for (int i = from; i < to; i++) s += (s.empty() ? "" : " ") + hex_i64(k[i]);
    return s;
}

// loaded doubles of the fixed-shape library; false when the shape is different
static bool loaded_doubles(Library& lib, double* x, double& tol, bool& has_path, uint64_t& npoly) {
    Cell* c = NULL;
    for (uint64_t i = 0; i < lib.cell_array.count; i++) if (strcmp(lib.cell_array[i]->name, "C") == 0) c = lib.cell_array[i];
    if (!c || c->polygon_array.count != 1 || c->label_array.count != 1 || c->reference_array.count != 1 || c->flexpath_array.count != 1) return false;
    Polygon* p = c->polygon_array[0];
    npoly = p->point_array.count;
    if (npoly != 4) return false;
    for (int i = 0; i < 4; i++) { x[IP + 2 * i] = p->point_array[i].x; x[IP + 2 * i + 1] = p->point_array[i].y; }
    x[IL] = c->label_array[0]->origin.x; x[IL + 1] = c->label_array[0]->origin.y;
    x[IR] = c->reference_array[0]->origin.x; x[IR + 1] = c->reference_array[0]->origin.y;
    FlexPath* fp = c->flexpath_array[0];
    tol = fp->spine.tolerance;
    has_path = fp->spine.point_array.count == 2 && fp->num_elements == 1 && fp->elements[0].half_width_and_offset.count >= 1;
    if (!has_path) return false;
    x[IHW] = fp->elements[0].half_width_and_offset[0].u;
    x[IE0] = fp->elements[0].end_extensions.u; x[IE1] = fp->elements[0].end_extensions.v;
    x[IS] = fp->spine.point_array[0].x; x[IS + 1] = fp->spine.point_array[0].y;
    x[IS + 2] = fp->spine.point_array[1].x; x[IS + 3] = fp->spine.point_array[1].y;
    return true;
}

static std::string dbls_text(const double* x, int n) {
    std::string s;
    for (int i = 0; i < n; i++) s += (i ? " " : "") + hex_dbl(x[i]);
    return s;
}

static bool positive_pattern(uint64_t r) { return (r >> 63) == 0 && (r & 0x00FFFFFFFFFFFFFFULL) != 0; }

static std::string gw_payload(double unit, double precision, const double* v) {
    return hex_dbl(unit) + " " + hex_dbl(precision) + " " + dbls_text(v, NV);
}

// write side: returns the parsed file
static bool run_gw(Out& out, const std::string& payload, GFile* parsed, std::string* fname_out) {
    std::vector<std::string> w = split_words(payload);
    if (w.size() != 2 + NV) return false;
    double unit = hx(w[0]), precision = hx(w[1]), v[NV];
    for (int i = 0; i < NV; i++) v[i] = hx(w[2 + i]);
    std::string id = out.add("gw", payload);
    std::string fname = out.dir + "/gr_w1.gds";
    guard_begin(out, "gw", payload, "write_gds:crash", 60);
    Library lib;
    build_library(lib, unit, precision, v, 1e-200);
    tm t = fixed_time();
    ErrorCode err = lib.write_gds(fname.c_str(), 0, &t);
    lib.free_all();
    guard_end();
    GFile g = parse_gds(read_file(fname));
    int32_t k[NV];
    if (err != ErrorCode::NoError || !gfile_ints(g, k, true)) {
        out.I(id, "write-failed");
        return false;
    }
    out.I(id, "u " + hex_u64(g.r0) + " " + hex_u64(g.r1) + " k " + ints_text(k, 0, NV));
    // property level: each integer is a nearest integer of x * (unit / precision) up to the proven slack
    std::string fail;
    long double s = (long double)unit / (long double)precision;
    for (int i = 0; i < NV && fail.empty(); i++) {
        long double xv = (i == IHW ? 2 * (long double)v[i] : (long double)v[i]) * s;
        if (fabsl(xv) >= 2147483647.0L) continue;  // wraps: not judged here
        long double d = fabsl((long double)k[i] - xv);
        if (d > 0.5L + fabsl(xv) * 3.0L * ldexpl(1.0L, -53) + ldexpl(1.0L, -60))
            fail = "write_gds:not-grid-rounding value " + std::to_string(i) + " written as " + hex_i64(k[i]);
    }
    if (fail.empty())
        for (int a = 0; a < NV && fail.empty(); a++)
            for (int b = 0; b < NV; b++) {
                if (a == IHW || b == IHW) continue;
                long double xa = (long double)v[a] * s, xb = (long double)v[b] * s;
                if (fabsl(xa) >= 2147483647.0L || fabsl(xb) >= 2147483647.0L) continue;
                if (v[a] <= v[b] && k[a] > k[b]) fail = "write_gds:rounding-not-monotone values " + std::to_string(a) + " / " + std::to_string(b);
            }
    if (fail.empty()) {
        // what a load of the file reports: the precision exactly, the unit up to the two divisions precision / (precision / unit)
        ErrorCode rerr = ErrorCode::NoError;
        Library back = read_gds(fname.c_str(), 0, 0, NULL, &rerr);
        double bu = back.unit, bp = back.precision;
        back.free_all();
        if (rerr != ErrorCode::NoError) fail = "read_gds:grid-load the written file does not load";
        else if (dbl_bits(bp) != dbl_bits(precision)) fail = "read_gds:precision-changed the loaded precision " + hex_dbl(bp) + " is not the saved one";
        else if (dbl_bits(bu) != dbl_bits(unit)) {
            out.count("oracle:gds-unit-changed");
            if (fabs(bu - unit) > 2.5 * ldexp(1.0, -53) * unit) fail = "read_gds:unit-changed the loaded unit " + hex_dbl(bu) + " is not within 2 u of the saved one";
            else fail = "read_gds:unit-one-ulp the loaded unit " + hex_dbl(bu) + " differs from the saved unit " + hex_dbl(unit) + " (precision " + hex_dbl(precision) + ")";
        } else out.count("oracle:gds-unit-preserved");
    }
    out.P(id, fail.empty() ? "ok" : "FAIL " + fail);
    if (parsed) *parsed = g;
    if (fname_out) *fname_out = fname;
    return true;
}

static std::string gr_payload(uint64_t r0, uint64_t r1, const int32_t* k) { return hex_u64(r0) + " " + hex_u64(r1) + " " + ints_text(k, 0, NV); }

static void run_gr(Out& out, const std::string& payload, const char* existing_file) {
    std::vector<std::string> w = split_words(payload);
    if (w.size() != 2 + NV) return;
    uint64_t r0 = strtoull(w[0].c_str(), NULL, 16), r1 = strtoull(w[1].c_str(), NULL, 16);
    int32_t k[NV];
    for (int i = 0; i < NV; i++) k[i] = (int32_t)sx(w[2 + i]);
    std::string id = out.add("gr", payload);
    std::string f1 = out.dir + "/gr_r1.gds", f2 = out.dir + "/gr_r2.gds", f3 = out.dir + "/gr_r3.gds";
    if (existing_file) f1 = existing_file;
    else if (!write_file(f1, hand_gds(r0, r1, k))) { out.I(id, "cannot-write"); return; }
    guard_begin(out, "gr", payload, "read_gds:grid-crash", 60);
    ErrorCode err = ErrorCode::NoError;
    Library lib = read_gds(f1.c_str(), 0, 0, NULL, &err);
    double x[NV], tol = 0;
    bool has_path = false;
    uint64_t npoly = 0;
    bool ok = err == ErrorCode::NoError && loaded_doubles(lib, x, tol, has_path, npoly);
    if (!ok) {
        lib.free_all();
        guard_end();
        out.I(id, "load-failed");
        out.P(id, "FAIL read_gds:grid-load the file did not load with the expected shape");
        return;
    }
    double lunit = lib.unit, lprec = lib.precision;
    tm t = fixed_time();
    ErrorCode werr = lib.write_gds(f2.c_str(), 0, &t);
    lib.free_all();
    GFile g2 = parse_gds(read_file(f2));
    int32_t k2[NV];
    memset(k2, 0, sizeof k2);
    bool shape2 = gfile_ints(g2, k2, false);
    // third cycle
    ErrorCode err3 = ErrorCode::NoError;
    Library lib3 = read_gds(f2.c_str(), 0, 0, NULL, &err3);
    double unit3 = lib3.unit, prec3 = lib3.precision;
    lib3.write_gds(f3.c_str(), 0, &t);
    lib3.free_all();
    guard_end();
    (void)werr;
    GFile g3 = parse_gds(read_file(f3));
    int32_t k3[NV];
    memset(k3, 0, sizeof k3);
    bool shape3 = gfile_ints(g3, k3, false);
    std::string res = "L " + hex_dbl(lunit) + " " + hex_dbl(lprec) + " " + hex_dbl(tol) + " x " + dbls_text(x, NV);
    if (!shape2) res += " second-write-failed";
    else {
        res += " u2 " + hex_u64(g2.r0) + " " + hex_u64(g2.r1) + " k2 " + ints_text(k2, 0, IHW);
        res += g2.npath == 1 ? " " + ints_text(k2, IHW, NV) : " nopath";
    }
    out.I(id, res);
    // ---- oracles: file 2 against file 1, file 3 against file 2
    std::string fail;
    bool pre = positive_pattern(r0) && positive_pattern(r1);
    auto compare = [&](const int32_t* ka, bool shape_b, const GFile& gb, const int32_t* kb, const char* which) {
        if (!fail.empty()) return;
        if (!shape_b) { fail = std::string("write_gds:") + which + "-cycle the file does not have the shape of the previous one"; return; }
        for (int i = 0; i < IHW && fail.empty(); i++)
            if (kb[i] != ka[i]) fail = std::string("write_gds:") + which + "-cycle-integer value " + std::to_string(i) + ": " + hex_i64(ka[i]) + " became " + hex_i64(kb[i]);
        if (!fail.empty()) return;
        if (gb.npath == 1) {
            for (int i = IHW; i < NV && fail.empty(); i++) {
                if (i == IHW && ka[i] == (int32_t)0x80000000) continue;  // -INT32_MIN: excluded
                if (kb[i] != ka[i]) fail = std::string("write_gds:") + which + "-cycle-integer value " + std::to_string(i) + ": " + hex_i64(ka[i]) + " became " + hex_i64(kb[i]);
            }
            return;
        }
        int64_t dx = (int64_t)ka[IS + 2] - ka[IS], dy = (int64_t)ka[IS + 3] - ka[IS + 1];
        if (dx < 0) dx = -dx;
        if (dy < 0) dy = -dy;
        if (dx + dy == 1) {
            out.count("oracle:gds-unit-step-merged");
            fail = "FlexPath::remove_overlapping_points:grid-step-segment a path segment one grid step long (" + hex_i64(ka[IS]) + "," + hex_i64(ka[IS + 1]) +
                   ")-(" + hex_i64(ka[IS + 2]) + "," + hex_i64(ka[IS + 3]) + ") is gone after a load / save cycle (" + which + " file)";
        } else if (dx + dy != 0)
            fail = std::string("write_gds:") + which + "-cycle-path-lost the path is gone although its points are " + std::to_string((long long)(dx + dy)) + " grid steps apart";
    };
    if (pre) {
        out.count("oracle:gds-stability-judged");
        compare(k, shape2, g2, k2, "second");
        if (fail.empty() && g2.npath == 1) {
            compare(k2, shape3, g3, k3, "third");
            // the library of the second load is the library of the first load: unit, precision, UNITS record
            // (outside 16^-65 .. 16^63 the exponent byte of gdsii_real_from_double(precision / unit) is undefined: not judged)
            bool ratio_ok = lprec / lunit > 1e-70 && lprec / lunit < 1e70 && lprec > 1e-70 && lprec < 1e70;
            if (fail.empty() && ratio_ok && (dbl_bits(unit3) != dbl_bits(lunit) || dbl_bits(prec3) != dbl_bits(lprec)))
                fail = "write_gds:second-cycle-unit unit / precision " + hex_dbl(lunit) + " / " + hex_dbl(lprec) + " became " + hex_dbl(unit3) + " / " + hex_dbl(prec3);
            if (fail.empty() && ratio_ok && (g3.r0 != g2.r0 || g3.r1 != g2.r1)) fail = "write_gds:third-cycle-units the UNITS record changed between the second and the third file";
            if (fail.empty() && ratio_ok && g3.npath == 1 && read_file(f2) != read_file(f3)) fail = "write_gds:third-cycle the third file differs from the second";
        }
        // strictly monotone load
        for (int a = 0; a < NV && fail.empty(); a++)
            for (int b = 0; b < NV; b++) {
                if (a == IHW || b == IHW) continue;
                if (k[a] < k[b] && !(x[a] < x[b])) fail = "read_gds:coordinates-not-monotone " + hex_i64(k[a]) + " < " + hex_i64(k[b]);
            }
    }
    out.P(id, fail.empty() ? "ok" : "FAIL " + fail);
}

// ================================================================ OASIS
struct OList {
    uint64_t type = 0;
    std::vector<int64_t> d;  // type 0 / 1: one value per delta; otherwise dx dy pairs
};
struct OFile {
    bool ok = false;
    uint64_t real_bits = 0;
    int npoly = 0, nlab = 0, nref = 0, npath = 0;
    int64_t pk0[2] = {0, 0}, lab[2] = {0, 0}, ref[2] = {0, 0}, sk0[2] = {0, 0};
    OList pl, sl;
    uint64_t hw = 0;
    char es0 = 'f', es1 = 'f';  // f flush, h half width, x explicit
    int64_t e0 = 0, e1 = 0;
};

static bool read_plist(oscan::Cur& c, OList& l) {
    l.type = c.uint();
    uint64_t n = c.uint();
    if (c.bad || n > 100000) return false;
    static const int dx3[8] = {1, 0, -1, 0, 1, -1, -1, 1}, dy3[8] = {0, 1, 0, -1, 1, 1, -1, -1};
    for (uint64_t i = 0; i < n && !c.bad; i++) {
        if (l.type <= 1) l.d.push_back(c.sint());
        else if (l.type == 2) { uint64_t v = c.uint(); int64_t m = (int64_t)(v >> 2); l.d.push_back(dx3[v & 3] * m); l.d.push_back(dy3[v & 3] * m); }
        else if (l.type == 3) { uint64_t v = c.uint(); int64_t m = (int64_t)(v >> 3); l.d.push_back(dx3[v & 7] * m); l.d.push_back(dy3[v & 7] * m); }
        else if (l.type == 4) {
            uint64_t v = c.uint();
            if (v & 1) { int64_t m = (int64_t)(v >> 2); l.d.push_back((v & 2) ? -m : m); l.d.push_back(c.sint()); }
            else { int64_t m = (int64_t)(v >> 4); unsigned dir = (unsigned)((v >> 1) & 7); l.d.push_back(dx3[dir] * m); l.d.push_back(dy3[dir] * m); }
        } else return false;
    }
    return !c.bad;
}

static OFile parse_oas(const std::vector<uint8_t>& f) {
    OFile o;
    oscan::Scan sc = oscan::scan_file(f);
    if (!sc.ok) return o;
    o.real_bits = dbl_bits(sc.unit_real);
    for (auto& r : sc.records) {
        oscan::Cur c(sc.spliced.data(), sc.spliced.size());
        c.i = r.offset;
        unsigned id = (unsigned)c.uint();
        if (id == 21) {
            uint8_t info = c.byte();
            if (info & 0x01) c.uint();
            if (info & 0x02) c.uint();
            if (!(info & 0x20) || !read_plist(c, o.pl)) return o;
            if (!(info & 0x10) || !(info & 0x08)) return o;
            o.pk0[0] = c.sint(); o.pk0[1] = c.sint();
            o.npoly++;
        } else if (id == 22) {
            uint8_t info = c.byte();
            if (info & 0x01) c.uint();
            if (info & 0x02) c.uint();
            if (!(info & 0x40)) return o;
            o.hw = c.uint();
            if (info & 0x80) {
                uint8_t es = c.byte();
                switch (es & 0x0c) { case 0x04: o.es0 = 'f'; break; case 0x08: o.es0 = 'h'; break; case 0x0c: o.es0 = 'x'; o.e0 = c.sint(); break; default: return o; }
                switch (es & 0x03) { case 0x01: o.es1 = 'f'; break; case 0x02: o.es1 = 'h'; break; case 0x03: o.es1 = 'x'; o.e1 = c.sint(); break; default: return o; }
            } else return o;
            if (!(info & 0x20) || !read_plist(c, o.sl)) return o;
            if (!(info & 0x10) || !(info & 0x08)) return o;
            o.sk0[0] = c.sint(); o.sk0[1] = c.sint();
            o.npath++;
        } else if (id == 19) {
            uint8_t info = c.byte();
            if (info & 0x40) { if (info & 0x20) c.uint(); else c.str(); }
            if (info & 0x01) c.uint();
            if (info & 0x02) c.uint();
            if (!(info & 0x10) || !(info & 0x08)) return o;
            o.lab[0] = c.sint(); o.lab[1] = c.sint();
            o.nlab++;
        } else if (id == 17 || id == 18) {
            uint8_t info = c.byte();
            if (info & 0x80) { if (info & 0x40) c.uint(); else c.str(); }
            if (id == 18) { if (info & 0x04) c.real(); if (info & 0x02) c.real(); }
            if (!(info & 0x20) || !(info & 0x10)) return o;
            o.ref[0] = c.sint(); o.ref[1] = c.sint();
            o.nref++;
        }
        if (c.bad) return o;
    }
    o.ok = true;
    return o;
}

// absolute vertices a point list denotes (as read_oas builds them, on the integers)
static std::vector<int64_t> abs_points(const int64_t* k0, const OList& l, bool closed) {
    std::vector<int64_t> r;
    int64_t x = 0, y = 0;
    r.push_back(k0[0]); r.push_back(k0[1]);
    if (l.type <= 1) {
        bool horizontal = l.type == 0;
        for (int64_t d : l.d) {
            if (horizontal) x = (int64_t)((uint64_t)x + (uint64_t)d); else y = (int64_t)((uint64_t)y + (uint64_t)d);
            horizontal = !horizontal;
            r.push_back((int64_t)((uint64_t)x + (uint64_t)k0[0])); r.push_back((int64_t)((uint64_t)y + (uint64_t)k0[1]));
        }
        if (closed) {
            if (horizontal) x = 0; else y = 0;
            r.push_back((int64_t)((uint64_t)x + (uint64_t)k0[0])); r.push_back((int64_t)((uint64_t)y + (uint64_t)k0[1]));
        }
    } else {
        for (size_t i = 0; i + 1 < l.d.size(); i += 2) {
            x = (int64_t)((uint64_t)x + (uint64_t)l.d[i]); y = (int64_t)((uint64_t)y + (uint64_t)l.d[i + 1]);
            r.push_back((int64_t)((uint64_t)x + (uint64_t)k0[0])); r.push_back((int64_t)((uint64_t)y + (uint64_t)k0[1]));
        }
    }
    return r;
}

static std::string i64s_text(const std::vector<int64_t>& v) {
    std::string s;
    for (size_t i = 0; i < v.size(); i++) s += (i ? " " : "") + hex_i64(v[i]);
    return s;
}
static std::string plist_text(const int64_t* k0, const OList& l) {
    std::string s = hex_i64(k0[0]) + " " + hex_i64(k0[1]) + " " + hex_u64(l.type) + " " + hex_u64(l.d.size());
    for (int64_t d : l.d) s += " " + hex_i64(d);
    return s;
}
static std::string ext_text(char sch, int64_t e) { return sch == 'x' ? hex_i64(e) : sch == 'f' ? std::string("fl") : std::string("hw"); }
static int64_t ext_resolved(char sch, int64_t e, uint64_t hw) { return sch == 'f' ? 0 : sch == 'h' ? (int64_t)hw : e; }

static std::string ofile_fields(const OFile& o) {
    return hex_u64(o.real_bits) + " P " + plist_text(o.pk0, o.pl) + " L " + hex_i64(o.lab[0]) + " " + hex_i64(o.lab[1]) + " R " + hex_i64(o.ref[0]) + " " + hex_i64(o.ref[1]) +
           " H " + hex_u64(o.hw) + " " + ext_text(o.es0, o.e0) + " " + ext_text(o.es1, o.e1) + " " + plist_text(o.sk0, o.sl);
}
static bool ofile_shape(const OFile& o, bool need_path) {
    if (!o.ok || o.npoly != 1 || o.nlab != 1 || o.nref != 1) return false;
    return need_path ? o.npath == 1 : o.npath <= 1;
}
// resolved integers of a parsed file: polygon vertices, label, reference, [hw e0 e1 spine]
static std::string ofile_ints(const OFile& o) {
    std::string s = "n " + std::to_string(abs_points(o.pk0, o.pl, true).size() / 2) + " " + i64s_text(abs_points(o.pk0, o.pl, true)) + " " + hex_i64(o.lab[0]) + " " + hex_i64(o.lab[1]) +
                    " " + hex_i64(o.ref[0]) + " " + hex_i64(o.ref[1]);
    if (o.npath == 1)
        s += " " + hex_u64(o.hw) + " " + hex_i64(ext_resolved(o.es0, o.e0, o.hw)) + " " + hex_i64(ext_resolved(o.es1, o.e1, o.hw)) + " n " +
             std::to_string(abs_points(o.sk0, o.sl, false).size() / 2) + " " + i64s_text(abs_points(o.sk0, o.sl, false));
    else
        s += " nopath";
    return s;
}

static bool run_ow(Out& out, const std::string& payload, std::vector<uint8_t>* file_out) {
    std::vector<std::string> w = split_words(payload);
    if (w.size() != 2 + NV) return false;
    double unit = hx(w[0]), precision = hx(w[1]), v[NV];
    for (int i = 0; i < NV; i++) v[i] = hx(w[2 + i]);
    std::string id = out.add("ow", payload);
    std::string fname = out.dir + "/gr_w1.oas";
    guard_begin(out, "ow", payload, "write_oas:crash", 60);
    Library lib;
    build_library(lib, unit, precision, v, 1e-200);
    ErrorCode err = lib.write_oas(fname.c_str(), 0, 0, 0);
    lib.free_all();
    guard_end();
    std::vector<uint8_t> bytes = read_file(fname);
    OFile o = parse_oas(bytes);
    if (err != ErrorCode::NoError || !ofile_shape(o, true)) {
        out.I(id, "write-failed");
        return false;
    }
    out.I(id, "real " + hex_u64(o.real_bits) + " k " + ofile_ints(o));
    std::string fail;
    long double s = (long double)unit / (long double)precision;
    std::vector<int64_t> pv = abs_points(o.pk0, o.pl, true), sv = abs_points(o.sk0, o.sl, false);
    auto judge = [&](double xd, int64_t kk, const char* what) {
        long double xv = (long double)xd * s;
        if (fabsl(xv) >= 4.0e18L || !fail.empty()) return;
        long double d = fabsl((long double)kk - xv);
        if (d > 0.5L + fabsl(xv) * 3.0L * ldexpl(1.0L, -53) + fabsl(xv) * ldexpl(1.0L, -62) + ldexpl(1.0L, -60))
            fail = std::string("write_oas:not-grid-rounding ") + what + " written as " + hex_i64(kk);
    };
    if (pv.size() == 8) for (int i = 0; i < 8; i++) judge(v[IP + i], pv[i], "polygon vertex");
    judge(v[IL], o.lab[0], "label x"); judge(v[IL + 1], o.lab[1], "label y");
    judge(v[IR], o.ref[0], "reference x"); judge(v[IR + 1], o.ref[1], "reference y");
    judge(v[IHW], (int64_t)o.hw, "half width");
    if (sv.size() == 4) for (int i = 0; i < 4; i++) judge(v[IS + i], sv[i], "spine point");
    out.P(id, fail.empty() ? "ok" : "FAIL " + fail);
    if (file_out) *file_out = bytes;
    return true;
}

static void run_or(Out& out, const std::string& payload) {
    // payload: <file hex> | <fields>
    size_t bar = payload.find(" | ");
    if (bar == std::string::npos) return;
    std::vector<uint8_t> bytes = unhex(payload.substr(0, bar));
    std::string fields = payload.substr(bar + 3);
    OFile o = parse_oas(bytes);
    if (!ofile_shape(o, true) || ofile_fields(o) != fields) return;  // not a case of this harness
    std::string id = out.add("or", payload);
    std::string f1 = out.dir + "/gr_r1.oas", f2 = out.dir + "/gr_r2.oas", f3 = out.dir + "/gr_r3.oas";
    if (!write_file(f1, bytes)) { out.I(id, "cannot-write"); return; }
    guard_begin(out, "or", payload, "read_oas:grid-crash", 60);
    ErrorCode err = ErrorCode::NoError;
    Library lib = read_oas(f1.c_str(), 0, 0, &err);
    Cell* c = NULL;
    for (uint64_t i = 0; i < lib.cell_array.count; i++) if (strcmp(lib.cell_array[i]->name, "C") == 0) c = lib.cell_array[i];
    bool ok = err == ErrorCode::NoError && c && c->polygon_array.count == 1 && c->label_array.count == 1 && c->reference_array.count == 1 && c->flexpath_array.count == 1;
    if (!ok) {
        lib.free_all();
        guard_end();
        out.I(id, "load-failed");
        out.P(id, "FAIL read_oas:grid-load the file did not load with the expected shape");
        return;
    }
    std::string res = "L " + hex_dbl(lib.unit) + " " + hex_dbl(lib.precision);
    FlexPath* fp = c->flexpath_array[0];
    res += " " + hex_dbl(fp->spine.tolerance) + " x n " + std::to_string((unsigned long long)c->polygon_array[0]->point_array.count);
    std::vector<double> px;
    for (uint64_t i = 0; i < c->polygon_array[0]->point_array.count; i++) {
        Vec2 q = c->polygon_array[0]->point_array[i];
        res += " " + hex_dbl(q.x) + " " + hex_dbl(q.y);
        px.push_back(q.x); px.push_back(q.y);
    }
    res += " " + hex_dbl(c->label_array[0]->origin.x) + " " + hex_dbl(c->label_array[0]->origin.y);
    res += " " + hex_dbl(c->reference_array[0]->origin.x) + " " + hex_dbl(c->reference_array[0]->origin.y);
    FlexPathElement* el = fp->elements;
    res += " " + hex_dbl(el->half_width_and_offset[0].u) + " et " + std::to_string((int)el->end_type) + " " + hex_dbl(el->end_extensions.u) + " " + hex_dbl(el->end_extensions.v);
    res += " n " + std::to_string((unsigned long long)fp->spine.point_array.count);
    for (uint64_t i = 0; i < fp->spine.point_array.count; i++) res += " " + hex_dbl(fp->spine.point_array[i].x) + " " + hex_dbl(fp->spine.point_array[i].y);
    lib.write_oas(f2.c_str(), 0, 0, 0);
    lib.free_all();
    std::vector<uint8_t> b2 = read_file(f2);
    OFile o2 = parse_oas(b2);
    ErrorCode err3 = ErrorCode::NoError;
    Library lib3 = read_oas(f2.c_str(), 0, 0, &err3);
    lib3.write_oas(f3.c_str(), 0, 0, 0);
    lib3.free_all();
    guard_end();
    bool shape2 = ofile_shape(o2, false);
    if (!shape2) res += " second-write-failed";
    else res += " real2 " + hex_u64(o2.real_bits) + " k2 " + ofile_ints(o2);
    out.I(id, res);
    // ---- oracles
    std::string fail;
    double real = bits_dbl(o.real_bits);
    bool pre = std::isfinite(real) && real > 0;
    std::vector<int64_t> all = abs_points(o.pk0, o.pl, true), sp = abs_points(o.sk0, o.sl, false);
    int64_t big = 0;
    auto mag = [&](int64_t z) { int64_t a = z < 0 ? (z == INT64_MIN ? INT64_MAX : -z) : z; if (a > big) big = a; };
    for (int64_t z : all) mag(z);
    for (int64_t z : sp) mag(z);
    mag(o.lab[0]); mag(o.lab[1]); mag(o.ref[0]); mag(o.ref[1]); mag((int64_t)o.hw); mag(o.e0); mag(o.e1);
    OFile o3 = parse_oas(read_file(f3));
    bool shape3 = ofile_shape(o3, false);
    auto compare = [&](const OFile& fa, bool shape_b, const OFile& fb, const char* which) {
        if (!fail.empty()) return;
        if (!shape_b) { fail = std::string("write_oas:") + which + "-cycle the file does not have the shape of the previous one"; return; }
        OFile a = fa;
        if (fb.npath == 0 && fa.npath == 1) {
            std::vector<int64_t> s = abs_points(fa.sk0, fa.sl, false);
            int64_t dx = s.size() == 4 ? s[2] - s[0] : 0, dy = s.size() == 4 ? s[3] - s[1] : 0;
            if (dx < 0) dx = -dx;
            if (dy < 0) dy = -dy;
            if (dx + dy == 1) {
                out.count("oracle:oas-unit-step-merged");
                fail = "FlexPath::remove_overlapping_points:grid-step-segment a path segment one grid step long (" + i64s_text(s) + ") is gone after a load / save cycle (" + which + " file)";
            } else if (dx + dy != 0)
                fail = std::string("write_oas:") + which + "-cycle-path-lost the path is gone although its points are " + std::to_string((long long)(dx + dy)) + " grid steps apart";
            a.npath = 0;
        }
        if (fail.empty() && ofile_ints(a) != ofile_ints(fb)) fail = std::string("write_oas:") + which + "-cycle-integer the file holds " + ofile_ints(fb) + " instead of " + ofile_ints(a);
    };
    if (pre && big < ((int64_t)1 << 48)) {
        out.count("oracle:oas-stability-judged");
        compare(o, shape2, o2, "second");
        if (fail.empty() && o2.npath == 1) {
            // the precision may move by one unit in the last place in the first cycle (1e-6 * (1 / (1e-6 / precision))): counted, not judged
            if (o2.real_bits != o.real_bits) out.count("oracle:oas-start-real-changed-in-first-cycle");
            compare(o2, shape3, o3, "third");
            if (fail.empty() && o3.real_bits != o2.real_bits) fail = "read_oas:precision-drift the START real (1e-6 / library.precision) still changes between the second and the third file: from " + hex_u64(o2.real_bits) + " to " + hex_u64(o3.real_bits);
            if (fail.empty() && o3.npath == 1 && b2 != read_file(f3)) fail = "write_oas:third-cycle the third file differs from the second";
        }
    }
    out.P(id, fail.empty() ? "ok" : "FAIL " + fail);
}

// ================================================================ generators
static double nudge(double x, int ulps) {
    for (int i = 0; i < (ulps < 0 ? -ulps : ulps); i++) x = nextafter(x, ulps < 0 ? -INFINITY : INFINITY);
    return x;
}

static void gen_units(Rng& g, Out& out, double& unit, double& precision) {
    static const double us[] = {1e-3, 1e-6, 1e-9, 1.0, 1e-2, 1e-4, 1e-5, 2e-6, 5e-7, 2.5e-6, 1e-7, 1e-8, 2.54e-5, 1e-1};
    static const double ps[] = {1e-9, 1e-12, 1e-10, 1e-8, 1e-11, 5e-10, 2e-9, 1e-6, 1e-7, 2.5e-10, 1e-15, 1e-3};
    switch (g.below(10)) {
        case 0: case 1: case 2: {
            static const double du[] = {1e-6, 1e-6, 1e-3, 1e-6, 1.0, 1e-9}, dp[] = {1e-9, 1e-12, 1e-9, 1e-10, 1e-9, 1e-12};
            int i = (int)g.below(6);
            unit = du[i]; precision = dp[i];
            out.count("gen:units:usual");
        } break;
        case 3: case 4:
            do { unit = us[g.below(14)]; precision = ps[g.below(12)]; } while (precision > unit);
            out.count("gen:units:decimal");
            break;
        case 5: case 6: {
            int a = (int)g.range(0, 40);
            unit = ldexp(1.0, -a);
            precision = ldexp(1.0, -a - (int)g.range(0, 30));
            out.count("gen:units:powers-of-two");
        } break;
        case 7: {  // unit / precision = 1: user units are database units
            unit = precision = g.coin() ? 1e-9 : ldexp(1.0 + (double)g.below(1000) / 1024, -(int)g.range(10, 40));
            out.count("gen:units:ratio-one");
        } break;
        default: {  // awkward ratios
            unit = ldexp(1.0 + (double)(g.next() >> 12) * ldexp(1.0, -52), -(int)g.range(0, 40));
            double ratio = 1.0 + (double)(g.next() >> 12) * ldexp(1.0, -52);
            ratio = ldexp(ratio, (int)g.range(0, 24));
            precision = unit / ratio;
            out.count("gen:units:awkward");
        }
    }
}

// a double whose scaled value is near the grid point / half-way point k (+ 1/2)
static double gen_coord(Rng& g, Out& out, double scaling, int64_t k) {
    switch (g.below(8)) {
        case 0: case 1: out.count("gen:x:on-grid"); return (double)k / scaling;
        case 2: case 3: case 4: {
            out.count("gen:x:half-way");
            return nudge(((double)k + 0.5) / scaling, (int)g.range(-3, 3));
        }
        case 5: out.count("gen:x:quarter"); return ((double)k + 0.25 * (double)g.range(-1, 1)) / scaling;
        case 6: out.count("gen:x:near-grid"); return nudge((double)k / scaling, (int)g.range(-2, 2));
        default: out.count("gen:x:random"); return ((double)k + (double)(g.next() >> 11) * ldexp(1.0, -53) - 0.5) / scaling;
    }
}

static int64_t gen_k(Rng& g, Out& out, bool oasis) {
    switch (g.below(10)) {
        case 0: case 1: out.count("gen:k:small"); return g.range(-1000, 1000);
        case 2: case 3: case 4: out.count("gen:k:medium"); return g.range(-(1 << 22), 1 << 22);
        case 5: case 6: out.count("gen:k:large"); return g.range(-2147483000LL, 2147483000LL);
        case 7: {
            out.count("gen:k:int32-extreme");
            static const int64_t ex[] = {2147483647LL, -2147483648LL, 2147483646LL, -2147483647LL, 0, 1, -1};
            return ex[g.below(7)];
        }
        case 8:
            if (oasis) { out.count("gen:k:40-bit"); return g.range(-((int64_t)1 << 40), (int64_t)1 << 40); }
            out.count("gen:k:medium"); return g.range(-(1 << 22), 1 << 22);
        default:
            if (oasis && g.chance(50)) {
                out.count("gen:k:beyond-2^50");
                int sh = (int)g.range(50, 61);
                int64_t m = (int64_t)(g.next() >> (64 - sh));
                return g.coin() ? m : -m;
            }
            out.count("gen:k:small"); return g.range(-100, 100);
    }
}

static void gen_source(Rng& g, Out& out, bool oasis, double& unit, double& precision, double* v) {
    gen_units(g, out, unit, precision);
    double scaling = unit / precision;
    bool wrap = !oasis && g.chance(3);  // a few values beyond int32: the conversion wraps
    int64_t base[2] = {gen_k(g, out, oasis), gen_k(g, out, oasis)};
    bool manhattan = g.chance(35);
    int64_t pk[8];
    if (manhattan) {
        int64_t w = g.range(1, 5000), h = g.range(1, 5000);
        int64_t q[8] = {0, 0, w, 0, w, h, 0, h};
        for (int i = 0; i < 8; i++) pk[i] = base[i & 1] / 2 + q[i];
        out.count("gen:polygon:rectangle");
    } else {
        for (int i = 0; i < 8; i++) pk[i] = g.chance(60) ? base[i & 1] / 2 + g.range(-5000, 5000) : gen_k(g, out, oasis) / 2;
        out.count("gen:polygon:general");
    }
    for (int i = 0; i < 8; i++) v[IP + i] = gen_coord(g, out, scaling, pk[i]);
    for (int i = 0; i < 2; i++) v[IL + i] = gen_coord(g, out, scaling, gen_k(g, out, oasis));
    for (int i = 0; i < 2; i++) v[IR + i] = gen_coord(g, out, scaling, gen_k(g, out, oasis));
    int64_t hwk = g.range(0, 4000);
    if (g.chance(10)) hwk = g.range(0, 1 << 29);
    switch (g.below(4)) {
        case 0: v[IHW] = (double)hwk / scaling; break;
        case 1: v[IHW] = nudge(((double)hwk + 0.5) / scaling, (int)g.range(-2, 2)); break;      // half width at a half-way point
        case 2: v[IHW] = nudge(((double)hwk + 0.25) / scaling, (int)g.range(-2, 2)); break;     // FULL width at a half-way point
        default: v[IHW] = ((double)hwk + 0.75) / scaling;
    }
    for (int i = 0; i < 2; i++) {
        int64_t e = g.chance(20) ? 0 : g.chance(20) ? hwk : g.range(-3000, 3000);
        v[IE0 + i] = g.coin() ? (double)e / scaling : gen_coord(g, out, scaling, e);
    }
    int64_t s0[2] = {gen_k(g, out, oasis) / 2, gen_k(g, out, oasis) / 2}, s1[2];
    int mode = (int)g.below(10);
    if (mode < 4) {  // one grid step along an axis
        int ax = (int)g.below(2);
        s1[ax] = s0[ax] + (g.coin() ? 1 : -1);
        s1[1 - ax] = s0[1 - ax];
        out.count("gen:path:unit-step");
    } else if (mode < 6) {
        s1[0] = s0[0] + g.range(-2, 2); s1[1] = s0[1] + g.range(-2, 2);
        if (s1[0] == s0[0] && s1[1] == s0[1]) s1[0] += 2;
        out.count("gen:path:short");
    } else {
        s1[0] = s0[0] + g.range(-100000, 100000); s1[1] = s0[1] + g.range(-100000, 100000);
        if (s1[0] == s0[0] && s1[1] == s0[1]) s1[0] += 7;
        out.count("gen:path:long");
    }
    bool exact_spine = g.chance(70);
    for (int i = 0; i < 2; i++) {
        v[IS + i] = exact_spine ? (double)s0[i] / scaling : gen_coord(g, out, scaling, s0[i]);
        v[IS + 2 + i] = exact_spine ? (double)s1[i] / scaling : gen_coord(g, out, scaling, s1[i]);
    }
    if (wrap) {
        v[IL] = ((double)g.range(2147483648LL, 1LL << 40) + 0.25) / scaling;
        v[IP + 3] = -((double)g.range(2147483649LL, 1LL << 36)) / scaling;
        out.count("gen:x:beyond-int32");
    }
}

static uint64_t gen_real_pattern(Rng& g, Out& out, bool meters) {
    switch (g.below(6)) {
        case 0: out.count("gen:real:usual"); return gdsii_real_from_double(meters ? 1e-9 : 1e-3);
        case 1: {
            out.count("gen:real:power-of-two");
            uint64_t e7 = meters ? (uint64_t)g.range(50, 62) : (uint64_t)g.range(58, 66);
            return (e7 << 56) | ((uint64_t)1 << g.below(56));
        }
        case 2: {
            out.count("gen:real:56-bit-mantissa");
            uint64_t m = ((uint64_t)1 << 55) | (g.next() & (((uint64_t)1 << 55) - 1));
            return ((uint64_t)g.range(52, 68) << 56) | m;
        }
        case 3: {
            out.count("gen:real:unnormalised");
            uint64_t m = (g.next() & 0x00FFFFFFFFFFFFFFULL) >> (4 * (1 + g.below(10)));
            if (m == 0) m = 1;
            return ((uint64_t)g.range(56, 72) << 56) | m;
        }
        case 4: {
            out.count("gen:real:any-exponent");
            uint64_t m = g.next() & 0x00FFFFFFFFFFFFFFULL;
            if (m == 0) m = 1;
            return (g.below(128) << 56) | m;
        }
        default: {
            out.count("gen:real:awkward");
            uint64_t m = ((uint64_t)(1 + g.below(15)) << 52) | (g.next() & (((uint64_t)1 << 52) - 1));
            uint64_t e7 = meters ? (uint64_t)g.range(54, 60) : (uint64_t)g.range(60, 65);
            return (e7 << 56) | m;
        }
    }
}

static void gen_hand_gr(Rng& g, Out& out, uint64_t& r0, uint64_t& r1, int32_t* k) {
    r0 = gen_real_pattern(g, out, false);
    r1 = gen_real_pattern(g, out, true);
    for (int i = 0; i < NV; i++) k[i] = (int32_t)gen_k(g, out, false);
    k[IHW] = (int32_t)g.range(-4000, 1 << 20);
    if (g.chance(10)) k[IHW] = g.coin() ? 2147483647 : -2147483647;
    if (g.chance(50)) {  // one grid step
        int ax = (int)g.below(2);
        int64_t t = (int64_t)k[IS + ax] + (g.coin() ? 1 : -1);
        if (t > 2147483647LL) t = 2147483646LL;
        if (t < -2147483648LL) t = -2147483647LL;
        k[IS + 2 + ax] = (int32_t)t;
        k[IS + 3 - ax] = k[IS + 1 - ax];
    }
}

static void run_chain(Rng& g, Out& out, bool oasis) {
    double unit, precision, v[NV];
    gen_source(g, out, oasis, unit, precision, v);
    std::string payload = gw_payload(unit, precision, v);
    if (!oasis) {
        GFile gf;
        std::string fname;
        if (!run_gw(out, payload, &gf, &fname)) return;
        int32_t k[NV];
        if (!gfile_ints(gf, k, true)) return;
        run_gr(out, gr_payload(gf.r0, gf.r1, k), fname.c_str());
    } else {
        std::vector<uint8_t> bytes;
        if (!run_ow(out, payload, &bytes)) return;
        OFile o = parse_oas(bytes);
        run_or(out, hex_bytes(bytes.data(), bytes.size()) + " | " + ofile_fields(o));
    }
}

static void run_case(Out& out, const std::string& kind, const std::string& payload) {
    if (kind == "gw") run_gw(out, payload, NULL, NULL);
    else if (kind == "gr") run_gr(out, payload, NULL);
    else if (kind == "ow") run_ow(out, payload, NULL);
    else if (kind == "or") run_or(out, payload);
}

// fixed cases run before the random ones: the witnesses of the theorems' refuted clauses and of the recorded findings
static void pinned(Out& out, bool gds, bool oas) {
    double v[NV];
    // (a) the slack witness: unit 1e-6, precision 1e-9, x = 0x3F76872B020C49BB: x * unit / precision < 5.5, 6 is written
    {
        double x = bits_dbl(0x3F76872B020C49BBULL);
        double q[NV] = {x, 0, 1, 0, 1, 1, 0, 1, x, x, x, x, x, x, x, 0, 0, 1, 0};
        if (gds) {
            GFile gf; std::string fname;
            if (run_gw(out, gw_payload(1e-6, 1e-9, q), &gf, &fname)) { int32_t k[NV]; if (gfile_ints(gf, k, true)) run_gr(out, gr_payload(gf.r0, gf.r1, k), fname.c_str()); }
        }
        if (oas) {
            std::vector<uint8_t> bytes;
            if (run_ow(out, gw_payload(1e-6, 1e-9, q), &bytes)) run_or(out, hex_bytes(bytes.data(), bytes.size()) + " | " + ofile_fields(parse_oas(bytes)));
        }
    }
    // (b) unit 1e-4 / precision 1e-12 and 0.1 / 1e-10: the loaded unit is one ulp off (GDSII); precision 1.1e-8: drift (OASIS)
    // (c) spine 9 -> 10 and 2048 -> 2049 grid steps with 1e-6 / 1e-9: merged by the save after the load
    static const double us[] = {1e-4, 0.1, 1e-6, 1e-6, 1e-6}, ps[] = {1e-12, 1e-10, 1.1e-8, 1e-9, 1e-9};
    static const int64_t s0[] = {100, 100, 100, 9, 2048};
    for (int i = 0; i < 5; i++) {
        double sc = us[i] / ps[i];
        for (int j = 0; j < NV; j++) v[j] = (double)(10 * j + 3) / sc;
        v[IP + 0] = 0; v[IP + 1] = 0; v[IP + 2] = 50 / sc; v[IP + 3] = 0; v[IP + 4] = 50 / sc; v[IP + 5] = 70 / sc; v[IP + 6] = 0; v[IP + 7] = 70 / sc;
        v[IS] = (double)s0[i] / sc; v[IS + 1] = 0; v[IS + 2] = (double)(s0[i] + (i >= 3 ? 1 : 100)) / sc; v[IS + 3] = 0;
        if (i == 4) v[IL] = 4503599627370474.0 / sc;  // OASIS: an integer near 2^52 does not come back (GDSII: beyond int32, wraps)
        std::string payload = gw_payload(us[i], ps[i], v);
        if (gds && i != 2) {
            GFile gf; std::string fname;
            if (i >= 3) { double w[NV]; memcpy(w, v, sizeof w); w[IL] = 77 / sc; payload = gw_payload(us[i], ps[i], w); }
            if (run_gw(out, payload, &gf, &fname)) { int32_t k[NV]; if (gfile_ints(gf, k, true)) run_gr(out, gr_payload(gf.r0, gf.r1, k), fname.c_str()); }
        }
        if (oas && i >= 2) {
            std::vector<uint8_t> bytes;
            if (run_ow(out, gw_payload(us[i], ps[i], v), &bytes)) run_or(out, hex_bytes(bytes.data(), bytes.size()) + " | " + ofile_fields(parse_oas(bytes)));
        }
    }
    out.count("pinned-cases-done");
}

int main(int argc, char** argv) {
    if (argc < 5) {
        fprintf(stderr, "usage: %s seed tier outdir corpusdir [replayfile]\n", argv[0]);
        return 2;
    }
    uint64_t seed = strtoull(argv[1], NULL, 10);
    std::string tier = argv[2];
    Out out;
    out.open(argv[3]);
    set_error_logger(NULL);
    const char* only = getenv("VERIF_KINDS");
    auto enabled = [&](const std::string& k) { return !only || !*only || (std::string(",") + only + ",").find("," + k + ",") != std::string::npos; };
    bool gds = enabled("gw") || enabled("gr"), oas = enabled("ow") || enabled("or");
    if (argc >= 6) {
        std::string kind, payload;
        if (load_replay(argv[5], kind, payload)) run_case(out, kind, payload);
        out.close();
        return 0;
    }
    for (auto& kp : load_corpus(argv[4])) run_case(out, kp.first, kp.second);
    pinned(out, gds, oas);
    Rng g(seed * 0x100000001B3ULL + 12345);
    long n = tier == "thorough" ? 60000 : 700;
    for (long i = 0; i < n; i++) {
        switch (g.below(5)) {
            case 0: case 1: if (gds) run_chain(g, out, false); else run_chain(g, out, true); break;
            case 2: case 3: if (oas) run_chain(g, out, true); else run_chain(g, out, false); break;
            default:
                if (gds) {
                    uint64_t r0, r1;
                    int32_t k[NV];
                    gen_hand_gr(g, out, r0, r1, k);
                    run_gr(out, gr_payload(r0, r1, k), NULL);
                } else run_chain(g, out, true);
        }
    }
    out.close();
    return 0;
}
