// C19 / unit c19_plist: OASIS point lists.  Drives the real oasis_write_point_list and
// oasis_read_point_list (both public) on in-memory streams.
//   plrt  closed x0 y0 x1 y1 ...   write with the real writer, read back with the real reader
//   plw   closed x0 y0 ...         write only (magnitudes beyond what the reader's doubles hold exactly)
//   plalt ty closed x0 y0 ...      the legal encoding of the list in type ty (built here from the public
//                                  delta writers; the model builds the same bytes from spec_enc_plist),
//                                  decoded by the real reader
//   pldec closed refx refy bytes   arbitrary bytes decoded by the real reader
#include <algorithm>
#include <gdstk/gdstk.hpp>
#include "common.hpp"

using namespace gdstk;

static const char* status_name(ErrorCode e) {
    switch (e) {
        case ErrorCode::NoError: return "ok";
        case ErrorCode::Overflow: return "overflow";
        case ErrorCode::InputFileError: return "eof";
        case ErrorCode::InvalidFile: return "invalid";
        default: return "other";
    }
}

struct MemOut {
    OasisStream o;
    MemOut() {
        memset(&o, 0, sizeof o);
        o.data_size = 1024;
        o.data = (uint8_t*)allocate(o.data_size);
        o.cursor = o.data;
    }
    std::vector<uint8_t> bytes() { return std::vector<uint8_t>(o.data, o.cursor); }
    ~MemOut() { free_allocation(o.data); }
};

static const size_t SLACK = 1 << 16;
struct MemIn {
    OasisStream in;
    uint8_t* base;
    size_t n;
    // zero slack after the n bytes: the memory stream does not bound-check, an over-read is detected
    // from the cursor position and reported as "eof"
    MemIn(const std::vector<uint8_t>& b) {
        memset(&in, 0, sizeof in);
        n = b.size();
        base = (uint8_t*)allocate(n + SLACK);
        memset(base, 0, n + SLACK);
        if (n) memcpy(base, b.data(), n);
        in.data = base;
        in.cursor = base;
        in.data_size = n + SLACK;
    }
    size_t consumed() { return (size_t)(in.cursor - base); }
    bool overread() { return consumed() > n; }
    ~MemIn() { free_allocation(base); }
};

static std::string dec_status(MemIn& m) {
    if (m.in.error_code == ErrorCode::Overflow) return "overflow";
    if (m.overread()) return "eof";
    return status_name(m.in.error_code);
}

typedef std::vector<IntVec2> Pts;

static int64_t parse_i64(const std::string& s) {
    bool neg = !s.empty() && s[0] == '-';
    int64_t v = (int64_t)strtoull(s.c_str() + (neg ? 1 : 0), NULL, 16);
    return neg ? -v : v;
}
static std::vector<std::string> split_ws(const std::string& s) {
    std::vector<std::string> w;
    size_t i = 0;
    while (i < s.size()) {
        while (i < s.size() && s[i] == ' ') i++;
        size_t j = i;
        while (j < s.size() && s[j] != ' ') j++;
        if (j > i) w.push_back(s.substr(i, j - i));
        i = j;
    }
    return w;
}
static std::string pts_text(const Pts& p, size_t from) {
    std::string s = std::to_string(p.size() - from);
    for (size_t i = from; i < p.size(); i++) s += " " + hex_i64(p[i].x) + " " + hex_i64(p[i].y);
    return s;
}

// decode with the real reader; returns status and appended points (exact integers)
static std::string read_back(const std::vector<uint8_t>& bytes, bool closed, IntVec2 ref, Pts& got, size_t& consumed) {
    std::vector<uint8_t> b2 = bytes;
    b2.push_back(0x55);
    MemIn r(b2);
    Array<Vec2> result = {};
    result.append(Vec2{(double)ref.x, (double)ref.y});
    oasis_read_point_list(r.in, 1.0, closed, result);
    std::string st = dec_status(r);
    consumed = r.consumed();
    got.clear();
    bool exact = true;
    for (uint64_t i = 1; i < result.count; i++) {
        double x = result[i].x, y = result[i].y;
        if (!(fabs(x) < 9.0e15) || !(fabs(y) < 9.0e15) || x != (double)(int64_t)x || y != (double)(int64_t)y) {
            exact = false;
            break;
        }
        got.push_back(IntVec2{(int64_t)x, (int64_t)y});
    }
    result.clear();
    if (st == "ok" && !exact) return "inexact";
    return st;
}

static std::vector<uint8_t> write_real(const Pts& pts, bool closed) {
    MemOut w;
    Array<IntVec2> a = {};
    for (auto& p : pts) a.append(p);
    oasis_write_point_list(w.o, a, closed);
    a.clear();
    return w.bytes();
}

// legal encoding in a given type, or false when the type cannot express the list
static bool spec_encode(int ty, bool closed, const Pts& pts, std::vector<uint8_t>& bytes) {
    if (pts.empty() || ty < 0 || ty > 5) return false;
    Pts ds;
    for (size_t i = 1; i < pts.size(); i++) ds.push_back(IntVec2{pts[i].x - pts[i - 1].x, pts[i].y - pts[i - 1].y});
    IntVec2 closing = {pts[0].x - pts.back().x, pts[0].y - pts.back().y};
    MemOut w;
    auto alt = [](bool f, const Pts& l) {
        for (auto& d : l) {
            if (f ? d.x != 0 : d.y != 0) return false;
            f = !f;
        }
        return true;
    };
    if (ty == 0 || ty == 1) {
        bool f0 = ty == 1;
        Pts body = ds;
        if (closed) {
            if (ds.empty()) return false;
            Pts all = ds;
            all.push_back(closing);
            if (!alt(f0, all)) return false;
            body.pop_back();
        } else if (!alt(f0, ds))
            return false;
        oasis_putc(ty, w.o);
        oasis_write_unsigned_integer(w.o, body.size());
        bool f = f0;
        for (auto& d : body) {
            oasis_write_1delta(w.o, f ? d.y : d.x);
            f = !f;
        }
    } else if (ty == 2) {
        for (auto& d : ds)
            if (d.x != 0 && d.y != 0) return false;
        oasis_putc(2, w.o);
        oasis_write_unsigned_integer(w.o, ds.size());
        for (auto& d : ds) oasis_write_2delta(w.o, d.x, d.y);
    } else if (ty == 3) {
        for (auto& d : ds)
            if (d.x != 0 && d.y != 0 && d.x != d.y && d.x != -d.y) return false;
        oasis_putc(3, w.o);
        oasis_write_unsigned_integer(w.o, ds.size());
        for (auto& d : ds) oasis_write_3delta(w.o, d.x, d.y);
    } else if (ty == 4) {
        oasis_putc(4, w.o);
        oasis_write_unsigned_integer(w.o, ds.size());
        for (auto& d : ds) oasis_write_gdelta(w.o, d.x, d.y);
    } else {
        oasis_putc(5, w.o);
        oasis_write_unsigned_integer(w.o, ds.size());
        IntVec2 prev = {0, 0};
        for (auto& d : ds) {
            oasis_write_gdelta(w.o, d.x - prev.x, d.y - prev.y);
            prev = d;
        }
    }
    bytes = w.bytes();
    return true;
}

static bool known_kind(const std::string& k) { return k == "plrt" || k == "plw" || k == "plalt" || k == "pldec"; }

static void run_case(Out& out, const std::string& kind, const std::string& payload) {
    if (!known_kind(kind)) return;  // corpus / replay entries of the other C19 units
    std::string id = out.add(kind, payload);
    std::vector<std::string> w = split_ws(payload);
    if (kind == "plrt" || kind == "plw") {
        if (w.size() < 3 || w.size() % 2 == 0) {
            out.I(id, "bad-case");
            return;
        }
        bool closed = w[0] == "1";
        Pts pts;
        for (size_t i = 1; i + 1 < w.size(); i += 2) pts.push_back(IntVec2{parse_i64(w[i]), parse_i64(w[i + 1])});
        std::vector<uint8_t> b = write_real(pts, closed);
        out.count(std::string("type-written:") + (b.empty() ? "none" : std::to_string((int)b[0])) + (closed ? "c" : "o"));
        if (kind == "plw") {
            out.I(id, hex_bytes(b.data(), b.size()));
            return;
        }
        Pts got;
        size_t consumed = 0;
        std::string st = read_back(b, closed, pts[0], got, consumed);
        std::string res = hex_bytes(b.data(), b.size()) + " " + st;
        if (st == "ok") res += " " + pts_text(got, 0) + " " + std::to_string(consumed);
        out.I(id, res);
        bool same = st == "ok" && consumed == b.size() && got.size() == pts.size() - 1;
        for (size_t i = 0; same && i < got.size(); i++) same = got[i].x == pts[i + 1].x && got[i].y == pts[i + 1].y;
        out.P(id, same ? "ok" : "FAIL plist-roundtrip decode(encode(points)) != points");
    } else if (kind == "plalt") {
        if (w.size() < 4 || w.size() % 2 == 1) {
            out.I(id, "bad-case");
            return;
        }
        int ty = atoi(w[0].c_str());
        bool closed = w[1] == "1";
        Pts pts;
        for (size_t i = 2; i + 1 < w.size(); i += 2) pts.push_back(IntVec2{parse_i64(w[i]), parse_i64(w[i + 1])});
        std::vector<uint8_t> b;
        if (!spec_encode(ty, closed, pts, b)) {
            out.count("alt-inexpressible");
            out.I(id, "inexpressible");
            return;
        }
        out.count("alt-type:" + std::to_string(ty) + (closed ? "c" : "o"));
        Pts got;
        size_t consumed = 0;
        std::string st = read_back(b, closed, pts[0], got, consumed);
        std::string res = hex_bytes(b.data(), b.size()) + " " + st;
        if (st == "ok") res += " " + pts_text(got, 0) + " " + std::to_string(consumed);
        out.I(id, res);
        bool same = st == "ok" && consumed == b.size() && got.size() == pts.size() - 1;
        for (size_t i = 0; same && i < got.size(); i++) same = got[i].x == pts[i + 1].x && got[i].y == pts[i + 1].y;
        out.P(id, same ? "ok" : ("FAIL plist-alt-type" + std::to_string(ty) + " legal encoding of the list in this type is not read back as the list"));
    } else {  // pldec
        if (w.size() < 3) {
            out.I(id, "bad-case");
            return;
        }
        bool closed = w[0] == "1";
        IntVec2 ref = {parse_i64(w[1]), parse_i64(w[2])};
        std::vector<uint8_t> b = unhex(w.size() > 3 ? w[3] : "");
        MemIn r(b);
        Array<Vec2> result = {};
        result.append(Vec2{(double)ref.x, (double)ref.y});
        oasis_read_point_list(r.in, 1.0, closed, result);
        std::string st = dec_status(r);
        out.count("pldec:" + st);
        if (st == "ok") {
            Pts got;
            bool exact = true;
            for (uint64_t i = 1; i < result.count; i++) {
                double x = result[i].x, y = result[i].y;
                if (!(fabs(x) < 9.0e15) || !(fabs(y) < 9.0e15) || x != (double)(int64_t)x || y != (double)(int64_t)y) {
                    exact = false;
                    break;
                }
                got.push_back(IntVec2{(int64_t)x, (int64_t)y});
            }
            if (exact)
                out.I(id, "ok " + pts_text(got, 0) + " " + std::to_string(r.consumed()));
            else
                out.I(id, "inexact");
        } else
            out.I(id, st);
        result.clear();
    }
}

// ---------------------------------------------------------------- generators
static int64_t step(Rng& g, int cls) {
    int64_t m;
    switch (cls) {
        case 0: m = g.range(1, 70); break;                     // one byte
        case 1: m = g.range(1, 20000); break;                  // 2-3 bytes
        case 2: m = (int64_t)1 << g.range(5, 36); m += g.range(-2, 2); break;  // group boundaries
        default: m = g.range(1, (int64_t)1 << 36);
    }
    if (m == 0) m = 1;
    return g.coin() ? m : -m;
}

enum Shape { HFIRST, VFIRST, MANH, OCT, GEN, RECTI_CLOSED, NSHAPES };

static Pts gen_points(Rng& g, int shape, size_t n, bool dups, Out& out) {
    Pts p;
    int cls = (int)g.below(4);
    IntVec2 cur = {g.range(-((int64_t)1 << 40), (int64_t)1 << 40), g.range(-((int64_t)1 << 40), (int64_t)1 << 40)};
    if (g.chance(30)) cur = IntVec2{0, 0};
    p.push_back(cur);
    bool horiz = shape != VFIRST;
    if (shape == RECTI_CLOSED) horiz = g.coin();
    bool first_h = horiz;
    for (size_t i = 1; i < n; i++) {
        int64_t s = step(g, g.chance(80) ? cls : (int)g.below(4));
        IntVec2 d = {0, 0};
        switch (shape) {
            case HFIRST:
            case VFIRST:
            case RECTI_CLOSED:
                if (horiz) d.x = s; else d.y = s;
                horiz = !horiz;
                break;
            case MANH:
                if (g.coin()) d.x = s; else d.y = s;
                break;
            case OCT:
                switch (g.below(4)) {
                    case 0: d.x = s; break;
                    case 1: d.y = s; break;
                    case 2: d.x = s; d.y = s; break;
                    default: d.x = s; d.y = -s;
                }
                break;
            default:
                d.x = s;
                d.y = step(g, (int)g.below(4));
                if (g.chance(20)) d.y = 0;
                if (g.chance(10)) d.x = 0;
        }
        if (dups && g.chance(15)) d = IntVec2{0, 0};
        cur = IntVec2{cur.x + d.x, cur.y + d.y};
        p.push_back(cur);
    }
    if (shape == RECTI_CLOSED && n >= 3) {
        // make the implicit closing edge perpendicular to the last one: a true rectilinear polygon
        // whose last vertex shares one coordinate with the first
        size_t k = n - 1;  // number of deltas; delta k is horizontal iff (first_h == (k odd))
        bool last_h = first_h == (k % 2 == 1);
        if (last_h) p[k].x = p[0].x; else p[k].y = p[0].y;
        out.count(k % 2 == 1 ? "recti-closed:odd-deltas" : "recti-closed:even-deltas");
    }
    return p;
}

static std::string pts_payload(const Pts& p) {
    std::string s;
    for (auto& q : p) s += " " + hex_i64(q.x) + " " + hex_i64(q.y);
    return s;
}

static Pts gen_huge(Rng& g, size_t n) {
    // all points near +-2^62, so that every difference stays strictly inside 63 bits
    Pts p;
    const int64_t B = (int64_t)1 << 62;
    int mode = (int)g.below(3);
    for (size_t i = 0; i < n; i++) {
        int64_t sx = g.coin() ? 1 : -1, sy = g.coin() ? 1 : -1;
        int64_t ox = g.range(1, 1000), oy = g.range(1, 1000);
        IntVec2 q = {sx * (B - ox), sy * (B - oy)};
        if (mode == 1 && i > 0) q.y = p.back().y;         // horizontal jumps of almost 2^63
        if (mode == 2) q = IntVec2{sx * (B - ox), sx * (B - ox)};  // diagonal jumps of almost 2^63
        p.push_back(q);
    }
    return p;
}

static std::string garbage_plist(Rng& g, Out& out) {
    std::vector<uint8_t> b;
    uint8_t ty = (uint8_t)g.below(6);
    if (g.chance(8)) ty = (uint8_t)g.range(6, 255);
    b.push_back(ty);
    unsigned num = (unsigned)g.below(12);
    if (g.chance(5)) num = (unsigned)g.range(100, 1000);
    MemOut w;
    oasis_write_unsigned_integer(w.o, num);
    for (auto x : w.bytes()) b.push_back(x);
    unsigned len = (unsigned)g.below(3 * num + 4);
    unsigned run = 0;  // at most 4 groups per integer: every coordinate the reader forms stays exact in a double
    for (unsigned i = 0; i < len; i++) {
        uint8_t v = (uint8_t)g.below(256);
        if (g.chance(60) || run >= 3) v &= 0x7F;
        run = (v & 0x80) ? run + 1 : 0;
        b.push_back(v);
    }
    if (g.chance(3)) {  // overflowing magnitude: ten continuation groups
        for (int i = 0; i < 10; i++) b.push_back(0xFF);
        b.push_back(0x7F);
    }
    (void)out;
    return hex_bytes(b.data(), b.size());
}

int main(int argc, char** argv) {
    if (argc < 4) {
        fprintf(stderr, "usage: c19_plist seed tier outdir [corpus] [replay]\n");
        return 2;
    }
    uint64_t seed = strtoull(argv[1], NULL, 10);
    bool thorough = strcmp(argv[2], "thorough") == 0;
    set_error_logger(NULL);
    Out out;
    out.open(argv[3]);
    if (argc > 5) {
        std::string k, p;
        if (load_replay(argv[5], k, p)) run_case(out, k, p);
        out.close();
        return 0;
    }
    for (auto& c : load_corpus(argc > 4 ? argv[4] : NULL)) run_case(out, c.first, c.second);
    Rng g(seed);
    // deterministic corner cases: single point, two-point "polygons", duplicates, unit squares
    const char* fixed[] = {
        "0 0", "5 -3", "0 0 0 0", "0 0 a 0", "0 0 0 a", "0 0 a a", "0 0 a b", "0 0 0 0 0 0",
        "0 0 a 0 a 5 0 5", "0 0 0 5 a 5 a 0", "0 0 a 0 a 5 0 5 0 0", "0 0 a 0 a 5", "0 0 a 0 a 5 0 5 0 2",
        "0 0 a 0 a 0 a 5 0 5", "0 0 a 0 a 5 0 5 0 5", "0 0 0 0 a 0 a 5 0 5", "0 0 a 0 14 0 14 5", "0 0 5 5 a 0",
        "0 0 5 5 5 0", "0 0 5 6 5 0", "0 0 a 0 a 5 -3 5", "0 0 a 0 a 5 1 6", "0 0 a 0 a 5 5 a", "1 1 1 1 1 1 1 1",
        "0 0 a 0 a 5 0 5 0 7 -4 7", "0 0 a 0 a 5 0 5 0 7 -4 7 -4 0"};
    for (const char* f : fixed)
        for (int closed = 0; closed <= 1; closed++) {
            run_case(out, "plrt", std::to_string(closed) + " " + f);
            for (int ty = 0; ty <= 6; ty++) run_case(out, "plalt", std::to_string(ty) + " " + std::to_string(closed) + " " + f);
        }
    long N = thorough ? 150000 : 1500;
    size_t maxn = thorough ? 3000 : 300;
    for (long i = 0; i < N; i++) {
        int shape = (int)g.below(NSHAPES);
        size_t n;
        switch (g.below(10)) {
            case 0: n = 1 + g.below(3); break;
            case 1: n = 1 + g.below(thorough && i % 50 == 0 ? maxn : (i % 10 == 0 ? 300 : 60)); break;
            default: n = 1 + g.below(12);
        }
        if (i < 4) n = maxn - i;  // the longest lists once per shape family
        bool dups = g.chance(25);
        bool closed = g.coin();
        if (shape == RECTI_CLOSED) closed = g.chance(85);
        Pts p = gen_points(g, shape, n, dups, out);
        out.count(std::string("shape:") + std::to_string(shape) + (closed ? "c" : "o"));
        out.count(n <= 2 ? "npoints:1-2" : n <= 12 ? "npoints:3-12" : n <= 60 ? "npoints:13-60" : n <= 300 ? "npoints:61-300" : "npoints:301+");
        switch (g.below(8)) {
            case 0:
            case 1:
            case 2:
            case 3: run_case(out, "plrt", std::to_string((int)closed) + pts_payload(p)); break;
            case 4:
            case 5: {
                // every type on the same list (inexpressible ones answered as such)
                int ty = (int)g.below(6);
                if (g.chance(60)) {  // aim at a type that can express it
                    if (shape == HFIRST) ty = g.chance(50) ? 0 : (int)g.range(2, 5);
                    else if (shape == VFIRST) ty = g.chance(50) ? 1 : (int)g.range(2, 5);
                    else if (shape == RECTI_CLOSED) ty = (int)g.below(6);
                    else if (shape == MANH) ty = (int)g.range(2, 5);
                    else if (shape == OCT) ty = (int)g.range(3, 5);
                    else ty = (int)g.range(4, 5);
                }
                run_case(out, "plalt", std::to_string(ty) + " " + std::to_string((int)closed) + pts_payload(p));
            } break;
            case 6: {
                Pts h = gen_huge(g, 1 + g.below(8));
                run_case(out, "plw", std::to_string((int)closed) + pts_payload(h));
            } break;
            default:
                run_case(out, "pldec", std::to_string((int)closed) + " " + hex_i64(g.range(-1000, 1000)) + " " + hex_i64(g.range(-1000, 1000)) + " " + garbage_plist(g, out));
        }
    }
    out.close();
    return 0;
}
