// C01 / unit c01_lower: the lowering done by Library::write_gds (user units -> database grid, one record group per
// repetition offset, AREF-or-SREFs decision of Reference::to_gds) against the Coq model coq/GdsLower.v.
//
// Every library is generated from INTEGER parameters counted in `step`s (a quarter of a database unit, or 3/4 of one for
// the scaling 384), from which both the gdstk objects (doubles n * step: exact) and the payload for the model are built.
//   kind lw : I = "<error word> <one hex token per record of the file Library::write_gds wrote>"   (M: write_gds_model (lower L))
//             P = read_gds(write_gds(L)) against expectations computed here with integer arithmetic from the parameters
//   kind pl : I = placements of the re-loaded references (AREFs expanded with Repetition::get_offsets), sorted per cell
//             (M: the reader's denotation of lower L;  S: the source placements rounded to the grid)
//   kinds fo / fs / fc (+ plo / pls): inputs on which the AREF branch is known to move instances (off-grid lattices or
//             origins, lattices skewed by less than the tolerance, more than 32767 columns); same lines, own finding keys.
// Payload grammar: see ocaml/c01_lower_driver.ml.
#include <algorithm>
#include <set>
#include <math.h>
#include <gdstk/gdstk.hpp>
#include "common.hpp"
using namespace gdstk;

static std::set<std::string> kinds;
static bool want(const char* k) { return kinds.empty() || kinds.count(k); }

struct Cfg {
    double unit, precision, step;
    int64_t gnum, gden;  // one step = gnum / gden database units
};
static const Cfg cfgs[] = {
    {1.0, 1.0 / 1024, 1.0 / 4096, 1, 4},        // scaling 1024
    {1.0 / 16, 1.0 / 4096, 1.0 / 1024, 1, 4},   // scaling 256
    {1.0, 1.0, 0.25, 1, 4},                     // scaling 1
    {0.375, 1.0 / 1024, 1.0 / 512, 3, 4},       // scaling 384: one step = 3/4 database unit
    {4.0, 1.0 / 64, 1.0 / 1024, 1, 4},          // scaling 256, unit above 1
};

// round half away from zero of num / den (den > 0)
static int64_t rnd(int64_t num, int64_t den) {
    int64_t a = num < 0 ? -num : num;
    int64_t q = (2 * a + den) / (2 * den);
    return num < 0 ? -q : q;
}

static std::string hexs(const char* s) {
    size_t n = strlen(s);
    return n ? hex_bytes((const uint8_t*)s, n) : std::string("-");
}
static std::string rand_name(Rng& g, int maxlen) {
    static const char* al = "ABCDEFGHIJKLMNOPQRSTUVWXYZabcdefghijklmnopqrstuvwxyz0123456789_";
    int n = 1 + (int)g.below(maxlen);
    std::string s;
    for (int i = 0; i < n; i++) s += al[g.below(63)];
    return s;
}

// ---------------------------------------------------------------- source description (integers, in steps)
struct SRep {
    int type = 0;  // 0 none 1 rect 2 regular 3 explicit 4 explicit x 5 explicit y
    uint64_t cols = 0, rows = 0;
    int64_t ax = 0, ay = 0, bx = 0, by = 0;  // rect: spacing (ax, by); regular: v1 = (ax, ay), v2 = (bx, by)
    std::vector<std::pair<int64_t, int64_t>> offs;  // explicit (x / y forms use .first)
    // offsets in the order of Repetition::get_offsets, written here independently: zero first, column index outermost
    std::vector<std::pair<int64_t, int64_t>> offsets() const {
        std::vector<std::pair<int64_t, int64_t>> v;
        switch (type) {
            case 0: v.push_back({0, 0}); break;
            case 1:
                for (uint64_t i = 0; i < cols; i++) for (uint64_t j = 0; j < rows; j++) v.push_back({(int64_t)i * ax, (int64_t)j * by});
                break;
            case 2:
                for (uint64_t i = 0; i < cols; i++) for (uint64_t j = 0; j < rows; j++)
                    v.push_back({(int64_t)i * ax + (int64_t)j * bx, (int64_t)i * ay + (int64_t)j * by});
                break;
            case 3: v.push_back({0, 0}); for (auto& o : offs) v.push_back(o); break;
            case 4: v.push_back({0, 0}); for (auto& o : offs) v.push_back({o.first, 0}); break;
            default: v.push_back({0, 0}); for (auto& o : offs) v.push_back({0, o.first}); break;
        }
        return v;
    }
};

struct Gen {
    Rng& g;
    Cfg c;
    bool offgrid;
    Gen(Rng& g_, const Cfg& c_, bool off) : g(g_), c(c_), offgrid(off) {}
    double d(int64_t n) const { return (double)n * c.step; }
    std::string hd(int64_t n) const { return hex_dbl(d(n)); }
    // a coordinate in steps: multiples of 4 on the grid, anything off it
    int64_t coord(int64_t lo, int64_t hi) { int64_t k = g.range(lo, hi); return offgrid ? 4 * k + (int64_t)g.below(4) : 4 * k; }
    int64_t ongrid(int64_t lo, int64_t hi) { return 4 * g.range(lo, hi); }
    int64_t grid_of(int64_t n) const { return rnd(n * c.gnum, c.gden); }           // database units, rounded
    int64_t milli_of(int64_t n) const { return rnd(n * c.gnum, c.gden) * 1024; }   // 2^-10 database units of the rounded position

    std::string rep_payload(const SRep& r) const {
        switch (r.type) {
            case 0: return " n";
            case 1: return " r " + hex_u64(r.cols) + " " + hex_u64(r.rows) + " " + hd(r.ax) + " " + hd(r.by);
            case 2: return " g " + hex_u64(r.cols) + " " + hex_u64(r.rows) + " " + hd(r.ax) + " " + hd(r.ay) + " " + hd(r.bx) + " " + hd(r.by);
            case 3: {
                std::string s = " e " + hex_u64(r.offs.size());
                for (auto& o : r.offs) s += " " + hd(o.first) + " " + hd(o.second);
                return s;
            }
            default: {
                std::string s = std::string(r.type == 4 ? " x " : " y ") + hex_u64(r.offs.size());
                for (auto& o : r.offs) s += " " + hd(o.first);
                return s;
            }
        }
    }
    void rep_apply(const SRep& r, Repetition& rp) const {
        memset(&rp, 0, sizeof rp);
        switch (r.type) {
            case 0: rp.type = RepetitionType::None; break;
            case 1: rp.type = RepetitionType::Rectangular; rp.columns = r.cols; rp.rows = r.rows; rp.spacing = Vec2{d(r.ax), d(r.by)}; break;
            case 2: rp.type = RepetitionType::Regular; rp.columns = r.cols; rp.rows = r.rows; rp.v1 = Vec2{d(r.ax), d(r.ay)}; rp.v2 = Vec2{d(r.bx), d(r.by)}; break;
            case 3: rp.type = RepetitionType::Explicit; for (auto& o : r.offs) rp.offsets.append(Vec2{d(o.first), d(o.second)}); break;
            case 4: rp.type = RepetitionType::ExplicitX; for (auto& o : r.offs) rp.coords.append(d(o.first)); break;
            default: rp.type = RepetitionType::ExplicitY; for (auto& o : r.offs) rp.coords.append(d(o.first)); break;
        }
    }
    uint64_t small_count() { return g.chance(8) ? 0 : 1 + g.below(4); }
    // a repetition for polygons / paths / labels: every kind, lattices in any direction, on or off the grid
    SRep any_rep() {
        SRep r;
        r.type = 1 + (int)g.below(5);
        if (r.type == 1) {
            r.cols = small_count(); r.rows = small_count();
            r.ax = coord(-40, 40); r.by = coord(-40, 40);
            if (g.chance(10)) r.ax = 0;
        } else if (r.type == 2) {
            r.cols = small_count(); r.rows = small_count();
            r.ax = coord(-40, 40); r.ay = coord(-40, 40); r.bx = coord(-40, 40); r.by = coord(-40, 40);
            if (g.chance(10)) { r.ax = 0; r.ay = 0; }
            if (g.chance(10)) { r.bx = 0; r.by = 0; }
        } else {
            int n = (int)g.below(5);
            for (int i = 0; i < n; i++) r.offs.push_back({coord(-100, 100), coord(-100, 100)});
        }
        return r;
    }
};

static std::string props_payload(const Property* p, std::vector<std::pair<uint64_t, std::string>>* sorted = NULL) {
    std::vector<std::pair<uint64_t, std::string>> v;
    for (; p; p = p->next) {
        if (strcmp(p->name, "S_GDS_PROPERTY") != 0 || !p->value || p->value->type != PropertyType::UnsignedInteger || !p->value->next ||
            p->value->next->type != PropertyType::String)
            continue;
        PropertyValue* val = p->value->next;
        uint64_t len = 0;
        while (len < val->count && val->bytes[len] != 0) len++;
        v.push_back({p->value->unsigned_integer, len ? hex_bytes(val->bytes, len) : std::string("-")});
    }
    if (sorted) { std::sort(v.begin(), v.end()); *sorted = v; }
    std::string s = " k " + hex_u64(v.size());
    for (auto& kv : v) s += " " + hex_u64(kv.first) + " " + kv.second;
    return s;
}
static std::string props_sorted_text(const Property* p) {
    std::vector<std::pair<uint64_t, std::string>> v;
    props_payload(p, &v);
    std::string s = " k" + std::to_string(v.size());
    for (auto& kv : v) s += " " + std::to_string(kv.first) + "=" + kv.second;
    return s;
}
static void add_props(Rng& g, Property*& props) {
    int n = (int)g.below(3);
    std::set<int> used;
    for (int i = 0; i < n; i++) {
        int a;
        do { a = 1 + (int)g.below(120); } while (used.count(a));
        used.insert(a);
        std::string v = g.chance(4) ? std::string(90 + g.below(60), 'v') : rand_name(g, 7);  // sometimes more than 128 bytes in total
        set_gds_property(props, (uint16_t)a, v.c_str());
    }
}

static int pick_tag_part(Rng& g) {
    switch (g.below(10)) { case 0: return 32767; case 1: return 255; case 2: return 256; default: return (int)g.below(60); }
}

// rotation of a label / reference as generated
struct SRot {
    double value = 0;
    std::string payload = " z";
    int cls = 0;          // 0 zero, 1 quarter turn, 2 Pythagorean (3,4,5), 3 other
    int quarter = 0;      // m for cls 1
};
static SRot gen_rot(Rng& g, bool allow_pyth) {
    SRot r;
    int k = (int)g.below(allow_pyth ? 10 : 8);
    if (k < 3) return r;
    if (k < 6) {
        static const int ms[] = {1, 2, -1, 3, -2, -3, 4, -4, 5, -5};
        int m = ms[g.below(10)];
        if (g.chance(60)) m = ms[g.below(3)];
        r.value = m * (M_PI / 2);  // the double nearest to m * pi / 2 for |m| <= 4; for +-5 the product, which the llround branch accepts
        r.cls = 1;
        r.quarter = m;
        r.payload = " q " + hex_i64(m) + " " + hex_dbl(r.value * (180.0 / M_PI));
        return r;
    }
    if (k < 8) {
        static const double vs[] = {0.3, M_PI / 4, 1.0, -2.5, 1e-3};
        r.value = vs[g.below(5)];
        r.cls = 3;
        r.payload = " d " + hex_dbl(cos(r.value)) + " " + hex_dbl(sin(r.value)) + " " + hex_dbl(r.value * (180.0 / M_PI));
        return r;
    }
    r.value = atan2(4.0, 3.0);
    r.cls = 2;
    r.payload = " o 3 5 4 5 " + hex_dbl(r.value * (180.0 / M_PI));
    return r;
}
static double gen_mag(Rng& g) {
    static const double mags[] = {1, 1, 1, 2, 0.5, 3, 1.25, 10, -1};
    return mags[g.below(9)];
}

// expectation lines of one cell after a save / load cycle
struct Expect {
    std::vector<std::string> polys, paths, labels;   // in file order
    std::vector<std::string> placements;             // multiset (sorted before comparing)
};

static std::string real20(double x) { return std::to_string((long long)llround(x * 1048576.0)); }

struct LibBuild {
    Library lib = {};
    std::string payload;
    std::vector<Expect> expect;
    bool placement_check = true;
};


// ---------------------------------------------------------------- element generators: object + payload + expectation
static void gen_polygon(Gen& G, Cell* cell, std::string& pl, Expect& ex) {
    Rng& g = G.g;
    Polygon* p = (Polygon*)allocate_clear(sizeof(Polygon));
    int la = pick_tag_part(g), ty = pick_tag_part(g);
    p->tag = make_tag((uint32_t)la, (uint32_t)ty);
    int n = g.chance(6) ? (int)g.below(3) : 3 + (int)g.below(6);
    std::vector<std::pair<int64_t, int64_t>> pts;
    int64_t cx = G.ongrid(-1000, 1000), cy = G.ongrid(-1000, 1000);
    for (int i = 0; i < n; i++) pts.push_back({cx + G.coord(-80, 80), cy + G.coord(-80, 80)});
    // first and last vertex at least two database units apart (no closing duplicate after rounding, whatever the offset)
    if (n >= 3 && llabs(pts[0].first - pts[n - 1].first) < 12 && llabs(pts[0].second - pts[n - 1].second) < 12) pts[n - 1].first += 40;
    for (auto& q : pts) p->point_array.append(Vec2{G.d(q.first), G.d(q.second)});
    add_props(g, p->properties);
    SRep r;
    if (g.chance(45)) r = G.any_rep();
    G.rep_apply(r, p->repetition);
    cell->polygon_array.append(p);
    pl += " P " + hex_i64(la) + " " + hex_i64(ty) + " " + hex_u64((uint64_t)n);
    for (auto& q : pts) pl += " " + G.hd(q.first) + " " + G.hd(q.second);
    pl += props_payload(p->properties) + G.rep_payload(r);
    if (n >= 3)
        for (auto& o : r.offsets()) {
            std::string s = "P " + std::to_string(la) + " " + std::to_string(ty) + " " + std::to_string(n);
            for (auto& q : pts) s += " " + std::to_string((long long)G.grid_of(q.first + o.first)) + " " + std::to_string((long long)G.grid_of(q.second + o.second));
            ex.polys.push_back(s + props_sorted_text(p->properties));
        }
}

static void gen_path(Gen& G, Cell* cell, std::string& pl, Expect& ex) {
    Rng& g = G.g;
    FlexPath* fp = (FlexPath*)allocate_clear(sizeof(FlexPath));
    int ne = g.chance(20) ? 2 : 1;
    fp->num_elements = (uint64_t)ne;
    fp->elements = (FlexPathElement*)allocate_clear(sizeof(FlexPathElement) * ne);
    int64_t w[2], tol_steps = 0;
    double widths[2], offsets[2] = {0, 0};
    Tag tags[2];
    int la[2], ty[2];
    for (int e = 0; e < ne; e++) {
        w[e] = G.offgrid ? (int64_t)g.below(120) : 4 * (int64_t)g.below(30);
        if (g.chance(8)) w[e] = 0;
        widths[e] = G.d(w[e]);
        la[e] = pick_tag_part(g);
        ty[e] = pick_tag_part(g);
        tags[e] = make_tag((uint32_t)la[e], (uint32_t)ty[e]);
    }
    // tolerance: normally far below a step; sometimes a few database units, so that remove_overlapping_points has work
    double tol = ldexp(1.0, -40);
    if (g.chance(25)) { tol_steps = 4 * (int64_t)(1 + g.below(4)); tol = G.d(tol_steps); }
    int64_t x = G.coord(-1000, 1000), y = G.coord(-1000, 1000);
    std::vector<std::pair<int64_t, int64_t>> spine;
    spine.push_back({x, y});
    fp->init(Vec2{G.d(x), G.d(y)}, widths, offsets, tol, tags);
    fp->simple_path = true;
    bool all_zero = true;
    for (int e = 0; e < ne; e++) all_zero = all_zero && w[e] == 0;
    // a width that rounds to zero database units re-loads with scale_width = true (WIDTH 0 carries no sign)
    fp->scale_width = (G.grid_of(w[0]) == 0 || (ne > 1 && G.grid_of(w[1]) == 0)) ? true : g.coin();
    int n = (int)g.below(6);
    if (n == 0 && g.chance(70)) n = 1;
    for (int i = 0; i < n; i++) {
        int64_t dx, dy;
        if (tol_steps && g.chance(40)) { dx = g.range(-tol_steps, tol_steps); dy = g.range(-tol_steps, tol_steps); if (!G.offgrid) { dx = dx / 4 * 4; dy = dy / 4 * 4; } }
        else { dx = G.coord(-50, 50); dy = G.coord(-50, 50); if (dx == 0 && dy == 0) dx = 28; }
        x += dx; y += dy;
        spine.push_back({x, y});
        fp->segment(Vec2{G.d(x), G.d(y)}, NULL, NULL, false);
    }
    int en[2];
    int64_t eu[2] = {0, 0}, ev[2] = {0, 0};
    for (int e = 0; e < ne; e++) {
        en[e] = (int)g.below(5);
        static const EndType ets[] = {EndType::Flush, EndType::Round, EndType::HalfWidth, EndType::Extended, EndType::Smooth};
        fp->elements[e].end_type = ets[en[e]];
        if (en[e] == 3 || g.chance(20)) {  // extensions are only written for the Extended end type
            eu[e] = G.coord(-8, 8); ev[e] = G.coord(-8, 8);
            fp->elements[e].end_extensions = Vec2{G.d(eu[e]), G.d(ev[e])};
        }
    }
    add_props(g, fp->properties);
    SRep r;
    if (g.chance(45)) r = G.any_rep();
    G.rep_apply(r, fp->repetition);
    cell->flexpath_array.append(fp);
    pl += std::string(" H ") + (fp->scale_width ? "1" : "0") + " " + hex_dbl(tol * tol) + " " + hex_u64(spine.size());
    for (auto& q : spine) pl += " " + G.hd(q.first) + " " + G.hd(q.second);
    pl += " " + hex_u64((uint64_t)ne);
    for (int e = 0; e < ne; e++)
        pl += " " + hex_i64(la[e]) + " " + hex_i64(ty[e]) + " " + std::to_string(en[e]) + " " + hex_dbl(widths[e] / 2) + " " + G.hd(eu[e]) + " " + G.hd(ev[e]);
    pl += props_payload(fp->properties) + G.rep_payload(r);
    // expectation: points closer than the tolerance to the last kept point are dropped (integer arithmetic), then one PATH per element and offset
    std::vector<std::pair<int64_t, int64_t>> kept;
    kept.push_back(spine[0]);
    for (size_t i = 1; i < spine.size(); i++) {
        int64_t dx = spine[i].first - kept.back().first, dy = spine[i].second - kept.back().second;
        if (tol_steps && dx * dx + dy * dy < tol_steps * tol_steps) continue;
        kept.push_back(spine[i]);
    }
    if (kept.size() >= 2)
        for (int e = 0; e < ne; e++)
            for (auto& o : r.offsets()) {
                int endc = en[e] == 4 ? 1 : en[e];
                std::string s = "H " + std::to_string(la[e]) + " " + std::to_string(ty[e]) + " " + std::to_string(endc) + " " + std::to_string((long long)G.grid_of(w[e])) +
                                " " + (fp->scale_width ? "1" : "0") + " " + std::to_string((long long)(en[e] == 3 ? G.grid_of(eu[e]) : 0)) + " " +
                                std::to_string((long long)(en[e] == 3 ? G.grid_of(ev[e]) : 0)) + " " + std::to_string(kept.size());
                for (auto& q : kept) s += " " + std::to_string((long long)G.grid_of(q.first + o.first)) + " " + std::to_string((long long)G.grid_of(q.second + o.second));
                ex.paths.push_back(s + props_sorted_text(fp->properties));
            }
    (void)all_zero;
}

static void gen_label(Gen& G, Cell* cell, std::string& pl, Expect& ex) {
    Rng& g = G.g;
    Label* l = (Label*)allocate_clear(sizeof(Label));
    std::string text = rand_name(g, 12);
    l->init(text.c_str());
    int la = pick_tag_part(g), ty = pick_tag_part(g);
    l->tag = make_tag((uint32_t)la, (uint32_t)ty);
    int64_t x = G.coord(-1000, 1000), y = G.coord(-1000, 1000);
    l->origin = Vec2{G.d(x), G.d(y)};
    static const Anchor as[] = {Anchor::NW, Anchor::N, Anchor::NE, Anchor::W, Anchor::O, Anchor::E, Anchor::SW, Anchor::S, Anchor::SE};
    l->anchor = as[g.below(9)];
    SRot rot = gen_rot(g, false);
    l->rotation = rot.value;
    l->magnification = gen_mag(g);
    l->x_reflection = g.chance(30);
    add_props(g, l->properties);
    SRep r;
    if (g.chance(50)) r = G.any_rep();
    G.rep_apply(r, l->repetition);
    cell->label_array.append(l);
    pl += " T " + hex_i64(la) + " " + hex_i64(ty) + " " + hexs(text.c_str()) + " " + G.hd(x) + " " + G.hd(y) + " " + hex_u64((uint64_t)l->anchor) + " " +
          (l->x_reflection ? "1" : "0") + " " + hex_dbl(l->magnification) + rot.payload + props_payload(l->properties) + G.rep_payload(r);
    for (auto& o : r.offsets())
        ex.labels.push_back("T " + std::to_string(la) + " " + std::to_string(ty) + " " + hexs(text.c_str()) + " " + std::to_string((long long)G.grid_of(x + o.first)) + " " +
                            std::to_string((long long)G.grid_of(y + o.second)) + " " + std::to_string((int)l->anchor) + " " + (l->x_reflection ? "1" : "0") + " " +
                            real20(l->magnification) + " " + real20(l->rotation * (180.0 / M_PI)) + props_sorted_text(l->properties));
}

// integer direction of the rotated x axis for the exactly representable rotations
static void axis_of(const SRot& rot, int64_t& ax, int64_t& ay) {
    if (rot.cls == 2) { ax = 3; ay = 4; return; }
    int m = ((rot.quarter % 4) + 4) % 4;
    static const int64_t xs[] = {1, 0, -1, 0}, ys[] = {0, 1, 0, -1};
    ax = xs[m]; ay = ys[m];
}

enum RefMode { NORMAL, OFFGRID_LATTICE, TIE_ORIGIN, SKEW, BIGCOUNT };

static void gen_reference(Gen& G, Cell* cell, Cell* target, const std::string& by_name, std::string& pl, Expect& ex, RefMode mode) {
    Rng& g = G.g;
    Reference* r = (Reference*)allocate_clear(sizeof(Reference));
    std::string name;
    if (target) { r->type = ReferenceType::Cell; r->cell = target; name = target->name; }
    else { r->type = ReferenceType::Name; r->name = copy_string(by_name.c_str(), NULL); name = by_name; }
    SRot rot = gen_rot(g, true);
    if (mode == SKEW) rot = SRot();
    if (mode == BIGCOUNT || mode == OFFGRID_LATTICE || mode == TIE_ORIGIN) while (rot.cls == 3) rot = gen_rot(g, true);
    r->rotation = rot.value;
    r->magnification = gen_mag(g);
    r->x_reflection = mode == SKEW ? false : g.chance(30);
    SRep rep;
    bool may_be_array = false;
    int64_t ax = 1, ay = 0;
    if (rot.cls != 3) axis_of(rot, ax, ay);
    int64_t px = -ay, py = ax;  // the rotated y axis
    int shape = (int)g.below(100);
    if (mode == NORMAL) {
        if (shape < 25) {
            // none
        } else if (shape < 45) {  // Rectangular: AREF when the rotation is a quarter turn (swapped for odd ones), SREFs otherwise
            rep.type = 1;
            rep.cols = g.chance(8) ? 0 : 1 + g.below(g.chance(15) ? 300 : 4);
            rep.rows = g.chance(8) ? 0 : 1 + g.below(4);
            rep.ax = G.ongrid(-40, 40); rep.by = G.ongrid(-40, 40);
            if (g.chance(10)) rep.ax = 0;
            if (g.chance(10)) rep.by = 0;
            if (rot.cls >= 2 && g.chance(30)) { rep.ax = 0; rep.by = 0; }  // both lengths zero: only is_multiple_of_pi_over_2 keeps this from the array branch
            may_be_array = rot.cls <= 1;
        } else if (shape < 80) {  // Regular
            rep.type = 2;
            rep.cols = g.chance(8) ? 0 : 1 + g.below(4);
            rep.rows = g.chance(8) ? 0 : 1 + g.below(4);
            int64_t k1 = G.ongrid(-30, 30), k2 = G.ongrid(-30, 30);
            if (g.chance(12)) k1 = 0;
            if (g.chance(12)) k2 = 0;
            int cls = (int)g.below(4);
            if (rot.cls == 3) cls = 2;
            if (cls == 0) { rep.ax = k1 * ax; rep.ay = k1 * ay; rep.bx = k2 * px; rep.by = k2 * py; if (g.chance(20)) rep.cols = 1 + g.below(200); }            // along the rotated axes
            else if (cls == 1) { rep.ax = k1 * px; rep.ay = k1 * py; rep.bx = k2 * ax; rep.by = k2 * ay; if (g.chance(20)) rep.rows = 1 + g.below(200); }       // swapped
            else if (cls == 2) {  // oblique: both components non-zero and of comparable size
                rep.ax = 4 * g.range(1, 40) * (g.coin() ? 1 : -1); rep.ay = 4 * g.range(1, 40) * (g.coin() ? 1 : -1);
                rep.bx = 4 * g.range(1, 40) * (g.coin() ? 1 : -1); rep.by = 4 * g.range(1, 40) * (g.coin() ? 1 : -1);
            } else {  // one vector along an axis, the other oblique
                rep.ax = k1 * ax; rep.ay = k1 * ay;
                rep.bx = 4 * g.range(1, 40); rep.by = 4 * g.range(1, 40) * (g.coin() ? 1 : -1);
                if (g.coin()) { std::swap(rep.ax, rep.bx); std::swap(rep.ay, rep.by); }
            }
            may_be_array = true;
        } else {
            rep.type = 3 + (int)g.below(3);
            int n = (int)g.below(5);
            for (int i = 0; i < n; i++) rep.offs.push_back({G.coord(-100, 100), G.coord(-100, 100)});
        }
    } else if (mode == OFFGRID_LATTICE) {  // lattice along the rotated axes whose pitch is not a whole number of database units
        rep.type = 2;
        rep.cols = 2 + g.below(14); rep.rows = 1 + g.below(3);
        int64_t k1 = 4 * g.range(1, 6) + 1 + (int64_t)g.below(3), k2 = 4 * g.range(1, 6);
        rep.ax = k1 * ax; rep.ay = k1 * ay; rep.bx = k2 * px; rep.by = k2 * py;
        may_be_array = true;
    } else if (mode == TIE_ORIGIN) {  // lattice on the grid, origin half a database unit off it (negative: lround is not translation invariant at ties)
        rep.type = 2;
        rep.cols = 2 + g.below(3); rep.rows = 1 + g.below(3);
        int64_t k1 = 4 * (2 * g.range(0, 5) + 1), k2 = 4 * g.range(1, 6);
        rep.ax = k1 * ax; rep.ay = k1 * ay; rep.bx = k2 * px; rep.by = k2 * py;
        may_be_array = true;
    } else if (mode == SKEW) {  // unrotated, lattice skewed by one database unit in a million: inside the tolerance
        rep.type = 2;
        rep.cols = 2 + g.below(60); rep.rows = 1 + g.below(3);
        int64_t big = 4 * (g.chance(65) ? 1000000 : 500000);  // |p| = 1 - 5e-13 (inside the tolerance) or 1 - 2e-12 (outside)
        if (g.coin()) { rep.ax = big; rep.ay = 4; rep.bx = 0; rep.by = 4 * g.range(1, 50); }
        else { rep.ax = 4 * g.range(1, 50); rep.ay = 0; rep.bx = -4; rep.by = big; }
        may_be_array = true;
    } else {  // BIGCOUNT
        rep.type = 2;
        static const uint64_t counts[] = {32767, 32768, 40000, 65535, 65536, 70000};
        rep.cols = counts[g.below(6)]; rep.rows = 1 + g.below(2);
        if (g.coin()) std::swap(rep.cols, rep.rows);
        rep.ax = 4 * ax; rep.ay = 4 * ay; rep.bx = 8 * px; rep.by = 8 * py;
        may_be_array = true;
    }
    // origins off the grid only where every instance is written (and rounded) on its own
    int64_t x, y;
    if (mode == TIE_ORIGIN) { x = -(4 * g.range(0, 200) + 2); y = 4 * g.range(-200, 200) + (g.coin() ? 2 : 0); }
    else if (may_be_array || mode != NORMAL) { x = G.ongrid(-1000, 1000); y = G.ongrid(-1000, 1000); }
    else { x = G.coord(-1000, 1000); y = G.coord(-1000, 1000); }
    r->origin = Vec2{G.d(x), G.d(y)};
    if (mode != BIGCOUNT) add_props(g, r->properties);
    G.rep_apply(rep, r->repetition);
    cell->reference_array.append(r);
    pl += " R " + hexs(name.c_str()) + " " + G.hd(x) + " " + G.hd(y) + " " + (r->x_reflection ? "1" : "0") + " " + hex_dbl(r->magnification) + rot.payload +
          props_payload(r->properties) + G.rep_payload(rep);
    if (mode != BIGCOUNT)
        for (auto& o : rep.offsets())
            ex.placements.push_back(hexs(name.c_str()) + " " + (r->x_reflection ? "1" : "0") + " " + real20(r->magnification) + " " + real20(r->rotation * (180.0 / M_PI)) + " " +
                                    hex_i64(G.milli_of(x + o.first)) + " " + hex_i64(G.milli_of(y + o.second)) + props_sorted_text(r->properties));
}

// ---------------------------------------------------------------- libraries
static LibBuild build_library(Rng& g, RefMode mode) {
    LibBuild b;
    const Cfg& c = cfgs[g.below(sizeof cfgs / sizeof cfgs[0])];
    bool off = mode == NORMAL ? g.chance(40) : false;
    Gen G(g, c, off);
    std::string lname = rand_name(g, 8);
    b.lib.init(lname.c_str(), c.unit, c.precision);
    int nc = mode == NORMAL ? 1 + (int)g.below(3) : 2;
    std::string cells_pl;
    std::vector<std::string> names;
    for (int ci = 0; ci < nc; ci++) {
        Cell* cell = (Cell*)allocate_clear(sizeof(Cell));
        std::string nm;
        do { nm = rand_name(g, 10); } while (std::find(names.begin(), names.end(), nm) != names.end());
        names.push_back(nm);
        cell->name = copy_string(nm.c_str(), NULL);
        Expect ex;
        std::string pp, ph, pt, pr;
        int np = 0, nh = 0, nl = 0, nr = 0;
        int ne = mode == NORMAL ? (int)g.below(6) : (ci == 0 || mode == BIGCOUNT ? 1 : 1 + (int)g.below(2));
        for (int e = 0; e < ne; e++) {
            int kind = mode == NORMAL ? (int)g.below(10) : (ci == 0 ? 0 : 9);
            if (kind < 2) { gen_polygon(G, cell, pp, ex); np++; }
            else if (kind < 4) { gen_path(G, cell, ph, ex); nh++; }
            else if (kind < 6) { gen_label(G, cell, pt, ex); nl++; }
            else {
                Cell* target = (ci > 0 && g.chance(85)) ? b.lib.cell_array[g.below((uint64_t)ci)] : NULL;
                gen_reference(G, cell, target, "EXT_" + rand_name(g, 5), pr, ex, mode);
                nr++;
            }
        }
        b.lib.cell_array.append(cell);
        b.expect.push_back(ex);
        cells_pl += " CELL " + hexs(nm.c_str()) + " " + hex_u64((uint64_t)np) + " " + hex_u64((uint64_t)nh) + " " + hex_u64((uint64_t)nl) + " " + hex_u64((uint64_t)nr) + pp + ph + pt + pr;
    }
    b.payload = "LIB " + hexs(lname.c_str()) + " " + hex_dbl(c.precision / c.unit) + " " + hex_dbl(c.precision) + " " + hex_dbl(c.unit / c.precision) + " " + hex_u64((uint64_t)nc) + cells_pl;
    b.placement_check = mode != BIGCOUNT;
    return b;
}

static std::vector<uint8_t> read_file(const std::string& path) {
    std::vector<uint8_t> v;
    FILE* f = fopen(path.c_str(), "rb");
    if (!f) return v;
    uint8_t buf[65536];
    size_t r;
    while ((r = fread(buf, 1, sizeof buf, f)) > 0) v.insert(v.end(), buf, buf + r);
    fclose(f);
    return v;
}

static std::string record_tokens(const std::vector<uint8_t>& b) {
    std::string s;
    size_t pos = 0;
    while (pos < b.size()) {
        size_t len = pos + 1 < b.size() ? ((size_t)b[pos] << 8) | b[pos + 1] : 0;
        if (len < 4 || pos + len > b.size()) len = b.size() - pos;
        s += " " + hex_bytes(b.data() + pos, len);
        pos += len;
    }
    return s;
}

static const char* err_word(ErrorCode e) {
    switch (e) {
        case ErrorCode::NoError: return "ok";
        case ErrorCode::EmptyPath: return "empty-path";
        case ErrorCode::UnofficialSpecification: return "unofficial";
        case ErrorCode::InvalidRepetition: return "invalid-repetition";
        default: return "other-error";
    }
}

// what the re-loaded library holds, in the format of the expectations
struct Loaded {
    bool ok = false;
    std::vector<Expect> cells;
    std::vector<std::string> names;
    std::string placements_text;  // kind pl
    std::string colrow;           // columns / rows of every re-loaded array (kind fc)
};

static std::string i64s(int64_t v) { return std::to_string((long long)v); }

static Loaded load_back(const std::string& path, bool expand) {
    Loaded L;
    ErrorCode err = ErrorCode::NoError;
    Library lib = read_gds(path.c_str(), 0, 0, NULL, &err);
    if ((int)err >= (int)ErrorCode::ChecksumError) return L;
    L.ok = true;
    double factor = lib.precision / lib.unit;
    auto gr = [&](double x) { return (int64_t)llround(x / factor); };
    auto milli = [&](double x) { return (int64_t)llround(x / factor * 1024.0); };
    for (uint64_t i = 0; i < lib.cell_array.count; i++) {
        Cell* cell = lib.cell_array[i];
        Expect ex;
        for (uint64_t j = 0; j < cell->polygon_array.count; j++) {
            Polygon* p = cell->polygon_array[j];
            std::string s = "P " + i64s(get_layer(p->tag)) + " " + i64s(get_type(p->tag)) + " " + i64s((int64_t)p->point_array.count);
            for (uint64_t k = 0; k < p->point_array.count; k++) s += " " + i64s(gr(p->point_array[k].x)) + " " + i64s(gr(p->point_array[k].y));
            ex.polys.push_back(s + props_sorted_text(p->properties));
        }
        for (uint64_t j = 0; j < cell->flexpath_array.count; j++) {
            FlexPath* fp = cell->flexpath_array[j];
            FlexPathElement* el = fp->elements;
            int endc = el->end_type == EndType::Flush ? 0 : el->end_type == EndType::Round ? 1 : el->end_type == EndType::HalfWidth ? 2 : 3;
            std::string s = "H " + i64s(get_layer(el->tag)) + " " + i64s(get_type(el->tag)) + " " + i64s(endc) + " " + i64s(gr(2 * el->half_width_and_offset[0].u)) + " " +
                            (fp->scale_width ? "1" : "0") + " " + i64s(endc == 3 ? gr(el->end_extensions.u) : 0) + " " + i64s(endc == 3 ? gr(el->end_extensions.v) : 0) + " " +
                            i64s((int64_t)fp->spine.point_array.count);
            for (uint64_t k = 0; k < fp->spine.point_array.count; k++) s += " " + i64s(gr(fp->spine.point_array[k].x)) + " " + i64s(gr(fp->spine.point_array[k].y));
            ex.paths.push_back(s + props_sorted_text(fp->properties));
        }
        for (uint64_t j = 0; j < cell->label_array.count; j++) {
            Label* l = cell->label_array[j];
            ex.labels.push_back("T " + i64s(get_layer(l->tag)) + " " + i64s(get_type(l->tag)) + " " + hexs(l->text) + " " + i64s(gr(l->origin.x)) + " " + i64s(gr(l->origin.y)) + " " +
                                i64s((int)l->anchor) + " " + (l->x_reflection ? "1" : "0") + " " + real20(l->magnification) + " " + real20(l->rotation * (180.0 / M_PI)) +
                                props_sorted_text(l->properties));
        }
        std::vector<std::string> items;
        for (uint64_t j = 0; j < cell->reference_array.count; j++) {
            Reference* r = cell->reference_array[j];
            const char* nm = r->type == ReferenceType::Cell ? r->cell->name : r->name;
            if (r->repetition.type != RepetitionType::None)
                L.colrow += " " + hex_u64(r->repetition.columns) + "x" + hex_u64(r->repetition.rows);
            if (!expand) continue;
            Array<Vec2> offs = {};
            Vec2 zero = {0, 0};
            if (r->repetition.type != RepetitionType::None) r->repetition.get_offsets(offs); else offs.append(zero);
            for (uint64_t k = 0; k < offs.count; k++) {
                int64_t mx = milli(r->origin.x + offs[k].x), my = milli(r->origin.y + offs[k].y);
                ex.placements.push_back(hexs(nm) + " " + (r->x_reflection ? "1" : "0") + " " + real20(r->magnification) + " " + real20(r->rotation * (180.0 / M_PI)) + " " +
                                        hex_i64(mx) + " " + hex_i64(my) + props_sorted_text(r->properties));
                items.push_back(hexs(nm) + ":" + hex_i64(mx) + ":" + hex_i64(my));
            }
            offs.clear();
        }
        std::sort(items.begin(), items.end());
        L.placements_text += (i ? " CELL " : "CELL ") + hexs(cell->name) + " " + std::to_string(items.size());
        for (auto& it : items) L.placements_text += " " + it;
        L.cells.push_back(ex);
        L.names.push_back(cell->name);
    }
    lib.free_all();
    return L;
}

static std::string compare_cells(const LibBuild& b, const Loaded& L, bool placements, const char* key_place) {
    if (!L.ok) return "FAIL gds-lower-reload the file written by write_gds does not load";
    if (L.cells.size() != b.expect.size()) return "FAIL gds-lower-reload number of cells changed";
    for (size_t i = 0; i < b.expect.size(); i++) {
        const Expect &e = b.expect[i], &l = L.cells[i];
        if (L.names[i] != b.lib.cell_array[i]->name) return "FAIL gds-lower-reload cell name changed";
        if (e.polys != l.polys) return "FAIL gds-lower-polygons re-loaded polygons are not the copies of the saved ones at (vertex + offset) rounded to the grid, cell " + std::to_string(i);
        if (e.paths != l.paths) {
            std::string first;
            for (size_t k = 0; k < e.paths.size() && k < l.paths.size(); k++) if (e.paths[k] != l.paths[k]) { first = " expected [" + e.paths[k] + "] found [" + l.paths[k] + "]"; break; }
            return "FAIL gds-lower-paths re-loaded paths are not the copies of the saved ones at (point + offset) rounded to the grid, cell " + std::to_string(i) + first;
        }
        if (e.labels != l.labels) return "FAIL gds-lower-labels re-loaded labels are not the copies of the saved ones at (origin + offset) rounded to the grid, cell " + std::to_string(i);
        if (placements) {
            std::vector<std::string> a = e.placements, c = l.placements;
            std::sort(a.begin(), a.end());
            std::sort(c.begin(), c.end());
            if (a != c) {
                std::string first;
                for (size_t k = 0; k < a.size() && k < c.size(); k++) if (a[k] != c[k]) { first = " expected [" + a[k] + "] found [" + c[k] + "]"; break; }
                if (first.empty()) first = " expected " + std::to_string(a.size()) + " placements, found " + std::to_string(c.size());
                return std::string("FAIL ") + key_place + " re-loaded reference placements differ from (origin + offset) rounded to the grid, cell " + std::to_string(i) + first;
            }
        }
    }
    return "ok";
}

int main(int argc, char** argv) {
    if (argc < 4) return 2;
    uint64_t seed = strtoull(argv[1], NULL, 10);
    bool thorough = strcmp(argv[2], "thorough") == 0;
    std::string scratch = argv[3];
    set_error_logger(NULL);
    if (const char* k = getenv("VERIF_KINDS")) {
        std::string s(k);
        size_t p = 0;
        while (p <= s.size()) {
            size_t e = s.find(',', p);
            if (e == std::string::npos) e = s.size();
            if (e > p) kinds.insert(s.substr(p, e - p));
            p = e + 1;
        }
    }
    Out out;
    out.open(argv[3]);
    Rng g(seed * 0x100000001B3ULL + 12345);
    tm t = {};
    t.tm_year = 120; t.tm_mon = 5; t.tm_mday = 17; t.tm_hour = 11; t.tm_min = 22; t.tm_sec = 33;
    std::string path = scratch + "/lower.gds";
    struct Plan { RefMode mode; const char* kind; const char* plkind; const char* key; int quick, thorough; };
    static const Plan plans[] = {
        {NORMAL, "lw", "pl", "gds-lower-placements", 700, 35000},
        {OFFGRID_LATTICE, "fo", "plo", "Reference::to_gds:aref-off-grid", 40, 2000},
        {TIE_ORIGIN, "fo", "plo", "Reference::to_gds:aref-off-grid", 40, 2000},
        {SKEW, "fs", "pls", "Reference::to_gds:aref-skew-within-tolerance", 40, 2000},
        {BIGCOUNT, "fc", NULL, "Reference::to_gds:colrow-above-32767", 12, 200},
    };
    for (const Plan& pln : plans) {
        int n = thorough ? pln.thorough : pln.quick;
        if (!want(pln.kind) && !(pln.plkind && want(pln.plkind))) continue;
        for (int it = 0; it < n; it++) {
            LibBuild b = build_library(g, pln.mode);
            std::string guard_payload = b.payload;
            guard_begin(out, pln.kind, guard_payload, "gds-lower-crash");
            ErrorCode err = b.lib.write_gds(path.c_str(), 0, &t);
            std::vector<uint8_t> bytes = read_file(path);
            Loaded L = load_back(path, b.placement_check);
            guard_end();
            if (want(pln.kind)) {
                std::string id = out.add(pln.kind, b.payload);
                out.I(id, err_word(err) + record_tokens(bytes));
                std::string verdict = compare_cells(b, L, b.placement_check, pln.key);
                if (pln.mode == BIGCOUNT && verdict == "ok") {
                    // the array must come back with the counts that were saved (or not be an array at all)
                    const Repetition& rp = b.lib.cell_array[1]->reference_array[0]->repetition;
                    std::string want1 = " " + hex_u64(rp.columns) + "x" + hex_u64(rp.rows), want2 = " " + hex_u64(rp.rows) + "x" + hex_u64(rp.columns);
                    if (rp.columns > 65535 || rp.rows > 65535) {
                        out.count("bigcount:above-65535");
                        if (err != ErrorCode::InvalidRepetition) verdict = std::string("FAIL gds-lower-colrow-overflow an array of more than 65535 columns or rows was saved without InvalidRepetition");
                    } else if (L.colrow != want1 && L.colrow != want2) {
                        verdict = std::string("FAIL ") + pln.key + " an array of " + std::to_string(rp.columns) + " x " + std::to_string(rp.rows) +
                                  " saved with error code '" + err_word(err) + "' re-loads as" + L.colrow;
                    }
                }
                out.P(id, verdict);
                out.count(std::string("err:") + err_word(err));
                if (verdict != "ok") out.count(std::string("pfail:") + pln.kind);
                // input distribution
                for (uint64_t i = 0; i < b.lib.cell_array.count; i++) {
                    Cell* c = b.lib.cell_array[i];
                    out.count("polygons", (long)c->polygon_array.count);
                    out.count("paths", (long)c->flexpath_array.count);
                    out.count("labels", (long)c->label_array.count);
                    out.count("references", (long)c->reference_array.count);
                    for (uint64_t j = 0; j < c->reference_array.count; j++) out.count("ref-rep:" + std::to_string((int)c->reference_array[j]->repetition.type));
                }
                size_t arefs = 0, srefs = 0;
                for (size_t p = 0; p + 4 <= bytes.size();) {
                    size_t len = ((size_t)bytes[p] << 8) | bytes[p + 1];
                    if (len < 4) break;
                    if (bytes[p + 2] == 0x0B) arefs++;
                    if (bytes[p + 2] == 0x0A) srefs++;
                    p += len;
                }
                out.count("records:AREF", (long)arefs);
                out.count("records:SREF", (long)srefs);
            }
            if (pln.plkind && want(pln.plkind) && L.ok) {
                std::string id = out.add(pln.plkind, b.payload);
                out.I(id, L.placements_text);
            }
            b.lib.free_all();
        }
    }
    out.close();
    return 0;
}
