// Shared helpers of the Clipper-based harnesses (c05_boolean, c12_fracture, c13_offset):
// exact conversion of doubles to a common integer grid, polygon generators, sample points.
#pragma once
#include <math.h>
#include <algorithm>
#include <gdstk/gdstk.hpp>
#include "common.hpp"

typedef __int128 i128;
typedef std::pair<int64_t, int64_t> IPt;
typedef std::vector<IPt> IPoly;               // vertices in grid units (integers)
typedef std::vector<gdstk::Vec2> DPoly;       // vertices as the library sees them
typedef std::vector<DPoly> DGroup;

static inline std::string hex_i128(i128 v) {
    bool neg = v < 0;
    unsigned __int128 u = neg ? (unsigned __int128)0 - (unsigned __int128)v : (unsigned __int128)v;
    if (u == 0) return "0";
    char b[40];
    int n = 0;
    while (u) {
        b[n++] = "0123456789abcdef"[(int)(u & 15)];
        u >>= 4;
    }
    std::string s;
    if (neg) s += '-';
    while (n) s += b[--n];
    return s;
}

// ---------------------------------------------------------------- exact grid frame
// Every coordinate v of a case is represented by the integer v * S * 2^K, S the (integral) scaling
// and K the smallest exponent that makes all of them integers.  Nothing is rounded: a double is
// m * 2^e with an integer m, so v * S * 2^K = (m * S) * 2^(e+K).
struct Frame {
    int64_t S = 1;
    int K = 1;  // at least one extra bit: the drivers' guard `unit + 1` is then at most 1.5 grid units
    bool ok = true;
    i128 unit() const { return (i128)1 << K; }  // one grid unit (1/S) in frame integers
};

static inline void split_double(double x, int64_t& mant, int& e) {
    if (x == 0) {
        mant = 0;
        e = 0;
        return;
    }
    int ex;
    double m = frexp(x, &ex);  // x = m * 2^ex, 0.5 <= |m| < 1
    mant = (int64_t)ldexp(m, 53);
    e = ex - 53;
}

static inline int need_k(double x, int64_t S) {
    int64_t mant;
    int e;
    split_double(x, mant, e);
    if (mant == 0) return 0;
    i128 M = (i128)mant * S;
    while ((M & 1) == 0) {
        M >>= 1;
        e++;
    }
    return e >= 0 ? 0 : -e;
}

static inline void frame_add(Frame& f, const DPoly& p) {
    for (auto& v : p) {
        if (!std::isfinite(v.x) || !std::isfinite(v.y)) {
            f.ok = false;
            continue;
        }
        f.K = std::max(f.K, std::max(need_k(v.x, f.S), need_k(v.y, f.S)));
    }
    if (f.K > 72) f.ok = false;
}
static inline void frame_add(Frame& f, const DGroup& g) {
    for (auto& p : g) frame_add(f, p);
}

static inline i128 to_frame(double x, const Frame& f) {
    int64_t mant;
    int e;
    split_double(x, mant, e);
    if (mant == 0) return 0;
    i128 M = (i128)mant * f.S;
    int sh = e + f.K;
    while (sh < 0 && (M & 1) == 0) {
        M >>= 1;
        sh++;
    }
    if (sh < 0) {  // cannot happen when K came from frame_add over the same values
        fprintf(stderr, "to_frame: value not on the frame\n");
        abort();
    }
    return M << sh;
}

static inline std::string ser_poly(const DPoly& p, const Frame& f) {
    std::string s = hex_u64(p.size());
    for (auto& v : p) {
        s += ' ';
        s += hex_i128(to_frame(v.x, f));
        s += ' ';
        s += hex_i128(to_frame(v.y, f));
    }
    return s;
}
static inline std::string ser_group(const DGroup& g, const Frame& f) {
    std::string s = hex_u64(g.size());
    for (auto& p : g) {
        s += ' ';
        s += ser_poly(p, f);
    }
    return s;
}

// ---------------------------------------------------------------- gdstk <-> vectors
static inline gdstk::Polygon* make_polygon(const DPoly& p) {
    gdstk::Polygon* poly = (gdstk::Polygon*)gdstk::allocate_clear(sizeof(gdstk::Polygon));
    poly->point_array.ensure_slots(p.size());
    for (auto& v : p) poly->point_array.append(v);
    return poly;
}
static inline void fill_array(const DGroup& g, gdstk::Array<gdstk::Polygon*>& a) {
    for (auto& p : g) a.append(make_polygon(p));
}
static inline void free_array(gdstk::Array<gdstk::Polygon*>& a) {
    for (uint64_t i = 0; i < a.count; i++) {
        a[i]->clear();
        gdstk::free_allocation(a[i]);
    }
    a.clear();
}
static inline DPoly to_dpoly(const gdstk::Polygon* p) {
    DPoly d;
    for (uint64_t i = 0; i < p->point_array.count; i++) d.push_back(p->point_array[i]);
    return d;
}
static inline DGroup to_dgroup(const gdstk::Array<gdstk::Polygon*>& a) {
    DGroup g;
    for (uint64_t i = 0; i < a.count; i++) g.push_back(to_dpoly(a[i]));
    return g;
}
static inline DPoly to_double(const IPoly& p, double scaling, int sub = 0) {
    // grid integer / scaling ; sub != 0 moves the vertex off the grid by sub/4 of a unit
    DPoly d;
    for (auto& v : p) d.push_back(gdstk::Vec2{((double)v.first + 0.25 * sub) / scaling, ((double)v.second + 0.25 * sub) / scaling});
    return d;
}

// ---------------------------------------------------------------- simplicity (exact)
static inline int sgn128(i128 v) { return v > 0 ? 1 : (v < 0 ? -1 : 0); }
static inline i128 orient_i(const IPt& a, const IPt& b, const IPt& c) {
    return (i128)(b.first - a.first) * (c.second - a.second) - (i128)(c.first - a.first) * (b.second - a.second);
}
static inline bool on_seg_i(const IPt& a, const IPt& b, const IPt& p) {
    return orient_i(a, b, p) == 0 && std::min(a.first, b.first) <= p.first && p.first <= std::max(a.first, b.first) &&
           std::min(a.second, b.second) <= p.second && p.second <= std::max(a.second, b.second);
}
static inline bool segs_touch(const IPt& a, const IPt& b, const IPt& c, const IPt& d) {
    int o1 = sgn128(orient_i(a, b, c)), o2 = sgn128(orient_i(a, b, d));
    int o3 = sgn128(orient_i(c, d, a)), o4 = sgn128(orient_i(c, d, b));
    if (o1 * o2 < 0 && o3 * o4 < 0) return true;
    return on_seg_i(a, b, c) || on_seg_i(a, b, d) || on_seg_i(c, d, a) || on_seg_i(c, d, b);
}
// strictly simple: no repeated vertex, no two edges touching except neighbours at their shared vertex
static inline bool is_simple(const IPoly& p) {
    size_t n = p.size();
    if (n < 3) return false;
    for (size_t i = 0; i < n; i++) {
        const IPt &a = p[i], &b = p[(i + 1) % n], &c = p[(i + 2) % n];
        if (a == b) return false;
        // neighbours: only the shared vertex (no folding back)
        if (orient_i(a, b, c) == 0 && ((i128)(b.first - a.first) * (c.first - b.first) + (i128)(b.second - a.second) * (c.second - b.second)) < 0)
            return false;
    }
    for (size_t i = 0; i < n; i++)
        for (size_t j = i + 2; j < n; j++) {
            if (i == 0 && j == n - 1) continue;
            if (segs_touch(p[i], p[(i + 1) % n], p[j], p[(j + 1) % n])) return false;
        }
    return true;
}

// narrowest feature: every vertex is at least `w` grid units away from every edge it is not an end of
static inline bool feature_width_at_least(const IPoly& p, int64_t w) {
    size_t n = p.size();
    for (size_t i = 0; i < n; i++)
        for (size_t j = 0; j < n; j++) {
            size_t k = (j + 1) % n;
            if (i == j || i == k) continue;
            const IPt &v = p[i], &a = p[j], &b = p[k];
            i128 dx = b.first - a.first, dy = b.second - a.second, vx = v.first - a.first, vy = v.second - a.second;
            i128 t = vx * dx + vy * dy, L = dx * dx + dy * dy;
            bool close;
            if (t <= 0) close = vx * vx + vy * vy < (i128)w * w;
            else if (t >= L) {
                i128 ux = v.first - b.first, uy = v.second - b.second;
                close = ux * ux + uy * uy < (i128)w * w;
            } else {
                i128 c = dx * vy - dy * vx;
                close = c * c < (i128)w * w * L;
            }
            if (close) return false;
        }
    return true;
}

// ---------------------------------------------------------------- generators (grid integers)
static inline IPoly g_rect(int64_t x0, int64_t y0, int64_t w, int64_t h) {
    return IPoly{{x0, y0}, {x0 + w, y0}, {x0 + w, y0 + h}, {x0, y0 + h}};
}
static inline void dedupe(IPoly& p) {
    IPoly q;
    for (auto& v : p)
        if (q.empty() || q.back() != v) q.push_back(v);
    while (q.size() > 1 && q.front() == q.back()) q.pop_back();
    p.swap(q);
}
// vertices on a circle at sorted random angles
static inline IPoly g_convex(Rng& g, int64_t cx, int64_t cy, int64_t r, int n) {
    std::vector<double> a;
    for (int i = 0; i < n; i++) a.push_back((double)g.below(1000000) * (2 * M_PI / 1000000.0));
    std::sort(a.begin(), a.end());
    IPoly p;
    for (double t : a) p.push_back({cx + llround(r * cos(t)), cy + llround(r * sin(t))});
    dedupe(p);
    return p;
}
// star-shaped: random radius per sorted angle
static inline IPoly g_star(Rng& g, int64_t cx, int64_t cy, int64_t rmin, int64_t rmax, int n) {
    IPoly p;
    double a0 = (double)g.below(1000) * 0.001;
    for (int i = 0; i < n; i++) {
        double t = a0 + 2 * M_PI * ((double)i + 0.8 * ((double)g.below(1000) * 0.001 - 0.5)) / n;
        double r = (double)g.range(rmin, rmax);
        p.push_back({cx + llround(r * cos(t)), cy + llround(r * sin(t))});
    }
    dedupe(p);
    return p;
}
// comb: base of height h0 with k teeth of random height on top
static inline IPoly g_comb(Rng& g, int64_t x0, int64_t y0, int k, int64_t tw, int64_t gap, int64_t h0, int64_t hmax) {
    int64_t W = k * (tw + gap) + gap;
    IPoly p{{x0, y0}, {x0 + W, y0}, {x0 + W, y0 + h0}};
    for (int i = k - 1; i >= 0; i--) {
        int64_t xi = x0 + gap + i * (tw + gap);
        int64_t h = y0 + h0 + 1 + (int64_t)g.below((uint64_t)hmax);
        p.push_back({xi + tw, y0 + h0});
        p.push_back({xi + tw, h});
        p.push_back({xi, h});
        p.push_back({xi, y0 + h0});
    }
    p.push_back({x0, y0 + h0});
    return p;
}
// saw: flat bottom, zigzag top with k teeth
static inline IPoly g_saw(Rng& g, int64_t x0, int64_t y0, int k, int64_t pitch, int64_t h0, int64_t hmax) {
    IPoly p{{x0, y0}, {x0 + k * pitch, y0}};
    for (int i = k; i >= 0; i--) {
        p.push_back({x0 + i * pitch, y0 + h0 + (int64_t)g.below((uint64_t)hmax)});
        if (i > 0) p.push_back({x0 + i * pitch - pitch / 2, y0 + h0 + hmax + 1 + (int64_t)g.below((uint64_t)hmax)});
    }
    return p;
}
// rectilinear spiral arm of width 2*hw and pitch p > 2*hw, nseg centre-line segments
static inline IPoly g_spiral(int64_t x0, int64_t y0, int64_t L, int64_t p, int64_t hw, int nseg) {
    static const int64_t dx[4] = {1, 0, -1, 0}, dy[4] = {0, 1, 0, -1};
    std::vector<IPt> c{{x0, y0}};
    std::vector<int> dir;
    for (int k = 0; k < nseg; k++) {
        int64_t len = k < 3 ? L : L - p * ((k - 1) / 2);
        if (len <= p) break;
        int d = k % 4;
        c.push_back({c.back().first + dx[d] * len, c.back().second + dy[d] * len});
        dir.push_back(d);
    }
    size_t m = dir.size();
    IPoly right, left;
    for (size_t i = 0; i <= m; i++) {
        // left normal of direction d is (-dy, dx)
        int64_t nx = 0, ny = 0;
        if (i > 0) {
            nx += -dy[dir[i - 1]];
            ny += dx[dir[i - 1]];
        }
        if (i < m) {
            nx += -dy[dir[i]];
            ny += dx[dir[i]];
        }
        left.push_back({c[i].first + hw * nx, c[i].second + hw * ny});
        right.push_back({c[i].first - hw * nx, c[i].second - hw * ny});
    }
    IPoly poly = right;
    for (size_t i = left.size(); i > 0; i--) poly.push_back(left[i - 1]);
    return poly;
}
// staircase: monotone rectilinear polygon with k steps
static inline IPoly g_stairs(Rng& g, int64_t x0, int64_t y0, int k, int64_t smax) {
    IPoly p{{x0, y0}};
    int64_t x = x0, y = y0;
    std::vector<IPt> up;
    for (int i = 0; i < k; i++) {
        x += 1 + (int64_t)g.below((uint64_t)smax);
        up.push_back({x, y});
        y += 1 + (int64_t)g.below((uint64_t)smax);
        up.push_back({x, y});
    }
    for (auto& v : up) p.push_back(v);
    p.push_back({x0, y});
    return p;
}
// add collinear points on edges and repeated vertices
static inline IPoly add_collinear(Rng& g, const IPoly& p, int pct_mid, int pct_dup) {
    IPoly q;
    size_t n = p.size();
    for (size_t i = 0; i < n; i++) {
        q.push_back(p[i]);
        if (g.chance(pct_dup)) q.push_back(p[i]);
        const IPt& b = p[(i + 1) % n];
        int64_t ddx = b.first - p[i].first, ddy = b.second - p[i].second;
        if (g.chance(pct_mid)) {
            int64_t gg = std::__gcd(ddx < 0 ? -ddx : ddx, ddy < 0 ? -ddy : ddy);
            if (gg > 1) {
                int64_t t = 1 + (int64_t)g.below((uint64_t)(gg - 1));
                q.push_back({p[i].first + ddx / gg * t, p[i].second + ddy / gg * t});
            }
        }
    }
    return q;
}
static inline void random_orient(Rng& g, IPoly& p) {
    if (g.coin()) std::reverse(p.begin(), p.end());
    if (!p.empty()) std::rotate(p.begin(), p.begin() + (long)g.below(p.size()), p.end());
}

// ---------------------------------------------------------------- sample points
struct FPt {
    i128 x, y;
};
static inline std::string ser_points(const std::vector<FPt>& pts) {
    std::string s = hex_u64(pts.size());
    for (auto& p : pts) {
        s += ' ';
        s += hex_i128(p.x);
        s += ' ';
        s += hex_i128(p.y);
    }
    return s;
}

// Jittered lattice over the joint bounding box (+ margin), floor-midpoints of vertex pairs, probes
// a few units off edges and vertices.  Coordinates are frame integers; placement is approximate
// (it only decides WHERE we look), the oracle works on the exact values.
static inline std::vector<FPt> gen_samples(Rng& g, const std::vector<const DGroup*>& groups, const Frame& f, int lattice_n,
                                           int n_mid, int n_probe, double margin_units) {
    std::vector<FPt> pts;
    std::vector<std::pair<double, double>> vs;  // in grid units
    std::vector<std::pair<size_t, size_t>> edges;
    for (auto gp : groups)
        for (auto& p : *gp) {
            size_t base = vs.size();
            for (auto& v : p) vs.push_back({v.x * (double)f.S, v.y * (double)f.S});
            for (size_t i = 0; i < p.size(); i++) edges.push_back({base + i, base + (i + 1) % p.size()});
        }
    if (vs.empty()) return pts;
    double x0 = vs[0].first, x1 = x0, y0 = vs[0].second, y1 = y0;
    for (auto& v : vs) {
        x0 = std::min(x0, v.first);
        x1 = std::max(x1, v.first);
        y0 = std::min(y0, v.second);
        y1 = std::max(y1, v.second);
    }
    x0 -= margin_units;
    x1 += margin_units;
    y0 -= margin_units;
    y1 += margin_units;
    double unit = ldexp(1.0, f.K);
    auto put = [&](double ux, double uy) {  // grid units -> frame integer (any nearby integer will do)
        FPt p;
        p.x = (i128)floor(ux * unit);
        p.y = (i128)floor(uy * unit);
        pts.push_back(p);
    };
    for (int i = 0; i < lattice_n; i++)
        for (int j = 0; j < lattice_n; j++) {
            double ux = x0 + (x1 - x0) * ((double)i + (double)g.below(1000) * 0.001) / lattice_n;
            double uy = y0 + (y1 - y0) * ((double)j + (double)g.below(1000) * 0.001) / lattice_n;
            put(ux, uy);
        }
    for (int i = 0; i < n_mid; i++) {
        auto& a = vs[g.below(vs.size())];
        auto& b = vs[g.below(vs.size())];
        put((a.first + b.first) * 0.5, (a.second + b.second) * 0.5);
    }
    for (int i = 0; i < n_probe && !edges.empty(); i++) {
        auto& e = edges[g.below(edges.size())];
        auto &a = vs[e.first], &b = vs[e.second];
        double ddx = b.first - a.first, ddy = b.second - a.second;
        double len = sqrt(ddx * ddx + ddy * ddy);
        double off = 1.5 + (double)g.below(8) * 0.5 + (g.chance(20) ? (double)g.below(40) : 0.0);
        if (g.coin()) off = -off;
        if (len == 0 || g.chance(25)) {  // near a vertex
            put(a.first + (g.coin() ? off : -off), a.second + (double)g.range(-4, 4));
        } else {
            double t = (double)g.below(1001) * 0.001;
            put(a.first + t * ddx - ddy / len * off, a.second + t * ddy + ddx / len * off);
        }
    }
    return pts;
}
