// C09 harness: bounding boxes and convex hulls of cell hierarchies (Cell / Reference / Polygon /
// Label bounding_box, Cell / Reference convex_hull, gdstk::convex_hull) with and without the
// Map<GeometryInfo> cache.  Kinds: `hier` (hierarchy + query script) and `qh` (direct wrapper).
// Path: Desc (plain structs) -> gdstk objects -> payload text -> queries.  Replay / corpus: payload
// -> Desc -> same path.  Every payload is checked to re-parse to the identical payload.
// Cell content: polygons (P), labels (L), FlexPaths (W) and RobustPaths (V: straight sections, 1-2 elements).  The
// outlines both path kinds hand out through to_polygons are listed in F (FlexPath outlines first, then RobustPath
// outlines: the order of Cell::bounding_box / Cell::convex_hull) with the path's repetition; F is what the model sees.
// Payload: C n { c name P n {p..} L n {l..} W n {w width k pts rep} V n {v nel (width offset)*nel k pts rep} F n {p..}
//          R n {r..} } Q n queries T tag.   rep = kind parameters : n offsets m extrema.   `V n ...` may be absent on
// input (payloads written before RobustPaths were added) and is always written.
#include <algorithm>
#include <ctype.h>
#include <float.h>
#include <math.h>
#include <set>
#include <gdstk/gdstk.hpp>
#include "common.hpp"

using namespace gdstk;

// ------------------------------------------------------------------------------------ Desc
struct P2 {
    double x, y;
};

struct RepD {
    char type;  // n R G X Y E
    uint64_t cols, rows;
    double a, b, c, d;  // R: spacing (a,b);  G: v1 (a,b) v2 (c,d)
    std::vector<double> coords;
    std::vector<P2> offs;
    RepD() : type('n'), cols(0), rows(0), a(0), b(0), c(0), d(0) {}
};
struct PolyD {
    std::vector<P2> pts;
    RepD rep;
};
struct LabelD {
    P2 pos;
    RepD rep;
};
struct PathD {
    double width;
    std::vector<P2> pts;
    RepD rep;
};
struct RPathD {  // RobustPath: one (width, offset) per element, straight sections through pts
    std::vector<double> widths, offsets;
    std::vector<P2> pts;
    RepD rep;
};
struct RefD {
    int child;
    P2 origin;
    double rot, mag;
    bool xrefl;
    RepD rep;
};
struct CellD {
    long nameidx;
    std::vector<PolyD> polys;
    std::vector<LabelD> labels;
    std::vector<PathD> paths;
    std::vector<RPathD> rpaths;
    std::vector<RefD> refs;
};
struct QueryD {
    std::string op;
    int ci, idx;
};
struct Desc {
    std::vector<CellD> cells;
    std::vector<QueryD> queries;
    std::string tag;
};

static void die(const std::string& msg) {
    fprintf(stderr, "c09 harness: %s\n", msg.c_str());
    fflush(NULL);
    abort();
}

// ------------------------------------------------------------------------------------ parsing
struct Tok {
    std::vector<std::string> t;
    size_t i;
    bool bad;
    explicit Tok(const std::string& s) : i(0), bad(false) {
        size_t p = 0;
        while (p < s.size()) {
            while (p < s.size() && (s[p] == ' ' || s[p] == '\t')) p++;
            size_t e = p;
            while (e < s.size() && s[e] != ' ' && s[e] != '\t') e++;
            if (e > p) t.push_back(s.substr(p, e - p));
            p = e;
        }
    }
    std::string next() {
        if (i >= t.size()) {
            bad = true;
            return "";
        }
        return t[i++];
    }
    bool expect(const char* w) {
        if (next() != w) bad = true;
        return !bad;
    }
    long num() {
        std::string s = next();
        if (s.empty() || s.size() > 9) {
            bad = true;
            return 0;
        }
        for (size_t k = 0; k < s.size(); k++)
            if (s[k] < '0' || s[k] > '9') {
                bad = true;
                return 0;
            }
        return strtol(s.c_str(), NULL, 10);
    }
    long count() {  // a list length: bounded so that malformed input cannot exhaust memory
        long n = num();
        if (n > 1000000) bad = true;
        return bad ? 0 : n;
    }
    double dbl() {
        std::string s = next();
        if (s.size() != 16) {
            bad = true;
            return 0;
        }
        for (size_t k = 0; k < 16; k++)
            if (!isxdigit((unsigned char)s[k])) {
                bad = true;
                return 0;
            }
        return bits_dbl(strtoull(s.c_str(), NULL, 16));
    }
    P2 pt() {
        P2 p;
        p.x = dbl();
        p.y = dbl();
        return p;
    }
    bool peek_is(const char* w) const { return i < t.size() && t[i] == w; }
    bool done() const { return i == t.size(); }
};

static void skip_lists(Tok& k) {
    k.expect(":");
    for (int rep = 0; rep < 2 && !k.bad; rep++) {
        long n = k.count();
        for (long j = 0; j < n && !k.bad; j++) k.pt();
    }
}

static void parse_rep(Tok& k, RepD& r) {
    std::string s = k.next();
    if (s.size() != 1) {
        k.bad = true;
        return;
    }
    r.type = s[0];
    switch (r.type) {
        case 'n': return;
        case 'R':
            r.cols = (uint64_t)k.num();
            r.rows = (uint64_t)k.num();
            r.a = k.dbl();
            r.b = k.dbl();
            break;
        case 'G':
            r.cols = (uint64_t)k.num();
            r.rows = (uint64_t)k.num();
            r.a = k.dbl();
            r.b = k.dbl();
            r.c = k.dbl();
            r.d = k.dbl();
            break;
        case 'X':
        case 'Y': {
            long n = k.count();
            for (long j = 0; j < n && !k.bad; j++) r.coords.push_back(k.dbl());
        } break;
        case 'E': {
            long n = k.count();
            for (long j = 0; j < n && !k.bad; j++) r.offs.push_back(k.pt());
        } break;
        default: k.bad = true; return;
    }
    skip_lists(k);
}

static void parse_poly(Tok& k, PolyD& p) {
    k.expect("p");
    long n = k.count();
    for (long j = 0; j < n && !k.bad; j++) p.pts.push_back(k.pt());
    parse_rep(k, p.rep);
}

static bool is_query_op(const std::string& op, int& nargs) {
    if (op == "z") nargs = 0;
    else if (op == "b" || op == "h" || op == "fb" || op == "fh") nargs = 1;
    else if (op == "B" || op == "H" || op == "fB" || op == "fH" || op == "p" || op == "l" || op == "P") nargs = 2;
    else return false;
    return true;
}

static bool parse_desc(const std::string& payload, Desc& d) {
    Tok k(payload);
    k.expect("C");
    long nc = k.count();
    for (long ci = 0; ci < nc && !k.bad; ci++) {
        CellD c;
        k.expect("c");
        c.nameidx = k.num();
        k.expect("P");
        long n = k.count();
        for (long j = 0; j < n && !k.bad; j++) {
            PolyD p;
            parse_poly(k, p);
            c.polys.push_back(p);
        }
        k.expect("L");
        n = k.count();
        for (long j = 0; j < n && !k.bad; j++) {
            LabelD l;
            k.expect("l");
            l.pos = k.pt();
            parse_rep(k, l.rep);
            c.labels.push_back(l);
        }
        k.expect("W");
        n = k.count();
        for (long j = 0; j < n && !k.bad; j++) {
            PathD w;
            k.expect("w");
            w.width = k.dbl();
            long m = k.count();
            for (long q = 0; q < m && !k.bad; q++) w.pts.push_back(k.pt());
            parse_rep(k, w.rep);
            c.paths.push_back(w);
        }
        if (k.peek_is("V")) {  // optional on input
            k.expect("V");
            n = k.count();
            for (long j = 0; j < n && !k.bad; j++) {
                RPathD v;
                k.expect("v");
                long nel = k.count();
                if (nel > 16) k.bad = true;
                for (long q = 0; q < nel && !k.bad; q++) {
                    v.widths.push_back(k.dbl());
                    v.offsets.push_back(k.dbl());
                }
                long m = k.count();
                for (long q = 0; q < m && !k.bad; q++) v.pts.push_back(k.pt());
                parse_rep(k, v.rep);
                c.rpaths.push_back(v);
            }
        }
        k.expect("F");  // derived: parsed and dropped
        n = k.count();
        for (long j = 0; j < n && !k.bad; j++) {
            PolyD p;
            parse_poly(k, p);
        }
        k.expect("R");
        n = k.count();
        for (long j = 0; j < n && !k.bad; j++) {
            RefD r;
            k.expect("r");
            r.child = (int)k.num();
            r.origin = k.pt();
            r.rot = k.dbl();
            k.dbl();  // cos: derived
            k.dbl();  // sin: derived
            k.num();  // quarter: derived
            r.mag = k.dbl();
            r.xrefl = k.num() != 0;
            parse_rep(k, r.rep);
            c.refs.push_back(r);
        }
        d.cells.push_back(c);
    }
    k.expect("Q");
    long nq = k.count();
    for (long j = 0; j < nq && !k.bad; j++) {
        QueryD q;
        q.op = k.next();
        q.ci = q.idx = 0;
        int na = 0;
        if (!is_query_op(q.op, na)) {
            k.bad = true;
            break;
        }
        if (na >= 1) q.ci = (int)k.num();
        if (na >= 2) q.idx = (int)k.num();
        d.queries.push_back(q);
    }
    k.expect("T");
    d.tag = k.next();
    if (!k.done()) k.bad = true;
    return !k.bad;
}

static bool valid_rep(const RepD& r) {
    switch (r.type) {
        case 'n': return true;
        case 'R':
        case 'G': return r.cols >= 1 && r.rows >= 1 && r.cols * r.rows <= 100000;
        case 'X':
        case 'Y': return r.coords.size() >= 1;
        case 'E': return r.offs.size() >= 1;
    }
    return false;
}

// a path element may carry an explicit repetition with an empty list (one copy, at the origin); the counts of the
// other kinds as above
static bool valid_rep_rpath(const RepD& r) {
    if (r.type == 'X' || r.type == 'Y' || r.type == 'E') return true;
    return valid_rep(r);
}

static bool valid_rpath(const RPathD& v) {
    if (!valid_rep_rpath(v.rep)) return false;
    if (v.widths.empty() || v.widths.size() > 4 || v.offsets.size() != v.widths.size()) return false;
    if (v.pts.empty()) return false;
    for (size_t j = 0; j < v.widths.size(); j++)
        if (!std::isfinite(v.widths[j]) || !std::isfinite(v.offsets[j]) || !(v.widths[j] > 0)) return false;
    for (size_t j = 0; j < v.pts.size(); j++) {
        if (!std::isfinite(v.pts[j].x) || !std::isfinite(v.pts[j].y)) return false;
        // a section of length zero has no direction: its outline is NaN
        if (j > 0 && v.pts[j].x == v.pts[j - 1].x && v.pts[j].y == v.pts[j - 1].y) return false;
    }
    return true;
}

// structural validity (inputs outside it would crash the library: empty explicit repetition on a
// reference, zero columns, dangling indices); such payloads are answered `invalid-input`
static bool valid_desc(const Desc& d) {
    if (d.tag.empty()) return false;
    for (size_t i = 0; i < d.cells.size(); i++) {
        const CellD& c = d.cells[i];
        for (auto& p : c.polys)
            if (!valid_rep(p.rep)) return false;
        for (auto& l : c.labels)
            if (!valid_rep(l.rep)) return false;
        for (auto& w : c.paths)
            if (!valid_rep(w.rep) || w.pts.empty()) return false;
        for (auto& v : c.rpaths)
            if (!valid_rpath(v)) return false;
        for (auto& r : c.refs)
            if (!valid_rep(r.rep) || r.child < 0 || (size_t)r.child >= i) return false;
    }
    return true;
}

// ------------------------------------------------------------------------------------ building
static void set_rep(Repetition& r, const RepD& d) {
    memset(&r, 0, sizeof r);
    switch (d.type) {
        case 'R':
            r.type = RepetitionType::Rectangular;
            r.columns = d.cols;
            r.rows = d.rows;
            r.spacing = Vec2{d.a, d.b};
            break;
        case 'G':
            r.type = RepetitionType::Regular;
            r.columns = d.cols;
            r.rows = d.rows;
            r.v1 = Vec2{d.a, d.b};
            r.v2 = Vec2{d.c, d.d};
            break;
        case 'X':
        case 'Y':
            r.type = d.type == 'X' ? RepetitionType::ExplicitX : RepetitionType::ExplicitY;
            for (double c : d.coords) r.coords.append(c);
            break;
        case 'E':
            r.type = RepetitionType::Explicit;
            for (auto& o : d.offs) r.offsets.append(Vec2{o.x, o.y});
            break;
        default: r.type = RepetitionType::None;
    }
}

struct Built {
    std::vector<Cell*> cells;
};

static void build(const Desc& d, Built& b) {
    for (size_t i = 0; i < d.cells.size(); i++) {
        const CellD& cd = d.cells[i];
        Cell* c = (Cell*)allocate_clear(sizeof(Cell));
        c->name = copy_string(("c" + std::to_string(cd.nameidx)).c_str(), NULL);
        for (auto& pd : cd.polys) {
            Polygon* p = (Polygon*)allocate_clear(sizeof(Polygon));
            for (auto& q : pd.pts) p->point_array.append(Vec2{q.x, q.y});
            set_rep(p->repetition, pd.rep);
            c->polygon_array.append(p);
        }
        for (auto& ld : cd.labels) {
            Label* l = (Label*)allocate_clear(sizeof(Label));
            l->init("t");
            l->origin = Vec2{ld.pos.x, ld.pos.y};
            set_rep(l->repetition, ld.rep);
            c->label_array.append(l);
        }
        for (auto& wd : cd.paths) {
            FlexPath* fp = (FlexPath*)allocate_clear(sizeof(FlexPath));
            double width = wd.width, offset = 0;
            Tag tag = 0;
            fp->init(Vec2{wd.pts[0].x, wd.pts[0].y}, 1, &width, &offset, 0.01, &tag);
            if (wd.pts.size() > 1) {
                Array<Vec2> rest = {};
                for (size_t j = 1; j < wd.pts.size(); j++) rest.append(Vec2{wd.pts[j].x, wd.pts[j].y});
                fp->segment(rest, NULL, NULL, false);
                rest.clear();
            }
            set_rep(fp->repetition, wd.rep);
            c->flexpath_array.append(fp);
        }
        for (auto& vd : cd.rpaths) {
            RobustPath* rp = (RobustPath*)allocate_clear(sizeof(RobustPath));
            std::vector<Tag> tags(vd.widths.size(), 0);
            rp->init(Vec2{vd.pts[0].x, vd.pts[0].y}, (uint64_t)vd.widths.size(), vd.widths.data(), vd.offsets.data(), 0.01, 1000, tags.data());
            for (size_t j = 1; j < vd.pts.size(); j++) rp->segment(Vec2{vd.pts[j].x, vd.pts[j].y}, NULL, NULL, false);
            set_rep(rp->repetition, vd.rep);
            c->robustpath_array.append(rp);
        }
        for (auto& rd : cd.refs) {
            Reference* r = (Reference*)allocate_clear(sizeof(Reference));
            r->type = ReferenceType::Cell;
            r->cell = b.cells[rd.child];
            r->origin = Vec2{rd.origin.x, rd.origin.y};
            r->rotation = rd.rot;
            r->magnification = rd.mag;
            r->x_reflection = rd.xrefl;
            set_rep(r->repetition, rd.rep);
            c->reference_array.append(r);
        }
        b.cells.push_back(c);
    }
}

static void destroy(Built& b) {
    for (Cell* c : b.cells) {
        for (uint64_t i = 0; i < c->polygon_array.count; i++) {
            c->polygon_array[i]->clear();
            free_allocation(c->polygon_array[i]);
        }
        for (uint64_t i = 0; i < c->label_array.count; i++) {
            c->label_array[i]->clear();
            free_allocation(c->label_array[i]);
        }
        for (uint64_t i = 0; i < c->flexpath_array.count; i++) {
            c->flexpath_array[i]->clear();
            free_allocation(c->flexpath_array[i]);
        }
        for (uint64_t i = 0; i < c->robustpath_array.count; i++) {
            c->robustpath_array[i]->clear();
            free_allocation(c->robustpath_array[i]);
        }
        for (uint64_t i = 0; i < c->reference_array.count; i++) {
            c->reference_array[i]->clear();
            free_allocation(c->reference_array[i]);
        }
        c->clear();
        free_allocation(c);
    }
    b.cells.clear();
}

static void free_polys(Array<Polygon*>& a) {
    for (uint64_t i = 0; i < a.count; i++) {
        a[i]->clear();
        free_allocation(a[i]);
    }
    a.clear();
}
static void free_labels(Array<Label*>& a) {
    for (uint64_t i = 0; i < a.count; i++) {
        a[i]->clear();
        free_allocation(a[i]);
    }
    a.clear();
}

// the polygons of the cell's F list: FlexPath outlines, then RobustPath outlines (one polygon per element, each
// carrying a copy of the path's repetition)
static void path_polys(Cell* c, Array<Polygon*>& out) {
    for (uint64_t i = 0; i < c->flexpath_array.count; i++) c->flexpath_array[i]->to_polygons(false, 0, out);
    for (uint64_t i = 0; i < c->robustpath_array.count; i++) c->robustpath_array[i]->to_polygons(false, 0, out);
}

// ------------------------------------------------------------------------------------ serialising
static std::string rep_text(const Repetition& r) {
    std::string s;
    switch (r.type) {
        case RepetitionType::None: return "n";
        case RepetitionType::Rectangular:
            s = "R " + std::to_string(r.columns) + " " + std::to_string(r.rows) + " " + hex_dbl(r.spacing.x) + " " + hex_dbl(r.spacing.y);
            break;
        case RepetitionType::Regular:
            s = "G " + std::to_string(r.columns) + " " + std::to_string(r.rows) + " " + hex_dbl(r.v1.x) + " " + hex_dbl(r.v1.y) + " " +
                hex_dbl(r.v2.x) + " " + hex_dbl(r.v2.y);
            break;
        case RepetitionType::ExplicitX:
        case RepetitionType::ExplicitY:
            s = std::string(r.type == RepetitionType::ExplicitX ? "X " : "Y ") + std::to_string(r.coords.count);
            for (uint64_t i = 0; i < r.coords.count; i++) s += " " + hex_dbl(r.coords[i]);
            break;
        case RepetitionType::Explicit:
            s = "E " + std::to_string(r.offsets.count);
            for (uint64_t i = 0; i < r.offsets.count; i++) s += " " + hex_dbl(r.offsets[i].x) + " " + hex_dbl(r.offsets[i].y);
            break;
    }
    Array<Vec2> offs = {}, exts = {};
    r.get_offsets(offs);
    r.get_extrema(exts);
    s += " : " + std::to_string(offs.count);
    for (uint64_t i = 0; i < offs.count; i++) s += " " + hex_dbl(offs[i].x) + " " + hex_dbl(offs[i].y);
    s += " " + std::to_string(exts.count);
    for (uint64_t i = 0; i < exts.count; i++) s += " " + hex_dbl(exts[i].x) + " " + hex_dbl(exts[i].y);
    offs.clear();
    exts.clear();
    return s;
}

static std::string poly_text(const Polygon* p) {
    std::string s = "p " + std::to_string(p->point_array.count);
    for (uint64_t i = 0; i < p->point_array.count; i++) s += " " + hex_dbl(p->point_array[i].x) + " " + hex_dbl(p->point_array[i].y);
    return s + " " + rep_text(p->repetition);
}

static std::string query_text(const QueryD& q) {
    int na = 0;
    is_query_op(q.op, na);
    std::string s = q.op;
    if (na >= 1) s += " " + std::to_string(q.ci);
    if (na >= 2) s += " " + std::to_string(q.idx);
    return s;
}

static std::string serialise(const Desc& d, Built& b) {
    std::string s = "C " + std::to_string(d.cells.size());
    for (size_t i = 0; i < d.cells.size(); i++) {
        const CellD& cd = d.cells[i];
        Cell* c = b.cells[i];
        s += " c " + std::to_string(cd.nameidx);
        s += " P " + std::to_string(c->polygon_array.count);
        for (uint64_t j = 0; j < c->polygon_array.count; j++) s += " " + poly_text(c->polygon_array[j]);
        s += " L " + std::to_string(c->label_array.count);
        for (uint64_t j = 0; j < c->label_array.count; j++) {
            Label* l = c->label_array[j];
            s += " l " + hex_dbl(l->origin.x) + " " + hex_dbl(l->origin.y) + " " + rep_text(l->repetition);
        }
        s += " W " + std::to_string(cd.paths.size());
        for (size_t j = 0; j < cd.paths.size(); j++) {
            const PathD& w = cd.paths[j];
            s += " w " + hex_dbl(w.width) + " " + std::to_string(w.pts.size());
            for (auto& q : w.pts) s += " " + hex_dbl(q.x) + " " + hex_dbl(q.y);
            s += " " + rep_text(c->flexpath_array[j]->repetition);
        }
        s += " V " + std::to_string(cd.rpaths.size());
        for (size_t j = 0; j < cd.rpaths.size(); j++) {
            const RPathD& v = cd.rpaths[j];
            s += " v " + std::to_string(v.widths.size());
            for (size_t q = 0; q < v.widths.size(); q++) s += " " + hex_dbl(v.widths[q]) + " " + hex_dbl(v.offsets[q]);
            s += " " + std::to_string(v.pts.size());
            for (auto& q : v.pts) s += " " + hex_dbl(q.x) + " " + hex_dbl(q.y);
            s += " " + rep_text(c->robustpath_array[j]->repetition);
        }
        Array<Polygon*> f = {};
        path_polys(c, f);
        s += " F " + std::to_string(f.count);
        for (uint64_t j = 0; j < f.count; j++) s += " " + poly_text(f[j]);
        free_polys(f);
        s += " R " + std::to_string(c->reference_array.count);
        for (uint64_t j = 0; j < c->reference_array.count; j++) {
            Reference* r = c->reference_array[j];
            int64_t m = 0;
            bool quarter = is_multiple_of_pi_over_2(r->rotation, m);
            double ca = cos(r->rotation);
            double sa = sin(r->rotation);
            s += " r " + std::to_string(cd.refs[j].child) + " " + hex_dbl(r->origin.x) + " " + hex_dbl(r->origin.y) + " " +
                 hex_dbl(r->rotation) + " " + hex_dbl(ca) + " " + hex_dbl(sa) + " " + (quarter ? "1" : "0") + " " +
                 hex_dbl(r->magnification) + " " + (r->x_reflection ? "1" : "0") + " " + rep_text(r->repetition);
        }
    }
    s += " Q " + std::to_string(d.queries.size());
    for (auto& q : d.queries) s += " " + query_text(q);
    s += " T " + d.tag;
    return s;
}

// ------------------------------------------------------------------------------------ result text
static int64_t grid(double v) { return (int64_t)llround(v * 1048576.0); }

static std::string box_text(Vec2 mn, Vec2 mx) {
    if (mn.x > mx.x) return "b:inv";
    return "b:" + hex_i64(grid(mn.x)) + "," + hex_i64(grid(mn.y)) + "," + hex_i64(grid(mx.x)) + "," + hex_i64(grid(mx.y));
}

// Canonical text of a hull (identical algorithm in coq/BBox.v canon_pts): round to the 2^-20 grid, strictly convex
// hull of the distinct grid points in exact integer arithmetic, drop corners within 8 grid units of the chord of
// their neighbours (first such corner in order, repeated), sort.  Insensitive to 1e-16 perturbations.
typedef std::pair<int64_t, int64_t> ZP;
typedef __int128 I128;
static I128 zcross(const ZP& o, const ZP& a, const ZP& b) {
    return (I128)(a.first - o.first) * (I128)(b.second - o.second) - (I128)(a.second - o.second) * (I128)(b.first - o.first);
}
static std::vector<ZP> zchain(const std::vector<ZP>& l) {  // returned as a stack: last pushed first
    std::vector<ZP> st;                                     // st.back() is the top
    for (auto& p : l) {
        while (st.size() >= 2 && !(zcross(st[st.size() - 2], st[st.size() - 1], p) > 0)) st.pop_back();
        st.push_back(p);
    }
    return st;  // bottom .. top  ==  rev of the Coq list (top first)
}
static std::vector<ZP> zhull(const std::vector<ZP>& s) {
    if (s.size() <= 1) return s;
    std::vector<ZP> lo = zchain(s);
    std::vector<ZP> r(s.rbegin(), s.rend());
    std::vector<ZP> up = zchain(r);
    // Coq: rev (tl lower) ++ rev (tl upper), lower/upper with the top first  ==  bottom..top without the top
    std::vector<ZP> h(lo.begin(), lo.end() - 1);
    h.insert(h.end(), up.begin(), up.end() - 1);
    return h;
}
static bool znear(const ZP& a, const ZP& v, const ZP& b) {
    I128 c = zcross(a, v, b);
    if (c < 0) c = -c;
    int64_t dx = b.first - a.first, dy = b.second - a.second;
    if (dx < 0) dx = -dx;
    if (dy < 0) dy = -dy;
    return c <= (I128)8 * (I128)std::max(dx, dy);
}
static std::vector<ZP> zprune(std::vector<ZP> V) {
    size_t fuel = V.size();
    while (fuel-- > 0) {
        if (V.size() <= 2) break;
        bool removed = false;
        size_t n = V.size();
        for (size_t i = 0; i < n; i++) {
            const ZP& prev = V[(i + n - 1) % n];
            const ZP& next = V[(i + 1) % n];
            if (znear(prev, V[i], next)) {
                V.erase(V.begin() + (long)i);
                removed = true;
                break;
            }
        }
        if (!removed) break;
    }
    return V;
}
static std::string hull_text(const std::vector<P2>& pts) {
    std::vector<ZP> v;
    for (auto& p : pts) v.push_back(std::make_pair(grid(p.x), grid(p.y)));
    std::sort(v.begin(), v.end());
    v.erase(std::unique(v.begin(), v.end()), v.end());
    v = zprune(zhull(v));
    std::sort(v.begin(), v.end());
    std::string s = "h:";
    for (size_t i = 0; i < v.size(); i++) {
        if (i) s += "/";
        s += hex_i64(v[i].first) + "," + hex_i64(v[i].second);
    }
    return s;
}

// ------------------------------------------------------------------------------------ oracles
typedef long double LD;

static LD cross3(const P2& a, const P2& b, const P2& c) { return ((LD)b.x - a.x) * ((LD)c.y - a.y) - ((LD)b.y - a.y) * ((LD)c.x - a.x); }

static std::string num(double v) {
    char b[40];
    snprintf(b, sizeof b, "%.12g", v);
    return b;
}
static std::string ptxt(const P2& p) { return "(" + num(p.x) + "," + num(p.y) + ")"; }

// monotone chain, strictly convex corners only
static std::vector<P2> my_hull(std::vector<P2> p) {
    std::sort(p.begin(), p.end(), [](const P2& a, const P2& b) { return a.x < b.x || (a.x == b.x && a.y < b.y); });
    p.erase(std::unique(p.begin(), p.end(), [](const P2& a, const P2& b) { return a.x == b.x && a.y == b.y; }), p.end());
    size_t n = p.size();
    if (n < 3) return p;
    std::vector<P2> h(2 * n);
    size_t k = 0;
    for (size_t i = 0; i < n; i++) {
        while (k >= 2 && cross3(h[k - 2], h[k - 1], p[i]) <= 0) k--;
        h[k++] = p[i];
    }
    for (size_t i = n - 1, t = k + 1; i > 0; i--) {
        while (k >= t && cross3(h[k - 2], h[k - 1], p[i - 1]) <= 0) k--;
        h[k++] = p[i - 1];
    }
    h.resize(k - 1);
    return h;  // counter-clockwise; 2 points when everything is collinear
}

static bool all_collinear(const std::vector<P2>& g) {
    size_t j = 1;
    while (j < g.size() && g[j].x == g[0].x && g[j].y == g[0].y) j++;
    if (j >= g.size()) return true;
    for (size_t i = 0; i < g.size(); i++)
        if (cross3(g[0], g[j], g[i]) != 0) return false;
    return true;
}

// "" when fine, otherwise a short text.  rel = relative tolerance (0: exact contract)
static std::string check_box(bool inv, Vec2 mn, Vec2 mx, const std::vector<P2>& G) {
    if (G.empty()) return inv ? "" : "box of empty geometry is not inverted";
    double e[4] = {G[0].x, G[0].y, G[0].x, G[0].y};
    for (auto& p : G) {
        if (p.x < e[0]) e[0] = p.x;
        if (p.y < e[1]) e[1] = p.y;
        if (p.x > e[2]) e[2] = p.x;
        if (p.y > e[3]) e[3] = p.y;
    }
    if (inv) return "box inverted but geometry has " + std::to_string(G.size()) + " points, expected [" + num(e[0]) + "," + num(e[1]) + "," + num(e[2]) + "," + num(e[3]) + "]";
    double got[4] = {mn.x, mn.y, mx.x, mx.y};
    const char* nm[4] = {"xmin", "ymin", "xmax", "ymax"};
    for (int i = 0; i < 4; i++)
        if (!(fabs(got[i] - e[i]) <= 1e-9 * (1 + fabs(e[i])))) return std::string(nm[i]) + " got " + num(got[i]) + " expected " + num(e[i]);
    return "";
}

static std::string check_hull(const std::vector<P2>& H, const std::vector<P2>& G, double rel, bool bitwise) {
    if (G.empty()) return H.empty() ? "" : "hull of empty geometry has " + std::to_string(H.size()) + " points";
    if (H.empty()) return "hull-type: empty hull but geometry has " + std::to_string(G.size()) + " points, e.g. " + ptxt(G[0]);
    // (i) corners come from the geometry
    for (auto& c : H) {
        bool found = false;
        double tol = bitwise ? 0 : rel * (1 + std::max(fabs(c.x), fabs(c.y)));
        for (auto& g : G)
            if (fabs(g.x - c.x) <= tol && fabs(g.y - c.y) <= tol) {
                found = true;
                break;
            }
        if (!found) return "hull-type: corner " + ptxt(c) + " is not a point of the geometry";
    }
    // (ii) geometry inside the hull of the corners
    double scale = 1;
    for (auto& p : H) scale = std::max(scale, std::max(fabs(p.x), fabs(p.y)));
    for (auto& p : G) scale = std::max(scale, std::max(fabs(p.x), fabs(p.y)));
    LD tol2 = (LD)rel * scale * scale;
    std::vector<P2> K = my_hull(H);
    if (K.size() >= 3) {
        for (auto& g : G)
            for (size_t i = 0; i < K.size(); i++) {
                const P2& a = K[i];
                const P2& b = K[(i + 1) % K.size()];
                if (cross3(a, b, g) < -tol2) return "hull-type: point " + ptxt(g) + " outside the hull edge " + ptxt(a) + "-" + ptxt(b);
            }
    } else if (K.size() == 2) {
        const P2& a = K[0];
        const P2& b = K[1];
        LD len2 = ((LD)b.x - a.x) * ((LD)b.x - a.x) + ((LD)b.y - a.y) * ((LD)b.y - a.y);
        for (auto& g : G) {
            LD cr = cross3(a, b, g);
            LD dt = ((LD)g.x - a.x) * ((LD)b.x - a.x) + ((LD)g.y - a.y) * ((LD)b.y - a.y);
            if (cr > tol2 || cr < -tol2 || dt < -tol2 || dt > len2 + tol2)
                return "hull-type: point " + ptxt(g) + " not on the segment " + ptxt(a) + "-" + ptxt(b);
        }
    } else {
        const P2& a = K[0];
        double tol = rel * (1 + std::max(fabs(a.x), fabs(a.y)));
        for (auto& g : G)
            if (fabs(g.x - a.x) > tol || fabs(g.y - a.y) > tol) return "hull-type: point " + ptxt(g) + " differs from the single corner " + ptxt(a);
    }
    return "";
}

// flattened geometry through the implementation's own get_polygons / get_labels
static void collect(Array<Polygon*>& pa, Array<Label*>& la, std::vector<P2>& G) {
    for (uint64_t i = 0; i < pa.count; i++)
        for (uint64_t j = 0; j < pa[i]->point_array.count; j++) G.push_back(P2{pa[i]->point_array[j].x, pa[i]->point_array[j].y});
    for (uint64_t i = 0; i < la.count; i++) G.push_back(P2{la[i]->origin.x, la[i]->origin.y});
    free_polys(pa);
    free_labels(la);
}
static std::vector<P2> flat_cell(Cell* c) {
    std::vector<P2> G;
    Array<Polygon*> pa = {};
    Array<Label*> la = {};
    c->get_polygons(true, true, -1, false, 0, pa);
    c->get_labels(true, -1, false, 0, la);
    collect(pa, la, G);
    return G;
}
static std::vector<P2> flat_ref(Reference* r) {
    std::vector<P2> G;
    Array<Polygon*> pa = {};
    Array<Label*> la = {};
    r->get_polygons(true, true, -1, false, 0, pa);
    r->get_labels(true, -1, false, 0, la);
    collect(pa, la, G);
    return G;
}
static std::vector<P2> flat_elem(const std::vector<P2>& pts, const Repetition& rep) {
    if (rep.type == RepetitionType::None) return pts;
    std::vector<P2> G;
    Array<Vec2> offs = {};
    rep.get_offsets(offs);
    for (uint64_t k = 0; k < offs.count; k++)
        for (auto& p : pts) G.push_back(P2{p.x + offs[k].x, p.y + offs[k].y});
    offs.clear();
    return G;
}

// ------------------------------------------------------------------------------------ running
struct QRes {
    bool is_box, inv;
    Vec2 mn, mx;
    std::vector<P2> hull;
};

static void clear_cache(Map<GeometryInfo>& cache) {
    for (MapItem<GeometryInfo>* item = cache.next(NULL); item; item = cache.next(item)) item->value.clear();
    cache.clear();
}

static bool query_in_range(const QueryD& q, Built& b) {
    if (q.op == "z") return true;
    if (q.ci < 0 || (size_t)q.ci >= b.cells.size()) return false;
    Cell* c = b.cells[q.ci];
    if (q.op == "b" || q.op == "h" || q.op == "fb" || q.op == "fh") return true;
    if (q.idx < 0) return false;
    if (q.op == "p") return (uint64_t)q.idx < c->polygon_array.count;
    if (q.op == "l") return (uint64_t)q.idx < c->label_array.count;
    if (q.op == "P") {
        Array<Polygon*> f = {};
        path_polys(c, f);
        bool ok = (uint64_t)q.idx < f.count;
        free_polys(f);
        return ok;
    }
    return (uint64_t)q.idx < c->reference_array.count;
}

static void copy_hull(const Array<Vec2>& a, std::vector<P2>& v) {
    for (uint64_t i = 0; i < a.count; i++) v.push_back(P2{a[i].x, a[i].y});
}

// every coordinate of every path outline finite and of moderate size (the result text is on a 2^-20 grid in 64 bits)
static bool outlines_usable(Built& b) {
    bool ok = true;
    for (Cell* c : b.cells) {
        Array<Polygon*> f = {};
        path_polys(c, f);
        for (uint64_t i = 0; i < f.count; i++)
            for (uint64_t j = 0; j < f[i]->point_array.count; j++) {
                Vec2 v = f[i]->point_array[j];
                if (!(fabs(v.x) <= 1e6) || !(fabs(v.y) <= 1e6)) ok = false;
            }
        free_polys(f);
    }
    return ok;
}

// an Explicit list with an offset that is a corner of the hull of all copies but not one of get_extrema's (at most
// four, axis-extreme) offsets: only code that repeats at EVERY offset gets the hull right
static bool explicit_diagonal_extreme(const Repetition& r) {
    if (r.type != RepetitionType::Explicit) return false;
    Array<Vec2> offs = {}, exts = {};
    r.get_offsets(offs);
    r.get_extrema(exts);
    std::vector<P2> o;
    for (uint64_t i = 0; i < offs.count; i++) o.push_back(P2{offs[i].x, offs[i].y});
    bool found = false;
    for (auto& h : my_hull(o)) {
        bool in = false;
        for (uint64_t i = 0; i < exts.count; i++)
            if (exts[i].x == h.x && exts[i].y == h.y) in = true;
        if (!in) found = true;
    }
    offs.clear();
    exts.clear();
    return found;
}

static const std::string KEY_BOX = "bbox-vs-flatten";
static const std::string KEY_HULL = "hull-vs-flatten";
static const std::string KEY_F9 = "Reference::convex_hull:explicit-rep";
static const std::string KEY_F10 = "convex_hull:collinear-descending";
static const std::string KEY_CRASH = "c09-crash";

static void run_hier(Out& out, const std::string& payload_in, bool generated) {
    Desc d;
    if (!parse_desc(payload_in, d) || !valid_desc(d)) {
        if (generated) die("generated payload does not parse: " + payload_in);
        std::string id = out.add("hier", payload_in);
        out.I(id, "invalid-input");
        out.count("invalid-input");
        return;
    }
    Built b;
    build(d, b);
    bool in_range = true;
    for (auto& q : d.queries)
        if (!query_in_range(q, b)) in_range = false;
    if (!in_range) {
        if (generated) die("generated query out of range: " + payload_in);
        destroy(b);
        std::string id = out.add("hier", payload_in);
        out.I(id, "invalid-input");
        out.count("invalid-input");
        return;
    }
    if (!outlines_usable(b)) {  // a path whose outline is not finite (e.g. a RobustPath folding back onto itself)
        if (generated) die("generated path has an unusable outline: " + payload_in);
        destroy(b);
        std::string id = out.add("hier", payload_in);
        out.I(id, "invalid-input");
        out.count("invalid-input");
        return;
    }
    std::string payload = serialise(d, b);
    if (generated && payload != payload_in) die("payload changed by the parse / build round trip\n in : " + payload_in + "\n out: " + payload);
    {  // round trip: the emitted payload re-parses to the identical payload
        Desc d2;
        if (!parse_desc(payload, d2) || !valid_desc(d2)) die("emitted payload does not re-parse: " + payload);
        Built b2;
        build(d2, b2);
        std::string p2 = serialise(d2, b2);
        destroy(b2);
        if (p2 != payload) die("payload round trip mismatch\n first : " + payload + "\n second: " + p2);
    }
    std::string id = out.add("hier", payload);
    size_t nc = d.cells.size();

    // ---- statistics of the input
    out.count("family:" + d.tag);
    out.count("cells", (long)nc);
    for (size_t i = 0; i < nc; i++) {
        const CellD& c = d.cells[i];
        for (auto& p : c.polys) out.count(std::string("rep:") + p.rep.type + ":elem");
        for (auto& l : c.labels) out.count(std::string("rep:") + l.rep.type + ":elem");
        for (auto& w : c.paths) out.count(std::string("rep:") + w.rep.type + ":elem");
        for (auto& v : c.rpaths) out.count(std::string("rep:") + v.rep.type + ":elem");
        for (size_t j = 0; j < c.refs.size(); j++) {
            out.count(std::string("rep:") + c.refs[j].rep.type + ":ref");
            int64_t m = 0;
            double rot = c.refs[j].rot;
            out.count(rot == 0 ? "rot:zero" : (is_multiple_of_pi_over_2(rot, m) ? "rot:quarter" : "rot:other"));
        }
    }

    {  // RobustPaths of the case: how many, which repetition kinds, where
        std::set<std::string> kinds;
        std::vector<bool> rp_below(nc, false);
        bool any = false, oblique = false, transformed = false, uneven = false;
        for (size_t i = 0; i < nc; i++) {
            const CellD& c = d.cells[i];
            for (size_t j = 0; j < c.rpaths.size(); j++) {
                const RPathD& v = c.rpaths[j];
                const Repetition& r = b.cells[i]->robustpath_array[j]->repetition;
                std::string kd(1, v.rep.type);
                if (v.rep.type == 'E') {
                    if (v.rep.offs.empty()) kd = "E-empty";
                    else if (explicit_diagonal_extreme(r)) kd = "E-diagonal-extreme";
                    else if (v.rep.offs.size() == 1) kd = "E-single";
                } else if (v.rep.type == 'X' || v.rep.type == 'Y') {
                    if (v.rep.coords.empty()) kd += "-empty";
                    else if (v.rep.coords.size() == 1) kd += "-single";
                }
                kinds.insert(kd);
                out.count("rpath:rep:" + kd);
                out.count("rpath:paths");
                out.count("rpath:elements" + std::to_string(v.widths.size()));
                out.count("rpath:sections" + std::to_string(v.pts.size() - 1));
                any = true;
            }
            if (!c.rpaths.empty()) rp_below[i] = true;
            if (!c.rpaths.empty() && c.rpaths.size() != c.paths.size()) uneven = true;
            for (auto& r : c.refs)
                if (rp_below[r.child]) {
                    rp_below[i] = true;
                    int64_t m = 0;
                    if (!is_multiple_of_pi_over_2(r.rot, m)) oblique = true;
                    if (r.xrefl || r.mag != 1) transformed = true;
                }
        }
        if (any) {
            out.count("rpath:cases");
            for (auto& kd : kinds) out.count("rpath:cases-with-rep:" + kd);
            if (oblique) out.count("rpath:cases-under-oblique-reference");
            if (transformed) out.count("rpath:cases-under-reflected-or-magnified-reference");
            if (uneven) out.count("rpath:cases-robustpath-count-differs-from-flexpath-count");
        }
    }

    // ---- the script: a crash or a hang inside the library is recorded with this input (kind hier-crash)
    guard_begin(out, "hier", payload, KEY_CRASH, 600);
    Map<GeometryInfo> cache = {};
    std::vector<QRes> res(d.queries.size());
    // doubled[c]: since the last `z`, a direct `h c` ran while the cached hull of c was already valid, so the
    // cached hull of c holds its points more than once (Cell::convex_hull appends to the cached array)
    std::vector<bool> doubled(nc, false);
    std::vector<std::vector<bool>> doubled_at(d.queries.size());
    std::string itext;
    bool first = true;
    for (size_t qi = 0; qi < d.queries.size(); qi++) {
        const QueryD& q = d.queries[qi];
        QRes& r = res[qi];
        r.is_box = true;
        r.inv = false;
        r.mn = r.mx = Vec2{0, 0};
        out.count("q:" + q.op);
        if (q.op == "z") {
            clear_cache(cache);
            doubled.assign(nc, false);
            continue;
        }
        out.count("queries");
        Cell* c = b.cells[q.ci];
        if (q.op == "h" && cache.get(c->name).convex_hull_valid) {
            doubled[q.ci] = true;
            out.count("h-on-valid-hull");
        }
        doubled_at[qi] = doubled;
        if (q.op == "b") {
            GeometryInfo info = c->bounding_box(cache);
            r.mn = info.bounding_box_min;
            r.mx = info.bounding_box_max;
        } else if (q.op == "h") {
            GeometryInfo info = c->convex_hull(cache);
            r.is_box = false;
            copy_hull(info.convex_hull, r.hull);  // the cache owns the array
        } else if (q.op == "B") {
            c->reference_array[q.idx]->bounding_box(r.mn, r.mx, cache);
        } else if (q.op == "H") {
            Array<Vec2> a = {};
            c->reference_array[q.idx]->convex_hull(a, cache);
            r.is_box = false;
            copy_hull(a, r.hull);
            a.clear();
        } else if (q.op == "fb") {
            c->bounding_box(r.mn, r.mx);
        } else if (q.op == "fh") {
            Array<Vec2> a = {};
            c->convex_hull(a);
            r.is_box = false;
            copy_hull(a, r.hull);
            a.clear();
        } else if (q.op == "fB") {
            c->reference_array[q.idx]->bounding_box(r.mn, r.mx);
        } else if (q.op == "fH") {
            Array<Vec2> a = {};
            c->reference_array[q.idx]->convex_hull(a);
            r.is_box = false;
            copy_hull(a, r.hull);
            a.clear();
        } else if (q.op == "p") {
            c->polygon_array[q.idx]->bounding_box(r.mn, r.mx);
        } else if (q.op == "l") {
            c->label_array[q.idx]->bounding_box(r.mn, r.mx);
        } else if (q.op == "P") {
            Array<Polygon*> f = {};
            path_polys(c, f);
            f[q.idx]->bounding_box(r.mn, r.mx);
            free_polys(f);
        }
        if (r.is_box) r.inv = r.mn.x > r.mx.x;
        if (!first) itext += ";";
        first = false;
        itext += r.is_box ? box_text(r.mn, r.mx) : hull_text(r.hull);
    }
    clear_cache(cache);
    out.I(id, itext);

    // ---- property oracle
    std::vector<std::vector<P2>> Gcell(nc);
    std::vector<bool> have_cell(nc, false);
    std::map<std::pair<int, int>, std::vector<P2>> Gref;
    auto cellG = [&](int ci) -> const std::vector<P2>& {
        if (!have_cell[ci]) {
            Gcell[ci] = flat_cell(b.cells[ci]);
            have_cell[ci] = true;
        }
        return Gcell[ci];
    };
    // subtree facts, children first
    std::vector<bool> sub_explicit(nc, false), sub_collinear(nc, false);
    for (size_t i = 0; i < nc; i++) {
        bool e = false, col = false;
        for (auto& r : d.cells[i].refs) {
            if (r.rep.type == 'E' || sub_explicit[r.child]) e = true;
            if (sub_collinear[r.child]) col = true;
        }
        sub_explicit[i] = e;
        sub_collinear[i] = col;
    }
    std::vector<int> need_col(nc, -1);  // lazily: G(cell) has >= 4 points, all collinear
    std::function<bool(int)> collinear_below = [&](int ci) -> bool {
        if (need_col[ci] < 0) {
            const std::vector<P2>& g = cellG(ci);
            bool v = g.size() >= 4 && all_collinear(g);
            for (auto& r : d.cells[ci].refs)
                if (collinear_below(r.child)) v = true;
            need_col[ci] = v ? 1 : 0;
        }
        return need_col[ci] == 1;
    };

    // a collinear cell (any number of points) of the subtree whose cached hull was doubled: the duplicates
    // bring the point count handed to gdstk::convex_hull to >= 4 and the same collinear branch (F10) runs
    std::function<int(int, const std::vector<bool>&)> doubled_collinear_below = [&](int ci, const std::vector<bool>& dbl) -> int {
        if (dbl[ci]) {
            const std::vector<P2>& g = cellG(ci);
            if (!g.empty() && all_collinear(g)) return ci;
        }
        for (auto& r : d.cells[ci].refs) {
            int f = doubled_collinear_below(r.child, dbl);
            if (f >= 0) return f;
        }
        return -1;
    };

    std::string fail_unexplained, fail_known;
    for (size_t qi = 0; qi < d.queries.size(); qi++) {
        const QueryD& q = d.queries[qi];
        if (q.op == "z") continue;
        QRes& r = res[qi];
        Cell* c = b.cells[q.ci];
        std::vector<P2> Glocal;
        const std::vector<P2>* G = &Glocal;
        bool refq = q.op == "B" || q.op == "H" || q.op == "fB" || q.op == "fH";
        bool cellq = q.op == "b" || q.op == "h" || q.op == "fb" || q.op == "fh";
        if (cellq) {
            G = &cellG(q.ci);
        } else if (refq) {
            std::pair<int, int> key(q.ci, q.idx);
            auto it = Gref.find(key);
            if (it == Gref.end()) it = Gref.insert(std::make_pair(key, flat_ref(c->reference_array[q.idx]))).first;
            G = &it->second;
        } else if (q.op == "p") {
            Polygon* p = c->polygon_array[q.idx];
            std::vector<P2> pts;
            copy_hull(p->point_array, pts);
            Glocal = flat_elem(pts, p->repetition);
        } else if (q.op == "l") {
            Label* l = c->label_array[q.idx];
            std::vector<P2> pts(1, P2{l->origin.x, l->origin.y});
            Glocal = flat_elem(pts, l->repetition);
        } else {
            Array<Polygon*> f = {};
            path_polys(c, f);
            std::vector<P2> pts;
            copy_hull(f[q.idx]->point_array, pts);
            Glocal = flat_elem(pts, f[q.idx]->repetition);
            free_polys(f);
        }
        std::string why = r.is_box ? check_box(r.inv, r.mn, r.mx, *G) : check_hull(r.hull, *G, 1e-9, false);
        if (why.empty()) continue;
        std::string key = r.is_box ? KEY_BOX : KEY_HULL;
        bool known = false;
        if (cellq || refq) {
            int top = cellq ? q.ci : d.cells[q.ci].refs[q.idx].child;
            bool expl = sub_explicit[top] || (refq && d.cells[q.ci].refs[q.idx].rep.type == 'E');
            if (expl) {
                key = KEY_F9;
                known = true;
            } else if (collinear_below(top)) {
                key = KEY_F10;
                known = true;
            } else {
                int dc = doubled_collinear_below(top, doubled_at[qi]);
                if (dc >= 0) {
                    key = KEY_F10;
                    known = true;
                    out.count("fail-route:f10-via-repeated-h");
                    why += " (collinear cell c" + std::to_string(dc) + " has its cached hull doubled by a repeated h)";
                }
            }
        }
        out.count("fail:" + key);
        std::string text = "FAIL " + key + " q" + std::to_string(qi) + " " + query_text(q) + " " + (r.is_box ? "box-type: " : "") + why;
        if (known) {
            if (fail_known.empty()) fail_known = text;
        } else {
            if (fail_unexplained.empty()) fail_unexplained = text;
        }
    }
    guard_end();
    out.P(id, !fail_unexplained.empty() ? fail_unexplained : (!fail_known.empty() ? fail_known : std::string("ok")));
    destroy(b);
}

// ------------------------------------------------------------------------------------ kind qh
static bool parse_qh(const std::string& payload, std::vector<P2>& pts) {
    Tok k(payload);
    long n = k.count();
    for (long i = 0; i < n && !k.bad; i++) pts.push_back(k.pt());
    return !k.bad && k.done();
}
static std::string qh_payload(const std::vector<P2>& pts) {
    std::string s = std::to_string(pts.size());
    for (auto& p : pts) s += " " + hex_dbl(p.x) + " " + hex_dbl(p.y);
    return s;
}

static void run_qh(Out& out, const std::string& payload_in, bool generated) {
    std::vector<P2> pts;
    if (!parse_qh(payload_in, pts)) {
        if (generated) die("generated qh payload does not parse: " + payload_in);
        std::string id = out.add("qh", payload_in);
        out.I(id, "invalid-input");
        out.count("invalid-input");
        return;
    }
    std::string payload = qh_payload(pts);
    if (generated && payload != payload_in) die("qh payload changed by the round trip");
    {
        std::vector<P2> again;
        if (!parse_qh(payload, again) || qh_payload(again) != payload) die("qh payload round trip mismatch: " + payload);
    }
    std::string id = out.add("qh", payload);
    out.count("qh:n" + std::to_string(std::min<size_t>(pts.size(), 12)));
    Array<Vec2> in = {};
    for (auto& p : pts) in.append(Vec2{p.x, p.y});
    Array<Vec2> a = {};
    gdstk::convex_hull(in, a);
    std::vector<P2> H;
    copy_hull(a, H);
    a.clear();
    in.clear();
    out.I(id, hull_text(H));
    bool col = pts.size() >= 4 && all_collinear(pts);
    if (col) out.count("qh:collinear");
    std::string why = check_hull(H, pts, 0, true);
    if (why.empty()) {
        out.P(id, "ok");
    } else {
        std::string key = col ? KEY_F10 : KEY_HULL;
        out.count("fail:" + key);
        out.P(id, "FAIL " + key + " qh " + why);
    }
}

static void run_case(Out& out, const std::string& kind, const std::string& payload, bool generated) {
    if (kind == "hier" || kind == "hier-crash") run_hier(out, payload, generated);
    else if (kind == "qh") run_qh(out, payload, generated);
    else {
        std::string id = out.add(kind, payload);
        out.I(id, "unknown-kind");
    }
}

// generated Desc -> payload (through a throw-away build) -> the common path
static void run_desc(Out& out, const Desc& d) {
    if (!valid_desc(d)) die("generator produced an invalid description");
    Built b;
    build(d, b);
    std::string payload = serialise(d, b);
    destroy(b);
    run_hier(out, payload, true);
}

// ------------------------------------------------------------------------------------ generators
static P2 ipt(Rng& g, int lo, int hi) {
    P2 p;
    p.x = (double)g.range(lo, hi);
    p.y = (double)g.range(lo, hi);
    return p;
}

static uint64_t rep_count(const RepD& r) {
    switch (r.type) {
        case 'R':
        case 'G': return r.cols * r.rows;
        case 'X':
        case 'Y': return r.coords.size() + 1;
        case 'E': return r.offs.size() + 1;
    }
    return 1;
}

static RepD gen_rep(Rng& g, bool allow_explicit) {
    RepD r;
    if (g.coin()) return r;
    const char* kinds = allow_explicit ? "RGXYE" : "RGXY";
    r.type = kinds[g.below(allow_explicit ? 5 : 4)];
    switch (r.type) {
        case 'R':
            r.cols = (uint64_t)g.range(1, 3);
            r.rows = (uint64_t)g.range(1, 3);
            r.a = (double)g.range(-8, 8);
            r.b = (double)g.range(-8, 8);
            break;
        case 'G':
            r.cols = (uint64_t)g.range(1, 3);
            r.rows = (uint64_t)g.range(1, 3);
            r.a = (double)g.range(-8, 8);
            r.b = (double)g.range(-8, 8);
            r.c = (double)g.range(-8, 8);
            r.d = (double)g.range(-8, 8);
            break;
        case 'X':
        case 'Y': {
            int k = (int)g.range(1, 3);
            for (int i = 0; i < k; i++) r.coords.push_back((double)g.range(-8, 8));
        } break;
        case 'E': {
            int k = (int)g.range(1, 3);
            for (int i = 0; i < k; i++) r.offs.push_back(ipt(g, -8, 8));
        } break;
    }
    return r;
}

// ---- RobustPaths: straight sections through integer points, consecutive sections never parallel (a section that
// continues or folds back its predecessor makes the side intersections degenerate), widths 1 / 2 and offsets that are
// multiples of 1/2: as for FlexPaths the corner vertices are not float-exact (unit normals), but nowhere near a tie of
// the 2^-20 grid or of a hull decision.  The outline is built once to make sure it is finite and stays near the path.
static bool rpath_outline_ok(const RPathD& v, double bound) {
    Desc d;
    CellD c;
    c.nameidx = 0;
    c.rpaths.push_back(v);
    c.rpaths[0].rep = RepD();
    d.cells.push_back(c);
    d.tag = "probe";
    Built b;
    build(d, b);
    Array<Polygon*> f = {};
    path_polys(b.cells[0], f);
    bool ok = f.count == v.widths.size();
    for (uint64_t i = 0; i < f.count; i++) {
        if (f[i]->point_array.count < 3) ok = false;
        for (uint64_t j = 0; j < f[i]->point_array.count; j++)
            if (!(fabs(f[i]->point_array[j].x) <= bound) || !(fabs(f[i]->point_array[j].y) <= bound)) ok = false;
    }
    free_polys(f);
    destroy(b);
    return ok;
}

// repetition of a RobustPath: every kind, Explicit lists whose diagonal offset is extreme only diagonally, empty and
// single-entry lists
static RepD gen_rep_rpath(Rng& g) {
    RepD r;
    int k = (int)g.below(100);
    if (k < 12) return r;
    if (k < 34) {  // (a,0), (0,a), (b,b) with a/2 < b < a, mirrored into any quadrant, any order, maybe an inner offset
        r.type = 'E';
        double a = (double)g.range(6, 12);
        double bb = (double)g.range((int64_t)(a / 2) + 1, (int64_t)a - 1);
        double sx = g.coin() ? 1 : -1, sy = g.coin() ? 1 : -1;
        r.offs.push_back(P2{sx * a, 0});
        r.offs.push_back(P2{0, sy * a});
        r.offs.push_back(P2{sx * bb, sy * bb});
        if (g.chance(30)) r.offs.push_back(P2{sx * (double)g.range(1, 3), sy * (double)g.range(1, 3)});
        for (size_t i = r.offs.size(); i > 1; i--) std::swap(r.offs[i - 1], r.offs[g.below(i)]);
        return r;
    }
    if (k < 40) {
        r.type = 'E';
        r.offs.push_back(ipt(g, -8, 8));
        return r;
    }
    if (k < 44) {
        r.type = 'E';
        return r;
    }
    if (k < 48) {
        r.type = g.coin() ? 'X' : 'Y';
        return r;
    }
    if (k < 52) {
        r.type = g.coin() ? 'X' : 'Y';
        r.coords.push_back((double)g.range(-8, 8));
        return r;
    }
    for (;;) {
        r = gen_rep(g, true);
        if (r.type != 'n') return r;
    }
}

static RPathD gen_rpath(Rng& g, int lo, int hi, Out& out) {
    for (int attempt = 0;; attempt++) {
        RPathD v;
        if (g.coin()) {
            static const double offs1[4] = {0, 0, 0.5, -1};
            v.widths.push_back(g.coin() ? 1.0 : 2.0);
            v.offsets.push_back(offs1[g.below(4)]);
        } else {
            static const double seps[3] = {1.5, 2, 2.5};
            double sp = seps[g.below(3)];
            v.widths.push_back(g.coin() ? 1.0 : 2.0);
            v.widths.push_back(g.coin() ? 1.0 : 2.0);
            v.offsets.push_back(-sp);
            v.offsets.push_back(sp);
        }
        int n = (int)g.range(2, 4);
        v.pts.push_back(ipt(g, lo, hi));
        while ((int)v.pts.size() < n) {
            P2 q = ipt(g, lo, hi);
            const P2& e = v.pts.back();
            if (q.x == e.x && q.y == e.y) continue;
            if (v.pts.size() >= 2 && cross3(v.pts[v.pts.size() - 2], e, q) == 0) continue;
            v.pts.push_back(q);
        }
        if (attempt >= 200) die("no usable RobustPath after 200 attempts");
        if (!rpath_outline_ok(v, 4.0 * (hi - lo) + 8)) {
            out.count("gen:rpath-regenerated");
            continue;
        }
        v.rep = gen_rep_rpath(g);
        return v;
    }
}

static uint64_t point_estimate(const Desc& d) {
    std::vector<uint64_t> n(d.cells.size(), 0);
    uint64_t worst = 0;
    for (size_t i = 0; i < d.cells.size(); i++) {
        const CellD& c = d.cells[i];
        uint64_t s = 0;
        for (auto& p : c.polys) s += p.pts.size() * rep_count(p.rep);
        for (auto& l : c.labels) s += rep_count(l.rep);
        for (auto& w : c.paths) s += 16 * rep_count(w.rep);
        for (auto& v : c.rpaths) s += 4 * (v.pts.size() + 1) * v.widths.size() * rep_count(v.rep);
        for (auto& r : c.refs) s += rep_count(r.rep) * n[r.child];
        n[i] = s;
        worst = std::max(worst, s);
    }
    return worst;
}

static void shuffle(Rng& g, std::vector<QueryD>& v) {
    for (size_t i = v.size(); i > 1; i--) std::swap(v[i - 1], v[g.below(i)]);
}

static QueryD mkq(const char* op, int ci = 0, int idx = 0) {
    QueryD q;
    q.op = op;
    q.ci = ci;
    q.idx = idx;
    return q;
}

// hull_ok[ci]: hull queries allowed on the cell;  ref hull queries follow the rule for B/H below
static void make_scripts(Rng& g, const Desc& base, const std::vector<bool>& cell_hull_ok, const std::vector<std::vector<bool>>& ref_hull_ok,
                         std::vector<std::vector<QueryD>>& scripts) {
    size_t nc = base.cells.size();
    // counts of the F lists need the implementation
    Built b;
    build(base, b);
    std::vector<uint64_t> nf(nc, 0);
    for (size_t i = 0; i < nc; i++) {
        Array<Polygon*> f = {};
        path_polys(b.cells[i], f);
        nf[i] = f.count;
        free_polys(f);
    }
    destroy(b);

    // fresh-cache script: every cell and every reference once through each entry point, either with an emptied
    // shared cache (z b / z h / z B / z H) or through the overload without cache argument (fb / fh / fB / fH)
    std::vector<QueryD> s1;
    for (size_t i = 0; i < nc; i++) {
        if (g.coin()) {
            s1.push_back(mkq("z"));
            s1.push_back(mkq("b", (int)i));
            if (cell_hull_ok[i]) {
                s1.push_back(mkq("z"));
                s1.push_back(mkq("h", (int)i));
            }
        } else {
            s1.push_back(mkq("fb", (int)i));
            if (cell_hull_ok[i]) s1.push_back(mkq("fh", (int)i));
        }
    }
    for (size_t i = 0; i < nc; i++)
        for (size_t j = 0; j < base.cells[i].refs.size(); j++) {
            if (g.coin()) {
                s1.push_back(mkq("z"));
                s1.push_back(mkq("B", (int)i, (int)j));
                if (ref_hull_ok[i][j]) {
                    s1.push_back(mkq("z"));
                    s1.push_back(mkq("H", (int)i, (int)j));
                }
            } else {
                s1.push_back(mkq("fB", (int)i, (int)j));
                if (ref_hull_ok[i][j]) s1.push_back(mkq("fH", (int)i, (int)j));
            }
        }
    for (size_t i = 0; i < nc; i++) {
        for (size_t j = 0; j < base.cells[i].polys.size(); j++) s1.push_back(mkq("p", (int)i, (int)j));
        for (size_t j = 0; j < base.cells[i].labels.size(); j++) s1.push_back(mkq("l", (int)i, (int)j));
        for (uint64_t j = 0; j < nf[i]; j++) s1.push_back(mkq("P", (int)i, (int)j));
    }
    scripts.push_back(s1);

    std::vector<QueryD> pool;
    for (size_t i = 0; i < nc; i++) {
        pool.push_back(mkq("b", (int)i));
        if (cell_hull_ok[i]) pool.push_back(mkq("h", (int)i));
        for (size_t j = 0; j < base.cells[i].refs.size(); j++) {
            pool.push_back(mkq("B", (int)i, (int)j));
            if (ref_hull_ok[i][j]) pool.push_back(mkq("H", (int)i, (int)j));
        }
    }
    std::vector<QueryD> s2 = pool;
    shuffle(g, s2);
    s2.insert(s2.begin(), mkq("z"));
    scripts.push_back(s2);

    std::vector<QueryD> s3 = pool;
    size_t extra = 1 + pool.size() / 3;
    for (size_t i = 0; i < extra; i++) s3.push_back(pool[g.below(pool.size())]);
    shuffle(g, s3);
    if (g.chance(25)) s3.insert(s3.begin() + (long)g.below(s3.size() + 1), mkq("z"));
    if (g.chance(30)) {  // a direct repeat of the same query
        size_t at = g.below(s3.size());
        QueryD dup = s3[at];
        s3.insert(s3.begin() + (long)at, dup);
    }
    s3.insert(s3.begin(), mkq("z"));
    scripts.push_back(s3);
}

static void emit_scenario(Out& out, Rng& g, Desc& base, const std::vector<bool>& cell_hull_ok, const std::vector<std::vector<bool>>& ref_hull_ok) {
    std::vector<std::vector<QueryD>> scripts;
    make_scripts(g, base, cell_hull_ok, ref_hull_ok, scripts);
    for (auto& s : scripts) {
        base.queries = s;
        run_desc(out, base);
    }
}

static const double ROTS[10] = {0.5 * M_PI, M_PI, -0.5 * M_PI, 1.5 * M_PI, M_PI / 4, 3 * M_PI / 4, 0, 0, 0, 0.3};
static double gen_rotation(Rng& g) {
    if (g.chance(55)) return 0;
    int k = (int)g.below(10);
    switch (k) {
        case 6: return atan2(3.0, 4.0);
        case 7: return atan2(4.0, 3.0);
        case 8: return atan2(5.0, 12.0);
        default: return ROTS[k];
    }
}

static void gen_general(Out& out, Rng& g) {
    bool allow_explicit = g.chance(30);
    Desc d;
    for (int attempt = 0; attempt < 50; attempt++) {
        d = Desc();
        d.tag = allow_explicit ? "genx" : "gen";
        int nc = (int)g.range(3, 5);
        std::vector<int> depth;
        for (int i = 0; i < nc; i++) {
            CellD c;
            c.nameidx = i;
            int np = (int)g.range(1, 3);
            for (int j = 0; j < np; j++) {
                PolyD p;
                int nv = (int)g.range(3, 6);
                for (;;) {
                    p.pts.clear();
                    for (int v = 0; v < nv; v++) p.pts.push_back(ipt(g, -32, 32));
                    if (j > 0 || cross3(p.pts[0], p.pts[1], p.pts[2]) != 0) break;
                }
                p.rep = gen_rep(g, true);
                c.polys.push_back(p);
            }
            int nl = (int)g.range(0, 2);
            for (int j = 0; j < nl; j++) {
                LabelD l;
                l.pos = ipt(g, -32, 32);
                l.rep = gen_rep(g, true);
                c.labels.push_back(l);
            }
            if (g.chance(40)) {
                PathD w;
                w.width = g.coin() ? 1.0 : 2.0;
                int n = (int)g.range(2, 4);
                for (int v = 0; v < n; v++) w.pts.push_back(ipt(g, -32, 32));
                w.rep = gen_rep(g, true);
                c.paths.push_back(w);
            }
            if (g.chance(35)) {
                int nv = g.chance(25) ? 2 : 1;
                for (int j = 0; j < nv; j++) c.rpaths.push_back(gen_rpath(g, -32, 32, out));
            }
            int dep = 1;
            if (i > 0) {
                int nr = (int)g.range(1, 3);
                for (int j = 0; j < nr; j++) {
                    RefD r;
                    int child = (j == 0 && g.chance(60)) ? i - 1 : (int)g.below((uint64_t)i);
                    if (depth[child] >= 4) child = (int)g.below((uint64_t)i);
                    if (depth[child] >= 4) child = 0;
                    r.child = child;
                    r.origin = ipt(g, -40, 40);
                    static const double mags[5] = {1, 1, 2, 0.5, -1};
                    r.mag = mags[g.below(5)];
                    r.xrefl = g.coin();
                    r.rot = gen_rotation(g);
                    r.rep = gen_rep(g, allow_explicit);
                    c.refs.push_back(r);
                    dep = std::max(dep, depth[child] + 1);
                }
            }
            depth.push_back(dep);
            d.cells.push_back(c);
        }
        if (point_estimate(d) <= 20000) break;
        out.count("gen:regenerated-too-large");
    }
    size_t nc = d.cells.size();
    std::vector<bool> cell_ok(nc, true);
    std::vector<std::vector<bool>> ref_ok(nc);
    int maxdepth = 0;
    {
        std::vector<int> dep(nc, 1);
        for (size_t i = 0; i < nc; i++) {
            ref_ok[i].assign(d.cells[i].refs.size(), true);
            for (auto& r : d.cells[i].refs) dep[i] = std::max(dep[i], dep[r.child] + 1);
            maxdepth = std::max(maxdepth, dep[i]);
        }
    }
    out.count("gen:depth" + std::to_string(maxdepth));
    {
        std::vector<int> uses(nc, 0);
        bool shared = false;
        for (size_t i = 0; i < nc; i++)
            for (auto& r : d.cells[i].refs)
                if (++uses[r.child] >= 2) shared = true;
        if (shared) out.count("gen:shared-child");
    }
    emit_scenario(out, g, d, cell_ok, ref_ok);
}

// points of a line family: 0 ascending (i,i), 1 descending (i,10-i), 2 horizontal (i,3), 3 vertical (2,i), 4 identical (2,3)
static P2 line_pt(int style, int i) {
    switch (style) {
        case 0: return P2{(double)i, (double)i};
        case 1: return P2{(double)i, (double)(10 - i)};
        case 2: return P2{(double)i, 3.0};
        case 3: return P2{2.0, (double)i};
        default: return P2{2.0, 3.0};
    }
}

static void gen_degenerate(Out& out, Rng& g) {
    Desc d;
    d.tag = "deg";
    int nleaf = (int)g.range(1, 3);
    for (int i = 0; i < nleaf; i++) {
        CellD c;
        c.nameidx = (long)d.cells.size();
        int style = (int)g.below(5);
        int k = (int)g.range(2, 6);
        std::vector<int> order;
        for (int j = 0; j < k; j++) order.push_back(j);
        if (g.chance(30))
            for (size_t j = order.size(); j > 1; j--) std::swap(order[j - 1], order[g.below(j)]);
        int leaf = (int)g.below(8);
        out.count("deg:leaf" + std::to_string(leaf));
        switch (leaf) {
            case 0: break;  // empty cell
            case 1: {
                LabelD l;
                l.pos = ipt(g, -8, 8);
                c.labels.push_back(l);
            } break;
            case 2: {
                PolyD p;
                p.pts.push_back(ipt(g, -8, 8));
                c.polys.push_back(p);
            } break;
            case 3:
                for (int j : order) {
                    LabelD l;
                    l.pos = line_pt(style, j);
                    c.labels.push_back(l);
                }
                break;
            case 4: {
                PolyD p;
                for (int j : order) p.pts.push_back(line_pt(style, j));
                c.polys.push_back(p);
            } break;
            case 5: {
                LabelD l;
                l.pos = ipt(g, -8, 8);
                l.rep.type = 'R';
                bool col = g.coin();
                l.rep.cols = col ? 1 : (uint64_t)k;
                l.rep.rows = col ? (uint64_t)k : 1;
                l.rep.a = (double)g.range(-4, 4);
                l.rep.b = (double)g.range(-4, 4);
                c.labels.push_back(l);
            } break;
            default: {  // mixture on the same line
                PolyD p;
                int kp = (int)g.range(2, 4);
                for (int j = 0; j < kp; j++) p.pts.push_back(line_pt(style, (int)g.range(0, 7)));
                c.polys.push_back(p);
                for (int j : order) {
                    LabelD l;
                    l.pos = line_pt(style, j);
                    c.labels.push_back(l);
                }
            }
        }
        d.cells.push_back(c);
    }
    int nmid = (int)g.range(1, 2);
    for (int i = 0; i < nmid; i++) {
        CellD c;
        c.nameidx = (long)d.cells.size();
        int nr = (int)g.range(1, 2);
        for (int j = 0; j < nr; j++) {
            RefD r;
            r.child = (int)g.below(d.cells.size());
            r.origin = g.chance(30) ? P2{0, 0} : ipt(g, -40, 40);
            static const double mags[4] = {1, 2, 0.5, -1};
            r.mag = mags[g.below(4)];
            r.xrefl = g.coin();
            r.rot = 0;
            if (g.chance(40)) {
                if (g.coin()) {
                    r.rep.type = 'R';
                    r.rep.cols = (uint64_t)g.range(1, 3);
                    r.rep.rows = (uint64_t)g.range(1, 3);
                    r.rep.a = (double)g.range(-8, 8);
                    r.rep.b = (double)g.range(-8, 8);
                } else {
                    r.rep.type = 'X';
                    int k = (int)g.range(1, 3);
                    for (int q = 0; q < k; q++) r.rep.coords.push_back((double)g.range(-8, 8));
                }
            }
            c.refs.push_back(r);
        }
        if (g.chance(30)) {
            LabelD l;
            l.pos = ipt(g, -8, 8);
            c.labels.push_back(l);
        }
        d.cells.push_back(c);
    }
    if (g.chance(40)) {
        CellD c;
        c.nameidx = (long)d.cells.size();
        RefD r;
        r.child = (int)g.below(d.cells.size());
        r.origin = ipt(g, -40, 40);
        r.mag = 1;
        r.xrefl = false;
        r.rot = g.coin() ? M_PI / 4 : atan2(3.0, 4.0);
        c.refs.push_back(r);
        d.cells.push_back(c);
        out.count("deg:rotated-top");
    }
    size_t nc = d.cells.size();
    std::vector<bool> rotated(nc, false), cell_ok(nc, true);
    std::vector<std::vector<bool>> ref_ok(nc);
    for (size_t i = 0; i < nc; i++) {
        for (auto& r : d.cells[i].refs) {
            bool rr = r.rot != 0 || rotated[r.child];
            ref_ok[i].push_back(!rr);
            if (rr) rotated[i] = true;
        }
        cell_ok[i] = !rotated[i];
    }
    emit_scenario(out, g, d, cell_ok, ref_ok);
}

// RobustPaths as (nearly) the only content of a leaf, so that their outline and every copy of it is what the boxes and
// hulls above are made of: leaf (1-2 RobustPaths, sometimes a FlexPath / label / small polygon beside them), a middle
// cell with 1-2 rotated / reflected / magnified references (sometimes repeated) and sometimes a RobustPath of its own,
// and most of the time a top cell with one more rotated reference (nested hull route)
static double gen_oblique(Rng& g) {
    switch ((int)g.below(8)) {
        case 0: return M_PI / 4;
        case 1: return 3 * M_PI / 4;
        case 2: return -M_PI / 4;
        case 3: return atan2(3.0, 4.0);
        case 4: return atan2(4.0, 3.0);
        case 5: return atan2(5.0, 12.0);
        default: return 0.3;
    }
}

static void gen_rpath_scenario(Out& out, Rng& g) {
    Desc d;
    d.tag = "rp";
    static const double mags[5] = {1, 1, 2, 0.5, -1};
    {
        CellD c;
        c.nameidx = 0;
        int nv = g.chance(35) ? 2 : 1;
        for (int j = 0; j < nv; j++) c.rpaths.push_back(gen_rpath(g, -6, 6, out));
        if (g.chance(25)) {  // never more FlexPaths than RobustPaths here
            PathD w;
            w.width = g.coin() ? 1.0 : 2.0;
            int n = (int)g.range(2, 3);
            for (int v = 0; v < n; v++) w.pts.push_back(ipt(g, -6, 6));
            w.rep = gen_rep(g, true);
            c.paths.push_back(w);
        }
        if (g.chance(25)) {
            LabelD l;
            l.pos = ipt(g, -6, 6);
            c.labels.push_back(l);
        }
        if (g.chance(25)) {
            PolyD p;
            for (;;) {
                p.pts.clear();
                for (int v = 0; v < 3; v++) p.pts.push_back(ipt(g, -4, 4));
                if (cross3(p.pts[0], p.pts[1], p.pts[2]) != 0) break;
            }
            c.polys.push_back(p);
        }
        d.cells.push_back(c);
    }
    {
        CellD c;
        c.nameidx = 1;
        int nr = (int)g.range(1, 2);
        for (int j = 0; j < nr; j++) {
            RefD r;
            r.child = 0;
            r.origin = g.chance(30) ? P2{0, 0} : ipt(g, -40, 40);
            r.mag = mags[g.below(5)];
            r.xrefl = g.coin();
            r.rot = g.chance(70) ? gen_oblique(g) : gen_rotation(g);
            if (g.chance(40)) r.rep = gen_rep(g, g.chance(25));
            c.refs.push_back(r);
        }
        if (g.chance(30)) c.rpaths.push_back(gen_rpath(g, -12, 12, out));
        d.cells.push_back(c);
    }
    if (g.chance(70)) {
        CellD c;
        c.nameidx = 2;
        RefD r;
        r.child = g.chance(80) ? 1 : 0;
        r.origin = ipt(g, -40, 40);
        r.mag = mags[g.below(5)];
        r.xrefl = g.coin();
        r.rot = g.chance(70) ? gen_oblique(g) : gen_rotation(g);
        if (g.chance(25)) r.rep = gen_rep(g, false);
        c.refs.push_back(r);
        if (g.chance(30)) {
            RefD r2;
            r2.child = 0;
            r2.origin = ipt(g, -40, 40);
            r2.mag = 1;
            r2.xrefl = false;
            r2.rot = gen_rotation(g);
            c.refs.push_back(r2);
        }
        d.cells.push_back(c);
    }
    size_t nc = d.cells.size();
    std::vector<bool> cell_ok(nc, true);
    std::vector<std::vector<bool>> ref_ok(nc);
    for (size_t i = 0; i < nc; i++) ref_ok[i].assign(d.cells[i].refs.size(), true);
    emit_scenario(out, g, d, cell_ok, ref_ok);
}

static PolyD rect_poly(double x0, double y0, double x1, double y1) {
    PolyD p;
    p.pts.push_back(P2{x0, y0});
    p.pts.push_back(P2{x1, y0});
    p.pts.push_back(P2{x1, y1});
    p.pts.push_back(P2{x0, y1});
    return p;
}

static std::vector<QueryD> script_of(const char* text) {
    std::vector<QueryD> v;
    Tok k(text);
    while (!k.done() && !k.bad) {
        QueryD q;
        q.op = k.next();
        q.ci = q.idx = 0;
        int na = 0;
        if (!is_query_op(q.op, na)) die("bad deterministic script");
        if (na >= 1) q.ci = (int)k.num();
        if (na >= 2) q.idx = (int)k.num();
        v.push_back(q);
    }
    return v;
}

static void deterministic(Out& out) {
    {  // F9: explicit repetition on a reference, looked at through a rotated parent
        Desc d;
        d.tag = "f9";
        CellD c0, c1, c2;
        c0.nameidx = 0;
        c0.polys.push_back(rect_poly(0, 0, 1, 1));
        c1.nameidx = 1;
        RefD r;
        r.child = 0;
        r.origin = P2{0, 0};
        r.rot = 0;
        r.mag = 1;
        r.xrefl = false;
        r.rep.type = 'E';
        r.rep.offs.push_back(P2{10, 0});
        r.rep.offs.push_back(P2{0, 10});
        r.rep.offs.push_back(P2{9, 9});
        c1.refs.push_back(r);
        c2.nameidx = 2;
        RefD r2;
        r2.child = 1;
        r2.origin = P2{0, 0};
        r2.rot = M_PI / 4;
        r2.mag = 1;
        r2.xrefl = false;
        c2.refs.push_back(r2);
        d.cells.push_back(c0);
        d.cells.push_back(c1);
        d.cells.push_back(c2);
        d.queries = script_of("z fb 2 z b 2 z h 1 z b 1");
        run_desc(out, d);
        d.queries = script_of("z b 1 h 1 b 1");
        run_desc(out, d);
    }
    {  // RobustPath (two elements) under an Explicit repetition whose offset (8,8) is extreme only diagonally: its own
       // hull, and the boxes / hulls of references rotated by 45 degrees and by atan(3/4) with reflection and magnification
        Desc d;
        d.tag = "rp";
        CellD c0, c1, c2;
        c0.nameidx = 0;
        RPathD v;
        v.widths.push_back(1);
        v.widths.push_back(1);
        v.offsets.push_back(-1);
        v.offsets.push_back(1);
        v.pts.push_back(P2{0, 0});
        v.pts.push_back(P2{3, 0});
        v.pts.push_back(P2{3, 2});
        v.rep.type = 'E';
        v.rep.offs.push_back(P2{10, 0});
        v.rep.offs.push_back(P2{0, 10});
        v.rep.offs.push_back(P2{8, 8});
        c0.rpaths.push_back(v);
        c1.nameidx = 1;
        RefD r;
        r.child = 0;
        r.origin = P2{0, 0};
        r.rot = M_PI / 4;
        r.mag = 1;
        r.xrefl = false;
        c1.refs.push_back(r);
        c2.nameidx = 2;
        RefD r2;
        r2.child = 0;
        r2.origin = P2{5, -3};
        r2.rot = atan2(3.0, 4.0);
        r2.mag = 2;
        r2.xrefl = true;
        c2.refs.push_back(r2);
        d.cells.push_back(c0);
        d.cells.push_back(c1);
        d.cells.push_back(c2);
        d.queries = script_of("z fh 0 z h 0 z fb 0 z b 0 z fb 1 z b 1 z fB 1 0 z H 1 0 z fH 2 0 z b 2 P 0 0 P 0 1");
        run_desc(out, d);
        d.queries = script_of("z h 0 b 0 b 1 h 1 B 2 0 H 2 0 b 2");
        run_desc(out, d);
        d.queries = script_of("z b 2 b 1 b 0 h 2 h 1");
        run_desc(out, d);
    }
    for (int variant = 0; variant < 2; variant++) {  // F10: collinear descending points
        Desc d;
        d.tag = "f10";
        CellD c0, c1;
        c0.nameidx = 0;
        if (variant == 0) {
            for (int i = 0; i < 5; i++) {
                LabelD l;
                l.pos = P2{(double)i, (double)(10 - i)};
                c0.labels.push_back(l);
            }
        } else {
            PolyD p;
            for (int i = 0; i < 5; i++) p.pts.push_back(P2{(double)i, (double)(10 - i)});
            c0.polys.push_back(p);
        }
        c1.nameidx = 1;
        RefD r;
        r.child = 0;
        r.origin = P2{0, 0};
        r.rot = M_PI / 4;
        r.mag = 1;
        r.xrefl = false;
        c1.refs.push_back(r);
        d.cells.push_back(c0);
        d.cells.push_back(c1);
        const char* scripts[5] = {"z h 0", "z fh 0", "z b 1", "z fb 1", "z h 0 b 0"};
        for (int s = 0; s < 5; s++) {
            d.queries = script_of(scripts[s]);
            run_desc(out, d);
        }
    }
}

static void gen_qh(Out& out, Rng& g) {
    std::vector<P2> pts;
    int mode = (int)g.below(10);
    if (mode < 6) {
        int n = (int)g.range(4, 12);
        for (int i = 0; i < n; i++) pts.push_back(ipt(g, -8, 8));
        out.count("qh:random");
    } else if (mode < 9) {
        int style = (int)g.below(5);
        int n = (int)g.range(1, 8);
        std::vector<int> order;
        for (int i = 0; i < n; i++) order.push_back(g.chance(20) ? (int)g.range(0, 7) : i);
        if (g.chance(30))
            for (size_t j = order.size(); j > 1; j--) std::swap(order[j - 1], order[g.below(j)]);
        for (int i : order) pts.push_back(line_pt(style, i));
        out.count("qh:line" + std::to_string(style));
    } else {
        int n = (int)g.range(0, 3);
        for (int i = 0; i < n; i++) pts.push_back(ipt(g, -8, 8));
        out.count("qh:small");
    }
    run_qh(out, qh_payload(pts), true);
}

int main(int argc, char** argv) {
    if (argc < 4) {
        fprintf(stderr, "usage: c09 seed tier outdir [corpus] [replay]\n");
        return 2;
    }
    uint64_t seed = strtoull(argv[1], NULL, 10);
    bool thorough = strcmp(argv[2], "thorough") == 0;
    // qhull falls back to stderr when it is handed a NULL error file: give it /dev/null instead
    FILE* devnull = fopen("/dev/null", "w");
    set_error_logger(devnull);
    Out out;
    out.open(argv[3]);
    if (argc > 5) {
        std::string k, p;
        if (load_replay(argv[5], k, p)) run_case(out, k, p, false);
        out.close();
        return 0;
    }
    for (auto& c : load_corpus(argc > 4 ? argv[4] : NULL)) run_case(out, c.first, c.second, false);
    Rng g(seed);
    deterministic(out);
    long scenarios = thorough ? 400 : 40;   // the exact model run costs ~0.25 s per general case (3 cases per scenario)
    long nqh = thorough ? 6000 : 300;
    for (long i = 0; i < scenarios; i++) {
        if (g.chance(70)) gen_general(out, g);
        else gen_degenerate(out, g);
        if (i % 4 == 3) gen_rpath_scenario(out, g);
    }
    for (long i = 0; i < nqh; i++) gen_qh(out, g);
    out.close();
    return 0;
}
