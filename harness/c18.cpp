// C18 harness: every GDSII reader on every prefix of valid files, and the light-weight OASIS queries.
// One case per (file, reader); the result is the run-length encoded status per cut length.
#include <algorithm>
#include "layoutgen.hpp"

static std::string scratch;

static bool is_error(ErrorCode e) { return (int)e >= (int)ErrorCode::ChecksumError; }

static std::string lib_digest(Library& lib) {
    std::string s = std::to_string(lib.cell_array.count) + "c";
    for (uint64_t i = 0; i < lib.cell_array.count; i++) {
        Cell* c = lib.cell_array[i];
        s += std::string(":") + c->name + "/" + std::to_string(c->polygon_array.count) + "/" +
             std::to_string(c->flexpath_array.count) + "/" + std::to_string(c->reference_array.count) + "/" +
             std::to_string(c->label_array.count);
    }
    return s;
}

// one call of reader `which` on the scratch file; returns status text
static std::string call_reader(const std::string& which, const std::string& path) {
    int fd0 = count_fds();
    std::string st;
    if (which == "read_gds") {
        ErrorCode err = ErrorCode::NoError;
        Library lib = read_gds(path.c_str(), 0, 0, NULL, &err);
        {
            Library l2 = read_gds(path.c_str(), 0, 0, NULL, NULL);  // caller without an error pointer
            l2.free_all();
        }
        if (is_error(err)) {
            st = "err";
            if (lib.cell_array.count != 0 || lib.name != NULL) st += "+nonempty";
        } else {
            st = "ok " + lib_digest(lib);
        }
        lib.free_all();
    } else if (which == "read_rawcells") {
        ErrorCode err = ErrorCode::NoError;
        Map<RawCell*> m = read_rawcells(path.c_str(), &err);
        {
            Map<RawCell*> m2 = read_rawcells(path.c_str(), NULL);  // caller without an error pointer
            for (MapItem<RawCell*>* it = m2.next(NULL); it; it = m2.next(it)) {
                it->value->clear();
                free_allocation(it->value);
            }
            m2.clear();
        }
        if (is_error(err)) {
            st = "err";
            if (m.count != 0) st += "+nonempty";
        } else {
            std::vector<std::string> names;
            for (MapItem<RawCell*>* it = m.next(NULL); it; it = m.next(it))
                names.push_back(std::string(it->key) + "/" + std::to_string(it->value->size));
            std::sort(names.begin(), names.end());
            st = "ok";
            for (auto& n : names) st += " " + n;
            for (MapItem<RawCell*>* it = m.next(NULL); it; it = m.next(it)) {
                it->value->clear();
                free_allocation(it->value);
            }
        }
        m.clear();
    } else if (which == "gds_info") {
        LibraryInfo info = {};
        ErrorCode err = gds_info(path.c_str(), info);
        if (is_error(err)) {
            st = "err";
        } else {
            st = "ok " + std::to_string(info.cell_names.count) + " " + std::to_string(info.num_polygons) + " " +
                 std::to_string(info.num_paths) + " " + std::to_string(info.num_references) + " " +
                 std::to_string(info.num_labels) + " " + hex_dbl(info.unit) + " " + hex_dbl(info.precision);
        }
        info.clear();
    } else if (which == "gds_units") {
        double u = 0, p = 0;
        ErrorCode err = gds_units(path.c_str(), u, p);
        st = is_error(err) ? "err" : ("ok " + hex_dbl(u) + " " + hex_dbl(p));
    } else if (which == "gds_timestamp") {
        ErrorCode err = ErrorCode::NoError;
        tm t = gds_timestamp(path.c_str(), NULL, &err);
        // the same call by a caller that does not ask for the error code: it must release what it opened all the same
        // (the descriptor count below covers both calls)
        (void)gds_timestamp(path.c_str(), NULL, NULL);
        if (is_error(err))
            st = "err";
        else
            st = "ok " + std::to_string(t.tm_year + 1900) + " " + std::to_string(t.tm_mon + 1) + " " +
                 std::to_string(t.tm_mday) + " " + std::to_string(t.tm_hour) + " " + std::to_string(t.tm_min) + " " +
                 std::to_string(t.tm_sec);
    } else if (which == "oas_precision") {
        double p = 0;
        ErrorCode err = oas_precision(path.c_str(), p);
        st = is_error(err) ? "err" : ("ok " + hex_dbl(p));
    } else if (which == "oas_validate") {
        ErrorCode err = ErrorCode::NoError;
        uint32_t sig = 0;
        bool ok = oas_validate(path.c_str(), &sig, &err);
        if (ok && err == ErrorCode::NoError)
            st = "valid";
        else if (ok)
            st = "nosig";  // returns true with ChecksumError: "file carries no signature"
        else
            st = "err";
    }
    int fd1 = count_fds();
    if (fd1 != fd0) st += "+fdleak";
    return st;
}

// statuses for cuts lo..hi (inclusive) of `bytes`, each in a child that is restarted after a crash
static std::vector<std::string> sweep(const std::string& which, const std::vector<uint8_t>& bytes, size_t lo, size_t hi) {
    std::vector<std::string> res(hi + 1);
    size_t next = lo;
    int hangs = 0;
    std::string path = scratch + "/cut.bin";
    while (next <= hi) {
        int fd[2];
        if (pipe(fd) != 0) exit(4);
        fflush(NULL);
        pid_t pid = fork();
        if (pid == 0) {
            ::close(fd[0]);
            FILE* o = fdopen(fd[1], "w");
            for (size_t n = next; n <= hi; n++) {
                alarm(60);
                write_file(path, bytes.data(), n);
                std::string st = call_reader(which, path);
                fprintf(o, "%zu\t%s\n", n, st.c_str());
                fflush(o);
            }
            VERIF_COV_DUMP();
            _exit(0);
        }
        ::close(fd[1]);
        FILE* in = fdopen(fd[0], "r");
        char* line = NULL;
        size_t cap = 0;
        size_t last = next;
        bool any = false;
        while (getline(&line, &cap, in) > 0) {
            std::string s(line);
            while (!s.empty() && s.back() == '\n') s.pop_back();
            size_t t = s.find('\t');
            size_t n = (size_t)strtoull(s.c_str(), NULL, 10);
            if (n <= hi) res[n] = s.substr(t + 1);
            last = n;
            any = true;
        }
        free(line);
        fclose(in);
        int st = 0;
        waitpid(pid, &st, 0);
        size_t done = any ? last + 1 : next;
        if (WIFSIGNALED(st) || (WIFEXITED(st) && WEXITSTATUS(st) != 0)) {
            if (done <= hi) {
                bool hang = WIFSIGNALED(st) && WTERMSIG(st) == SIGALRM;
                res[done] = hang ? "HANG" : "CRASH";
                done++;
                // a reader that hangs on cut after cut would cost a minute each: after three, the remaining cuts of this sweep
                // are not run (the first hang is the failing input; the oracle stops at it anyway)
                if (hang && ++hangs >= 3) {
                    for (size_t n = done; n <= hi; n++) res[n] = "HANG";
                    done = hi + 1;
                }
            }
        }
        next = done;
    }
    return res;
}

static std::string rle(const std::vector<std::string>& v, size_t lo, size_t hi) {
    std::string out;
    size_t i = lo;
    while (i <= hi) {
        size_t j = i;
        while (j + 1 <= hi && v[j + 1] == v[i]) j++;
        if (!out.empty()) out += " | ";
        out += std::to_string(i) + "-" + std::to_string(j) + ":" + v[i];
        i = j + 1;
    }
    return out;
}

static void gds_case(Out& out, const std::string& which, const std::vector<uint8_t>& bytes) {
    std::string id = out.add("gds:" + which, hex_bytes(bytes.data(), bytes.size()));
    std::vector<std::string> st = sweep(which, bytes, 0, bytes.size());
    // implementation line: status word only for the correspondence (values differ in format from the model)
    std::vector<std::string> words(st.size());
    for (size_t i = 0; i < st.size(); i++) {
        std::string w = st[i].substr(0, st[i].find(' '));
        if (which == "gds_timestamp") w = st[i];
        words[i] = w;
    }
    out.I(id, rle(words, 0, bytes.size()));
    // property-level oracle: err* ok* with one digest; nothing abnormal
    std::string full = st[bytes.size()];
    std::string verdict = "ok";
    bool seen_ok = false;
    for (size_t n = 0; n <= bytes.size() && verdict == "ok"; n++) {
        const std::string& s = st[n];
        std::string key = which == "read_rawcells" ? "read_rawcells:error-path-loop" : ("gds-truncation:" + which);
        if (s == "CRASH" || s == "HANG") {
            verdict = "FAIL " + key + " " + which + " " + s + " on the first " + std::to_string(n) + " bytes of a " +
                      std::to_string(bytes.size()) + "-byte file";
        } else if (s.find("+fdleak") != std::string::npos) {
            verdict = "FAIL gds-fdleak:" + which + " file descriptor not released, cut " + std::to_string(n);
        } else if (s.find("+nonempty") != std::string::npos) {
            verdict = "FAIL gds-truncation:" + which + " error returned together with a non-empty result, cut " + std::to_string(n);
        } else if (s.compare(0, 2, "ok") == 0) {
            seen_ok = true;
            if (s != full)
                verdict = "FAIL gds-truncation:" + which + " cut " + std::to_string(n) + " succeeds with [" + s +
                          "] but the complete file gives [" + full + "]";
        } else if (seen_ok) {
            verdict = "FAIL gds-truncation:" + which + " non-monotone status at cut " + std::to_string(n);
        }
    }
    out.P(id, verdict);
    out.count("cuts", (long)bytes.size() + 1);
}

static void oas_case(Out& out, const std::string& which, const std::vector<uint8_t>& bytes, bool signed_file) {
    std::string id = out.add("oas:" + which, std::string(signed_file ? "signed " : "unsigned ") + hex_bytes(bytes.data(), bytes.size()));
    std::vector<std::string> st = sweep(which, bytes, 0, bytes.size());
    out.I(id, "-");
    std::string full = st[bytes.size()];
    std::string verdict = "ok";
    for (size_t n = 0; n <= bytes.size() && verdict == "ok"; n++) {
        const std::string& s = st[n];
        if (s == "CRASH" || s == "HANG") {
            std::string key = which == "oas_precision" ? "oas_precision:short-file" : ("oas-truncation:" + which);
            verdict = "FAIL " + key + " " + which + " " + s + " on the first " + std::to_string(n) + " bytes";
        } else if (s.find("+fdleak") != std::string::npos) {
            verdict = "FAIL " + which + ":fd-leak file descriptor not released (cut " + std::to_string(n) + ", status " + s + ")";
        } else if (which == "oas_validate" && signed_file && n < bytes.size() && s == "valid") {
            verdict = "FAIL oas_validate:truncated-valid matching signature reported for the first " + std::to_string(n) + " bytes";
        } else if (which == "oas_precision" && s.compare(0, 2, "ok") == 0 && s != full) {
            // precision is fully contained in the first bytes; a later cut must give the same value
            verdict = "FAIL oas-truncation:oas_precision cut " + std::to_string(n) + " gives [" + s + "], complete file [" + full + "]";
        }
    }
    if (verdict == "ok" && which == "oas_validate" && signed_file && full != "valid")
        verdict = "FAIL oas_validate:complete-file complete signed file does not validate: " + full;
    out.P(id, verdict);
    out.count("cuts", (long)bytes.size() + 1);
}

// repeated calls in one process: descriptors must not accumulate
static void repeat_case(Out& out, const std::string& which, const std::vector<uint8_t>& bytes, size_t n) {
    std::string id = out.add("repeat:" + which, std::to_string(n) + " " + hex_bytes(bytes.data(), bytes.size()));
    std::string path = scratch + "/rep.bin";
    std::string r = in_child([&](FILE* o) {
        write_file(path, bytes.data(), n);
        int fd0 = count_fds();
        for (int i = 0; i < 200; i++) call_reader(which, path);
        int fd1 = count_fds();
        fprintf(o, "%d", fd1 - fd0);
    }, 30);
    out.I(id, "-");
    if (r == "0")
        out.P(id, "ok");
    else if (r.compare(0, 5, "CRASH") == 0 || r == "HANG")
        out.P(id, "FAIL " + (which == "oas_precision" ? std::string("oas_precision:short-file") : which + ":repeat-crash") + " " + r + " in 200 repeated calls on " + std::to_string(n) + " bytes");
    else
        out.P(id, "FAIL " + which + ":fd-leak 200 calls leave " + r + " descriptors open");
}

int main(int argc, char** argv) {
    if (argc < 4) return 2;
    uint64_t seed = strtoull(argv[1], NULL, 10);
    bool thorough = strcmp(argv[2], "thorough") == 0;
    scratch = argv[3];
    set_error_logger(NULL);
    // gdstk prints some diagnostics to stderr unconditionally
    freopen("/dev/null", "w", stderr);
    Out out;
    out.open(argv[3]);
    Rng g(seed);
    const char* readers[] = {"read_gds", "read_rawcells", "gds_info", "gds_units", "gds_timestamp"};
    int nfiles = thorough ? 40 : 5;
    for (int f = 0; f < nfiles; f++) {
        GenOpts o;
        o.max_cells = thorough ? 5 : 3;
        o.max_elems = thorough ? 6 : 4;
        if (f == 0) {  // force references so that raw cells have dependencies
            o.with_labels = false;
        }
        Library lib = gen_library(g, o);
        if (f == 0 && lib.cell_array.count < 2) {
            lib.free_all();
            f--;
            continue;
        }
        std::string path = scratch + "/full.gds";
        tm t = fixed_tm();
        lib.write_gds(path.c_str(), 0, &t);
        std::vector<uint8_t> bytes = read_file(path);
        lib.free_all();
        if (bytes.size() > (thorough ? 6000u : 1800u)) {
            f--;
            continue;
        }
        out.count("gds_file_bytes", (long)bytes.size());
        for (const char* r : readers) gds_case(out, r, bytes);
        repeat_case(out, "read_rawcells", bytes, bytes.size());
        repeat_case(out, "gds_info", bytes, bytes.size() / 2);
    }
    int noas = thorough ? 24 : 4;
    for (int f = 0; f < noas; f++) {
        GenOpts o;
        o.max_cells = 2;
        o.max_elems = 3;
        Library lib = gen_library(g, o);
        std::string path = scratch + "/full.oas";
        uint16_t flags = 0;
        bool signed_file = f % 4 != 3;
        if (f % 4 == 0 || f % 4 == 2) flags |= OASIS_CONFIG_INCLUDE_CRC32;
        if (f % 4 == 1) flags |= OASIS_CONFIG_INCLUDE_CHECKSUM32;
        if (g.coin()) flags |= OASIS_CONFIG_DETECT_RECTANGLES;
        std::string r = in_child([&](FILE* o2) {
            lib.write_oas(path.c_str(), 0, (uint8_t)(f % 2 ? 6 : 0), flags);
            fprintf(o2, "done");
        }, 60);
        lib.free_all();
        if (r != "done") continue;  // writer problems belong to C02
        std::vector<uint8_t> bytes = read_file(path);
        if (bytes.size() > (thorough ? 5000u : 1500u) || bytes.size() < 30) {
            continue;
        }
        out.count("oas_file_bytes", (long)bytes.size());
        oas_case(out, "oas_precision", bytes, signed_file);
        oas_case(out, "oas_validate", bytes, signed_file);
        repeat_case(out, "oas_validate", bytes, bytes.size());
        repeat_case(out, "oas_precision", bytes, bytes.size());
        repeat_case(out, "oas_precision", bytes, 14);
        repeat_case(out, "oas_validate", bytes, 40);
    }
    out.close();
    return 0;
}
