// GDSII harness (C01, C03, C17): writer tie (byte for byte), reader tie (canonical dump), round-trip
// and partial-reader oracles.  VERIF_KINDS (comma list) restricts the case kinds produced.
#include <algorithm>
#include <set>
#include "gdsdump.hpp"

static std::string scratch;
static std::set<std::string> kinds;
static bool want(const char* k) { return kinds.empty() || kinds.count(k); }

static void fix_library_for_plan(Library& lib, const GenOpts& o) {
    for (uint64_t i = 0; i < lib.cell_array.count; i++) {
        Cell* c = lib.cell_array[i];
        for (uint64_t j = 0; j < c->reference_array.count; j++) {
            Reference* r = c->reference_array[j];
            bool q;
            quarter_turns(r->rotation, q);
            if (r->repetition.type == RepetitionType::Regular && !q) {
                r->rotation = 0.3;
                r->repetition.v1 = Vec2{32 * o.grid, 16 * o.grid};
                r->repetition.v2 = Vec2{-16 * o.grid, 48 * o.grid};
            }
        }
    }
}

static std::string sorted_dump(const Library& lib, double factor) {
    DumpCfg c;
    c.factor = factor;
    c.sort_props = true;
    return dump_loaded(lib, c);
}

// ---- spec-level encoder: emits a GDSII stream from an abstract description while exercising the
// choices the format leaves open, together with the dump the stream encodes.
struct SpecEnc {
    std::vector<uint8_t> b;
    std::string expect;  // canonical dump (loaded form, list-order props = reverse of stream order)
    Rng& g;
    explicit SpecEnc(Rng& g_) : g(g_) {}
    void rec(uint8_t t, uint8_t d, const std::vector<uint8_t>& p) {
        size_t len = 4 + p.size();
        b.push_back((uint8_t)(len >> 8));
        b.push_back((uint8_t)len);
        b.push_back(t);
        b.push_back(d);
        b.insert(b.end(), p.begin(), p.end());
    }
    static void p16(std::vector<uint8_t>& v, int x) { v.push_back((uint8_t)(x >> 8)); v.push_back((uint8_t)x); }
    static void p32(std::vector<uint8_t>& v, int64_t x) { for (int s = 24; s >= 0; s -= 8) v.push_back((uint8_t)((uint64_t)x >> s)); }
    static void p64(std::vector<uint8_t>& v, uint64_t x) { for (int s = 56; s >= 0; s -= 8) v.push_back((uint8_t)(x >> s)); }
    void r16(uint8_t t, uint8_t d, int x) { std::vector<uint8_t> v; p16(v, x); rec(t, d, v); }
    void r32(uint8_t t, int64_t x) { std::vector<uint8_t> v; p32(v, x); rec(t, 3, v); }
    void rstr(uint8_t t, const std::string& s) {
        std::vector<uint8_t> v(s.begin(), s.end());
        if (v.size() % 2) v.push_back(0);
        rec(t, 6, v);
    }
    void optional_flags() {
        if (g.chance(30)) r16(0x26, 1, (int)g.below(4));          // ELFLAGS
        if (g.chance(30)) r32(0x2F, (int64_t)g.below(1000));      // PLEX
    }
    std::string props() {
        int n = (int)g.below(3);
        std::vector<std::pair<int, std::string>> ps;
        for (int i = 0; i < n; i++) {
            int a;
            bool dup;
            do { a = 1 + (int)g.below(120); dup = false; for (auto& p : ps) dup |= p.first == a; } while (dup);
            std::string v = rand_name(g, 8);
            ps.push_back({a, v});
            r16(0x2B, 2, a);
            rstr(0x2C, v);
        }
        std::string s = " k " + std::to_string(n);
        for (int i = n - 1; i >= 0; i--) s += " " + std::to_string(ps[i].first) + " " + hexs(ps[i].second.c_str());
        return s;
    }
    void xy(const std::vector<std::pair<int64_t, int64_t>>& pts, bool split) {
        size_t i = 0;
        while (i < pts.size()) {
            size_t n = pts.size() - i;
            if (split && n > 1 && g.coin()) n = 1 + g.below(n);
            std::vector<uint8_t> v;
            for (size_t k = i; k < i + n; k++) { p32(v, pts[k].first); p32(v, pts[k].second); }
            rec(0x10, 3, v);
            i += n;
        }
    }
    static uint64_t real_of(double x) { return gdsii_real_from_double(x); }
    std::string strans(bool force_none = false) {  // returns " refl mag rot" fields
        bool refl = false;
        double mag = 1, rot = 0;
        if (!force_none && g.chance(60)) {
            refl = g.coin();
            static const double mags[] = {1, 2, 0.5, 3, 1.25, 10};
            static const double rots[] = {0, 90, 180, 270, 45, 30, 12.5, 359.0009765625};
            mag = mags[g.below(6)];
            rot = rots[g.below(8)];
            r16(0x1A, 1, refl ? 0x8000 : 0);
            if (mag != 1 || g.chance(20)) { std::vector<uint8_t> v; p64(v, real_of(mag)); rec(0x1B, 5, v); }
            if (rot != 0 || g.chance(20)) { std::vector<uint8_t> v; p64(v, real_of(rot)); rec(0x1C, 5, v); }
        }
        last_rot = rot;
        last_refl = refl;
        return std::string(" ") + (refl ? "1" : "0") + " " + num(llround(mag * 1048576.0)) + " " + num(llround(rot * 1048576.0));
    }
    double last_rot = 0;
    bool last_refl = false;

    // 16-bit LAYER / DATATYPE / TEXTTYPE / BOXTYPE fields above 32767 (gdstk itself writes (uint16_t)layer): only for the
    // summary-versus-load comparison of C17, where any consistent reading of the field will do; the layouts expected by the
    // specification kinds stay within 0..32767 (the precondition of C01 / C03)
    bool wide_tags = false;
    int repeated_snames = 0;
    int tagval() {
        if (wide_tags && g.chance(15)) return 32768 + (int)g.below(32768);
        return (int)g.below(200);
    }
    void boundary() {
        bool box = g.chance(25);
        rec(box ? 0x2D : 0x08, 0, {});
        optional_flags();
        int layer = tagval(), type = tagval();
        r16(0x0D, 2, layer);
        r16(box ? 0x2E : 0x0E, 2, type);
        int n = box ? 4 : 3 + (int)g.below(8);
        std::vector<std::pair<int64_t, int64_t>> pts;
        int64_t cx = g.range(-100000, 100000), cy = g.range(-100000, 100000);
        for (int i = 0; i < n; i++) pts.push_back({cx + g.range(-500, 500), cy + g.range(-500, 500)});
        if (pts[0] == pts[n - 1]) pts[n - 1].first += 1;
        std::vector<std::pair<int64_t, int64_t>> closed = pts;
        closed.push_back(pts[0]);
        xy(closed, true);
        std::string pr = props();
        rec(0x11, 0, {});
        expect += " P " + num(layer) + " " + num(type) + " " + num(n);
        for (auto& p : pts) expect += " " + num(p.first) + " " + num(p.second);
        expect += pr;
    }
    void path() {
        rec(0x09, 0, {});
        optional_flags();
        int layer = tagval(), type = tagval();
        r16(0x0D, 2, layer);
        r16(0x0E, 2, type);
        int pt = -1;
        int endc = 0;
        if (g.chance(75)) {
            static const int pts_[] = {0, 1, 2, 4};
            pt = pts_[g.below(4)];
            r16(0x21, 2, pt);
            endc = pt == 4 ? 3 : pt;
        }
        int64_t w = g.range(-200, 200);
        r32(0x0F, w);  // WIDTH (always present: a missing WIDTH is covered by its own kind)
        int64_t e0 = 0, e1 = 0;
        if (pt == 4) {
            if (g.chance(80)) { e0 = g.range(-50, 50); r32(0x30, e0); }
            if (g.chance(80)) { e1 = g.range(-50, 50); r32(0x31, e1); }
        }
        int n = 2 + (int)g.below(6);
        std::vector<std::pair<int64_t, int64_t>> pts;
        int64_t x = g.range(-100000, 100000), y = g.range(-100000, 100000);
        for (int i = 0; i < n; i++) { pts.push_back({x, y}); x += g.range(-300, 300); y += g.range(-300, 300); }
        xy(pts, true);
        std::string pr = props();
        rec(0x11, 0, {});
        expect += " H " + num(layer) + " " + num(type) + " " + num(endc) + " " + num(w < 0 ? -w : w) + " " + (w >= 0 ? "1" : "0") + " " +
                  num(e0) + " " + num(e1) + " " + num(n);
        for (auto& p : pts) expect += " " + num(p.first) + " " + num(p.second);
        expect += pr;
    }
    void text() {
        rec(0x0C, 0, {});
        optional_flags();
        int layer = tagval(), type = tagval();
        r16(0x0D, 2, layer);
        r16(0x16, 2, type);
        int anchor = 0;
        if (g.chance(70)) {
            static const int as[] = {0, 1, 2, 4, 5, 6, 8, 9, 10};
            anchor = as[g.below(9)];
            r16(0x17, 1, anchor | ((int)g.below(4) << 4));  // font bits above the anchor
        }
        if (g.chance(20)) r16(0x21, 2, (int)g.below(3));  // PATHTYPE on a TEXT (legal, ignored)
        if (g.chance(20)) r32(0x0F, g.range(-20, 20));     // WIDTH on a TEXT (legal, ignored)
        std::string st = strans();
        int64_t x = g.range(-100000, 100000), y = g.range(-100000, 100000);
        xy({{x, y}}, false);
        std::string s = rand_name(g, 14);
        rstr(0x19, s);
        std::string pr = props();
        rec(0x11, 0, {});
        expect += " T " + num(layer) + " " + num(type) + " " + hexs(s.c_str()) + " " + num(x) + " " + num(y) + " " + num(anchor) + st + pr;
    }
    void sref(const std::string& target) {
        rec(0x0A, 0, {});
        optional_flags();
        rstr(0x12, target);
        std::string st = strans();
        int64_t x = g.range(-100000, 100000), y = g.range(-100000, 100000);
        xy({{x, y}}, false);
        std::string pr = props();
        rec(0x11, 0, {});
        expect += " R " + hexs(target.c_str()) + " " + num(x) + " " + num(y) + st + " -" + pr;
    }
    void aref(const std::string& target) {
        rec(0x0B, 0, {});
        optional_flags();
        rstr(0x12, target);
        std::string st = strans();
        int cols = 1 + (int)g.below(5), rows = 1 + (int)g.below(5);
        { std::vector<uint8_t> v; p16(v, cols); p16(v, rows); rec(0x13, 2, v); }
        int64_t x = g.range(-100000, 100000), y = g.range(-100000, 100000);
        int64_t x2 = x + cols * g.range(-40, 40), y2 = y + cols * g.range(-40, 40);
        int64_t x3 = x + rows * g.range(-40, 40), y3 = y + rows * g.range(-40, 40);
        bool regular = !(last_rot == 0 && !last_refl);
        if (!regular) { y2 = y; x3 = x; }
        xy({{x, y}, {x2, y2}, {x3, y3}}, false);
        std::string pr = props();
        rec(0x11, 0, {});
        expect += " R " + hexs(target.c_str()) + " " + num(x) + " " + num(y) + st + " " + num(cols) + " " + num(rows) + " " + (regular ? "1" : "0") +
                  " " + num(x2) + " " + num(y2) + " " + num(x3) + " " + num(y3) + pr;
    }
    void library(double user, double meters) {
        { std::vector<uint8_t> v; p16(v, 600); rec(0x00, 2, v); }
        { std::vector<uint8_t> v; for (int i = 0; i < 12; i++) p16(v, 2000 + i); rec(0x01, 2, v); }
        std::string name = rand_name(g, 9);
        rstr(0x02, name);
        if (g.chance(20)) rstr(0x1F, "REFLIB");                                   // REFLIBS
        if (g.chance(20)) r16(0x22, 2, 3);                                         // GENERATIONS
        { std::vector<uint8_t> v; p64(v, real_of(user)); p64(v, real_of(meters)); rec(0x03, 5, v); }
        expect = "LIB " + hexs(name.c_str());
        int nc = 1 + (int)g.below(4);
        std::vector<std::string> names;
        for (int c = 0; c < nc; c++) {
            { std::vector<uint8_t> v; for (int i = 0; i < 12; i++) p16(v, 1990 + i); rec(0x05, 2, v); }
            std::string cn;
            do { cn = rand_name(g, 11); } while (std::find(names.begin(), names.end(), cn) != names.end());
            names.push_back(cn);
            rstr(0x06, cn);
            if (g.chance(15)) r16(0x34, 1, 0);  // STRCLASS
            expect += " CELL " + hexs(cn.c_str());
            // the loader keeps one array per element kind: emit kinds interleaved, expect grouped
            std::string ep, eh, er, et;
            int ne = (int)g.below(7);
            for (int e = 0; e < ne; e++) {
                std::string save = expect;
                expect.clear();
                switch (g.below(5)) {
                    case 0: boundary(); ep += expect; break;
                    case 1: path(); eh += expect; break;
                    case 2: text(); et += expect; break;
                    case 3: sref(c > 0 && g.chance(80) ? names[g.below(c)] : "X" + rand_name(g, 4)); er += expect; break;
                    default: aref(c > 0 && g.chance(80) ? names[g.below(c)] : "X" + rand_name(g, 4)); er += expect;
                }
                expect = save;
            }
            if (c >= 2 && g.chance(35)) {
                // a repeated SNAME followed by other names (and sometimes an unknown one): read_rawcells removes the repeat by moving
                // the LAST dependency into its slot, so the dependency order is not the file order
                std::string t0 = names[g.below(c)];
                std::vector<std::string> seq = {t0, t0};
                for (int k = 0; k < c; k++) if (names[k] != t0) seq.push_back(names[k]);
                if (g.coin()) seq.insert(seq.begin() + 1 + (long)g.below(seq.size() - 1), "XMISSING");
                for (auto& t : seq) { std::string save = expect; expect.clear(); sref(t); er += expect; expect = save; }
                repeated_snames++;
            }
            expect += ep + eh + er + et;
            rec(0x07, 0, {});
        }
        rec(0x04, 0, {});
    }
};

static std::string load_dump(const std::string& path, double unit, const Set<Tag>* tags, bool sort, std::string* status, double* funit = NULL,
                             double* fprec = NULL) {
    std::string res;
    std::string r = in_child([&](FILE* o) {
        ErrorCode err = ErrorCode::NoError;
        Library lib = read_gds(path.c_str(), unit, 0, tags, &err);
        if ((int)err >= (int)ErrorCode::ChecksumError) {
            fprintf(o, "ERR %d", (int)err);
            return;
        }
        DumpCfg c;
        c.sort_props = sort;
        // factor: database unit in user units of the loaded library
        c.factor = lib.precision / lib.unit;
        fprintf(o, "OK %s %s\t%s", hex_dbl(lib.unit).c_str(), hex_dbl(lib.precision).c_str(), dump_loaded(lib, c).c_str());
    }, 60);
    if (r.compare(0, 2, "OK") == 0) {
        size_t t = r.find('\t');
        if (status) *status = "ok";
        unsigned long long a = 0, b = 0;
        sscanf(r.c_str() + 3, "%llx %llx", &a, &b);
        if (funit) *funit = bits_dbl(a);
        if (fprec) *fprec = bits_dbl(b);
        return r.substr(t + 1);
    }
    if (status) *status = r;
    return "";
}


// gds_info / gds_units / gds_timestamp on a file versus their models (I line) and versus the full load (P line)
static void info_case(Out& out, const char* kind, const std::string& path, const std::vector<uint8_t>& bytes, const tm* expect_tm) {
    tm t = {};
    if (expect_tm) t = *expect_tm;

            std::string id = out.add(kind, hex_bytes(bytes.data(), bytes.size()));
            LibraryInfo info = {};
            ErrorCode err = gds_info(path.c_str(), info);
            std::string s = (int)err >= (int)ErrorCode::ChecksumError ? "ERR" : "OK";
            s += " " + num((int64_t)info.cell_names.count);
            for (uint64_t i = 0; i < info.cell_names.count; i++) s += " " + hexs(info.cell_names[i]);
            s += " " + num((int64_t)info.num_polygons) + " " + num((int64_t)info.num_paths) + " " + num((int64_t)info.num_references) + " " +
                 num((int64_t)info.num_labels);
            std::vector<std::pair<uint32_t, uint32_t>> stags, ltags;
            for (SetItem<Tag>* i2 = info.shape_tags.next(NULL); i2; i2 = info.shape_tags.next(i2)) stags.push_back({get_layer(i2->value), get_type(i2->value)});
            for (SetItem<Tag>* i2 = info.label_tags.next(NULL); i2; i2 = info.label_tags.next(i2)) ltags.push_back({get_layer(i2->value), get_type(i2->value)});
            std::sort(stags.begin(), stags.end());
            std::sort(ltags.begin(), ltags.end());
            s += " S";
            for (auto& tg : stags) s += " " + num(tg.first) + ":" + num(tg.second);
            s += " L";
            for (auto& tg : ltags) s += " " + num(tg.first) + ":" + num(tg.second);
            out.I(id, s);
            // oracle against the full load
            ErrorCode e2 = ErrorCode::NoError;
            Library full = read_gds(path.c_str(), 0, 0, NULL, &e2);
            std::string verdict = "ok";
            uint64_t np = 0, nh = 0, nr = 0, nl = 0;
            std::set<std::pair<uint32_t, uint32_t>> fs, fl;
            for (uint64_t i = 0; i < full.cell_array.count; i++) {
                Cell* c = full.cell_array[i];
                np += c->polygon_array.count;
                nh += c->flexpath_array.count;
                nr += c->reference_array.count;
                nl += c->label_array.count;
                for (uint64_t j = 0; j < c->polygon_array.count; j++) fs.insert({get_layer(c->polygon_array[j]->tag), get_type(c->polygon_array[j]->tag)});
                for (uint64_t j = 0; j < c->flexpath_array.count; j++) fs.insert({get_layer(c->flexpath_array[j]->elements[0].tag), get_type(c->flexpath_array[j]->elements[0].tag)});
                for (uint64_t j = 0; j < c->label_array.count; j++) fl.insert({get_layer(c->label_array[j]->tag), get_type(c->label_array[j]->tag)});
                if (i >= info.cell_names.count || strcmp(info.cell_names[i], c->name) != 0) verdict = "FAIL gds_info-vs-load cell names differ";
            }
            if (full.cell_array.count != info.cell_names.count) verdict = "FAIL gds_info-vs-load cell count differs";
            if (np != info.num_polygons || nh != info.num_paths || nr != info.num_references || nl != info.num_labels)
                verdict = "FAIL gds_info-vs-load element counts differ";
            if (std::vector<std::pair<uint32_t, uint32_t>>(fs.begin(), fs.end()) != stags) verdict = "FAIL gds_info-vs-load shape tags differ";
            if (std::vector<std::pair<uint32_t, uint32_t>>(fl.begin(), fl.end()) != ltags) verdict = "FAIL gds_info-vs-load label tags differ";
            if (info.unit != full.unit || info.precision != full.precision) verdict = "FAIL gds_info-vs-load unit/precision differ";
            double u = 0, p = 0;
            gds_units(path.c_str(), u, p);
            if (u != full.unit || p != full.precision) verdict = "FAIL gds_units-vs-load unit/precision differ";
            ErrorCode e3 = ErrorCode::NoError;
            tm got = gds_timestamp(path.c_str(), NULL, &e3);
            if (expect_tm && (got.tm_year != t.tm_year || got.tm_mon != t.tm_mon || got.tm_mday != t.tm_mday || got.tm_hour != t.tm_hour || got.tm_min != t.tm_min ||
                got.tm_sec != t.tm_sec))
                verdict = "FAIL gds_timestamp-vs-file timestamp differs from the one written";
            out.P(id, verdict);
            info.clear();
            full.free_all();
        }

// what read_rawcells recorded: name table, byte ranges, resolved dependencies in array order (read_rawcells resolves in place and
// removes repeated / unknown names with remove_unordered: swap with last)
static std::string raw_dump(const std::string& path) {
    return in_child([&](FILE* o2) {
        ErrorCode err = ErrorCode::NoError;
        Map<RawCell*> rc = read_rawcells(path.c_str(), &err);
        if (err != ErrorCode::NoError && err != ErrorCode::MissingReference) { fprintf(o2, "ERR %d", (int)err); return; }
        std::vector<std::string> lines;
        for (MapItem<RawCell*>* it2 = rc.next(NULL); it2; it2 = rc.next(it2)) {
            RawCell* r = it2->value;
            std::string l = " K " + hexs(it2->key) + " " + hexs(r->name) + " " + std::to_string(r->offset) + " " + std::to_string(r->size) + " D";
            for (uint64_t k = 0; k < r->dependencies.count; k++) l += " " + hexs(r->dependencies[k]->name);
            lines.push_back(l);
        }
        std::sort(lines.begin(), lines.end());
        std::string all = "RAW " + std::to_string(lines.size());
        for (auto& l : lines) all += l;
        all += std::string(" missing=") + (err == ErrorCode::MissingReference ? "1" : "0");
        fputs(all.c_str(), o2);
    }, 60);
}

int main(int argc, char** argv) {
    if (argc < 4) return 2;
    uint64_t seed = strtoull(argv[1], NULL, 10);
    bool thorough = strcmp(argv[2], "thorough") == 0;
    scratch = argv[3];
    set_error_logger(NULL);
    freopen("/dev/null", "w", stderr);
    if (const char* k = getenv("VERIF_KINDS")) {
        std::string s(k);
        size_t p = 0;
        while (p <= s.size()) {
            size_t e = s.find(',', p);
            if (e == std::string::npos) e = s.size();
            if (e > p) kinds.insert(s.substr(p, e - p));
            p = e + 1;
        }
    }
    Out out;
    out.open(argv[3]);
    Rng g(seed);
    tm t = fixed_tm();
    const std::string ts = "2020 6 17 11 22 33";
    int nlib = thorough ? 1500 : 120;
    for (int it = 0; it < nlib; it++) {
        GenOpts o;
        o.max_cells = 1 + (int)g.below(4);
        o.max_elems = 1 + (int)g.below(6);
        if (it % 7 == 3) o.with_reps = false;
        if (it % 3 == 1) o.offgrid = true;  // sums of off-grid origins and offsets: one rounding, of the sum
        Library lib = gen_library(g, o);
        {
            // polygons beyond one XY record (8190 points incl. the closing one): the writer splits them into several XY records
            // when no vertex limit is given, the reader joins them again; vertex counts around the record size and its double
            static const int BIG[] = {8188, 8189, 8190, 8191, 16379, 16380, 16381, 20011};
            int nbig = thorough ? 8 : 4;
            int slot = thorough ? 40 : 20;
            if (it % slot == 5 && it / slot < nbig && lib.cell_array.count > 0) {
                static const int QUICK[] = {8189, 8191, 16380, 16381};
                int n = thorough ? BIG[it / slot] : QUICK[it / slot];
                Polygon* bp = (Polygon*)allocate_clear(sizeof(Polygon));
                bp->tag = make_tag((uint32_t)g.below(60), (uint32_t)g.below(60));
                for (int i = 0; i < n - 1; i++) bp->point_array.append(Vec2{(double)(2 * i) * o.grid, (double)((i % 2) ? 3 + (i % 5) : 0) * o.grid});
                bp->point_array.append(Vec2{(double)(n - 1) * o.grid, -50.0 * o.grid});
                lib.cell_array[0]->polygon_array.append(bp);
                out.count("big-polygon");
            }
        }
        fix_library_for_plan(lib, o);
        std::string path = scratch + "/w.gds";
        lib.write_gds(path.c_str(), 0, &t);
        std::vector<uint8_t> bytes = read_file(path);
        uint64_t u0 = gdsii_real_from_double(lib.precision / lib.unit), u1 = gdsii_real_from_double(lib.precision);
        DumpCfg pc;
        pc.factor = lib.precision / lib.unit;
        pc.bits = true;
        std::string plan = write_plan(lib, pc, u0, u1);
        // ---- wr: Library::write_gds bytes == write_gds_model(plan)
        if (want("wr")) {
            std::string id = out.add("wr", ts + " ; " + plan);
            out.I(id, hex_bytes(bytes.data(), bytes.size()));
        }
        // ---- rd: read_gds(file) dump == read_gds_model(bytes) dump
        std::string st;
        double funit = 0, fprec = 0;
        std::string loaded = load_dump(path, 0, NULL, false, &st, &funit, &fprec);
        if (want("rd")) {
            std::string id = out.add("rd", hex_bytes(bytes.data(), bytes.size()));
            out.I(id, st == "ok" ? loaded : st);
        }
        // ---- mal: damaged copies of the file (one byte replaced, a record removed / duplicated / swapped with its neighbour, a
        // length field changed): read_gds versus read_gds_model, error codes included
        if (want("mal")) {
            // record boundaries
            std::vector<size_t> offs;
            for (size_t p = 0; p + 4 <= bytes.size();) {
                size_t len = ((size_t)bytes[p] << 8) | bytes[p + 1];
                if (len < 4 || p + len > bytes.size()) break;
                offs.push_back(p);
                p += len;
            }
            for (int v = 0; v < 3 && offs.size() > 3; v++) {
                std::vector<uint8_t> mb = bytes;
                size_t k = 1 + g.below(offs.size() - 2);
                size_t a = offs[k], e = k + 1 < offs.size() ? offs[k + 1] : bytes.size();
                const char* what = "";
                switch (g.below(5)) {
                    case 0: mb[g.below(mb.size())] = (uint8_t)g.below(256); what = "byte"; break;
                    case 1: mb.erase(mb.begin() + (long)a, mb.begin() + (long)e); what = "drop"; break;
                    case 2: mb.insert(mb.begin() + (long)a, bytes.begin() + (long)a, bytes.begin() + (long)e); what = "dup"; break;
                    case 3: {
                        size_t e2 = k + 2 < offs.size() ? offs[k + 2] : bytes.size();
                        std::vector<uint8_t> sw(bytes.begin(), bytes.begin() + (long)a);
                        sw.insert(sw.end(), bytes.begin() + (long)e, bytes.begin() + (long)e2);
                        sw.insert(sw.end(), bytes.begin() + (long)a, bytes.begin() + (long)e);
                        sw.insert(sw.end(), bytes.begin() + (long)e2, bytes.end());
                        mb = sw;
                        what = "swap";
                    } break;
                    default: mb[a + 2] = (uint8_t)g.below(64); what = "type"; break;  // another record type, same payload
                }
                std::string mp = scratch + "/mal.gds";
                FILE* mf = fopen(mp.c_str(), "wb");
                fwrite(mb.data(), 1, mb.size(), mf);
                fclose(mf);
                std::string st2;
                std::string ld = load_dump(mp, 0, NULL, false, &st2);
                std::string id = out.add("mal", hex_bytes(mb.data(), mb.size()));
                out.I(id, st2 == "ok" ? ld : st2);
                out.count(std::string("mal:") + what);
                out.count(std::string("mal:result:") + (st2 == "ok" ? "loads" : st2.substr(0, 6)));
            }
        }
        // ---- rt: the property on the implementation alone: load(save(L)) == canon(L), stable under more cycles
        if (want("rt")) {
            std::string id = out.add("rt", plan);
            out.I(id, "-");
            DumpCfg ec = pc;
            ec.bits = false;
            ec.sort_props = true;
            std::string expect = write_plan(lib, ec, 0, 0);
            // strip the units from the expected LIB header: "LIB name u0 u1 ..."
            {
                size_t a = expect.find(' ', 4);
                size_t b2 = expect.find(' ', a + 1);
                size_t c2 = expect.find(' ', b2 + 1);
                if (c2 == std::string::npos) c2 = expect.size();
                expect = expect.substr(0, a) + expect.substr(c2);
            }
            std::string l1 = load_dump(path, 0, NULL, true, &st, &funit, &fprec);
            std::string verdict = "ok";
            if (st != "ok") verdict = "FAIL gds-roundtrip load of a saved library fails: " + st;
            else if (l1 != expect) verdict = "FAIL gds-roundtrip loaded library differs from the saved one (grid dump)";
            else if (funit != lib.unit || fprec != lib.precision) verdict = "FAIL gds-roundtrip-units unit/precision changed";
            else {
                // second cycle
                std::string r2 = in_child([&](FILE* o2) {
                    ErrorCode err = ErrorCode::NoError;
                    Library l2 = read_gds(path.c_str(), 0, 0, NULL, &err);
                    std::string p2 = scratch + "/w2.gds";
                    tm t2 = fixed_tm();
                    l2.write_gds(p2.c_str(), 0, &t2);
                    Library l3 = read_gds(p2.c_str(), 0, 0, NULL, &err);
                    DumpCfg c3;
                    c3.sort_props = true;
                    c3.factor = l3.precision / l3.unit;
                    fprintf(o2, "%s", dump_loaded(l3, c3).c_str());
                }, 60);
                if (r2 != l1) verdict = "FAIL gds-roundtrip-stable a second save/load cycle changes the layout";
            }
            out.P(id, verdict);
        }
        if (want("info")) info_case(out, "info", path, bytes, &t);
        // ---- filter: load with tag filter == load everything then discard
        if (want("filter")) {
            Set<Tag> tags = {};
            std::string tagtxt;
            int nt = (int)g.below(4);
            // pick tags present in the library (and some absent)
            std::vector<Tag> present;
            for (uint64_t i = 0; i < lib.cell_array.count; i++) {
                for (uint64_t j = 0; j < lib.cell_array[i]->polygon_array.count; j++) present.push_back(lib.cell_array[i]->polygon_array[j]->tag);
                for (uint64_t j = 0; j < lib.cell_array[i]->flexpath_array.count; j++) present.push_back(lib.cell_array[i]->flexpath_array[j]->elements[0].tag);
            }
            for (int k = 0; k < nt; k++) {
                Tag tg = (!present.empty() && g.chance(80)) ? present[g.below(present.size())] : make_tag((uint32_t)g.below(60), (uint32_t)g.below(60));
                if (!tags.has_value(tg)) {
                    tags.add(tg);
                    tagtxt += (tagtxt.empty() ? "" : ",") + num(get_layer(tg)) + ":" + num(get_type(tg));
                }
            }
            std::string id = out.add("filter", (tagtxt.empty() ? std::string("-") : tagtxt) + " " + hex_bytes(bytes.data(), bytes.size()));
            std::string fst;
            std::string filtered = load_dump(path, 0, &tags, false, &fst);
            out.I(id, fst == "ok" ? filtered : fst);
            // oracle: full load, then drop polygons / paths with other tags (labels and references stay)
            std::string r2 = in_child([&](FILE* o2) {
                ErrorCode err = ErrorCode::NoError;
                Library l2 = read_gds(path.c_str(), 0, 0, NULL, &err);
                for (uint64_t i = 0; i < l2.cell_array.count; i++) {
                    Cell* c = l2.cell_array[i];
                    uint64_t w = 0;
                    for (uint64_t j = 0; j < c->polygon_array.count; j++)
                        if (tags.has_value(c->polygon_array[j]->tag)) c->polygon_array[w++] = c->polygon_array[j];
                    c->polygon_array.count = w;
                    w = 0;
                    for (uint64_t j = 0; j < c->flexpath_array.count; j++)
                        if (tags.has_value(c->flexpath_array[j]->elements[0].tag)) c->flexpath_array[w++] = c->flexpath_array[j];
                    c->flexpath_array.count = w;
                }
                DumpCfg c3;
                c3.factor = l2.precision / l2.unit;
                fprintf(o2, "%s", dump_loaded(l2, c3).c_str());
            }, 60);
            out.P(id, (fst == "ok" && r2 == filtered) ? "ok" : "FAIL gds-filter-vs-discard filtered load differs from load-then-discard");
            tags.clear();
        }
        // ---- unit: load with a target unit == load natively and rescale
        if (want("unit") && it % 3 == 0) {
            static const double units[] = {1e-6, 1e-9, 1.0, 0.5, 2.0, 1e-3};
            double target = units[g.below(6)];
            std::string id = out.add("unit", hex_dbl(target) + " " + hex_bytes(bytes.data(), bytes.size()));
            out.I(id, "-");
            std::string r2 = in_child([&](FILE* o2) {
                ErrorCode err = ErrorCode::NoError;
                Library a = read_gds(path.c_str(), 0, 0, NULL, &err);
                Library b2 = read_gds(path.c_str(), target, 0, NULL, &err);
                double k = a.unit / target;
                const char* bad = NULL;
                if (b2.unit != target) bad = "library unit is not the requested one";
                if (fabs(b2.precision - a.precision) > 1e-15 * a.precision) bad = "precision changed";
                for (uint64_t i = 0; i < a.cell_array.count && !bad; i++) {
                    Cell *ca = a.cell_array[i], *cb = b2.cell_array[i];
                    if (ca->polygon_array.count != cb->polygon_array.count || ca->flexpath_array.count != cb->flexpath_array.count ||
                        ca->reference_array.count != cb->reference_array.count || ca->label_array.count != cb->label_array.count) {
                        bad = "element counts differ";
                        break;
                    }
                    auto close = [&](double x, double y) { return fabs(x * k - y) <= 1e-12 * (fabs(y) + 1e-300) + 1e-300; };
                    for (uint64_t j = 0; j < ca->polygon_array.count; j++)
                        for (uint64_t q = 0; q < ca->polygon_array[j]->point_array.count; q++)
                            if (!close(ca->polygon_array[j]->point_array[q].x, cb->polygon_array[j]->point_array[q].x) ||
                                !close(ca->polygon_array[j]->point_array[q].y, cb->polygon_array[j]->point_array[q].y))
                                bad = "polygon vertex not rescaled";
                    for (uint64_t j = 0; j < ca->flexpath_array.count; j++) {
                        FlexPath *pa = ca->flexpath_array[j], *pb = cb->flexpath_array[j];
                        for (uint64_t q = 0; q < pa->spine.point_array.count; q++)
                            if (!close(pa->spine.point_array[q].x, pb->spine.point_array[q].x) || !close(pa->spine.point_array[q].y, pb->spine.point_array[q].y))
                                bad = "path vertex not rescaled";
                        // the default path tolerance is one database unit expressed in the unit of the LOADED library: it rescales too
                        if (!close(pa->spine.tolerance, pb->spine.tolerance)) bad = "default path tolerance not rescaled to the target unit";
                        if (!close(pa->elements[0].half_width_and_offset[0].u, pb->elements[0].half_width_and_offset[0].u)) bad = "path width not rescaled";
                        if (!close(pa->elements[0].end_extensions.u, pb->elements[0].end_extensions.u)) bad = "path extension not rescaled";
                    }
                    for (uint64_t j = 0; j < ca->reference_array.count; j++) {
                        Reference *ra = ca->reference_array[j], *rb = cb->reference_array[j];
                        if (!close(ra->origin.x, rb->origin.x) || !close(ra->origin.y, rb->origin.y)) bad = "reference origin not rescaled";
                        if (ra->magnification != rb->magnification || ra->rotation != rb->rotation) bad = "reference placement changed";
                        if (ra->repetition.type != rb->repetition.type) bad = "reference repetition kind changed";
                        else if (ra->repetition.type == RepetitionType::Rectangular &&
                                 (!close(ra->repetition.spacing.x, rb->repetition.spacing.x) || !close(ra->repetition.spacing.y, rb->repetition.spacing.y)))
                            bad = "array spacing not rescaled";
                    }
                    for (uint64_t j = 0; j < ca->label_array.count; j++)
                        if (!close(ca->label_array[j]->origin.x, cb->label_array[j]->origin.x) || !close(ca->label_array[j]->origin.y, cb->label_array[j]->origin.y))
                            bad = "label origin not rescaled";
                }
                fprintf(o2, "%s", bad ? bad : "ok");
            }, 60);
            out.P(id, r2 == "ok" ? "ok" : "FAIL gds-target-unit " + r2);
        }
        // ---- raw: raw cells transplanted with GdsWriter load as they load from the original
        if (want("raw") && it % 2 == 0) {
            uint64_t mask = g.next();
            std::string id = out.add("raw", hex_u64(mask & 0xff) + " " + hex_bytes(bytes.data(), bytes.size()));
            // what read_rawcells recorded: name table, byte ranges, resolved dependencies (versus GdsRaw.read_rawcells_model)
            out.I(id, raw_dump(path));
            std::string r2 = in_child([&](FILE* o2) {
                ErrorCode err = ErrorCode::NoError;
                Map<RawCell*> rc = read_rawcells(path.c_str(), &err);
                Library orig = read_gds(path.c_str(), 0, 0, NULL, &err);
                std::string p2 = scratch + "/raw.gds";
                tm t2 = fixed_tm();
                GdsWriter w = gdswriter_init(p2.c_str(), "RAWLIB", orig.unit, orig.precision, 0, &t2, &err);
                std::vector<std::string> chosen;
                for (uint64_t i = 0; i < orig.cell_array.count; i++) {
                    if (!((mask >> (i % 8)) & 1)) continue;
                    RawCell* r = rc.get(orig.cell_array[i]->name);
                    if (!r) { fprintf(o2, "raw cell %s missing", orig.cell_array[i]->name); return; }
                    w.write_rawcell(*r);
                    chosen.push_back(orig.cell_array[i]->name);
                }
                w.close();
                Library nl = read_gds(p2.c_str(), 0, 0, NULL, &err);
                if (nl.cell_array.count != chosen.size()) { fprintf(o2, "cell count %d, expected %d", (int)nl.cell_array.count, (int)chosen.size()); return; }
                DumpCfg c3;
                c3.factor = orig.precision / orig.unit;
                // compare cell by cell: dump single-cell libraries
                for (size_t i = 0; i < chosen.size(); i++) {
                    Library a = {}, b2 = {};
                    a.name = (char*)"x"; b2.name = (char*)"x";
                    a.cell_array.append(orig.get_cell(chosen[i].c_str()));
                    b2.cell_array.append(nl.cell_array[i]);
                    if (dump_loaded(a, c3) != dump_loaded(b2, c3)) { fprintf(o2, "cell %s loads differently from the new file", chosen[i].c_str()); return; }
                }
                fprintf(o2, "ok");
            }, 60);
            out.P(id, r2 == "ok" ? "ok" : "FAIL gds-rawcell-transplant " + r2);
        }
        // ---- gw: the incremental writer (gdswriter_init / write_cell / close) with an arbitrary library name
        if (want("gw") && it % 2 == 0) {
            std::string p2 = scratch + "/gw.gds";
            std::string lname = rand_name(g, 9);
            std::string r2 = in_child([&](FILE* o2) {
                ErrorCode err = ErrorCode::NoError;
                tm t2 = fixed_tm();
                GdsWriter w = gdswriter_init(p2.c_str(), lname.c_str(), lib.unit, lib.precision, 0, &t2, &err);
                for (uint64_t i = 0; i < lib.cell_array.count; i++) w.write_cell(*lib.cell_array[i]);
                w.close();
                fprintf(o2, "ok");
            }, 60);
            std::vector<uint8_t> gb = read_file(p2);
            std::string id = out.add("gw", hex_bytes(gb.data(), gb.size()));
            std::string st2;
            std::string l2 = load_dump(p2, 0, NULL, false, &st2);
            out.I(id, st2 == "ok" ? l2 : st2);
            // oracle: same cells as Library::write_gds of the same library (the LIB name differs)
            std::string expect = loaded;
            size_t sp = expect.find(' ', 4);
            std::string tail = sp == std::string::npos ? "" : expect.substr(sp);
            std::string want_dump = "LIB " + hexs(lname.c_str()) + tail;
            out.P(id, (r2 == "ok" && st2 == "ok" && l2 == want_dump) ? "ok" : "FAIL gdswriter-vs-write_gds file written through GdsWriter loads differently from Library::write_gds output");
        }
        // ---- ts: rewriting timestamps changes only the 12 words after BGNLIB / BGNSTR headers
        if (want("ts") && it % 2 == 1) {
            std::string id = out.add("ts", hex_bytes(bytes.data(), bytes.size()));
            std::string p2 = scratch + "/ts.gds";
            write_file(p2, bytes.data(), bytes.size());
            tm nt2 = {};
            nt2.tm_year = 99; nt2.tm_mon = 0; nt2.tm_mday = 2; nt2.tm_hour = 3; nt2.tm_min = 4; nt2.tm_sec = 5;
            ErrorCode err = ErrorCode::NoError;
            gds_timestamp(p2.c_str(), &nt2, &err);
            std::vector<uint8_t> nb = read_file(p2);
            out.I(id, hex_bytes(nb.data(), nb.size()));
            // oracle: same length; differences only inside record payloads of type 1 / 5; same load
            std::string verdict = "ok";
            if (nb.size() != bytes.size()) verdict = "FAIL gds-timestamp-rewrite file length changed";
            else {
                size_t pos = 0;
                while (pos + 4 <= bytes.size()) {
                    size_t len = ((size_t)bytes[pos] << 8) | bytes[pos + 1];
                    if (len < 4) break;
                    bool tsrec = bytes[pos + 2] == 1 || bytes[pos + 2] == 5;
                    for (size_t k = pos; k < pos + len && k < bytes.size(); k++) {
                        bool inside = tsrec && k >= pos + 4 && k < pos + 28;
                        if (!inside && bytes[k] != nb[k]) verdict = "FAIL gds-timestamp-rewrite byte outside a timestamp field changed";
                    }
                    // the twelve words of the field: modification and access time, both the new date, big endian
                    if (tsrec && len == 28 && pos + 28 <= nb.size()) {
                        static const uint16_t want[6] = {1999, 1, 2, 3, 4, 5};
                        for (int w = 0; w < 12; w++) {
                            unsigned v = ((unsigned)nb[pos + 4 + 2 * w] << 8) | nb[pos + 5 + 2 * w];
                            if (v != want[w % 6]) verdict = "FAIL gds-timestamp-rewrite word " + std::to_string(w) + " of a rewritten timestamp field is " + std::to_string(v) + ", not " + std::to_string(want[w % 6]);
                        }
                    }
                    pos += len;
                }
                std::string st2;
                std::string l2 = load_dump(p2, 0, NULL, false, &st2);
                if (st2 != "ok" || l2 != loaded) verdict = "FAIL gds-timestamp-rewrite rewritten file loads differently";
                ErrorCode e4 = ErrorCode::NoError;
                tm got = gds_timestamp(p2.c_str(), NULL, &e4);
                if (got.tm_year != 99 || got.tm_mon != 0 || got.tm_mday != 2 || got.tm_hour != 3 || got.tm_min != 4 || got.tm_sec != 5)
                    verdict = "FAIL gds-timestamp-rewrite new timestamp not stored";
                // the field holds six plain numbers, not a calendar time: stamps that no calendar knows (day 31 of April, second 60,
                // month 0 / day 0 as some tools write) must be stored and returned verbatim, by the rewrite and by the query
                static const int odd[3][6] = {{2024, 4, 31, 23, 59, 60}, {1987, 0, 0, 0, 0, 0}, {2031, 2, 30, 24, 0, 0}};
                const int* od = odd[(it / 2) % 3];
                tm w3 = {};
                w3.tm_year = od[0] - 1900; w3.tm_mon = od[1] - 1; w3.tm_mday = od[2]; w3.tm_hour = od[3]; w3.tm_min = od[4]; w3.tm_sec = od[5];
                ErrorCode e5 = ErrorCode::NoError;
                gds_timestamp(p2.c_str(), &w3, &e5);
                std::vector<uint8_t> ob = read_file(p2);
                if (ob.size() >= 28 && ob[2] == 0 && ob[3] == 2) {
                    size_t q = ((size_t)ob[0] << 8) | ob[1];  // BGNLIB follows HEADER
                    for (int w = 0; w < 12 && q + 28 <= ob.size(); w++) {
                        unsigned v = ((unsigned)ob[q + 4 + 2 * w] << 8) | ob[q + 5 + 2 * w];
                        if (v != (unsigned)od[w % 6] && verdict == "ok")
                            verdict = "FAIL gds-timestamp-rewrite word " + std::to_string(w) + " of a stamp that is no calendar date is " + std::to_string(v) + ", not " + std::to_string(od[w % 6]);
                    }
                }
                ErrorCode e6 = ErrorCode::NoError;
                tm g3 = gds_timestamp(p2.c_str(), NULL, &e6);
                if (verdict == "ok" && (g3.tm_year != w3.tm_year || g3.tm_mon != w3.tm_mon || g3.tm_mday != w3.tm_mday || g3.tm_hour != w3.tm_hour ||
                                        g3.tm_min != w3.tm_min || g3.tm_sec != w3.tm_sec))
                    verdict = "FAIL gds-timestamp-query the query does not return the stored words of a stamp that is no calendar date";
            }
            out.P(id, verdict);
        }
        lib.free_all();
    }
    // ---- spec: streams from the specification-level encoder
    int nspec = thorough ? 3000 : 250;
    for (int it = 0; it < nspec && (want("spec") || want("specinfo")); it++) {
        SpecEnc e(g);
        e.wide_tags = !want("spec");
        static const double users[] = {1e-3, 1.0 / 1024, 0.5, 1e-3, 1e-3};
        static const double meters[] = {1e-9, 1.0 / 1024, 1e-7, 1e-9, 5e-10};
        int ui = (int)g.below(5);
        e.library(users[ui], meters[ui]);
        std::string path = scratch + "/s.gds";
        write_file(path, e.b.data(), e.b.size());
        if (want("specinfo")) info_case(out, "specinfo", path, e.b, NULL);
        // ---- raw on specification-level streams (repeated SNAMEs): read_rawcells versus GdsRaw.read_rawcells_model, dependency order included
        if (want("raw") && e.repeated_snames > 0) {
            std::string id = out.add("raw", "0 " + hex_bytes(e.b.data(), e.b.size()));
            out.I(id, raw_dump(path));
            out.count("raw-repeated-snames");
        }
        // ---- filter on specification-level streams with 16-bit tags >= 32768: read_gds keeps the sign-extended field in a uint32 half of
        // the tag (0x8001 -> 4294934529) and the filter set compares those 32-bit values: a filter tag 32769 must NOT select it
        if (want("filter") && e.wide_tags && it % 3 == 0) {
            std::vector<Tag> present;
            {
                ErrorCode err = ErrorCode::NoError;
                Library l0 = read_gds(path.c_str(), 0, 0, NULL, &err);
                for (uint64_t i = 0; i < l0.cell_array.count; i++) {
                    for (uint64_t j = 0; j < l0.cell_array[i]->polygon_array.count; j++) present.push_back(l0.cell_array[i]->polygon_array[j]->tag);
                    for (uint64_t j = 0; j < l0.cell_array[i]->flexpath_array.count; j++) present.push_back(l0.cell_array[i]->flexpath_array[j]->elements[0].tag);
                }
                l0.free_all();
            }
            Set<Tag> tags = {};
            std::string tagtxt;
            int nt = 1 + (int)g.below(4);
            for (int k = 0; k < nt; k++) {
                Tag tg;
                if (!present.empty() && g.chance(70)) {
                    tg = present[g.below(present.size())];
                    // the same 16-bit fields NOT sign-extended: what a caller thinking in 0..65535 would pass
                    if (g.chance(30)) tg = make_tag(get_layer(tg) & 0xffff, get_type(tg) & 0xffff);
                } else tg = make_tag((uint32_t)g.below(200), (uint32_t)g.below(200));
                if (!tags.has_value(tg)) {
                    tags.add(tg);
                    tagtxt += (tagtxt.empty() ? "" : ",") + num(get_layer(tg)) + ":" + num(get_type(tg));
                    if (get_layer(tg) > 32767 || get_type(tg) > 32767) out.count("filter-wide-tag");
                }
            }
            std::string id = out.add("filter", tagtxt + " " + hex_bytes(e.b.data(), e.b.size()));
            std::string fst;
            std::string filtered = load_dump(path, 0, &tags, false, &fst);
            out.I(id, fst == "ok" ? filtered : fst);
            std::string r2 = in_child([&](FILE* o2) {
                ErrorCode err = ErrorCode::NoError;
                Library l2 = read_gds(path.c_str(), 0, 0, NULL, &err);
                for (uint64_t i = 0; i < l2.cell_array.count; i++) {
                    Cell* c = l2.cell_array[i];
                    uint64_t w = 0;
                    for (uint64_t j = 0; j < c->polygon_array.count; j++)
                        if (tags.has_value(c->polygon_array[j]->tag)) c->polygon_array[w++] = c->polygon_array[j];
                    c->polygon_array.count = w;
                    w = 0;
                    for (uint64_t j = 0; j < c->flexpath_array.count; j++)
                        if (tags.has_value(c->flexpath_array[j]->elements[0].tag)) c->flexpath_array[w++] = c->flexpath_array[j];
                    c->flexpath_array.count = w;
                }
                DumpCfg c3;
                c3.factor = l2.precision / l2.unit;
                fprintf(o2, "%s", dump_loaded(l2, c3).c_str());
            }, 60);
            out.P(id, (fst == "ok" && r2 == filtered) ? "ok" : "FAIL gds-filter-vs-discard filtered load differs from load-then-discard");
            tags.clear();
        }
        if (want("spec")) {
            std::string id = out.add("spec", hex_bytes(e.b.data(), e.b.size()));
            std::string st;
            std::string loaded = load_dump(path, 0, NULL, false, &st);
            out.I(id, st == "ok" ? loaded : st);
            out.P(id, (st == "ok" && loaded == e.expect) ? "ok" : "FAIL gds-spec-stream a specification-legal stream does not load to the layout it encodes");
            if (!(st == "ok" && loaded == e.expect)) out.count("spec_expect_mismatch");
        }
    }
    // ---- nowidth: PATH without WIDTH after a PATH with WIDTH (F15)
    if (want("spec")) {
        for (int it = 0; it < 6; it++) {
            SpecEnc e(g);
            { std::vector<uint8_t> v; SpecEnc::p16(v, 600); e.rec(0x00, 2, v); }
            { std::vector<uint8_t> v; for (int i = 0; i < 12; i++) SpecEnc::p16(v, 2000); e.rec(0x01, 2, v); }
            e.rstr(0x02, "LIBW");
            { std::vector<uint8_t> v; SpecEnc::p64(v, SpecEnc::real_of(1e-3)); SpecEnc::p64(v, SpecEnc::real_of(1e-9)); e.rec(0x03, 5, v); }
            { std::vector<uint8_t> v; for (int i = 0; i < 12; i++) SpecEnc::p16(v, 2000); e.rec(0x05, 2, v); }
            e.rstr(0x06, "TOP");
            int64_t w = 10 + it;
            // first path with width, second without
            e.rec(0x09, 0, {}); e.r16(0x0D, 2, 1); e.r16(0x0E, 2, 0); e.r32(0x0F, w); e.xy({{0, 0}, {100, 0}}, false); e.rec(0x11, 0, {});
            e.rec(0x09, 0, {}); e.r16(0x0D, 2, 2); e.r16(0x0E, 2, 0); e.xy({{0, 50}, {100, 50}}, false); e.rec(0x11, 0, {});
            e.rec(0x07, 0, {}); e.rec(0x04, 0, {});
            std::string expect = "LIB 4c494257 CELL 544f50 H 1 0 0 " + num(w) + " 1 0 0 2 0 0 100 0 k 0 H 2 0 0 0 0 0 0 2 0 50 100 50 k 0";
            std::string path = scratch + "/s.gds";
            write_file(path, e.b.data(), e.b.size());
            std::string id = out.add("spec", hex_bytes(e.b.data(), e.b.size()));
            std::string st;
            std::string loaded = load_dump(path, 0, NULL, false, &st);
            out.I(id, st == "ok" ? loaded : st);
            out.P(id, (st == "ok" && loaded == expect) ? "ok" : "FAIL read_gds:width-persists a PATH without WIDTH takes the width of the previous PATH");
        }
    }
    out.close();
    return 0;
}
