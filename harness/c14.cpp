// C14 harness: drives Polygon::contain / contain_all / contain_any, inside / all_inside /
// any_inside, Polygon::signed_area / area / perimeter of the real library on integer-valued
// coordinates (|c| < 2^25, so every difference and cross product is exact in double; half-grid
// query points are integers because the 4x4 grid is doubled).
//
// payload syntax (integers in hex, '-' prefix for negatives):
//   pipg  : <points>                                   query = 81 points (qx,qy), qx,qy in -1..7, qx outer
//   pip   : <points> | <query points>
//   call / cany : <points> / <extrema> / <rep> | <query points>
//   grp   : <points> / <extrema> / <rep> ; ... | <query points>
//   area / perim : <points> | <copies> | <rep>
//   perimb : <vertex bit patterns: 16 hex digits per coordinate, x y x y ...> | <copies> | <rep>
//            (any finite doubles: non-integer dyadic, large magnitudes, inexact differences)
// <rep> describes the repetition the harness attaches to the polygon:
//   n | r cols rows sx sy | g cols rows v1x v1y v2x v2y | e x y ... | x c ... | y c ...
// <extrema> (= repetition.get_extrema()) and <copies> (= get_count(), "-" without repetition) are
// what the model needs of it; they are recomputed from <rep> whenever a case is (re)run.
#include <algorithm>
#include <cmath>
#include <gdstk/gdstk.hpp>
#include "common.hpp"

using namespace gdstk;

typedef std::vector<std::pair<int64_t, int64_t>> Pts;

// ---------------------------------------------------------------- text helpers
static std::vector<std::string> split(const std::string& s, char c) {
    std::vector<std::string> v;
    size_t p = 0;
    while (true) {
        size_t q = s.find(c, p);
        if (q == std::string::npos) {
            v.push_back(s.substr(p));
            break;
        }
        v.push_back(s.substr(p, q - p));
        p = q + 1;
    }
    return v;
}
static std::vector<std::string> toks(const std::string& s) {
    std::vector<std::string> v;
    size_t i = 0;
    while (i < s.size()) {
        while (i < s.size() && s[i] == ' ') i++;
        size_t j = i;
        while (j < s.size() && s[j] != ' ') j++;
        if (j > i) v.push_back(s.substr(i, j - i));
        i = j;
    }
    return v;
}
static int64_t unhex_i64(const std::string& t) {
    bool neg = !t.empty() && t[0] == '-';
    int64_t v = (int64_t)strtoull(t.c_str() + (neg ? 1 : 0), NULL, 16);
    return neg ? -v : v;
}
static std::vector<int64_t> ints(const std::string& s) {
    std::vector<int64_t> v;
    for (auto& t : toks(s)) v.push_back(unhex_i64(t));
    return v;
}
static Pts parse_pts(const std::string& s) {
    std::vector<int64_t> v = ints(s);
    Pts p;
    for (size_t i = 0; i + 1 < v.size(); i += 2) p.push_back({v[i], v[i + 1]});
    return p;
}
static std::string fmt_pts(const Pts& p) {
    std::string s;
    for (size_t i = 0; i < p.size(); i++) {
        if (i) s += " ";
        s += hex_i64(p[i].first) + " " + hex_i64(p[i].second);
    }
    return s;
}
static std::string bits(const std::vector<bool>& b) {
    std::string s;
    for (bool x : b) s += x ? '1' : '0';
    return s;
}

// ---------------------------------------------------------------- building library objects
static void set_points(Polygon& P, const Pts& pts) {
    for (auto& q : pts) P.point_array.append(Vec2{(double)q.first, (double)q.second});
}
static void set_repetition(Polygon& P, const std::string& rep) {
    std::vector<std::string> t = toks(rep);
    memset(&P.repetition, 0, sizeof P.repetition);
    if (t.empty() || t[0] == "n") return;
    std::vector<int64_t> v;
    for (size_t i = 1; i < t.size(); i++) v.push_back(unhex_i64(t[i]));
    auto at = [&](size_t i) -> int64_t { return i < v.size() ? v[i] : 0; };
    if (t[0] == "r") {
        P.repetition.type = RepetitionType::Rectangular;
        P.repetition.columns = (uint64_t)at(0);
        P.repetition.rows = (uint64_t)at(1);
        P.repetition.spacing = Vec2{(double)at(2), (double)at(3)};
    } else if (t[0] == "g") {
        P.repetition.type = RepetitionType::Regular;
        P.repetition.columns = (uint64_t)at(0);
        P.repetition.rows = (uint64_t)at(1);
        P.repetition.v1 = Vec2{(double)at(2), (double)at(3)};
        P.repetition.v2 = Vec2{(double)at(4), (double)at(5)};
    } else if (t[0] == "e") {
        P.repetition.type = RepetitionType::Explicit;
        for (size_t i = 0; i + 1 < v.size(); i += 2) P.repetition.offsets.append(Vec2{(double)v[i], (double)v[i + 1]});
    } else if (t[0] == "x" || t[0] == "y") {
        P.repetition.type = t[0] == "x" ? RepetitionType::ExplicitX : RepetitionType::ExplicitY;
        for (size_t i = 0; i < v.size(); i++) P.repetition.coords.append((double)v[i]);
    }
}
static bool integral(double d) { return std::isfinite(d) && d == std::floor(d) && std::fabs(d) < 9e15; }
// repetition.get_extrema() as integers; ok=false if some offset is not an integer
static Pts extrema_of(const Polygon& P, bool& ok) {
    Pts e;
    ok = true;
    if (P.repetition.type == RepetitionType::None) return e;
    Array<Vec2> offs = {};
    P.repetition.get_extrema(offs);
    for (uint64_t i = 0; i < offs.count; i++) {
        if (!integral(offs[i].x) || !integral(offs[i].y)) ok = false;
        e.push_back({(int64_t)offs[i].x, (int64_t)offs[i].y});
    }
    offs.clear();
    return e;
}
static std::string copies_of(const Polygon& P) {
    if (P.repetition.type == RepetitionType::None) return "-";
    return hex_u64(P.repetition.get_count());
}

// ---------------------------------------------------------------- exact reference (P lines)
// independent integer evaluation of  on_boundary || wn != 0  (half-open rule a.y < p.y <= b.y)
static bool ref_contain(const Pts& poly, int64_t x, int64_t y) {
    size_t n = poly.size();
    int64_t w = 0;
    for (size_t i = 0; i < n; i++) {
        int64_t ax = poly[i].first, ay = poly[i].second;
        int64_t bx = poly[(i + 1) % n].first, by = poly[(i + 1) % n].second;
        __int128 det = (__int128)(ax - x) * (by - y) - (__int128)(ay - y) * (bx - x);
        if (det == 0 && std::min(ax, bx) <= x && x <= std::max(ax, bx) && std::min(ay, by) <= y && y <= std::max(ay, by))
            return true;
        if (ay < y && y <= by) {
            if (det > 0) w++;
        } else if (by < y && y <= ay) {
            if (det < 0) w--;
        }
    }
    return w != 0;
}

// property-level oracle for perimeter(): the closed edge-length sum (times copies) evaluated in
// long double from the vertices themselves, and the bound of PerimeterProofs.perimeter_error_lemma:
// |perimeter - copies * sum| <= ((1+u)^(n+7) - 1) * copies * sum, u = 2^-53 (a little slack for the
// long double evaluation, whose own error is below n * 2^-63 of the sum); zero below three vertices
static std::string perimeter_oracle(const std::vector<std::pair<double, double>>& v, double pe, double cf) {
    size_t n = v.size();
    if (n < 3) return dbl_bits(pe) == 0 ? "ok" : "FAIL perimeter-vs-edges perimeter() of fewer than three vertices is not +0";
    long double ref = 0;
    for (size_t i = 0; i < n; i++) {
        size_t j = (i + 1) % n;
        long double dx = (long double)v[j].first - (long double)v[i].first, dy = (long double)v[j].second - (long double)v[i].second;
        ref += sqrtl(dx * dx + dy * dy);
    }
    ref *= (long double)cf;
    long double tol = ref * ((long double)(n + 7) * 1.11022302462515654e-16L * 1.001L);
    long double err = (long double)pe - ref;
    if (err < 0) err = -err;
    if (std::isfinite(pe) && pe >= 0 && err <= tol) return "ok";
    char b[240];
    snprintf(b, sizeof b, "FAIL perimeter-vs-edges perimeter() = %.17g, closed edge-length sum times copies = %.20Lg (error %.3Lg, allowed %.3Lg)", pe,
             ref, err, tol);
    return b;
}

struct PolySpec {
    Pts pts;
    std::string rep;
};
static PolySpec parse_poly(const std::string& s) {
    std::vector<std::string> part = split(s, '/');
    PolySpec ps;
    ps.pts = parse_pts(part[0]);
    ps.rep = part.size() > 2 ? part[2] : "n";
    while (!ps.rep.empty() && ps.rep[0] == ' ') ps.rep.erase(0, 1);
    while (!ps.rep.empty() && ps.rep.back() == ' ') ps.rep.pop_back();
    if (ps.rep.empty()) ps.rep = "n";
    return ps;
}

// ---------------------------------------------------------------- one case
static void run_case(Out& out, const std::string& kind, const std::string& payload) {
    std::vector<std::string> sec = split(payload, '|');
    if (kind == "pipg" || kind == "pip") {
        Pts pts = parse_pts(sec[0]);
        Pts qs;
        if (kind == "pipg") {
            for (int i = 0; i < 9; i++)
                for (int j = 0; j < 9; j++) qs.push_back({i - 1, j - 1});
        } else {
            qs = parse_pts(sec.size() > 1 ? sec[1] : "");
        }
        std::string id = out.add(kind, kind == "pipg" ? fmt_pts(pts) : fmt_pts(pts) + " | " + fmt_pts(qs));
        Polygon P = {};
        set_points(P, pts);
        std::vector<bool> res;
        long bad = -1;
        long n_in = 0, n_bd = 0;
        for (size_t k = 0; k < qs.size(); k++) {
            bool r = P.contain(Vec2{(double)qs[k].first, (double)qs[k].second});
            res.push_back(r);
            bool e = ref_contain(pts, qs[k].first, qs[k].second);
            if (r != e && bad < 0) bad = (long)k;
            n_in += r;
        }
        (void)n_bd;
        out.I(id, bits(res));
        if (bad >= 0) {
            char b[160];
            snprintf(b, sizeof b, "FAIL contain-vs-winding query #%ld (%s,%s): contain() = %d, on-boundary-or-winding = %d", bad,
                     hex_i64(qs[bad].first).c_str(), hex_i64(qs[bad].second).c_str(), (int)res[bad], (int)!res[bad]);
            out.P(id, b);
        } else
            out.P(id, "ok");
        out.count("pip:vertices:" + std::to_string(std::min<size_t>(pts.size(), 41) / 5 * 5) + "+");
        out.count("pip:queries", (long)qs.size());
        out.count("pip:queries-inside", n_in);
        P.clear();
    } else if (kind == "call" || kind == "cany") {
        PolySpec ps = parse_poly(sec[0]);
        Pts qs = parse_pts(sec.size() > 1 ? sec[1] : "");
        Polygon P = {};
        set_points(P, ps.pts);
        set_repetition(P, ps.rep);
        bool ok;
        Pts ex = extrema_of(P, ok);
        std::string id = out.add(kind, fmt_pts(ps.pts) + " / " + fmt_pts(ex) + " / " + ps.rep + " | " + fmt_pts(qs));
        Array<Vec2> arr = {};
        for (auto& q : qs) arr.append(Vec2{(double)q.first, (double)q.second});
        bool r = kind == "call" ? P.contain_all(arr) : P.contain_any(arr);
        bool e = kind == "call";
        for (uint64_t k = 0; k < arr.count; k++) {
            bool c = P.contain(arr[k]);
            if (kind == "call") e = e && c;
            else e = e || c;
        }
        out.I(id, r ? "1" : "0");
        out.P(id, !ok ? "FAIL harness-nonintegral-extrema" : r == e ? "ok" : "FAIL group-vs-single " + kind + " differs from the " + (kind == "call" ? "conjunction" : "disjunction") + " of contain()");
        out.count(kind + (r ? ":true" : ":false"));
        out.count(std::string("rep:") + ps.rep.substr(0, 1));
        arr.clear();
        P.clear();
    } else if (kind == "grp") {
        std::vector<PolySpec> specs;
        for (auto& s : split(sec[0], ';'))
            if (!toks(s).empty()) specs.push_back(parse_poly(s));
        Pts qs = parse_pts(sec.size() > 1 ? sec[1] : "");
        std::vector<Polygon*> polys;
        Array<Polygon*> parr = {};
        std::string canon;
        bool ok = true;
        for (auto& ps : specs) {
            Polygon* P = (Polygon*)allocate_clear(sizeof(Polygon));
            set_points(*P, ps.pts);
            set_repetition(*P, ps.rep);
            bool ok1;
            Pts ex = extrema_of(*P, ok1);
            ok = ok && ok1;
            if (!canon.empty()) canon += " ; ";
            canon += fmt_pts(ps.pts) + " / " + fmt_pts(ex) + " / " + ps.rep;
            polys.push_back(P);
            parr.append(P);
            out.count(std::string("rep:") + ps.rep.substr(0, 1));
        }
        std::string id = out.add(kind, canon + " | " + fmt_pts(qs));
        Array<Vec2> arr = {};
        for (auto& q : qs) arr.append(Vec2{(double)q.first, (double)q.second});
        // the result buffer arrives dirty: inside() must write every entry, also for points its pre-filter rejects
        bool* flags = (bool*)allocate_clear(qs.size() + 1);
        for (size_t qi = 0; qi < qs.size(); qi++) flags[qi] = true;
        inside(arr, parr, flags);
        bool all = all_inside(arr, parr);
        bool any = any_inside(arr, parr);
        std::vector<bool> fl, efl;
        bool eall = true, eany = false;
        for (size_t k = 0; k < qs.size(); k++) {
            fl.push_back(flags[k]);
            bool c = false;
            for (auto P : polys) c = c || P->contain(arr[k]);
            efl.push_back(c);
            eall = eall && c;
            eany = eany || c;
        }
        out.I(id, bits(fl) + " " + (all ? "1" : "0") + " " + (any ? "1" : "0"));
        if (!ok) out.P(id, "FAIL harness-nonintegral-extrema");
        else if (fl != efl) out.P(id, "FAIL group-vs-single inside() flags differ from the disjunction of contain() over the group");
        else if (all != eall) out.P(id, "FAIL group-vs-single all_inside() differs from the conjunction of the per-point answers");
        else if (any != eany) out.P(id, "FAIL group-vs-single any_inside() differs from the disjunction of the per-point answers");
        else out.P(id, "ok");
        out.count("grp:polygons:" + std::to_string(polys.size()));
        out.count("grp:points:" + std::to_string(std::min<size_t>(qs.size(), 8)));
        out.count(std::string("grp:all:") + (all ? "true" : "false"));
        out.count(std::string("grp:any:") + (any ? "true" : "false"));
        free_allocation(flags);
        arr.clear();
        parr.clear();
        for (auto P : polys) {
            P->clear();
            free_allocation(P);
        }
    } else if (kind == "area" || kind == "perim") {
        Pts pts = parse_pts(sec[0]);
        std::string rep = sec.size() > 2 ? sec[2] : "n";
        PolySpec tmp = parse_poly(" / / " + rep);
        rep = tmp.rep;
        Polygon P = {};
        set_points(P, pts);
        set_repetition(P, rep);
        std::string copies = copies_of(P);
        std::string id = out.add(kind, fmt_pts(pts) + " | " + copies + " | " + rep);
        double cf = P.repetition.type == RepetitionType::None ? 1.0 : (double)P.repetition.get_count();
        size_t n = pts.size();
        if (kind == "area") {
            double sa = P.signed_area(), ar = P.area();
            // exact shoelace sum in integers
            __int128 sh = 0;
            for (size_t i = 0; i < n; i++) {
                size_t j = (i + 1) % n;
                sh += (__int128)pts[i].first * pts[j].second - (__int128)pts[i].second * pts[j].first;
            }
            if (n < 3) sh = 0;
            double sa2 = 2 * sa, ar2 = 2 * ar;
            if (!integral(sa2) || !integral(ar2)) {
                out.I(id, "nonintegral " + hex_dbl(sa) + " " + hex_dbl(ar));
                out.P(id, "FAIL area-vs-shoelace twice the area of an integer polygon is not an integer");
            } else {
                out.I(id, hex_i64((int64_t)sa2) + " " + hex_i64((int64_t)ar2));
                double ash = (double)(sh < 0 ? -sh : sh);
                bool good = (double)sh == sa2 && ar2 == ash * cf;
                out.P(id, good ? "ok" : "FAIL area-vs-shoelace signed_area/area differ from the shoelace sum (times copies)");
            }
        } else {
            double pe = P.perimeter();
            out.I(id, hex_dbl(pe));
            std::vector<std::pair<double, double>> dv;
            for (auto& q : pts) dv.push_back({(double)q.first, (double)q.second});
            out.P(id, perimeter_oracle(dv, pe, cf));
        }
        out.count(kind + ":vertices:" + std::to_string(std::min<size_t>(n, 12)));
        out.count(std::string("rep:") + rep.substr(0, 1));
        P.clear();
    } else if (kind == "perimb") {
        std::vector<std::string> t = toks(sec[0]);
        std::vector<std::pair<double, double>> dv;
        for (size_t i = 0; i + 1 < t.size(); i += 2)
            dv.push_back({bits_dbl(strtoull(t[i].c_str(), NULL, 16)), bits_dbl(strtoull(t[i + 1].c_str(), NULL, 16))});
        std::string rep = sec.size() > 2 ? sec[2] : "n";
        PolySpec tmp = parse_poly(" / / " + rep);
        rep = tmp.rep;
        Polygon P = {};
        for (auto& q : dv) P.point_array.append(Vec2{q.first, q.second});
        set_repetition(P, rep);
        std::string copies = copies_of(P);
        std::string pl;
        for (size_t i = 0; i < dv.size(); i++) pl += (i ? " " : "") + hex_dbl(dv[i].first) + " " + hex_dbl(dv[i].second);
        std::string id = out.add(kind, pl + " | " + copies + " | " + rep);
        double cf = P.repetition.type == RepetitionType::None ? 1.0 : (double)P.repetition.get_count();
        double pe = P.perimeter();
        out.I(id, hex_dbl(pe));
        out.P(id, perimeter_oracle(dv, pe, cf));
        // does the running vertex of the loop (v0 += v1) leave the stored vertices on this input?
        bool drift = false;
        if (dv.size() >= 3) {
            double vx = dv[0].first, vy = dv[0].second;
            for (size_t i = 1; i < dv.size(); i++) {
                volatile double dx = dv[i].first - vx, dy = dv[i].second - vy;
                volatile double nx = vx + dx, ny = vy + dy;
                vx = nx;
                vy = ny;
                if (vx != dv[i].first || vy != dv[i].second) drift = true;
            }
        }
        out.count(std::string("perimb:running-vertex:") + (drift ? "drifts" : "exact"));
        out.count("perimb:vertices:" + std::to_string(std::min<size_t>(dv.size(), 12)));
        out.count(std::string("perimb:copies:") + (copies == "-" ? "none" : P.repetition.get_count() >> 53 ? "above-2^53" : "small"));
        out.count(std::string("rep:") + rep.substr(0, 1));
        P.clear();
    } else {
        std::string id = out.add(kind, payload);
        out.I(id, "unknown-kind");
    }
}

// ---------------------------------------------------------------- generators
static int64_t gcd64(int64_t a, int64_t b) {
    a = a < 0 ? -a : a;
    b = b < 0 ? -b : b;
    while (b) {
        int64_t t = a % b;
        a = b;
        b = t;
    }
    return a;
}

// a vertex list with forced degeneracies; Y = an ordinate that many vertices share
static Pts gen_poly(Rng& g, size_t maxn, int64_t& Y, int64_t& R, int nradii = 9) {
    static const int64_t radii[] = {2, 3, 5, 8, 20, 100, 1000, 1 << 20, (1 << 24) - 1};
    R = radii[g.below((uint64_t)nradii)];
    bool even = g.coin();  // even coordinates: edge mid points are integers
    auto rc = [&]() -> int64_t {
        int64_t v = g.range(-R, R);
        if (even) v &= ~(int64_t)1;
        return v;
    };
    Y = rc();
    size_t n = (size_t)g.below(maxn + 1);
    if (g.chance(70) && n < 3) n = 3 + (size_t)g.below(maxn > 3 ? maxn - 2 : 1);
    Pts p;
    while (p.size() < n) {
        unsigned c = (unsigned)g.below(100);
        if (p.empty() || c < 40) {
            p.push_back({rc(), g.chance(25) ? Y : rc()});
        } else if (c < 50) {  // repeated vertex (previous or an earlier one)
            p.push_back(g.coin() ? p.back() : p[g.below(p.size())]);
        } else if (c < 65) {  // horizontal edge (often on the shared ordinate)
            int64_t y = g.chance(60) ? Y : p.back().second;
            if (g.coin() && p.size() < n) p.push_back({rc(), y});
            p.push_back({rc(), y});
        } else if (c < 75) {  // vertical edge
            p.push_back({p.back().first, rc()});
        } else if (c < 90 && p.size() >= 2) {  // collinear run: continue / reverse along the last direction
            int64_t dx = p.back().first - p[p.size() - 2].first, dy = p.back().second - p[p.size() - 2].second;
            int64_t gg = gcd64(dx, dy);
            if (gg > 1 && g.coin()) {
                dx /= gg;
                dy /= gg;
            }
            int64_t k = g.range(-3, 3);
            int64_t nx = p.back().first + k * dx, ny = p.back().second + k * dy;
            if (std::llabs(nx) > R || std::llabs(ny) > R) {
                nx = p.back().first;
                ny = p.back().second;
            }
            p.push_back({nx, ny});
        } else {  // vertex on the shared ordinate (the ray passes through a vertex)
            p.push_back({rc(), Y});
        }
    }
    if (p.size() > n) p.resize(n);
    if (n >= 2 && g.chance(10)) p.back() = p.front();  // explicit closing vertex
    return p;
}

static Pts gen_queries(Rng& g, const Pts& p, int64_t Y, int64_t R, size_t nq) {
    Pts q;
    size_t n = p.size();
    auto any = [&]() -> std::pair<int64_t, int64_t> { return {g.range(-R - 2, R + 2), g.range(-R - 2, R + 2)}; };
    while (q.size() < nq) {
        unsigned c = (unsigned)g.below(100);
        if (n == 0 || c < 15) {
            q.push_back(any());
        } else if (c < 25) {  // on a vertex
            q.push_back(p[g.below(n)]);
        } else if (c < 35) {  // just off a vertex
            auto v = p[g.below(n)];
            q.push_back({v.first + g.range(-1, 1), v.second + g.range(-1, 1)});
        } else if (c < 60) {  // lattice point of an edge (interior or end), or just off it
            size_t i = (size_t)g.below(n), j = (i + 1) % n;
            int64_t dx = p[j].first - p[i].first, dy = p[j].second - p[i].second;
            int64_t gg = gcd64(dx, dy);
            int64_t x = p[i].first, y = p[i].second;
            if (gg > 0) {
                int64_t t = g.range(0, gg);
                if (g.chance(15)) t = g.range(-2, gg + 2);  // on the supporting line beyond the ends
                x += t * (dx / gg);
                y += t * (dy / gg);
            }
            if (g.chance(40)) {
                if (g.coin()) x += g.coin() ? 1 : -1;
                else y += g.coin() ? 1 : -1;
            }
            q.push_back({x, y});
        } else if (c < 80) {  // on the ordinate of a vertex / the shared ordinate (ray through vertices)
            int64_t y = g.coin() ? Y : p[g.below(n)].second;
            int64_t x = g.chance(30) ? p[g.below(n)].first + g.range(-1, 1) : g.range(-R - 2, R + 2);
            q.push_back({x, y});
        } else if (c < 90) {  // same abscissa as a vertex
            q.push_back({p[g.below(n)].first, g.range(-R - 2, R + 2)});
        } else {  // outside the box: beyond each side
            int64_t far = R + 1 + (int64_t)g.below(5);
            switch (g.below(4)) {
                case 0: q.push_back({far, g.chance(50) ? Y : g.range(-R, R)}); break;
                case 1: q.push_back({-far, g.chance(50) ? Y : g.range(-R, R)}); break;
                case 2: q.push_back({g.range(-R, R), far}); break;
                default: q.push_back({g.range(-R, R), -far});
            }
        }
    }
    return q;
}

static std::string gen_rep(Rng& g) {
    auto sm = [&](int64_t lo, int64_t hi) { return hex_i64(g.range(lo, hi)); };
    switch (g.below(8)) {
        case 0:
        case 1: return "n";
        case 2: return "r " + sm(0, 4) + " " + sm(0, 4) + " " + sm(-9, 9) + " " + sm(-9, 9);
        case 3: return "g " + sm(0, 4) + " " + sm(0, 4) + " " + sm(-9, 9) + " " + sm(-9, 9) + " " + sm(-9, 9) + " " + sm(-9, 9);
        case 4: {
            std::string s = "e";
            for (uint64_t k = g.below(4); k > 0; k--) s += " " + sm(-9, 9) + " " + sm(-9, 9);
            return s;
        }
        case 5:
        case 6: {
            std::string s = g.coin() ? "x" : "y";
            for (uint64_t k = g.below(4); k > 0; k--) s += " " + sm(-9, 9);
            return s;
        }
        default: return "r " + sm(1, 3) + " " + sm(1, 3) + " " + sm(1, 9) + " " + sm(1, 9);
    }
}

// points biased so that "all inside" is sometimes true: vertices / edge points / interior points of
// the group's polygons, plus points that only the mistyped pre-filter comparison lets through
// (x inside the box, y above it)
static Pts gen_group_points(Rng& g, const std::vector<PolySpec>& ps, size_t nq, int64_t R) {
    Pts q;
    std::vector<const Pts*> ne;
    for (auto& s : ps)
        if (!s.pts.empty()) ne.push_back(&s.pts);
    int mode = (int)g.below(3);  // 0: mostly inside, 1: mixed, 2: anything
    while (q.size() < nq) {
        unsigned c = (unsigned)g.below(100);
        if (ne.empty() || (mode == 2 && c < 50) || (mode == 1 && c < 25)) {
            q.push_back({g.range(-R - 2, R + 2), g.range(-R - 2, R + 2)});
        } else if (mode != 0 && c >= 85) {
            const Pts& p = *ne[g.below(ne.size())];
            int64_t ymax = p[0].second;
            for (auto& v : p) ymax = std::max(ymax, v.second);
            q.push_back({p[g.below(p.size())].first, ymax + 1 + (int64_t)g.below(3)});
        } else {
            const Pts& p = *ne[g.below(ne.size())];
            size_t n = p.size(), i = (size_t)g.below(n), j = (i + 1) % n, k = (size_t)g.below(n);
            switch (g.below(3)) {
                case 0: q.push_back(p[i]); break;
                case 1: {
                    int64_t dx = p[j].first - p[i].first, dy = p[j].second - p[i].second, gg = gcd64(dx, dy);
                    int64_t t = gg ? g.range(0, gg) : 0;
                    q.push_back({p[i].first + (gg ? t * (dx / gg) : 0), p[i].second + (gg ? t * (dy / gg) : 0)});
                } break;
                default:  // centroid-ish point of three vertices
                    q.push_back({(p[i].first + p[j].first + p[k].first) / 3, (p[i].second + p[j].second + p[k].second) / 3});
            }
        }
    }
    return q;
}

// ---------------------------------------------------------------- perimeter on arbitrary finite doubles
static double gen_coord(Rng& g, int cls, double base) {
    switch (cls) {
        case 0: {  // dyadic grid: multiples of 2^-s up to 2^40 in magnitude, up to 60 significant bits before rounding
            int s = (int)g.below(21);
            int bitsn = 1 + (int)g.below((uint64_t)(40 + s));
            int64_t m = (int64_t)(g.next() >> (64 - bitsn));
            if (g.coin()) m = -m;
            return std::ldexp((double)m, -s);
        }
        case 1: {  // cluster next to a far base point: short edges far from the origin
            int s = (int)g.below(14);
            return base + std::ldexp((double)g.range(-4096, 4096), -s);
        }
        case 2: {  // mixed magnitudes: differences are not representable
            int e = (int)g.range(-20, 40);
            double m = 1.0 + std::ldexp((double)(g.next() >> 12), -52);
            return (g.coin() ? -m : m) * std::ldexp(1.0, e);
        }
        case 3: {  // few significant bits at any scale up to 2^40
            int e = (int)g.range(-20, 37);
            return std::ldexp((double)g.range(-7, 7), e);
        }
        default: {  // wide exponents (still far from overflow / underflow of the squares)
            int e = (int)g.range(-300, 300);
            double m = 1.0 + std::ldexp((double)(g.next() >> 12), -52);
            return (g.coin() ? -m : m) * std::ldexp(1.0, e);
        }
    }
}
static std::string gen_perimb(Rng& g) {
    size_t n = g.chance(10) ? (size_t)g.below(3) : 3 + (size_t)g.below(g.chance(10) ? 60 : 10);
    int cls = (int)g.below(100);
    cls = cls < 35 ? 0 : cls < 55 ? 1 : cls < 75 ? 2 : cls < 92 ? 3 : 4;
    double bx = std::ldexp((double)g.range(-1024, 1024), 30), by = std::ldexp((double)g.range(-1024, 1024), 30);
    std::vector<std::pair<double, double>> v;
    if (cls == 3 && g.chance(40) && n >= 3) {  // scaled Pythagorean triangle / rectangle walk: exact edge lengths
        static const int tri[][2] = {{3, 4}, {5, 12}, {8, 15}, {7, 24}, {20, 21}};
        int k = (int)g.below(5), e = (int)g.range(-20, 30);
        double a = std::ldexp((double)tri[k][0], e), b = std::ldexp((double)tri[k][1], e);
        double ox = std::ldexp((double)g.range(-9, 9), e), oy = std::ldexp((double)g.range(-9, 9), e);
        v = {{ox, oy}, {ox + a, oy}, {ox + a, oy + b}};
        if (g.coin()) v.push_back({ox, oy + b});
    } else {
        for (size_t i = 0; i < n; i++) {
            int c = cls;
            if (g.chance(8)) c = (int)g.below(4);  // an odd vertex of another class
            if (!v.empty() && g.chance(8)) v.push_back(g.coin() ? v.back() : v[g.below(v.size())]);
            else if (!v.empty() && g.chance(8)) v.push_back({v.back().first, gen_coord(g, c, by)});
            else v.push_back({gen_coord(g, c, bx), gen_coord(g, c, by)});
        }
    }
    std::string pl;
    for (size_t i = 0; i < v.size(); i++) pl += (i ? " " : "") + hex_dbl(v[i].first) + " " + hex_dbl(v[i].second);
    std::string rep;
    unsigned r = (unsigned)g.below(100);
    if (r < 30) rep = "n";
    else if (r < 60) rep = gen_rep(g);
    else if (r < 80) rep = "r " + hex_u64(1 + g.below(1000)) + " " + hex_u64(1 + g.below(1000)) + " 1 1";
    else {  // counts that (double) has to round: columns * rows up to 2^64 - 2^33 + 1
        uint64_t c = (g.next() >> 32) | 1, w = (g.next() >> 32) | (g.coin() ? 0x80000000ULL : 1);
        rep = "r " + hex_u64(c) + " " + hex_u64(w) + " 1 1";
    }
    return pl + " | - | " + rep;
}

static std::string poly_payload(const PolySpec& s) { return fmt_pts(s.pts) + " / / " + s.rep; }

int main(int argc, char** argv) {
    if (argc < 4) {
        fprintf(stderr, "usage: c14 seed tier outdir [corpus] [replay]\n");
        return 2;
    }
    uint64_t seed = strtoull(argv[1], NULL, 10);
    bool thorough = strcmp(argv[2], "thorough") == 0;
    set_error_logger(NULL);
    Out out;
    out.open(argv[3]);
    if (argc > 5) {
        std::string k, p;
        if (load_replay(argv[5], k, p)) run_case(out, k, p);
        out.close();
        return 0;
    }
    for (auto& c : load_corpus(argc > 4 ? argv[4] : NULL)) run_case(out, c.first, c.second);
    Rng g(seed);

    // (a) exhaustive: every vertex list of length 0..3 (thorough: 0..4) on the 4x4 grid
    //     (coordinates doubled: 0,2,4,6) x all 81 half-grid query points (-1..7)
    {
        int maxlen = thorough ? 4 : 3;
        for (int len = 0; len <= maxlen; len++) {
            long total = 1;
            for (int i = 0; i < len; i++) total *= 16;
            for (long code = 0; code < total; code++) {
                Pts p;
                long c = code;
                for (int i = 0; i < len; i++) {
                    p.push_back({2 * (c & 3), 2 * ((c >> 2) & 3)});
                    c >>= 4;
                }
                run_case(out, "pipg", fmt_pts(p));
            }
        }
    }

    // (b) random vertex lists up to 40 vertices with forced degeneracies
    long NB = thorough ? 60000 : 1500;
    for (long i = 0; i < NB; i++) {
        int64_t Y, R;
        Pts p = gen_poly(g, 40, Y, R);
        Pts q = gen_queries(g, p, Y, R, 8 + (size_t)g.below(40));
        run_case(out, "pip", fmt_pts(p) + " | " + fmt_pts(q));
    }

    // (c) group functions, contain_all / contain_any (incl. empty groups, empty polygons, empty point lists)
    long NC = thorough ? 60000 : 1500;
    for (long i = 0; i < NC; i++) {
        int64_t R = g.coin() ? 4 : 12;
        size_t np = 1 + (size_t)g.below(5);
        if (g.chance(6)) np = 0;  // empty group
        std::vector<PolySpec> ps;
        for (size_t k = 0; k < np; k++) {
            PolySpec s;
            size_t n = g.chance(12) ? (size_t)g.below(3) : 3 + (size_t)g.below(6);
            int64_t ox = g.range(-R, R), oy = g.range(-R, R);
            for (size_t v = 0; v < n; v++) s.pts.push_back({ox + g.range(-R, R), oy + g.range(-R, R)});
            if (n >= 4 && g.chance(30)) {  // axis-parallel rectangle: many points inside / on edges
                int64_t w = 1 + (int64_t)g.below((uint64_t)R), h = 1 + (int64_t)g.below((uint64_t)R);
                s.pts = {{ox, oy}, {ox + w, oy}, {ox + w, oy + h}, {ox, oy + h}};
            }
            s.rep = gen_rep(g);
            ps.push_back(s);
        }
        size_t nq = g.chance(10) ? 0 : 1 + (size_t)g.below(8);
        Pts q = gen_group_points(g, ps, nq, 2 * R);
        unsigned which = (unsigned)g.below(4);
        if (which < 2 || ps.empty()) {
            std::string s;
            for (size_t k = 0; k < ps.size(); k++) s += (k ? " ; " : "") + poly_payload(ps[k]);
            run_case(out, "grp", s + " | " + fmt_pts(q));
        } else {
            const PolySpec& s = ps[g.below(ps.size())];
            std::vector<PolySpec> one{s};
            if (g.coin()) q = gen_group_points(g, one, nq, 2 * R);
            run_case(out, which == 2 ? "call" : "cany", poly_payload(s) + " | " + fmt_pts(q));
        }
    }

    // (d) measures
    long ND = thorough ? 60000 : 1500;
    for (long i = 0; i < ND; i++) {
        int64_t Y, R;
        Pts p = gen_poly(g, 12, Y, R, 8);  // |c| <= 2^20: the fan sum stays exact in double
        if (g.chance(15)) p.resize(std::min<size_t>(p.size(), (size_t)g.below(3)));
        std::string rep = gen_rep(g);
        run_case(out, g.coin() ? "area" : "perim", fmt_pts(p) + " | - | " + rep);
    }

    // (e) perimeter on arbitrary finite doubles (bit patterns): dyadic fractions down to 2^-20, magnitudes up
    //     to 2^40, inexact differences (the running vertex drifts), counts above 2^53.  Own stream, so that
    //     the cases of (a)-(d) stay what they were.
    Rng g2(seed * 0x100000001B3ULL + 12345);
    long NE = thorough ? 60000 : 1500;
    for (long i = 0; i < NE; i++) run_case(out, "perimb", gen_perimb(g2));
    out.close();
    return 0;
}
